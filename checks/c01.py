"""C01 — no stuck output: once all keys are up, kanata releases everything and goes idle."""
import re
import gen
from checks.common import trace_has_output

DRAIN = 4000     # ticks after the last release: above every generated timeout/macro length


def ktoks(h):
    out = []
    for t in h:
        if t[0] == 'p':
            out.append('d' + t.split(',')[1])
        elif t[0] == 'r':
            out.append('u' + t.split(',')[1])
        else:
            out.append(t)
    return out


def gen_cases(rng, tier):
    cases = []
    n = 200 if tier == 'quick' else 6000
    for i in range(n):
        g = gen.CfgGen(rng, 'c01')
        cfg = g.gen()
        keys = gen.codes_of(g.src)
        hg = gen.HistGen(rng, keys, gen.gaps_for(g.timeouts) + [250])
        for j in range(2):
            h = ktoks(hg.consistent(rng.randint(2, 16)))
            cases.append({'id': 'c01-%d-%d' % (i, j), 'cfg': cfg, 'hist': h + ['t%d' % DRAIN, 'q', 't50'], 'sub': 'ksim',
                          'tags': {'mode': 'consistent'}})
    # overflow modes: bursts beyond the 32-slot queue, >64 states, >8 tap-holds, >16 one-shots, >4 macros
    src = gen.SRC_POOL + ['z', 'x', 'c', 'v', 'b', 'n', 'm', '1', '2', '3']
    codes = [gen.KEYCODES[k] for k in src]
    for i in range(70 if tier == 'quick' else 1400):
        kind = rng.choice(['burst', 'states', 'tapholds', 'oneshots', 'oneshots', 'macros', 'customs'])
        if kind == 'burst':
            acts = [rng.choice(['x', 'S-y', '(tap-hold 0 50 a lsft)', '(macro b 5 n)', 'mlft', '(layer-while-held l0)']) for _ in src]
        elif kind == 'states':
            acts = ['(multi a b c d e f g h)' if j % 2 == 0 else '(multi 1 2 3 4 5 6 7 8 mlft)' for j in range(len(src))]
        elif kind == 'tapholds':
            acts = ['(switch () (tap-hold 0 %d x lsft) fallthrough () (tap-hold 0 %d y lctl) break)' % (rng.choice([20, 100]), rng.choice([50, 200]))
                    if j % 3 == 0 else '(tap-hold 0 %d z lalt)' % rng.choice([20, 100]) for j in range(len(src))]
        elif kind == 'oneshots':
            variant = rng.choice(['one-shot', 'one-shot-release', 'one-shot-press-pcancel', 'one-shot-release-pcancel'])
            acts = ['(%s %d %s)' % (variant, rng.choice([300, 1000]), rng.choice(gen.MODS)) for _ in src[:-3]] + ['x', 'y', 'z']
        elif kind == 'macros':
            acts = ['(%s %s)' % (rng.choice(['macro', 'macro-release-cancel', 'macro-repeat']),
                                 rng.choice(['S-(100 a)', 'C-(30 b 30)', 'x 50 y', 'A-(z 200)', 'lsft 100 a'])) for _ in src]
        else:
            acts = [rng.choice(['mlft', 'mrgt', '(mwheel-up 20 120)', '(mwheel-left 20 120)', '(movemouse-up 5 1)', '(movemouse-left 5 1)',
                                '(multi mmid (mwheel-down 30 120))', '(unmod a)', '(unshift b)', '(caps-word 100)']) for _ in src]
        cfg = '(defsrc %s)\n(deflayer l0 %s)' % (' '.join(src), ' '.join(acts))
        h = []
        order = list(codes) if kind != 'oneshots' else list(codes[:-3])
        rng.shuffle(order)
        nhold = rng.randint(5, len(order)) if kind != 'oneshots' else rng.choice([8, 15, 16, 16, 17, 18])
        for k in order[:nhold]:
            h.append('d%d' % k)
            if kind != 'burst' or rng.random() < 0.2:
                h.append('t%d' % rng.choice([0, 1, 1, 2]))
        if kind == 'burst':
            for _ in range(rng.randint(10, 40)):
                k = rng.choice(order[nhold:] or order)
                h += ['d%d' % k, 'u%d' % k]
        h.append('t%d' % (rng.choice([1, 30, 300]) if kind != 'oneshots' else rng.choice([1, 2, 30])))
        rel = order[:nhold]
        rng.shuffle(rel)
        for k in rel:
            h.append('u%d' % k)
            if rng.random() < 0.5:
                h.append('t%d' % rng.choice([0, 1, 2]))
        if kind == 'oneshots':
            # after the held one-shot keys have been released, tap further one-shot keys (overflowing the 16-slot
            # rings), then end the one-shot with a plain key or let it expire
            for k in order[nhold:][:rng.randint(1, 4)] + rng.sample(order, 2):
                h += ['d%d' % k, 't1', 'u%d' % k, 't1']
            if rng.random() < 0.5:
                h += ['d%d' % codes[-1], 't2', 'u%d' % codes[-1]]
        cases.append({'id': 'c01-ovf-%d' % i, 'cfg': cfg, 'hist': h + ['t%d' % DRAIN, 'q', 't50'], 'sub': 'ksim', 'tags': {'mode': kind}})
    # an action that reaches rpt-any through a deferred sub-action of itself (known finding rpt-any-self-trigger)
    for i in range(6 if tier == 'quick' else 60):
        inner = rng.choice(['(tap-dance %d (rpt-any))' % rng.choice([1, 2, 50]), '(tap-dance %d (rpt-any x))' % rng.choice([1, 20]),
                            '(tap-hold 0 %d rpt-any y)' % rng.choice([5, 50])])
        act = '(multi %s %s)' % (inner, rng.choice(['x', '(release-key x)', 'lsft']))
        cfg = '(defsrc a s d)\n(deflayer l0 %s y (one-shot 50 ralt))' % act
        h = rng.choice([['d30', 't3', 'u30'], ['d32', 't1', 'd30', 't20', 'u30', 't5', 'u32'], ['d30', 't1', 'u30', 't30', 'd31', 't5', 'u31']])
        cases.append({'id': 'c01-rptself-%d' % i, 'cfg': cfg, 'hist': h + ['t%d' % DRAIN, 'q', 't50'], 'sub': 'ksim', 'tags': {'mode': 'rpt-any-self-trigger'}})
    # a cancellable macro that contains items with a press and a release of their own (mouse buttons, unmod, wheel), cancelled at every
    # millisecond of its first steps, by the release of its key or by the press of another key: whatever it pressed is let go
    MVAR = ['macro-release-cancel', 'macro-cancel-on-press', 'macro-release-cancel-and-cancel-on-press', 'macro-repeat-release-cancel']
    MBODY = ['mlft 100 z', 'x mrgt 50 y', '(unmod a) 20 mmid 20 b', 'S-x (mwheel-up 20 120) 30 c']
    mi = 0
    for var in MVAR:
        for body in (MBODY if tier != 'quick' else MBODY[:3]):
            for off in range(0, 9):
                for how in ('release', 'other-press'):
                    cfg = '(defsrc a s)\n(deflayer l0 (%s %s) n)' % (var, body)
                    h = ['t3', 'd30', 't%d' % off] + (['u30', 't8', 'd31', 't3', 'u31'] if how == 'release' else ['d31', 't4', 'u31', 't3', 'u30'])
                    cases.append({'id': 'c01-mcancel-%d' % mi, 'cfg': cfg, 'hist': h + ['t%d' % DRAIN, 'q', 't50'], 'sub': 'ksim',
                                  'tags': {'mode': 'macro-cancel', 'cancel_by': how, 'offset': off}})
                    mi += 1
    # one key carrying two custom actions (multi merges them into one list; their releases are handled by one fold): every ordered
    # pair out of the press/release custom actions, pressed and released alone
    CUST = ['mlft', 'mrgt', 'mmid', '(movemouse-speed 50)', '(mwheel-up 20 120)', '(mwheel-left 20 120)', '(movemouse-up 5 1)',
            '(movemouse-left 5 1)', '(movemouse-accel-down 5 100 1 5)', '(unmod a)', '(unshift b)', '(caps-word 100)', '(on-press tap-vkey v0)',
            '(on-release tap-vkey v0)', '(layer-while-held l0)', 'x', 'lsft', '(unicode r)', '(push-msg hi)', '(sequence 50)']
    pairs = [(a, b) for a in CUST for b in CUST if a != b]
    rng.shuffle(pairs)
    # (a mouse button followed by each other action always: its unclick is what the fold has to carry to the end)
    first = [(a, b) for a in CUST[:3] for b in CUST if a != b]
    pairs = first + [p for p in pairs if p not in first]
    for i, (a, b) in enumerate(pairs[:(len(first) + 30 if tier == 'quick' else len(pairs))]):
        cfg = '(defsrc a s)\n(deflayer l0 (multi %s %s) y)\n(defvirtualkeys v0 z)' % (a, b)
        h = ['t3', 'd30', 't%d' % rng.choice([2, 40]), 'u30', 't5', 'd31', 't3', 'u31']
        cases.append({'id': 'c01-pair-%d' % i, 'cfg': cfg, 'hist': h + ['t%d' % DRAIN, 'q', 't50'], 'sub': 'ksim', 'tags': {'mode': 'custom-pair'}})
    # virtual keys carrying each kind of action, operated by press / release / tap / toggle (balanced): a toggled-off key is off
    VACT = ['x', 'lsft', '(macro-repeat x 20)', '(macro-repeat-release-cancel y 20)', '(macro z 5 b)', '(layer-while-held l0)', 'mlft',
            '(multi lctl (macro-repeat x 30))', '(one-shot 100 lalt)', '(tap-hold 0 50 x y)', '(mwheel-up 20 120)', 'S-x']
    # (every kind x every way of operating it, not a random draw: a seeded change on one kind was caught or not depending on the seed)
    combos = [(va, op) for va in VACT for op in ('toggle', 'press-release', 'tap')] * (1 if tier == 'quick' else 22)
    for i, (va, op) in enumerate(combos):
        acts = {'toggle': ['(on-press toggle-vkey v0)', '(on-press toggle-vkey v0)'],
                'press-release': ['(on-press press-vkey v0)', '(on-press release-vkey v0)'],
                'tap': ['(on-press tap-vkey v0)', '(on-release tap-vkey v0)']}[op]
        cfg = '(defsrc a s d)\n(deflayer l0 %s %s n)\n(defvirtualkeys v0 %s)' % (acts[0], acts[1], va)
        h = ['t3']
        for _ in range(rng.randint(1, 3)):       # on ... off, each time
            h += ['d30', 't2', 'u30', 't%d' % rng.choice([5, 50, 200]), 'd31', 't2', 'u31', 't%d' % rng.choice([5, 100])]
        cases.append({'id': 'c01-vkey-%d' % i, 'cfg': cfg, 'hist': h + ['t%d' % DRAIN, 'q', 't50'], 'sub': 'ksim', 'tags': {'mode': 'vkey-' + op}})
    # chords v2 (random typing over overlapping chords, min-idle windows, tap-hold / one-shot base keys) and zippychord:
    # the generators of C09 / C20, here followed by the long quiet tail and judged by the end-state oracle
    from checks import c09, c20
    for i in range(160 if tier == 'quick' else 5000):
        c = c09.v2_random_case(rng, i)
        assert c['hist'][-2:] == ['t300', 'q']
        cases.append({'id': 'c01-v2-%d' % i, 'cfg': c['cfg'], 'hist': c['hist'][:-2] + ['t%d' % DRAIN, 'q', 't50'], 'sub': 'ksim',
                      'tags': {'mode': 'chords-v2'}})
    for i in range(16 if tier == 'quick' else 400):
        c = c09.v2_two_chords_case(rng, i)
        cases.append({'id': 'c01-v2two-%d' % i, 'cfg': c['cfg'], 'hist': c['hist'][:-2] + ['t%d' % DRAIN, 'q', 't50'], 'sub': 'ksim',
                      'tags': {'mode': 'chords-v2-two-held'}})
    for i in range(40 if tier == 'quick' else 1000):
        c = c20.make_case(rng, i, tier)
        assert c['hist'][-1] == 'q'
        cases.append({'id': 'c01-zippy-%d' % i, 'cfg': c['cfg'], 'files': c['files'], 'hist': c['hist'][:-1] + ['t%d' % DRAIN, 'q', 't50'],
                      'sub': 'ksim', 'tags': {'mode': 'zippychord'}})
    # the processing loop may only sleep when nothing is pending: macros that END in custom actions (mouse buttons, a key after
    # them or not), run once ticking every millisecond and once blocking whenever kanata says it may; the button must come up alike
    from checks.common import loop_pairs
    lp = []
    tails = ['mlft mrgt', 'mlft mlft', 'S-b 20 mmid mlft', 'a mlft mmid mrgt', 'mlft', 'mlft 30 mrgt', 'b mrgt', 'mlft mrgt 5', '(unmod a) mlft mrgt']
    for j, tl in enumerate(tails):
        for rel in (2, 40):
            cfg = '(defsrc a s d)\n(deflayer l0 (macro %s) (macro-release-cancel %s) c)' % (tl, tl)
            lp.append({'id': 'c01-loopm-%d-%d' % (j, rel), 'cfg': cfg, 'sub': 'ksim', 'tags': {'mode': 'loop-pair-macro-ends-in-custom-actions'},
                       'hist': ['t3', 'd30', 't%d' % rel, 'u30', 't150', 'd31', 't60', 'u31', 't150']})
    cases += loop_pairs(lp)
    return cases


def post(all_results, run_impl, rng, tier, stats):
    from checks.common import loop_pair_violations
    v = loop_pair_violations(all_results)
    stats['loop_pairs'] = sum(1 for c, it, mt in all_results if c.get('loop_mode') == '1')
    return v


def oracle(case, it):
    if not it or it[0].startswith('PARSE'):
        return None
    if any(l.startswith(('PANIC', 'ABORT', 'HANG')) for l in it):
        return None      # crashes are C02's business
    end = [l for l in it if l.startswith('END ')]
    if not end:
        return None
    e = end[0]
    m = re.search(r'tick=(\d+) down=\[([^\]]*)\] nstates=(\d+) layer=(\d+) idle=(\d) scroll=(\d) move=(\d)', e)
    total = int(m.group(1))
    # OS-level bookkeeping from the trace: keys and buttons down
    down, btn = [], []
    last_ev = 0
    for l in it:
        mm = re.match(r'@(\d+)\+? (.*)', l)
        if not mm:
            continue
        last_ev = int(mm.group(1))
        for ev in mm.group(2).split():
            k = re.fullmatch(r'([du])(\d+)', ev)
            if k:
                c = int(k.group(2))
                if k.group(1) == 'd' and c not in down:
                    down.append(c)
                elif k.group(1) == 'u' and c in down:
                    down.remove(c)
            b = re.fullmatch(r'b([du])(\d)', ev)
            if b:
                if b.group(1) == 'd' and b.group(2) not in btn:
                    btn.append(b.group(2))
                elif b.group(1) == 'u' and b.group(2) in btn:
                    btn.remove(b.group(2))
    if down:
        return 'keys still pressed at the OS %d ms after the last release: %s' % (DRAIN, down)
    if btn:
        return 'mouse button(s) %s still pressed at the OS %d ms after the last release' % (btn, DRAIN)
    if m.group(6) != '0' or m.group(7) != '0':
        return 'continuous mouse/scroll output still running %d ms after the last release' % DRAIN
    if last_ev > total - 50:
        return 'still emitting output %d ms after the last release (event at tick %d)' % (DRAIN, last_ev)
    if m.group(5) != '1':
        if ' rec=1' in e and 'replay-delay-behaviour constant' not in case['cfg']:
            return None    # an open recording whose delays will be used: the ticks between events must keep running
        return 'kanata does not report idle %d ms after the last release' % DRAIN
    return None


SPEC = {
    'id': 'C01', 'sub': 'ksim', 'gen_cases': gen_cases, 'nontrivial': trace_has_output, 'oracle': oracle, 'post': post,
    'rule': 'random configs over the whole action grammar (virtual keys only with balanced operations) x consistent histories in which every '
            'pressed key is released, followed by %d quiet ticks; overflow modes: bursts beyond the 32-slot queue, >64 states, >8 tap-holds, '
            '>16 one-shots, >4 concurrent macros, mouse/scroll custom actions; ordered pairs of custom actions on one key; virtual keys of every action kind switched on and off by toggle / press+release / tap; chords v2 under random typing (min-idle windows), zippychord scenarios; non-trivial = output produced' % DRAIN,
    'explanation': 'the kanata-level model is compared event by event; the oracle replays the real output and requires: nothing down, no '
                   'button down, no scroll/move state, silence in the tail, is_idle() true',
}
