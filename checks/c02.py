"""C02 — an accepted configuration never crashes or hangs event processing."""
import re
import gen
from checks.common import trace_has_output


def gen_cases(rng, tier):
    cases = []
    n = 200 if tier == 'quick' else 6000
    allcodes = list(range(1, 767))
    for i in range(n):
        g = gen.CfgGen(rng, 'all')
        cfg = g.gen()
        keys = gen.codes_of(g.src)
        gaps = gen.gaps_for(g.timeouts)
        for j in range(2):
            h = []
            mode = rng.choice(['hostile', 'flood', 'consistent', 'anycode'])
            if mode == 'consistent':
                for t in gen.HistGen(rng, keys, gaps).consistent(rng.randint(3, 14)):
                    h.append(('d' + t.split(',')[1]) if t[0] == 'p' else ('u' + t.split(',')[1]) if t[0] == 'r' else t)
            else:
                pool = keys + [25, 24] if mode != 'anycode' else keys + rng.sample(allcodes, 6)
                for _ in range(rng.randint(10, 200 if mode == 'flood' else 50)):
                    k = rng.choice(pool)
                    h.append(rng.choice(['d', 'd', 'u', 'u', 'r', 'T']) + str(k))
                    if mode != 'flood' and rng.random() < 0.5:
                        h.append('t%d' % rng.choice(gaps + [1, 1, 2]))
            h += ['t%d' % rng.choice([5, 300, 70000 if rng.random() < 0.05 else 700]), 'q']
            cases.append({'id': 'c02-%d-%d' % (i, j), 'cfg': cfg, 'hist': h, 'sub': 'ksim', 'tags': {'mode': mode}})
    # boundary numeric values and deep nesting in every context
    bounds = [0, 1, 65535]
    ctx = ['{A}', '(multi {A} x)', '(tap-hold 0 50 {A} y)', '(tap-hold 0 50 y {A})', '(tap-dance 50 ({A} y))', '(tap-dance-eager 50 (y {A}))',
           '(fork {A} y (lsft))', '(fork y {A} (lsft))', '(switch () {A} break)', '(switch () y fallthrough () {A} break)', '(one-shot 50 lsft)']
    atoms = ['(tap-hold {N} {N} x y)', '(tap-hold-release-timeout {N} {N} x y z)', '(one-shot {N} lsft)', '(tap-dance {N} (x y))',
             '(macro x {N} y)', '(mwheel-up {N} {N})', '(movemouse-up {N} {N})', '(movemouse-accel-up {N} {N} {N} {N})', '(caps-word {N})',
             '(hold-for-duration {N} v0)', '(on-idle {N} tap-vkey v0)', '(one-shot-pause-processing {N})', '(dynamic-macro-record {N})',
             '(dynamic-macro-play {N})', '(dynamic-macro-record-stop-truncate {N})', '(arbitrary-code {N})', '(switch ((key-timing 1 lt {N})) x break)',
             '(sequence {N})', '(macro-cancel-on-press x {N} y)', 'rpt-any', 'rpt', 'use-defsrc', '(release-layer l0)', '(layer-switch l0)']
    k = 0
    for a in atoms:
        for c in ctx:
            for _ in range(1 if tier == 'quick' else 4):
                act = c.replace('{A}', a)
                while '{N}' in act:
                    act = act.replace('{N}', str(rng.choice(bounds + [2, 50])), 1)
                cfg = '(defsrc a s d)\n(deflayer l0 %s %s x)\n(defvirtualkeys v0 %s)\n(defchords g 50 (c0) %s (c1) y (c0 c1) z)' % (
                    act, '(chord g c0)', act if 'v0' not in act and 'chord' not in act else 'x', act if 'chord' not in act else 'x')
                cfg = cfg.replace('(deflayer l0 %s (chord g c0) x)' % act, '(deflayer l0 %s (chord g c0) (chord g c1))' % act)
                h = []
                for _ in range(rng.randint(6, 30)):
                    h.append(rng.choice(['d', 'd', 'u', 'r']) + str(rng.choice([30, 31, 32])))
                    if rng.random() < 0.6:
                        h.append('t%d' % rng.choice([0, 1, 2, 49, 50, 51, 300]))
                h += ['t700', 'v%s,1,0' % rng.choice('prtg'), 't100', 'q']
                cases.append({'id': 'c02-bnd-%d' % k, 'cfg': cfg, 'hist': h, 'sub': 'ksim', 'tags': {'mode': 'boundary'}})
                k += 1
    # numeric defcfg options at the ends of their range, with the feature they govern in use
    OPT = [('dynamic-macro-max-presses', ['0', '1', '32767', '32768', '40000', '65535']), ('sequence-timeout', ['0', '1', '65535']),
           ('rapid-event-delay', ['0', '1', '65535']), ('chords-v2-min-idle', ['0', '1', '4', '5', '65535']),
           ('dynamic-macro-replay-delay-behaviour', ['constant', 'recorded'])]
    k = 0
    for name, vals in OPT:
        for v in vals:
            for _ in range(2 if tier == 'quick' else 20):
                cfg = ('(defcfg %s %s concurrent-tap-hold yes)\n(defsrc a s d f g h j)\n(deflayer l0 x (one-shot 50 lsft) (dynamic-macro-record 1) dynamic-macro-record-stop '
                       '(dynamic-macro-play 1) sldr (tap-hold 0 30 y lctl))\n(defvirtualkeys v0 z)\n(defseq v0 (x y))\n(defchordsv2 (a s) c 50 all-released ())' % (name, v))
                h = ['t3', 'd32', 't2', 'u32', 't2']
                for _ in range(rng.randint(3, 10)):
                    kk = rng.choice([30, 31, 36, 35])
                    h += ['d%d' % kk, 't%d' % rng.choice([0, 1, 5, 40]), 'u%d' % kk, 't%d' % rng.choice([0, 2, 30])]
                h += ['d33', 't2', 'u33', 't5', 'd34', 't2', 'u34', 't400', 'q']
                cases.append({'id': 'c02-opt-%d' % k, 'cfg': cfg, 'hist': h, 'sub': 'ksim', 'tags': {'mode': 'option-limit', 'option': name}})
                k += 1
    # counters that only reach their limit after a long time or by accumulation: two positions carrying the same action with
    # 65535 in every numeric place, pressed one after the other and held for longer than 65535 ms (a pending decision hands its
    # age on to the next one), with and without concurrent tap-holds; a per-sequence counter fed its maximum repeatedly
    k = 0
    for a in atoms + ['(tap-hold-press {N} {N} x y)', '(tap-hold-release {N} {N} x y)', '(tap-hold-release-keys {N} {N} x y (d))',
                      '(tap-hold-except-keys {N} {N} x y (d))', '(tap-dance-eager {N} (x y))', '(macro-repeat x {N})', '(chord g c0)']:
        for conc in ('no', 'yes'):
            act = a.replace('{N}', '65535')
            cfg = ('(defcfg concurrent-tap-hold %s)\n(defsrc a s d)\n(deflayer l0 %s %s x)\n(defvirtualkeys v0 y)\n'
                   '(defchords g 65535 (c0) y (c1) z (c0 c1) (tap-hold 65535 65535 x y))' % (conc, act, act.replace('c0', 'c1')))
            h = ['t3', 'd30', 't10', 'd31', 't7', 'd32', 't66000', 'u32', 'u30', 'u31', 't700', 'q']
            cases.append({'id': 'c02-long-%d' % k, 'cfg': cfg, 'hist': h, 'sub': 'ksim', 'tags': {'mode': 'long-hold-at-limit'}})
            k += 1
    for n in (1, 65535):
        cfg = '(defsrc a s d)\n(deflayer l0 sldr (sequence-noerase %d) d)\n(defvirtualkeys v0 x)\n(defseq v0 (d d))' % n
        h = ['t3', 'd30', 't2', 'u30', 't2'] + ['d31', 't2', 'u31', 't2'] * 4 + ['d32', 't2', 'u32', 't2', 'd32', 't2', 'u32', 't50', 'q']
        cases.append({'id': 'c02-acc-%d' % n, 'cfg': cfg, 'hist': h, 'sub': 'ksim', 'tags': {'mode': 'accumulating-counter'}})
    # list-valued parameters with nothing in them (rejected, or safe to run)
    for j, a in enumerate(['(tap-dance 50 ())', '(tap-dance-eager 50 ())', '(multi)', '(macro)', '(fork x y ())', '(switch)', '(switch ())',
                           '(tap-hold-release-keys 0 50 x y ())', '(tap-hold-except-keys 0 50 x y ())', '(unmod)', '(macro C-())', '(one-shot 50 (multi))']):
        cfg = '(defsrc a s d)\n(deflayer l0 %s y x)' % a
        h = ['t3', 'd30', 't5', 'u30', 't5', 'd30', 't60', 'd31', 't5', 'u30', 'u31', 't100', 'q']
        cases.append({'id': 'c02-empty-%d' % j, 'cfg': cfg, 'hist': h, 'sub': 'ksim', 'tags': {'mode': 'empty-list'}})
    k = 0
    # chords v2 actions in every spelling the parser has for them, incl. the transparent key and its unicode aliases (rejected, or safe to run)
    for a in ['x', '_', '‗', '≝', '(multi ‗ c)', '(fork ≝ c (lsft))', '(multi _ c)', 'XX', '✗', '∅', '•', '(tap-hold 0 50 ‗ y)', 'use-defsrc', '(switch () ≝ break)',
              '(layer-while-held l0)', 'rpt', '(one-shot 50 _)', '(tap-dance 50 (_ x))', '(macro _ x)']:
        cfg = '(defcfg concurrent-tap-hold yes)\n(defsrc a s d)\n(deflayer l0 a s d)\n(defchordsv2 (a s) %s 50 all-released ())' % a
        h = ['t3', 'd30', 'd31', 't60', 'u30', 'u31', 't20', 'd32', 't3', 'u32', 't100', 'q']
        cases.append({'id': 'c02-chv2act-%d' % k, 'cfg': cfg, 'hist': h, 'sub': 'ksim', 'tags': {'mode': 'chords-v2-action'}})
        k += 1
    # live reload requested for a file number that does not exist (the parser accepts every number: it cannot know how many files
    # kanata is started with), with 1-3 files, through the processing loop's own time handling (rsim): an error, never a crash,
    # and the keyboard keeps working afterwards; lrld / lrld-next / lrld-prev after such a request too
    k = 0
    for nfiles in (1, 2, 3):
        for n in (nfiles + 1, nfiles + 2, 65535):
            for follow in ('lrld', 'lrld-next', 'lrld-prev'):
                cfg = '(defsrc a b f12 f11)\n(deflayer base a b (lrld-num %d) %s)' % (n, follow)
                files = {'p%d' % f: cfg for f in range(1, nfiles)}
                h = ['t3', 'd88', 't3', 'u88', 't40', 'd30', 't3', 'u30', 't1200', 'd87', 't3', 'u87', 't40', 'd48', 't3', 'u48', 't1200', 'q']
                cases.append({'id': 'c02-lrldnum-%d' % k, 'cfg': cfg, 'files': files, 'hist': h, 'sub': 'rsim', 'no_compare': True,
                              'tags': {'mode': 'reload-of-a-missing-file-number', 'files': nfiles}})
                k += 1
    return cases


def oracle(case, it):
    if not it:
        return 'no output from the implementation (process died?)'
    if it[0] == 'PARSE-PANIC':
        return None      # parser totality is C03
    for l in it:
        if l.startswith(('PANIC', 'ABORT', 'HANG')):
            return 'event processing crashed on an accepted configuration: ' + l[:160]
    return None


SPEC = {
    'id': 'C02', 'sub': 'ksim', 'gen_cases': gen_cases, 'nontrivial': trace_has_output, 'oracle': oracle,
    'rule': 'random configs over the whole grammar x hostile histories (repeated presses, releases of keys that are not down, OS repeats and tap '
            'events, floods of up to 200 events without ticks, arbitrary key codes 1..766) and boundary numeric values 0/1/65535 for every '
            'parameterised action in every context (layer, multi, tap-hold, tap-dance, fork, switch, virtual key, chord); a crash of the '
            'implementation process (panic / abort / hang) is the violation; non-trivial = output produced',
    'explanation': 'every panic site of the modelled code is an explicit Panic outcome of the Gallina model and recursion runs on fuel; the '
                   'correspondence compares crash-ness exactly (tick of the panic included)',
}
