"""C03 — configuration parsing is total.

Theorems (Props/C03.v) are about the s-expression layer model (Parser/Sexpr.v): the lexer terminates,
never trips a Position/Span assertion, only produces spans inside the text and on character
boundaries (so slicing and diagnostic rendering cannot panic), the list builder never reaches one of
its `expect`s, variable tables accepted by parse_vars resolve in bounded depth.
Correspondence (`sx`): model vs kanata_parser::cfg::sexpr on the same texts (trees with full
positions, metadata, error kind and span, Debug rendering, variable acceptance and resolution).
The layers above (the ~6k lines of item and action parsers) are not modelled: for them the check runs
the real parser under catch_unwind in a subprocess (`ptot`) over structure-aware and byte-level
mutants and reports any panic, abort (stack overflow), hang, out-of-file location or failing render.
That part is a search, not a proof, and is labelled so in the evidence."""
import random, re
import kvlib, cfgmut, gen

PID = 'C03'
INCLUDABLE = ('included-file.kbd', 'test.zch', 'included-good.kbd', 'included-bad.kbd', 'included-bad2.kbd',
              'utf8bom-included.kbd', 'chords.tsv')
ALPH = ['(', ')', '"', ';', ';;', '#|', '|#', 'r#"', '"#', '#', '|', 'r', '\n', ' ', '\t', '\r', '\x0c', 'a', 'bc', 'é', '🙂',
        '$a', '﻿', '\x00', 'defvar', 'q']


def sx_case(i, text, tag):
    return {'id': 'sx%d' % i, 'cfg': '', 'sub': 'sx', 'hist': ['X', cfgmut.hx(text)], 'text': text, 'tags': {'class': tag}}


def pt_case(i, text, files, tag, labels=()):
    h = ['X', cfgmut.hx(text)]
    for fn in INCLUDABLE:
        if fn in files:
            h += ['F', cfgmut.hx(fn), cfgmut.hx(files[fn])]
    return {'id': 'pt%d' % i, 'cfg': '', 'sub': 'ptot', 'hist': h, 'text': text, 'no_compare': True,
            'tags': {'class': tag, 'mutation': '+'.join(labels) or 'none'}}


def var_text(rng):
    names = ['a', 'b', 'c', 'd', 'e', 'é']

    def val(d=0):
        r = rng.random()
        if r < 0.45:
            return '$' + rng.choice(names)
        if r < 0.6:
            return rng.choice(['x', 'lctl', '"$a"', '$zz', '$', '1'])
        if d > 2:
            return 'y'
        return '(' + ' '.join([rng.choice(['k', 'multi', 'm'])] + [val(d + 1) for _ in range(rng.randint(0, 3))]) + ')'
    parts = []
    pool = names[:rng.randint(1, 6)]
    rng.shuffle(pool)
    if rng.random() < 0.15:
        pool.append(pool[0])
    split = rng.randint(0, len(pool))
    for grp in (pool[:split], pool[split:]):
        if grp:
            parts.append('(defvar ' + ' '.join('%s %s' % (n, val()) for n in grp) + ')')
    if rng.random() < 0.05:
        parts.append('(defvar a)')
    parts.append('(q ' + ' '.join(rng.choice(['$' + n for n in names] + ['x', '(l m)', '"$a"', '$zz']) for _ in range(6)) + ')')
    return '\n'.join(parts)


def gen_cases(rng, tier):
    n_sx, n_pt = (900, 1500) if tier == 'quick' else (12000, 60000)
    corp = cfgmut.corpus()
    texts = [t for _, t, _ in corp]
    cases = []
    k = 0
    # ---- s-expression layer
    for name, t, _ in corp:
        if tier != 'quick' or rng.random() < 0.35:
            cases.append(sx_case(k, t, 'corpus')); k += 1
    for _ in range(n_sx):
        r = rng.random()
        if r < 0.3:
            t = ''.join(rng.choice(ALPH) for _ in range(rng.randint(0, 24)))
            cases.append(sx_case(k, t, 'alphabet'))
        elif r < 0.55:
            cases.append(sx_case(k, var_text(rng), 'vars'))
        else:
            t = texts[rng.randrange(len(texts))]
            if len(t) > 6000:
                p = rng.randrange(len(t) - 3000)
                t = t[p:p + 3000]
            for _ in range(rng.choice([1, 1, 2])):
                t, _l = cfgmut.mutate(rng, t, texts)
            cases.append(sx_case(k, t, 'mutant'))
        k += 1
    # ---- whole parser: deterministic catalogue (every self-reference shape of every indirection mechanism, every
    # degenerate top-level item) on three bases, then the systematic per-construct enumeration
    bases = ['(defsrc a b)\n(deflayer base a b)\n',
             '(defcfg process-unmapped-keys yes)\n(defsrc a b c)\n(defvar v1 a)\n(defalias al1 (tap-hold 200 200 a b))\n'
             '(deflayer base @al1 $v1 c)\n(deflayer two _ _ _)\n']
    cat = list(cfgmut.TAILS) + cfgmut.selfref_catalogue()
    pk = 0
    for tl in cat:
        for bi, base in enumerate(bases):
            for pos in ('after', 'before'):
                t = (base + tl) if pos == 'after' else (tl + '\n' + base)
                c = pt_case(0, t, corp[0][2], 'catalogue', (pos,))
                c['id'] = 'ptc%d' % pk
                pk += 1
                cases.append(c)
    for lab, t in cfgmut.capacity_catalogue():
        c = pt_case(0, t, corp[0][2], 'capacity', (lab,))
        c['id'] = 'ptcap-%s' % lab
        cases.append(c)
    # layers (and every other top-level item) defined in an included file: longer than, as long as and shorter than the
    # including file, with multi-byte text and a byte-order mark on either side (spans are offsets into the file they belong to)
    pad = ';; ' + 'é🙂' * 40 + '\n'
    inc_layers = ['(deflayer base a b)\n', pad + '(deflayer base a b)\n(deflayer é🙂 _ b)\n' + pad,
                  pad * 3 + '(deflayermap (base) a b)\n(deflayer two _ _)', '(defalias x a)\n' + pad + '(deflayer base @x b) ;; é',
                  '(deflayer base a b)(deflayermap (m🙂) a b)']
    mains = ['(defsrc a b)(include included-file.kbd)', '(include included-file.kbd)\n(defsrc a b)\n',
             ';; é🙂é\n(defsrc a b)\n(include included-file.kbd)\n' + pad,
             '(defsrc a b)\n(deflayer zero b a)\n(include included-file.kbd)\n;;é']
    ik = 0
    for inc in inc_layers:
        for m in mains:
            for bom_m in ('', '\ufeff'):
                for bom_i in ('', '\ufeff'):
                    c = pt_case(0, bom_m + m, {'included-file.kbd': bom_i + inc}, 'include-layers',
                                ('bom' if bom_m else 'plain', 'incbom' if bom_i else 'incplain'))
                    c['id'] = 'ptinc%d' % ik
                    ik += 1
                    cases.append(c)
    cons = cfgmut.constructs()
    if tier == 'quick':
        # rotate through the constructs: a third of them per seed residue, all of them in the thorough tier
        pass
    for (head, cls, ci, s, e) in cons:
        for (t, lab, files) in cfgmut.construct_variants(ci, s, e, deep=True):
            c = pt_case(0, t, files, 'construct', (lab,))
            c['id'] = 'ptk%d' % pk
            c['tags']['head'] = head if len(head) < 24 else head[:24]
            pk += 1
            cases.append(c)
    # ---- whole parser: random mutants
    accepted_like = [c for c in corp]
    for i in range(n_pt):
        r = rng.random()
        labels = []
        if r < 0.2:
            try:
                t = gen.CfgGen(rng, 'all').gen()
            except Exception:
                t = texts[rng.randrange(len(texts))]
            files = {}
            tag = 'generated'
        else:
            name, t, files = accepted_like[rng.randrange(len(accepted_like))]
            tag = 'corpus'
        for _ in range(rng.choice([0, 1, 1, 1, 1, 2, 2, 3]) if i >= len(corp) else 0):
            t, l = cfgmut.mutate(rng, t, texts)
            labels.append(l)
        if i < len(corp):
            name, t, files = corp[i]
        cases.append(pt_case(i, t, files, tag, labels))
    return cases


def _spans_ok(text, line):
    """error / token spans lie inside the (BOM-stripped) text and on character boundaries"""
    b = text.encode()
    if b.startswith(b'\xef\xbb\xbf'):
        b = b[3:]
    for m in re.finditer(r'\[(\d+)\.\d+\.\d+-(\d+)\.\d+\.\d+\]', line):
        s, e = int(m.group(1)), int(m.group(2))
        if not (s <= e <= len(b)):
            return 'span [%d,%d) outside the text of %d bytes' % (s, e, len(b))
        for x in (s, e):
            if x < len(b) and 0x80 <= b[x] <= 0xBF:
                return 'span boundary %d is inside a multi-byte character' % x
    return None


def oracle(c, it):
    if it is None:
        return 'no output from the implementation'
    for l in it:
        if l.startswith(('PANIC', 'ABORT', 'HANG')):
            return 'loading/rendering crashed: ' + l[:160]
        if 'OUTSIDE' in l:
            return 'diagnostic location outside the file it names: ' + l[:160]
        if c['sub'] == 'sx' and l.startswith(('P1 ERR', 'P0 ERR')):
            r = _spans_ok(c['text'], l)
            if r:
                return r
    return None


def compare(it, mt):
    a, b = kvlib.canon_trace(it), kvlib.canon_trace(mt)
    if mt is not None and any(l == 'V OTHER' for l in mt):
        a = [l for l in a if not l.startswith(('V ', 'Q '))]
        b = [l for l in b if not l.startswith(('V ', 'Q '))]
    return a == b


def shrink_oracle(c, it, why):
    """Greedy text reduction: drop sub-expressions / lines while the implementation still fails the oracle."""
    import time
    t0 = time.time()
    text = c['text']
    files = {}
    h = c['hist']
    rest = h[2:]

    def fails(txts):
        cs = [dict(c, id='s%d' % i, hist=['X', cfgmut.hx(t)] + rest, text=t) for i, t in enumerate(txts)]
        r = kvlib.run_both(c['sub'], cs, 'shrink-c03', shards=min(16, len(cs)), timeout=60)
        for i, t in enumerate(txts):
            tr = r['s%d' % i][0]
            if oracle(cs[i], tr):
                return t, tr
        return None
    cur, cur_tr = text, it
    while time.time() - t0 < 90:
        b = cur.encode()
        atoms, lists = cfgmut.subexprs(b)
        cands = []
        for s, e, _ in sorted(lists, key=lambda x: x[0] - x[1])[:24] + atoms[:8]:
            try:
                cands.append((b[:s] + b[e:]).decode())
            except UnicodeDecodeError:
                pass
        ls = cur.split('\n')
        if len(ls) > 1:
            half = len(ls) // 2
            cands += ['\n'.join(ls[:half]), '\n'.join(ls[half:])]
        cands = [x for x in cands if len(x) < len(cur)]
        if not cands:
            break
        r = fails(cands)
        if not r:
            break
        cur, cur_tr = r
    return dict(c, hist=['X', cfgmut.hx(cur)] + rest, text=cur), cur_tr


def nontrivial(c, it):
    return bool(it) and (any(l.startswith(('P1 OK', 'ACCEPTED')) for l in it) or any('REJECTED' in l or 'ERR' in l for l in it))


SPEC = {
    'id': PID,
    'sub': 'sx',
    'gen_cases': gen_cases,
    'oracle': oracle,
    'compare': compare,
    'shrink_oracle': shrink_oracle,
    'timeouts': {'ptot': 1500, 'sx': 600},   # hangs are detected per case by the harness watchdog (20 s), not by this batch limit
    'nontrivial': nontrivial,
    'rule': 'theorems: the s-expression layer model is total (no panic site reachable, fuel suffices), spans are inside the text '
            'and char-aligned, accepted variable tables resolve within |vars| hops; correspondence: model == kanata_parser::cfg::sexpr '
            'on every text (trees, positions, metadata, errors, Debug rendering, defvar acceptance and resolution); '
            'oracle over the whole parser (search, not proof): new_from_str + rendering never panics/aborts/hangs and a location lies inside its file',
    'explanation': 'Model covers parser/src/cfg/sexpr.rs and the self-reference rejection in parse_vars. The item and action parsers above it are '
                   'exercised on the real code only (mutants of every shipped, documented and test-embedded configuration, plus generated ones).',
    'trusted_extra': ['C03: the totality of the parser layers above the s-expression layer is searched (subprocess, catch_unwind), not proved'],
}
