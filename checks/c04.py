"""C04 — layered remapping fidelity."""
import re
from checks.common import lsim_cases, trace_has_output
import gen


def gen_cases(rng, tier):
    n = 120 if tier == 'quick' else 3000
    cases = lsim_cases(rng, 'c04', n, 3, modes=('consistent',), nev=(2, 16))
    # bursts up to (and beyond) the 32-slot queue without ticks in between
    for i in range(20 if tier == 'quick' else 300):
        g = gen.CfgGen(rng, 'c04')
        cfg = g.gen()
        keys = gen.codes_of(g.src)
        h = []
        for _ in range(rng.randint(20, 40)):
            k = rng.choice(keys)
            h += ['p0,%d' % k, 'r0,%d' % k]
        h.append('t120')
        cases.append({'id': 'c04-burst-%d' % i, 'cfg': cfg, 'hist': h, 'sub': 'lsim', 'tags': {'mode': 'burst'}})
    return cases


SPEC = {
    'id': 'C04',
    'sub': 'lsim',
    'gen_cases': gen_cases,
    'nontrivial': trace_has_output,
    'rule': 'random configs of the C04 fragment (1-4 layers, 2-6 keys, all option combinations) x consistent histories with gaps '
            '{0,1,2,7} plus no-tick bursts around the 32-slot queue; non-trivial = distinct (config, implementation trace) with at least one key-state change',
    'explanation': 'theorems on the Gallina layout model (FIFO below 32, release removes exactly the coordinate, first-non-transparent '
                   'resolution, search order); model tied to keyberon::Layout by differential execution on the parsed configuration',
}
