"""C04 — layered remapping fidelity."""
import re
from checks.common import lsim_cases, trace_has_output
import gen


def gen_cases(rng, tier):
    n = 120 if tier == 'quick' else 3000
    cases = lsim_cases(rng, 'c04', n, 3, modes=('consistent',), nev=(2, 16))
    # bursts up to (and beyond) the 32-slot queue without ticks in between
    for i in range(20 if tier == 'quick' else 300):
        g = gen.CfgGen(rng, 'c04')
        cfg = g.gen()
        keys = gen.codes_of(g.src)
        h = []
        for _ in range(rng.randint(20, 40)):
            k = rng.choice(keys)
            h += ['p0,%d' % k, 'r0,%d' % k]
        h.append('t120')
        cases.append({'id': 'c04-burst-%d' % i, 'cfg': cfg, 'hist': h, 'sub': 'lsim', 'tags': {'mode': 'burst'}})
    # keys outside defsrc under every combination of process-unmapped-keys / block-unmapped-keys / delegate-to-first-layer /
    # transparent-key-resolution, in every layer state the history reaches (the parser's fill of the never-assigned cells)
    OUT = 183   # f13: not in any defsrc, not an output of any generated action
    for i in range(160 if tier == 'quick' else 4000):
        blk = rng.choice(['yes', 'no'])
        opts = {'process-unmapped-keys': 'yes', 'block-unmapped-keys': blk,
                'delegate-to-first-layer': rng.choice(['yes', 'no']),
                'transparent-key-resolution': rng.choice(['to-base-layer', 'layer-stack'])}
        g = gen.CfgGen(rng, 'c04', nlayers=rng.choice([2, 3, 4]), opts=opts)
        cfg = g.gen()
        # make sure layers can be switched as well as held
        ln = rng.choice(g.layer_names[1:])
        cfg = cfg.replace('(deflayer l0 ', '(deflayer l0 (layer-switch %s) ' % ln, 1).replace('(defsrc ', '(defsrc f14 ', 1)
        for other in g.layer_names[1:]:
            cfg = cfg.replace('(deflayer %s ' % other, '(deflayer %s %s ' % (other, rng.choice(['_', '(layer-switch l0)', 'XX'])), 1)
        keys = gen.codes_of(g.src) + [184]
        h = []
        down = []
        for _ in range(rng.randint(4, 14)):
            r = rng.random()
            if r < 0.35:
                h += ['d%d' % OUT, 't%d' % rng.choice([1, 3, 8]), 'u%d' % OUT]
            elif down and r < 0.6:
                h.append('u%d' % down.pop(rng.randrange(len(down))))
            else:
                k = rng.choice(keys)
                if k not in down:
                    down.append(k); h.append('d%d' % k)
            h.append('t%d' % rng.choice([1, 2, 7]))
        h += ['u%d' % k for k in down] + ['t50', 'q']
        cases.append({'id': 'c04-unmapped-%d' % i, 'cfg': cfg, 'hist': h, 'sub': 'ksim', 'blocked': blk == 'yes', 'out': OUT,
                      'tags': {'mode': 'unmapped-key', 'block': blk}})
    return cases + file_loader_pairs(rng, tier)


def oracle(c, it):
    """a key outside defsrc: blocked => never reaches the OS; not blocked => passes through unchanged, whatever the layers are"""
    if 'out' not in c or not it or it[0].startswith('PARSE-'):
        return None
    o = c['out']
    evs = [e for l in it if l.startswith('@') for e in l.split(' ')[1:] if e in ('d%d' % o, 'u%d' % o)]
    n_press = sum(1 for t in c['hist'] if t == 'd%d' % o)
    if c['blocked']:
        if evs:
            return 'block-unmapped-keys yes, but the unmapped key reached the OS: %s' % ' '.join(evs[:6])
    else:
        if evs != ['d%d' % o, 'u%d' % o] * n_press:
            return 'the unmapped key was pressed/released %d times but the OS saw: %s' % (n_press, ' '.join(evs[:10]))
    return None


def file_loader_pairs(rng, tier):
    """the same configuration loaded from a string (ksim: new_from_str, as every simulation here) and from a file (rsim: Kanata::new,
    what the program and live reload do): the layer search must be the same - transparent keys under two held layers, a switched base"""
    out = []
    k = 0
    for opts in ('', 'delegate-to-first-layer yes', 'transparent-key-resolution to-base-layer',
                 'transparent-key-resolution to-base-layer delegate-to-first-layer yes', 'transparent-key-resolution layer-stack'):
        for variant in range(3 if tier == 'quick' else 12):
            cells = lambda: ' '.join(rng.choice(['_', '_', str(rng.randint(1, 9)), 'XX']) for _ in range(3))
            cfg = ('(defcfg %s)\n(defsrc a s d f g h)\n(deflayer l0 x y z (layer-while-held l1) (layer-while-held l2) (layer-switch l3))\n'
                   '(deflayer l1 %s _ _ _)\n(deflayer l2 %s _ _ _)\n(deflayer l3 %s _ _ (layer-switch l0))' % (opts, cells(), cells(), cells()))
            h = ['t5']
            held = []
            for _ in range(rng.randint(4, 12)):
                r = rng.random()
                if r < 0.3:
                    kk = rng.choice([33, 34])
                    if kk in held:
                        held.remove(kk); h += ['u%d' % kk, 't5']
                    else:
                        held.append(kk); h += ['d%d' % kk, 't5']
                elif r < 0.4:
                    h += ['d35', 't5', 'u35', 't5']
                else:
                    kk = rng.choice([30, 31, 32])
                    h += ['d%d' % kk, 't5', 'u%d' % kk, 't5']
            h += ['u%d' % kk for kk in held] + ['t50', 'q']
            for sub in ('ksim', 'rsim'):
                out.append({'id': 'c04-loader-%d-%s' % (k, sub), 'cfg': cfg, 'files': {}, 'hist': h, 'sub': sub, 'no_compare': True,
                            'loader_pair': 'c04-loader-%d' % k, 'tags': {'mode': 'file-vs-string-loader', 'loader': sub}})
            k += 1
    return out


def post(all_results, run_impl, rng, tier, stats):
    import re as _re
    byid = {c['id']: (c, it) for c, it, mt in all_results}
    pair_viol = []
    npairs = 0
    for cid, (c, it) in byid.items():
        if c.get('sub') != 'rsim' or 'loader_pair' not in c:
            continue
        o = byid.get(c['loader_pair'] + '-ksim')
        if not o or not it or not o[1]:
            continue
        npairs += 1
        ev = lambda tr: [e for l in tr if l.startswith('@') for e in l.split()[1:] if _re.fullmatch(r'[du]\d+', e)]
        if ev(it) != ev(o[1]):
            pair_viol.append((c, it, None, 'the configuration loaded from a file presses %s, loaded from a string %s, on the same history'
                              % (' '.join(ev(it))[:80], ' '.join(ev(o[1]))[:80])))
    stats['loader_pairs'] = npairs
    """how many of the cases the refinement theorem covers (fragment configuration as the real parser produced it,
    covered history), and the driver's consistency check model-vs-spec on them"""
    stats['refinement_theorem_applies'] = 0
    stats['refinement_cfg_in_fragment'] = 0
    out = []
    for c, it, mt in all_results:
        for l in (mt or []):
            if l.startswith('INFO frag='):
                if 'frag=1' in l:
                    stats['refinement_cfg_in_fragment'] += 1
                if 'spec=agree' in l:
                    stats['refinement_theorem_applies'] += 1
                if 'DISAGREE' in l:
                    out.append((c, it, mt, 'the extracted layered-keymap spec and the extracted layout model disagree on a case the '
                                           'refinement theorem covers (extraction / driver inconsistency)'))
    lsim = [1 for c, it, mt in all_results if c.get('sub', 'lsim') == 'lsim' and (c.get('tags') or {}).get('mode') != 'burst'
            and it and not it[0].startswith('PARSE-')]
    if lsim and stats['refinement_theorem_applies'] < len(lsim) // 2:
        raise RuntimeError('the refinement theorem applied to only %d of %d fragment cases: generator and frag_cfg drifted apart'
                           % (stats['refinement_theorem_applies'], len(lsim)))
    return out + pair_viol


SPEC = {
    'oracle': oracle,
    'post': post,
    'id': 'C04',
    'sub': 'lsim',
    'gen_cases': gen_cases,
    'nontrivial': trace_has_output,
    'rule': 'random configs of the C04 fragment (1-4 layers, 2-6 keys, all option combinations) x consistent histories with gaps '
            '{0,1,2,7} plus no-tick bursts around the 32-slot queue; non-trivial = distinct (config, implementation trace) with at least one key-state change',
    'explanation': 'refinement theorem C04_refines_layered_keymap: for every fragment configuration and every covered history the Gallina '
                   'layout model outputs exactly the key lists of the layered-keymap spec (Spec/Keymap.v); plus the decision-rule theorems '
                   '(FIFO below 32, release removes exactly the coordinate, first-non-transparent resolution, search order); model tied to '
                   'keyberon::Layout by differential execution on the parsed configuration; correspondence.refinement_theorem_applies counts '
                   'the cases whose parsed configuration satisfies frag_cfg and whose history satisfies hist_ok',
}
