"""C05 — tap-hold resolves every press to exactly one of tap / hold / timeout, on time."""
import itertools
from checks.common import lsim_cases, trace_has_output
import gen

VARIANTS = ['tap-hold', 'tap-hold-press', 'tap-hold-release', 'tap-hold-press-timeout', 'tap-hold-release-timeout',
            'tap-hold-release-keys', 'tap-hold-except-keys']


def th_cfg(variant, tt, H, conc, keys_list='s', shape=None):
    extra = ''
    shape = shape or variant
    if shape.endswith('-timeout'):
        extra = ' z'
    if shape.endswith('-keys'):
        extra = ' (%s)' % keys_list
    opts = 'concurrent-tap-hold yes' if conc else ''
    return '(defcfg %s)\n(defsrc a s d)\n(deflayer l0 (%s %d %d x lsft%s) 1 2)' % (opts, variant, tt, H, extra)


def schedules(rng, n, H, count):
    """physically consistent schedules over {TH=30, k1=31, k2=32} with gaps from {0,1,H-1,H,H+1}"""
    gaps = sorted({0, 1, max(H - 1, 0), H, H + 1})
    out = []
    for _ in range(count):
        down = set()
        toks = []
        for _ in range(rng.randint(2, n)):
            k = rng.choice([30, 30, 31, 32])
            if k in down:
                down.discard(k); toks.append('r0,%d' % k)
            else:
                down.add(k); toks.append('p0,%d' % k)
            g = rng.choice(gaps)
            if g:
                toks.append('t%d' % g)
        for k in sorted(down):
            toks.append('r0,%d' % k)
            toks.append('t%d' % rng.choice(gaps[1:]))
        toks.append('t%d' % (H + 60))
        out.append(toks)
    return out


def gen_cases(rng, tier):
    cases = []
    per = 12 if tier == 'quick' else 400
    i = 0
    for variant in VARIANTS:
        for H in ([5, 20] if tier == 'quick' else [1, 2, 5, 20, 200]):
            for tt in (0, 30):
                for conc in (False, True):
                    cfg = th_cfg(variant, tt, H, conc)
                    for toks in schedules(rng, 7, H, per):
                        cases.append({'id': 'c05-grid-%d' % i, 'cfg': cfg, 'hist': toks, 'sub': 'lsim',
                                      'tags': {'variant': variant, 'H': H, 'tt': tt, 'conc': conc}})
                        i += 1
    # every variant under its documented short name (docs/config.adoc, "tap-hold-press or tap⬓↓" ...): the same schedule must give the
    # same trace as under the long name; the pairs are read from the documentation, not from the parser's own table
    import re
    doc = open('/repo/docs/config.adoc', encoding='utf-8').read()
    alias = {}
    for a, b in re.findall(r'`\+?(tap-hold[a-z-]*)\+?` or `\+?(tap⬓[^`+ ]*)\+?`', doc):
        alias.setdefault(a, b)
    j = 0
    for variant in VARIANTS:
        if variant not in alias:
            continue
        for H in (5, 20):
            for toks in schedules(rng, 7, H, 40 if tier == 'quick' else 300):
                for nm, role in ((variant, 'long'), (alias[variant], 'short')):
                    cases.append({'id': 'c05-alias-%d-%s' % (j, role), 'cfg': th_cfg(nm, 0, H, False, shape=variant), 'hist': toks, 'sub': 'lsim',
                                  'alias_pair': 'c05-alias-%d' % j, 'role': role, 'tags': {'variant': variant, 'H': H, 'spelling': role}})
                j += 1
    # two tap-hold keys, the second tapped twice while the first is still pending (all four of its events wait in the queue): each of
    # its presses is judged against its own release
    dj = 0
    for conc in (False, True):
        for HA, HB in ((300, 100), (200, 60), (100, 100)):
            for g1, g2, g3 in ((40, 30, 40), (HB - 10, 5, HB - 10), (10, HB, 10), (HB // 2, HB // 2, HB // 2)):
                cfg = '(defcfg %s)\n(defsrc a s d)\n(deflayer l0 (tap-hold 0 %d x lsft) (tap-hold 0 %d y lctl) 2)' % (
                    'concurrent-tap-hold yes' if conc else '', HA, HB)
                toks = ['p0,30', 't10', 'p0,31', 't%d' % g1, 'r0,31', 't%d' % g2, 'p0,31', 't%d' % g3, 'r0,31', 't%d' % (HA + 50), 'r0,30', 't%d' % (HA + 60)]
                cases.append({'id': 'c05-dbl-%d' % dj, 'cfg': cfg, 'hist': toks, 'sub': 'lsim', 'tags': {'shape': 'double-tap-while-pending', 'conc': conc}})
                dj += 1
    # things that happen on the virtual-key row while a decision is pending are not the tap-hold key's own events, even when the
    # virtual key has the index that equals the code of the physical key (esc = 1, `1` = 2, tab = 15)
    vj = 0
    for kname, code in (('esc', 1), ('1', 2), ('tab', 15)):
        for variant in ('tap-hold', 'tap-hold-release-keys', 'tap-hold-press'):
            for D in (30, 100):
                vks = ' '.join('v%d %s' % (q, 'lctl' if q == code else 'XX') for q in range(code + 1))
                extra = ' (d)' if variant.endswith('-keys') else ''
                cfg = ('(defsrc %s a s)\n(defvirtualkeys %s)\n(deflayer base (%s 0 200 x lsft%s) (hold-for-duration %d v%d) (on-press tap-vkey v%d))'
                       % (kname, vks, variant, extra, D, code, code))
                how = rng.choice([30, 31])
                h = ['t3', 'd%d' % how, 't10', 'u%d' % how, 't%d' % rng.choice([5, 40]), 'd%d' % code, 't300', 'u%d' % code, 't60']
                cases.append({'id': 'c05-vrow-%d' % vj, 'cfg': cfg, 'hist': h, 'sub': 'ksim', 'tags': {'shape': 'virtual-key-with-the-same-index', 'key': kname}})
                vj += 1
    # two tap-holds pending on ONE key at the same time (switch with fallthrough, or multi): the one with the shorter timeout is
    # decided first, the other one is still undecided then - keys pressed meanwhile stay buffered and its own release still decides it
    tj = 0
    for conc in (False, True):
        for how in ('(switch () (tap-hold 0 %d a lctl) fallthrough () (tap-hold 0 %d b lsft) break)', '(switch () (tap-hold-press 0 %d a lctl) fallthrough () (tap-hold-release 0 %d b lsft) fallthrough () c break)'):
            for H1, H2 in ((100, 300), (50, 120), (300, 100), (100, 100)):
                lo, hi = min(H1, H2), max(H1, H2)
                for rel in (lo // 2, lo + (hi - lo) // 2 if hi > lo else lo + 20, hi + 40):
                    for other in (None, lo + 5):
                        cfg = '(defcfg %s)\n(defsrc a s d)\n(deflayer l0 %s y 2)' % ('concurrent-tap-hold yes' if conc else '', how % (H1, H2))
                        ev = [(3, 'p0,30'), (3 + rel, 'r0,30')]
                        if other is not None:
                            ev += [(3 + other, 'p0,31'), (3 + other + 20, 'r0,31')]
                        ev.sort(key=lambda x: x[0])
                        toks, now = [], 0
                        for t, e in ev:
                            if t > now:
                                toks.append('t%d' % (t - now)); now = t
                            toks.append(e)
                        toks.append('t%d' % (hi + 200))
                        cases.append({'id': 'c05-two-%d' % tj, 'cfg': cfg, 'hist': toks, 'sub': 'lsim',
                                      'tags': {'shape': 'two-tap-holds-pending-on-one-key', 'conc': conc}})
                        tj += 1
    # random configs of the profile incl. two tap-hold keys interleaved
    cases += lsim_cases(rng, 'c05', 100 if tier == 'quick' else 3000, 3, tag='c05-rand')
    return cases


def oracle(c, it):
    """grid cases: every press of the tap-hold key produces exactly one of tap (x) / hold (lsft) / timeout action (z); a first press with
    no other input in between is a tap when released before H and hold (or the timeout action) from tick H on otherwise"""
    if 'variant' not in (c.get('tags') or {}) or not it or it[0].startswith('PARSE-') or any(l.startswith(('PANIC', 'ABORT', 'HANG')) for l in it):
        return None
    H = c['tags']['H']
    prev = set()
    downs = {45: [], 42: [], 44: []}
    for l in it:
        if l.startswith('@') and ' K' in l:
            tick = int(l.split(' ')[0][1:].rstrip('+'))
            cur = set(int(x) for x in l.split(' K', 1)[1].split(' C ')[0].split())
            for k in downs:
                if k in cur and k not in prev:
                    downs[k].append(tick)
            prev = cur
    presses = sum(1 for t in c['hist'] if t == 'p0,30')
    total = sum(len(v) for v in downs.values())
    if total != presses:
        return 'the tap-hold key was pressed %d times but %d actions were performed (tap x at %s, hold lsft at %s, timeout action z at %s)' % (
            presses, total, downs[45], downs[42], downs[44])
    # the first press, if nothing else happens before it is decided
    toks = c['hist']
    if toks and toks[0] == 'p0,30':
        now, i = 0, 1
        while i < len(toks) and toks[i][0] == 't':
            now += int(toks[i][1:]); i += 1
        # ... and nothing else arrives until the decision has been taken (events of the same millisecond sit in the queue together:
        # a press queued behind the release still counts as "another key pressed" for the press variants)
        quiet_after = i + 1 < len(toks) and toks[i + 1][0] == 't' and int(toks[i + 1][1:]) >= 3
        if i < len(toks) and toks[i] == 'r0,30' and quiet_after:
            first = sorted((t, k) for k, v in downs.items() for t in v)[0]
            # (an input event takes effect in the tick after its arrival: a release at H-1 is handled in the very tick in which the
            # timeout elapses - with concurrent-tap-hold the hold wins there - so the two boundary values are not judged)
            # (a release that arrives in the millisecond of the press is dequeued one tick after it: one more tick of margin)
            if now < H - 2 and first[1] != 45:
                return 'first press released after %d ms (< %d) with no other input: expected the tap action, saw key %d first' % (now, H, first[1])
            if now > H and (first[1] == 45 or not (H <= first[0] <= H + 2)):
                return 'first press held %d ms (> %d) with no other input: expected hold / timeout action at tick %d, saw key %d at tick %d' % (
                    now, H, H, first[1], first[0])
    return None


def post(all_results, run_impl, rng, tier, stats):
    by = {c['id']: (c, it) for c, it, mt in all_results}
    out = []
    n = 0
    for cid, (c, it) in by.items():
        if c.get('role') != 'long':
            continue
        o = by.get(c['alias_pair'] + '-short')
        if not o:
            continue
        n += 1
        if it != o[1]:
            out.append((o[0], o[1], None, 'the short name of %s behaves differently from the long name on the same schedule' % c['tags']['variant']))
    stats['alias_pairs'] = n
    return out


SPEC = {
    'oracle': oracle, 'post': post,
    'id': 'C05', 'sub': 'lsim', 'gen_cases': gen_cases, 'nontrivial': trace_has_output,
    'rule': 'grid: every tap-hold variant x H x tap-repress window {0,30} x concurrent-tap-hold on/off x random consistent schedules '
            'of <=7 events over the tap-hold key and two other keys with gaps {0,1,H-1,H,H+1}; plus random C05-profile configs '
            '(nested/interleaved tap-holds); non-trivial = distinct (config, trace) with output',
    'explanation': 'theorems: hold exactly at the timeout for every H (induction), the complete decision function, early triggers '
                   'of the press/release/release-keys variants, consumption of the pending state, buffering while pending',
}
