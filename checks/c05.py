"""C05 — tap-hold resolves every press to exactly one of tap / hold / timeout, on time."""
import itertools
from checks.common import lsim_cases, trace_has_output
import gen

VARIANTS = ['tap-hold', 'tap-hold-press', 'tap-hold-release', 'tap-hold-press-timeout', 'tap-hold-release-timeout',
            'tap-hold-release-keys', 'tap-hold-except-keys']


def th_cfg(variant, tt, H, conc, keys_list='s'):
    extra = ''
    if variant.endswith('-timeout'):
        extra = ' z'
    if variant.endswith('-keys'):
        extra = ' (%s)' % keys_list
    opts = 'concurrent-tap-hold yes' if conc else ''
    return '(defcfg %s)\n(defsrc a s d)\n(deflayer l0 (%s %d %d x lsft%s) 1 2)' % (opts, variant, tt, H, extra)


def schedules(rng, n, H, count):
    """physically consistent schedules over {TH=30, k1=31, k2=32} with gaps from {0,1,H-1,H,H+1}"""
    gaps = sorted({0, 1, max(H - 1, 0), H, H + 1})
    out = []
    for _ in range(count):
        down = set()
        toks = []
        for _ in range(rng.randint(2, n)):
            k = rng.choice([30, 30, 31, 32])
            if k in down:
                down.discard(k); toks.append('r0,%d' % k)
            else:
                down.add(k); toks.append('p0,%d' % k)
            g = rng.choice(gaps)
            if g:
                toks.append('t%d' % g)
        for k in sorted(down):
            toks.append('r0,%d' % k)
            toks.append('t%d' % rng.choice(gaps[1:]))
        toks.append('t%d' % (H + 60))
        out.append(toks)
    return out


def gen_cases(rng, tier):
    cases = []
    per = 12 if tier == 'quick' else 400
    i = 0
    for variant in VARIANTS:
        for H in ([5, 20] if tier == 'quick' else [1, 2, 5, 20, 200]):
            for tt in (0, 30):
                for conc in (False, True):
                    cfg = th_cfg(variant, tt, H, conc)
                    for toks in schedules(rng, 7, H, per):
                        cases.append({'id': 'c05-grid-%d' % i, 'cfg': cfg, 'hist': toks, 'sub': 'lsim',
                                      'tags': {'variant': variant, 'H': H, 'tt': tt, 'conc': conc}})
                        i += 1
    # random configs of the profile incl. two tap-hold keys interleaved
    cases += lsim_cases(rng, 'c05', 100 if tier == 'quick' else 3000, 3, tag='c05-rand')
    return cases


SPEC = {
    'id': 'C05', 'sub': 'lsim', 'gen_cases': gen_cases, 'nontrivial': trace_has_output,
    'rule': 'grid: every tap-hold variant x H x tap-repress window {0,30} x concurrent-tap-hold on/off x random consistent schedules '
            'of <=7 events over the tap-hold key and two other keys with gaps {0,1,H-1,H,H+1}; plus random C05-profile configs '
            '(nested/interleaved tap-holds); non-trivial = distinct (config, trace) with output',
    'explanation': 'theorems: hold exactly at the timeout for every H (induction), the complete decision function, early triggers '
                   'of the press/release/release-keys variants, consumption of the pending state, buffering while pending',
}
