"""C06 — one-shot applies to exactly the next key, or expires."""
from checks.common import lsim_cases, trace_has_output, grid_schedules, oneshot_sessions


def gen_cases(rng, tier):
    cases = lsim_cases(rng, 'c06', 150 if tier == 'quick' else 4000, 3, nev=(2, 16), tag='c06')
    # more than 16 stacked one-shots
    import gen
    for i in range(6 if tier == 'quick' else 100):
        names = gen.SRC_POOL[:12]
        src = names + ['z', 'x', 'c', 'v', 'b', 'n', 'm', '1']
        variant = rng.choice(['one-shot', 'one-shot-release', 'one-shot-press-pcancel', 'one-shot-release-pcancel'])
        acts = ['(%s %d %s)' % (variant, rng.choice([50, 200]), rng.choice(gen.MODS)) for _ in range(18)] + ['y', 'u']
        cfg = '(defsrc %s)\n(deflayer l0 %s)' % (' '.join(src), ' '.join(acts))
        codes = [gen.KEYCODES[k] for k in src]
        order = codes[:18]
        rng.shuffle(order)
        h = []
        for k in order:
            h += ['p0,%d' % k, 't1']
        rel = list(order)
        rng.shuffle(rel)
        for k in rel:
            h += ['r0,%d' % k, 't1']
        h += ['p0,%d' % codes[18], 't2', 'p0,%d' % codes[19], 't300', 'r0,%d' % codes[18], 'r0,%d' % codes[19], 't300']
        cases.append({'id': 'c06-stack-%d' % i, 'cfg': cfg, 'hist': h, 'sub': 'lsim', 'tags': {'mode': 'stacked>16'}})
    # grid: each end variant x T x rapid-event-delay x inner action, 3 one-shot keys + 2 plain keys
    i = 0
    for variant in ['one-shot', 'one-shot-press', 'one-shot-release', 'one-shot-press-pcancel', 'one-shot-release-pcancel']:
        for T in ([20] if tier == 'quick' else [2, 20, 200]):
            for red in (['5', '0'] if tier == 'quick' else ['5', '1', '20', '0']):
                inner = ['lsft', 'lctl', '(layer-while-held l1)']
                cfg = ('(defcfg rapid-event-delay %s)\n(defsrc a s d f g)\n(deflayer l0 %s x y)\n(deflayer l1 1 2 3 4 5)'
                       % (red, ' '.join('(%s %d %s)' % (variant, T, a) for a in inner)))
                gaps = sorted({0, 1, T - 1, T, T + 1, int(red), int(red) + 1})
                for toks in grid_schedules(rng, [30, 31, 32, 33, 33, 34, 34], gaps, 14, 50 if tier == 'quick' else 1500, T + 40):
                    cases.append({'id': 'c06-grid-%d' % i, 'cfg': cfg, 'hist': toks, 'sub': 'lsim',
                                  'tags': {'variant': variant, 'T': T, 'red': red}})
                    i += 1
                for _ in range(60 if tier == 'quick' else 1500):
                    toks = oneshot_sessions(rng, [30, 31, 32], [33, 34], T)
                    cases.append({'id': 'c06-sess-%d' % i, 'cfg': cfg, 'hist': toks, 'sub': 'lsim',
                                  'tags': {'variant': variant, 'T': T, 'red': red, 'mode': 'sessions'}})
                    i += 1
    # the statement itself on structured sessions: tap the one-shot key, then two plain keys one after the other (gaps above the
    # rapid-event-delay), or let the one-shot expire first
    j = 0
    for variant in ['one-shot', 'one-shot-press', 'one-shot-release', 'one-shot-press-pcancel', 'one-shot-release-pcancel']:
        for T in (50, 200):
            for _ in range(4 if tier == 'quick' else 60):
                kind = rng.choice(['next-key', 'next-key', 'expire'])
                cfg = '(defcfg rapid-event-delay %d)\n(defsrc a s d f g)\n(deflayer l0 (%s %d lsft) b c x y)' % (rng.choice([0, 1, 5]), variant, T)
                h = ['t5', 'p0,30', 't%d' % rng.randint(1, 4), 'r0,30']
                if kind == 'expire':
                    h += ['t%d' % (T + rng.choice([8, 40]))]
                else:
                    h += ['t%d' % rng.randint(8, T - 20)]
                h += ['p0,33', 't%d' % rng.randint(8, 15), 'r0,33', 't%d' % rng.randint(8, 15), 'p0,34', 't%d' % rng.randint(8, 15), 'r0,34', 't%d' % (T + 60)]
                cases.append({'id': 'c06-spec-%d' % j, 'cfg': cfg, 'hist': h, 'sub': 'lsim', 'spec': kind,
                              'tags': {'variant': variant, 'T': T, 'mode': 'statement-' + kind}})
                j += 1
    # release variants, two one-shot keys in one session with a plain key held across the second activation: letting that key go ends
    # both one-shots (it was pressed after the first one-shot), the key typed afterwards is plain (deterministic shapes)
    for variant in ['one-shot-release', 'one-shot-release-pcancel']:
        for T in (100, 400):
            for g in (8, 30):
                for red in (0, 1, 5):
                    cfg = '(defcfg rapid-event-delay %d)\n(defsrc a s d f g)\n(deflayer l0 (%s %d lsft) (%s %d lctl) c x y)' % (red, variant, T, variant, T)
                    h = ['t5', 'p0,30', 't3', 'r0,30', 't%d' % g, 'p0,33', 't%d' % g, 'p0,31', 't3', 'r0,31', 't%d' % g, 'r0,33', 't%d' % (g + 6),
                         'p0,34', 't9', 'r0,34', 't%d' % (T + 60)]
                    cases.append({'id': 'c06-spec-%d' % j, 'cfg': cfg, 'hist': h, 'sub': 'lsim', 'spec': 'stacked-release',
                                  'tags': {'variant': variant, 'T': T, 'mode': 'statement-stacked-release'}})
                    j += 1
    # the one-shot countdown must keep the processing loop awake: a one-shot key held alone past its timeout, released, then a plain key
    from checks.common import loop_pairs
    lp = []
    for i in range(30 if tier == 'quick' else 600):
        T = rng.choice([30, 100])
        variant = rng.choice(['one-shot', 'one-shot-press', 'one-shot-release', 'one-shot-press-pcancel', 'one-shot-release-pcancel'])
        cfg = '(defcfg rapid-event-delay %d)\n(defsrc a s d)\n(deflayer l0 (%s %d lsft) b c)' % (rng.choice([0, 0, 1, 5]), variant, T)
        h = ['t3', 'd30', 't%d' % rng.choice([5, T - 1, T + 1, T + 40, 3 * T]), 'u30', 't%d' % rng.choice([1, T // 2, T - 1, T + 1, T + 30]),
             'd31', 't5', 'u31', 't%d' % rng.choice([5, T + 20]), 'd32', 't3', 'u32', 't%d' % (T + 50)]
        lp.append({'id': 'c06-loop-%d' % i, 'cfg': cfg, 'hist': h, 'sub': 'ksim', 'tags': {'mode': 'loop-pair', 'variant': variant}})
    cases += loop_pairs(lp)
    return cases


def post(all_results, run_impl, rng, tier, stats):
    from checks.common import loop_pair_violations
    v = loop_pair_violations(all_results)
    stats['loop_pairs'] = sum(1 for c, it, mt in all_results if c.get('loop_mode') == '1')
    return v


def oracle(c, it):
    if 'spec' not in c or not it or it[0].startswith('PARSE-') or any(l.startswith(('PANIC', 'ABORT', 'HANG')) for l in it):
        return None
    prev = set()
    at = {}
    last = set()
    for l in it:
        if l.startswith('@') and ' K' in l:
            cur = set(int(x) for x in l.split(' K', 1)[1].split(' C ')[0].split())
            for k in (45, 21):
                if k in cur and k not in prev and k not in at:
                    at[k] = cur
            prev = cur
            last = cur
    if 45 not in at or 21 not in at:
        return 'the plain keys pressed after the one-shot did not both come out: %s' % sorted(at)
    if c['spec'] == 'stacked-release':
        if 42 not in at[45]:
            return 'the key pressed right after the first one-shot was not modified (keys down with it: %s)' % sorted(at[45])
        if 42 in at[21] or 29 in at[21]:
            return 'the key held across the second one-shot was released, yet the key typed after that was still modified (keys down with it: %s)' % sorted(at[21])
        return ('keys left down at the end: %s' % sorted(last)) if last else None
    if c['spec'] == 'next-key' and 42 not in at[45]:
        return 'the key pressed right after the one-shot was not modified (keys down with it: %s)' % sorted(at[45])
    if c['spec'] == 'expire' and 42 in at[45]:
        return 'the one-shot had expired, yet the next key was modified'
    if 42 in at[21]:
        return 'the second key after the one-shot was still modified (keys down with it: %s)' % sorted(at[21])
    if last:
        return 'keys left down at the end: %s' % sorted(last)
    return None


SPEC = {
    'oracle': oracle,
    'post': post,
    'id': 'C06', 'sub': 'lsim', 'gen_cases': gen_cases, 'nontrivial': trace_has_output,
    'rule': 'random C06-profile configs (all five one-shot variants, key / output chord / layer-while-held inner, 1-3 one-shot keys plus plain keys, rapid-event-delay {default,1,20}) x consistent histories with gaps {0,1,T-1,T,T+1}; plus >16 stacked one-shots' + '; non-trivial = distinct (config, trace) with output',
    'explanation': 'theorems: expiry exactly at T for every T (induction), end clears everything, press/release variant end conditions, deferred own release, pcancel, inactive one-shot is inert',
}
