"""C07 — idle blocking is unobservable: sleeping while idle never changes behaviour."""
import re
import gen
from checks.common import trace_has_output
import checks.c18 as c18
import checks.c19 as c19


def ktoks(h, rng, qp=0.5):
    out = []
    for t in h:
        if t[0] == 'p':
            out.append('d' + t.split(',')[1])
        elif t[0] == 'r':
            out.append('u' + t.split(',')[1])
        else:
            out.append(t)
            if rng.random() < qp:
                out.append('q')
    return out


def gen_cases(rng, tier):
    cases = []
    n = 120 if tier == 'quick' else 3000
    for i in range(n):
        g = gen.CfgGen(rng, 'all')
        cfg = g.gen()
        keys = gen.codes_of(g.src)
        gaps = gen.gaps_for(g.timeouts) + [250, 1200]
        hg = gen.HistGen(rng, keys, gaps)
        for j in range(2):
            h = hg.consistent(rng.randint(2, 12)) + ['t%d' % rng.choice([30, 300, 1500])]
            cases.append({'id': 'c07-%d-%d' % (i, j), 'cfg': cfg, 'hist': ktoks(h, rng) + ['q'], 'sub': 'ksim', 'tags': {'kind': 'all-profile'}})
    # time-dependent features with long quiet gaps: virtual-key timers, dynamic macro recording, key-timing switches
    for i in range(40 if tier == 'quick' else 800):
        sub = c18.gen_cases(rng, 'quick')[:1][0]
        h = []
        for t in [('t' + t[1:]) if t[0] == 'm' else t for t in sub['hist']]:
            h.append(t)
            if t[0] == 't' and rng.random() < 0.6:
                h.append('q')
        cases.append(dict(sub, id='c07-vk-%d' % i, hist=h, tags={'kind': 'vkeys'}))
    for i in range(40 if tier == 'quick' else 800):
        T = rng.choice([50, 300, 2500])
        cfg = ('(defsrc a s d)\n(deflayer l0 x y (switch ((key-timing 1 %s %d)) 1 break ((key-timing 1 %s %d)) 2 break () 3 break))'
               % (rng.choice(['lt', 'gt']), T, rng.choice(['lt', 'gt']), rng.choice([20, 100])))
        h = []
        for _ in range(rng.randint(2, 6)):
            k = rng.choice([30, 31, 32])
            h += ['d%d' % k, 't2', 'u%d' % k, 't%d' % rng.choice([5, 25, 120, T - 1, T, T + 1]), 'q',
                  't%d' % rng.choice([5, T - 1, T, T + 1, T + 200, 3000]), 'q']
        cases.append({'id': 'c07-timing-%d' % i, 'cfg': cfg, 'hist': h, 'sub': 'ksim', 'expect_max_timing': max(T, 100) if False else None,
                      'tags': {'kind': 'key-timing'}})
    for i in range(30 if tier == 'quick' else 600):
        sub = c19.gen_cases(rng, 'quick')[:1][0]
        h = []
        # (iterations of several milliseconds belong to C18 / C19; the paired runs here advance one millisecond at a time)
        for t in [('t' + t[1:]) if t[0] == 'm' else t for t in sub['hist']]:
            h.append(t)
            if t[0] == 't' and rng.random() < 0.6:
                h += ['t%d' % rng.choice([1, 40, 400]), 'q']
        cases.append(dict(sub, id='c07-dyn-%d' % i, hist=h, tags={'kind': 'dynamic-macro'}))
    # what a macro still owes when its event list is exhausted: the release of its last press/release items (custom actions:
    # mouse buttons, unmod keys) one tick each after the list has run out
    extra_pairs = []
    for i in range(40 if tier == 'quick' else 800):
        body = rng.choice(['mlft mrgt', 'x mlft mrgt', '(unmod a) mlft', 'mlft (unmod b) mmid', 'S-(x) mlft mrgt', 'x 20 mlft mrgt mmid',
                           'mlft', 'x y mmid', '(unshift c) (unmod d)', 'S-(mlft mrgt)'])
        kind = rng.choice(['macro', 'macro', 'macro-release-cancel', 'macro-cancel-on-press'])
        cfg = '(defsrc a s d)\n(deflayer l0 (%s %s) y (%s %s))' % (kind, body, rng.choice(['macro', 'macro-release-cancel']),
                                                                  rng.choice(['mrgt mlft', 'z mmid mlft', '(unmod e) (unmod f)']))
        k0 = rng.choice([30, 32])
        h = ['d%d' % k0, 't1', 'q'] + (['u%d' % k0] if rng.random() < 0.5 else []) + ['t1', 'q'] * rng.randint(6, 14)
        h += ['t%d' % rng.choice([40, 300, 1200]), 'q'] + ([] if ('u%d' % k0) in h else ['u%d' % k0])
        h += ['t%d' % rng.choice([5, 300]), 'q', 'd31', 't5', 'u31', 't50', 'q']
        c = {'id': 'c07-mtail-%d' % i, 'cfg': cfg, 'hist': h, 'sub': 'ksim', 'tags': {'kind': 'macro-tail'}}
        cases.append(c); extra_pairs.append(c)
    # a partly typed sequence must time out while nothing else happens (leader-started and sequence-always-on)
    for i in range(40 if tier == 'quick' else 800):
        T = rng.choice([30, 200])
        always = rng.random() < 0.6
        mode = rng.choice(['hidden-suppressed', 'hidden-delay-type', 'visible-backspaced'])
        cfg = ('(defcfg sequence-timeout %d sequence-input-mode %s%s)\n(defsrc a s d f)\n(deflayer l0 %s s d f)\n'
               '(defvirtualkeys v0 (macro x y))\n(defseq v0 (s d))' % (T, mode, ' sequence-always-on yes' if always else '', 'a' if always else 'sldr'))
        h = ['t5']
        if not always:
            h += ['d30', 't2', 'u30', 't%d' % rng.choice([2, T - 1, T, T + 1, T + 400]), 'q']
        gap = rng.choice([3, T - 3, T - 1, T, T + 1, T + 50, 1000])
        h += ['d31', 't2', 'u31', 't%d' % gap, 'q', 'd32', 't2', 'u32', 't%d' % rng.choice([5, T + 50]), 'q', 'd33', 't2', 'u33', 't%d' % (T + 60), 'q']
        c = {'id': 'c07-seqto-%d' % i, 'cfg': cfg, 'hist': h, 'sub': 'ksim', 'tags': {'kind': 'sequence-timeout', 'always_on': always, 'gap': gap - T}}
        cases.append(c); extra_pairs.append(c)
    # mechanisms with their own countdown that must keep the loop awake: a one-shot key held alone past its timeout, the zippychord
    # re-enable time after a non-chord key, the chords-v2 min-idle window, the key-timing clock of switch (largest threshold)
    for i in range(30 if tier == 'quick' else 600):
        T = rng.choice([30, 100])
        variant = rng.choice(['one-shot', 'one-shot-press', 'one-shot-release', 'one-shot-press-pcancel', 'one-shot-release-pcancel'])
        cfg = '(defcfg rapid-event-delay %d)\n(defsrc a s d)\n(deflayer l0 (%s %d lsft) b c)' % (rng.choice([0, 0, 1, 5]), variant, T)
        h = ['t3', 'd30', 't%d' % rng.choice([5, T - 1, T + 1, T + 40, 3 * T]), 'q', 'u30', 't%d' % rng.choice([1, T // 2, T - 1, T + 1, T + 30]), 'q',
             'd31', 't5', 'u31', 't%d' % rng.choice([5, T + 20]), 'q', 'd32', 't3', 'u32', 't%d' % (T + 50), 'q']
        c = {'id': 'c07-osh-%d' % i, 'cfg': cfg, 'hist': h, 'sub': 'ksim', 'tags': {'kind': 'one-shot-held'}}
        cases.append(c); extra_pairs.append(c)
    import checks.c20 as c20
    import checks.c09 as c09
    for i in range(24 if tier == 'quick' else 500):
        z = c20.make_case(rng, i, tier)
        wait = int(re.search(r'idle-reactivate-time (\d+)', z['cfg']).group(1))
        # a non-chord key, a pause around the re-enable time, then the scenarios
        # zippychord forgets a prioritized follow-up dictionary after 10000 *ticks* without a state change: a count of ticks, not of
        # time, so a loop that sleeps keeps it (known finding zippy-reset-counts-ticks). The quiet stretches of more than 10 s
        # that C20's scenarios use to get out of that context are shortened here, except in a few tagged cases.
        keep_long = i % 8 == 0
        body = [t for t in z['hist'] if t != 'q']
        has_long = 't10100' in body
        if not keep_long:
            body = ['t300' if t == 't10100' else t for t in body]
        h = ['t5', 'd45', 't3', 'u45', 't%d' % rng.choice([wait - 1, wait, wait + 1, wait + 200, 5]), 'q'] + body + ['q']
        c = {'id': 'c07-zip-%d' % i, 'cfg': z['cfg'], 'files': z['files'], 'hist': h, 'sub': 'ksim', 'tags': {'kind': 'zippy-reenable'}}
        if keep_long and has_long:
            c['pair_tag'] = 'zippy-reset-counts-ticks'
        cases.append(c); extra_pairs.append(c)
    for i in range(30 if tier == 'quick' else 600):
        v = c09.v2_random_case(rng, i)
        mi = re.search(r'chords-v2-min-idle (\d+)', v['cfg'])
        mi = int(mi.group(1)) if mi else 5
        body = [t for t in v['hist'] if t != 'q']
        # a key that is no chord participant first (it leaves the chord queue without activating anything), a pause around min-idle
        h = ['t5', 'd36', 't2', 'u36', 't%d' % rng.choice([mi - 1, mi, mi + 1, mi + 3, mi + 200]), 'q'] + body + ['q']
        c = {'id': 'c07-chv2-%d' % i, 'cfg': v['cfg'], 'hist': h, 'sub': 'ksim', 'tags': {'kind': 'chords-v2-min-idle'}}
        cases.append(c); extra_pairs.append(c)
    # several decisions pending at once: tap-holds with different timeouts held together (the later ones wait in extra_waiting while
    # the first is pending and keep running after it has resolved), started by two keys or by one key through switch fallthrough
    for i in range(24 if tier == 'quick' else 400):
        T1, T2 = rng.choice([(100, 500), (500, 100), (60, 61), (30, 300)])
        conc = rng.choice(['yes', 'yes', 'no'])
        form = rng.choice(['two-keys', 'one-key-fallthrough'])
        if form == 'two-keys':
            cfg = '(defcfg concurrent-tap-hold %s)\n(defsrc a s d)\n(deflayer l0 (tap-hold 0 %d x y) (tap-hold 0 %d z w) c)' % (conc, T1, T2)
            h = ['t3', 'd30', 't%d' % rng.choice([1, 10]), 'd31', 't%d' % (max(T1, T2) + rng.choice([50, 400])), 'q', 'u30', 't3', 'u31', 't50', 'q']
        else:
            cfg = ('(defcfg concurrent-tap-hold %s)\n(defsrc a s d)\n(deflayer l0 (switch () (tap-hold 0 %d x y) fallthrough () (tap-hold 0 %d z w) break) b c)'
                   % (conc, T1, T2))
            h = ['t3', 'd30', 't%d' % (max(T1, T2) + rng.choice([50, 400])), 'q', 'u30', 't50', 'q']
        c = {'id': 'c07-multiwait-%d' % i, 'cfg': cfg, 'hist': h, 'sub': 'ksim', 'tags': {'kind': 'several-pending-decisions'}}
        cases.append(c); extra_pairs.append(c)
    # a cancellable macro that holds a key, cancelled by the release of its own key while another physical key stays down (the key
    # the macro held goes up at the OS one millisecond after the cancellation)
    for i in range(16 if tier == 'quick' else 300):
        var = rng.choice(['macro-release-cancel', 'macro-repeat-release-cancel', 'macro-release-cancel-and-cancel-on-press'])
        body = rng.choice(['S-(x 500 y)', 'C-(400)', 'lalt 300 z'])
        other = rng.choice([True, True, False])
        cfg = '(defsrc a s d)\n(deflayer l0 (%s %s) c lsft)' % (var, body)
        h = ['t3'] + (['d%d' % rng.choice([31, 32]), 't5'] if other else []) + ['d30', 't%d' % rng.choice([20, 50]), 'u30', 't%d' % rng.choice([700, 3000]), 'q',
                                                                                 'u31', 'u32', 't50', 'q']
        c = {'id': 'c07-cancelheld-%d' % i, 'cfg': cfg, 'hist': h, 'sub': 'ksim', 'tags': {'kind': 'cancel-with-key-held'}}
        cases.append(c); extra_pairs.append(c)
    # an eager tap-dance that is still counting
    for i in range(16 if tier == 'quick' else 300):
        T = rng.choice([50, 200])
        cfg = '(defsrc a s d)\n(deflayer l0 (tap-dance-eager %d (x y z)) b c)' % T
        h = ['t3']
        for _ in range(rng.randint(1, 3)):
            h += ['d30', 't%d' % rng.randint(1, 5), 'u30', 't%d' % rng.choice([5, T - 2, T + 5, 3 * T, 10 * T]), 'q']
        c = {'id': 'c07-eager-%d' % i, 'cfg': cfg, 'hist': h + ['t50', 'q'], 'sub': 'ksim', 'tags': {'kind': 'eager-tap-dance'}}
        cases.append(c); extra_pairs.append(c)
    extra_pairs += [c for c in cases if (c.get('tags') or {}).get('kind') == 'key-timing']
    # the processing loop itself: before every millisecond the loop asks can_block_update_idle_waiting; a run that honours the
    # answer (B1: blocked milliseconds run no tick) must be indistinguishable from one that ticks regardless (B0)
    import checks.c08 as c08
    base = [c for c in cases if c['tags'].get('kind') == 'all-profile'][:(60 if tier == 'quick' else 1500)]
    base += [c for c in c08.gen_cases(rng, 'quick') if c.get('sub') == 'ksim'][:(60 if tier == 'quick' else 160)]
    base += extra_pairs
    for c in base:
        h = [t for t in c['hist'] if t != 'q']
        for mode in ('0', '1'):
            cases.append(dict(c, id='%s-B%s' % (c['id'], mode), hist=['B' + mode] + h + ['t50'], loop_pair=c['id'], loop_mode=mode,
                              tags={'kind': 'loop-mode-B' + mode}))
    return cases


def dedup_releases(l):
    """a key that two states hold is released once per state; a second release of a key that is already up in the same millisecond
    tells the OS nothing: `@t u42 u42` and `@t u42` are the same behaviour"""
    if not l.startswith('@'):
        return l
    seen, out = set(), []
    for tok in l.split(' '):
        if re.fullmatch(r'u\d+', tok):
            if tok in seen:
                continue
            seen.add(tok)
        elif re.fullmatch(r'd\d+', tok):
            seen.discard('u' + tok[1:])
        out.append(tok)
    return ' '.join(out)


def shift(trace, cut, K):
    """trace lines at ticks > cut shifted back by K; Q/R lines likewise"""
    out = []
    for l in trace:
        m = re.match(r'(@|Q@|R@|DM@)(\d+)(\+?)(.*)', l)
        if m:
            t = int(m.group(2))
            if t > cut:
                t -= K
            out.append('%s%d%s%s' % (m.group(1), t, m.group(3), m.group(4)))
        elif l.startswith('END '):
            out.append(re.sub(r'tick=(\d+)', lambda mm: 'tick=%d' % (int(mm.group(1)) - K), l))
        else:
            out.append(l)
    return out


def post(all_results, run_impl, rng, tier, stats):
    """paired runs on the implementation: wherever can-block was true, K extra ticks must change nothing
    but the time stamps of what follows"""
    variants = []
    budget = 600 if tier == 'quick' else 12000
    order = list(all_results)
    rng.shuffle(order)
    for (c, it, mt) in order:
        if not it or c.get('sub') != 'ksim' or it[0].startswith('PARSE') or any(l.startswith(('PANIC', 'ABORT')) for l in it):
            continue
        qs = [l for l in it if l.startswith('Q@')]
        # positions of the q tokens in the history, with the tick count at that point
        tick = 0
        qi = 0
        hist = c['hist']
        for pos, tok in enumerate(hist):
            if tok[0] == 't' and tok[1:].isdigit():
                tick += int(tok[1:])
            elif tok == 'q':
                if qi < len(qs) and qs[qi].endswith('block=1') and pos + 1 < len(hist) and len(variants) < budget and rng.random() < 0.6:
                    nxt = hist[pos + 1]
                    if nxt[0] == 't' and nxt[1:].isdigit() and int(nxt[1:]) >= 2 and rng.random() < 0.6:
                        # the real loop sleeps through the gap: only the wake-up tick remains
                        G = int(nxt[1:])
                        h2 = hist[:pos + 1] + ['t1'] + hist[pos + 2:]
                        variants.append((dict(c, id='%s-slp%d' % (c['id'], pos), hist=h2), c, it, tick, -(G - 1)))
                    else:
                        K = rng.choice([1, 7, 1000, 70000] if tier == 'thorough' else [1, 7, 1000])
                        h2 = hist[:pos + 1] + ['t%d' % K] + hist[pos + 1:]
                        variants.append((dict(c, id='%s-blk%d-%d' % (c['id'], pos, K), hist=h2), c, it, tick, K))
                qi += 1
    out = []
    # loop-mode pairs: honouring can-block vs ticking regardless
    by = {c['id']: (c, it) for c, it, mt in all_results}
    npairs = 0
    for cid, (c, it) in by.items():
        if c.get('loop_mode') != '1' or not it or it[0].startswith('PARSE'):
            continue
        other = by.get(c['loop_pair'] + '-B0')
        if not other or not other[1]:
            continue
        npairs += 1
        # the number of layout states is bookkeeping (a finished state is swept by the next tick that runs): not compared
        # the saved macros' recorded delays (DM lines) count ticks, not time: with the constant replay delay they are not
        # observable and differ between a run that skips blocked ticks and one that does not; INFO lines carry tick numbers
        a = [dedup_releases(re.sub(r' nstates=\d+', '', l)) for l in it if not l.startswith(('DM@', 'INFO '))]
        b = [dedup_releases(re.sub(r' nstates=\d+', '', l)) for l in other[1] if not l.startswith(('DM@', 'INFO '))]
        if a != b:
            k = 0
            while k < min(len(a), len(b)) and a[k] == b[k]:
                k += 1
            out.append((c, it, None, 'blocking whenever can_block_update_idle_waiting allows it changes the behaviour: blocking run [%s], always-ticking run [%s]%s'
                        % (a[k] if k < len(a) else '<end>', b[k] if k < len(b) else '<end>', (' [%s]' % c['pair_tag']) if c.get('pair_tag') else '')))
    stats['loop_pairs'] = npairs
    if not variants:
        return out
    res = run_impl('ksim', [v[0] for v in variants], 'paired')
    stats['paired_runs'] = len(variants)
    for v, c, it, cut, K in variants:
        it2 = res.get(v['id'])
        if not it2:
            continue
        a = [dedup_releases(l) for l in it if not l.startswith(('Q@', 'DM@', 'INFO '))]
        b = [dedup_releases(l) for l in shift(it2, cut, K) if not l.startswith(('Q@', 'DM@', 'INFO '))]
        if a != b:
            k = 0
            while k < min(len(a), len(b)) and a[k] == b[k]:
                k += 1
            why = ('can-block was true at tick %d, but %s there changes what follows: ticking [%s] otherwise [%s]'
                   % (cut, ('ticking %d more ms' % K) if K > 0 else ('sleeping through the next %d ms' % (1 - K)),
                      a[k] if k < len(a) else '<end>', b[k] if k < len(b) else '<end>'))
            out.append((v, it2, None, why))
    return out


SPEC = {
    'id': 'C07', 'sub': 'ksim', 'gen_cases': gen_cases, 'post': post,
    'nontrivial': lambda c, it: bool(it) and any(l.startswith('Q@') and l.endswith('block=1') for l in it) and trace_has_output(c, it),
    'rule': 'random all-feature configs, virtual-key timers, key-timing switches and dynamic-macro recordings with idle/can-block queries '
            'after most gaps (compared with the model); then paired runs on the implementation: at points where can-block was true, K extra '
            'ticks (K in {1,7,1000[,70000]}) are inserted and the continuation must be identical up to the time shift; '
            'non-trivial = output produced and at least one can-block point',
    'explanation': 'the idle predicates are part of the kanata-level model (Q lines compared at every query); the paired-run oracle is the '
                   'property itself run on the implementation',
}
