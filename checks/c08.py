"""C08 — macros play exactly their key list."""
from checks.common import lsim_cases, trace_has_output


def gen_cases(rng, tier):
    cases = lsim_cases(rng, 'c08', 150 if tier == 'quick' else 4000, 3, nev=(2, 16), tag='c08')
    # more than 4 macros concurrently, cancellation at different step indices
    import gen
    for i in range(10 if tier == 'quick' else 200):
        src = gen.SRC_POOL[:7]
        acts = []
        for j in range(6):
            g = gen.CfgGen(rng, 'c08')
            variant = rng.choice(['macro', 'macro-release-cancel', 'macro-repeat', 'macro-cancel-on-press'])
            acts.append('(%s %s)' % (variant, ' '.join(g.macro_items())))
        acts.append('y')
        cfg = '(defsrc %s)\n(deflayer l0 %s)' % (' '.join(src), ' '.join(acts))
        codes = [gen.KEYCODES[k] for k in src]
        h = []
        for k in rng.sample(codes[:6], rng.randint(3, 6)):
            h += ['p0,%d' % k, 't%d' % rng.choice([0, 1, 2, 3])]
            if rng.random() < 0.7:
                h += ['r0,%d' % k, 't%d' % rng.choice([0, 1, 5])]
        for k in codes:
            h += ['r0,%d' % k]
        h += ['t%d' % rng.choice([3, 40, 400])]
        cases.append({'id': 'c08-conc-%d' % i, 'cfg': cfg, 'hist': h, 'sub': 'lsim', 'tags': {'mode': 'concurrent'}})
    return cases


SPEC = {
    'id': 'C08', 'sub': 'lsim', 'gen_cases': gen_cases, 'nontrivial': trace_has_output,
    'rule': 'random macro bodies (keys, delays, modifier-prefixed groups, nested groups) in every macro variant x histories activating them once, repeatedly, overlapping, >4 concurrently' + '; non-trivial = distinct (config, trace) with output',
    'explanation': 'theorems: delay read/countdown, press/release steps, one step per tick, cancel paths clear every macro-held key, repeat only while held',
}
