"""C08 — macros play exactly their key list."""
from checks.common import lsim_cases, trace_has_output


def gen_cases(rng, tier):
    cases = lsim_cases(rng, 'c08', 150 if tier == 'quick' else 4000, 3, nev=(2, 16), tag='c08')
    # more than 4 macros concurrently, cancellation at different step indices
    import gen
    for i in range(10 if tier == 'quick' else 200):
        src = gen.SRC_POOL[:7]
        acts = []
        for j in range(6):
            g = gen.CfgGen(rng, 'c08')
            variant = rng.choice(['macro', 'macro-release-cancel', 'macro-repeat', 'macro-cancel-on-press'])
            acts.append('(%s %s)' % (variant, ' '.join(g.macro_items())))
        acts.append('y')
        cfg = '(defsrc %s)\n(deflayer l0 %s)' % (' '.join(src), ' '.join(acts))
        codes = [gen.KEYCODES[k] for k in src]
        h = []
        for k in rng.sample(codes[:6], rng.randint(3, 6)):
            h += ['p0,%d' % k, 't%d' % rng.choice([0, 1, 2, 3])]
            if rng.random() < 0.7:
                h += ['r0,%d' % k, 't%d' % rng.choice([0, 1, 5])]
        for k in codes:
            h += ['r0,%d' % k]
        h += ['t%d' % rng.choice([3, 40, 400])]
        cases.append({'id': 'c08-conc-%d' % i, 'cfg': cfg, 'hist': h, 'sub': 'lsim', 'tags': {'mode': 'concurrent'}})
    # a macro pushed out of the 4-slot ring while it is inside a held group (modifier prefix, nested groups, delays inside):
    # whatever it still holds must be released (layout level and kanata level)
    GROUPS = ['S-(x 100 y)', 'C-(a 50 S-(b 50 c))', 'A-(z 200)', 'S-(30 x 30 C-(y 30))', 'lsft 100 a', 'S-(x y z 60 b)', 'C-S-(n 80 m)']
    for i in range(40 if tier == 'quick' else 800):
        src = gen.SRC_POOL[:7]
        acts = ['(%s %s %s)' % (rng.choice(['macro', 'macro', 'macro-release-cancel']), rng.choice(['', 'b', '5']), rng.choice(GROUPS)) for _ in range(6)]
        acts.append('y')
        cfg = '(defsrc %s)\n(deflayer l0 %s)' % (' '.join(src), ' '.join(acts))
        codes = [gen.KEYCODES[k] for k in src]
        order = rng.sample(codes[:6], rng.choice([5, 5, 6, 6, 4]))
        ks = rng.random() < 0.5
        h = []
        for k in order:
            h += [('d%d' if ks else 'p0,%d') % k, 't%d' % rng.choice([0, 1, 2, 4, 9])]
        h += ['t%d' % rng.choice([1, 20, 150])]
        for k in order:
            h += [('u%d' if ks else 'r0,%d') % k]
        h += ['t900'] + (['q'] if ks else [])
        cases.append({'id': 'c08-evict-%d' % i, 'cfg': cfg, 'hist': h, 'sub': 'ksim' if ks else 'lsim', 'settled': True,
                      'tags': {'mode': 'evicted-in-group'}})
    # a cancellable macro with press/release action items (mouse buttons, unmod keys) cancelled at every millisecond of its run
    TAILED = ['(unicode r) (unicode s) (unicode t) x y z', 'mlft 3 b z', 'x (unmod a) 2 (unicode r) z', '(on-press tap-vkey vv) x z']
    fixed = [(b, v) for b in TAILED for v in ('macro-cancel-on-press', 'macro-release-cancel-and-cancel-on-press')]
    for i in range(len(fixed) + (8 if tier == 'quick' else 300)):
        body = rng.choice(['mlft', 'x mlft y', '(unmod z) 3 mrgt', 'mlft mrgt', 'b (unmod a) n', 'mmid 2 mmid', 'x (unshift c) y',
                           '(unicode r) (unicode s) (unicode t) x y z', 'mlft 3 b z', 'x (unmod a) 2 (unicode r) z', '(on-press tap-vkey vv) x z'])
        variant = rng.choice(['macro-cancel-on-press', 'macro-release-cancel-and-cancel-on-press', 'macro-repeat-cancel-on-press',
                              'macro-cancel-on-press', 'macro-release-cancel', 'macro-repeat-release-cancel'])
        if i < len(fixed):
            body, variant = fixed[i]       # every tailed body under both cancel-on-press forms, always
        cfg = '(defsrc a s d)\n(deflayer l0 (%s %s) k l)\n(defvirtualkeys vv n)' % (variant, body)
        by_press = 'cancel-on-press' in variant and (i < len(fixed) or rng.random() < 0.8)
        last_key = body.split()[-1]
        # the same macro left alone: when does its last key go down?  (a key pressed before that must keep it from being played)
        cases.append({'id': 'c08-cwin-%d-base' % i, 'cfg': cfg, 'hist': ['d30', 't60', 'u30', 't300', 'q'], 'sub': 'ksim',
                      'tags': {'mode': 'cancel-baseline'}})
        for off in range(0, 15):        # every millisecond of the macro's run
            if by_press:
                h = ['d30', 't%d' % off, 'd31', 't3', 'u31', 't2', 'u30']
            else:
                h = ['d30', 't%d' % off, 'u30']
            h += ['t300', 'q']
            cases.append({'id': 'c08-cwin-%d-%d' % (i, off), 'cfg': cfg, 'hist': h, 'sub': 'ksim', 'settled': True,
                          'cancel': {'base': 'c08-cwin-%d-base' % i, 'off': off, 'last_key': last_key, 'repeat': 'repeat' in variant} if by_press else None,
                          'tags': {'mode': 'cancel-with-action-items', 'offset': off}})
    # a repeating macro restarts only while its key is held - whoever holds it: a physical key, or a virtual key switched on and off
    # by press/release, toggle or from another macro
    for i in range(40 if tier == 'quick' else 600):
        variant = rng.choice(['macro-repeat', 'macro-repeat', 'macro-repeat-release-cancel', 'macro-repeat-cancel-on-press'])
        body = rng.choice(['x 20', 'x y 10', 'S-(x 5) 20', 'x'])
        how = rng.choice(['toggle', 'toggle', 'press-release', 'physical'])
        if how == 'physical':
            cfg = '(defsrc a s d)\n(deflayer l0 (%s %s) k l)' % (variant, body)
            on, off = ['d30'], ['u30']
        else:
            acts = {'toggle': ['(on-press toggle-vkey v0)', '(on-press toggle-vkey v0)'],
                    'press-release': ['(on-press press-vkey v0)', '(on-press release-vkey v0)']}[how]
            cfg = '(defsrc a s d)\n(deflayer l0 %s %s l)\n(defvirtualkeys v0 (%s %s))' % (acts[0], acts[1], variant, body)
            on, off = ['d30', 't2', 'u30'], ['d31', 't2', 'u31']
        h = ['t3']
        now = 3
        for _ in range(rng.randint(1, 2)):
            g1, g2 = rng.choice([30, 90, 200]), rng.choice([100, 250])
            h += on + ['t%d' % g1] + off + ['t%d' % g2]
            now += g1 + g2 + (4 if how != 'physical' else 0)
        quiet_from = now - g2 + 60      # one iteration of the longest body (< 60 ticks) may still finish after the key went up
        h += ['t400', 'q']
        cases.append({'id': 'c08-rep-%d' % i, 'cfg': cfg, 'hist': h, 'sub': 'ksim', 'settled': True, 'quiet_from': quiet_from,
                      'tags': {'mode': 'repeat-while-held', 'held_by': how}})
    # kanata-level cancel paths (release-cancel, cancel-on-press and their window, repeat variants), macros started
    # without a physical press (virtual key tapped on release, hold action of a tap-hold)
    for i in range(160 if tier == 'quick' else 4000):
        g = gen.CfgGen(rng, 'c08')
        src = gen.SRC_POOL[:6]
        variants = ['macro', 'macro-release-cancel', 'macro-cancel-on-press', 'macro-release-cancel-and-cancel-on-press',
                    'macro-repeat', 'macro-repeat-release-cancel', 'macro-repeat-cancel-on-press',
                    'macro-repeat-release-cancel-and-cancel-on-press']
        acts = ['(%s %s)' % (rng.choice(variants), ' '.join(g.macro_items())) for _ in range(3)]
        acts.append(rng.choice(['(on-release tap-vkey v0)', '(on-press tap-vkey v0)', '(tap-hold 20 20 x (macro %s))' % ' '.join(g.macro_items())]))
        acts.append(rng.choice(['y', 'lsft', '(layer-while-held l1)']))
        acts.append('z')
        cfg = '(defsrc %s)\n(deflayer l0 %s)\n(deflayer l1 %s)\n(defvirtualkeys v0 (macro %s))' % (
            ' '.join(src), ' '.join(acts), ' '.join(['_'] * 6), ' '.join(g.macro_items()))
        codes = [gen.KEYCODES[k] for k in src]
        if i % 2 == 0:
            # schedule around the cancel-on-press window: a cancellable macro is started and released early, another macro is
            # started without a physical press, then some key is pressed while that one runs
            long_body = ' '.join(rng.choice(['x', 'y', '50', '100', '200', 'S-(z x)', '(unicode r)']) for _ in range(rng.randint(3, 6)))
            acts[0] = '(%s %s)' % (rng.choice(['macro-release-cancel-and-cancel-on-press', 'macro-repeat-release-cancel-and-cancel-on-press', 'macro-cancel-on-press']), long_body)
            acts[3] = rng.choice(['(on-release tap-vkey v0)', '(on-press tap-vkey v0)'])
            cfg = '(defsrc %s)\n(deflayer l0 %s)\n(deflayer l1 %s)\n(defvirtualkeys v0 (macro %s))' % (
                ' '.join(src), ' '.join(acts), ' '.join(['_'] * 6),
                ' '.join(rng.choice(['b', 'n', '50', '100', 'm']) for _ in range(rng.randint(2, 5))))
            a, b, z = codes[0], codes[3], codes[5]
            gap = lambda: 't%d' % rng.choice([1, 3, 10, 30, 80, 200])
            h = ['d%d' % b, gap(), 'd%d' % a, gap(), 'u%d' % a, gap(), 'u%d' % b, gap(), 'd%d' % z, gap(), 'u%d' % z, 't700', 'q']
            if rng.random() < 0.3:
                h = ['d%d' % a, gap(), 'u%d' % a, gap(), 'd%d' % b, gap(), 'u%d' % b, gap(), 'd%d' % z, gap(), 'u%d' % z, 't700', 'q']
            cases.append({'id': 'c08-k-%d' % i, 'cfg': cfg, 'hist': h, 'sub': 'ksim', 'tags': {'mode': 'kanata-cancel-window'}})
            continue
        h = []
        down = []
        for _ in range(rng.randint(4, 14)):
            if down and rng.random() < 0.45:
                k = down.pop(rng.randrange(len(down)))
                h.append('u%d' % k)
            else:
                k = rng.choice(codes)
                if k not in down:
                    down.append(k)
                    h.append('d%d' % k)
            h.append('t%d' % rng.choice([1, 2, 5, 10, 30, 120]))
        h += ['u%d' % k for k in down] + ['t%d' % rng.choice([50, 600]), 'q']
        cases.append({'id': 'c08-k-%d' % i, 'cfg': cfg, 'hist': h, 'sub': 'ksim', 'tags': {'mode': 'kanata-cancel'}})
    # "regardless of other keys typed meanwhile": the OS auto-repeat of the held macro key (or of another held key) arriving at every
    # millisecond of a macro that taps the same key twice and holds a modifier group
    ri = 0
    for body in ('x x 5 S-(y y)', 'S-(x x) z z', 'x 3 x 3 x'):
        for off in range(1, 21 if tier != 'quick' else 15):
            for who in (30, 31):
                cfg = '(defsrc a s)\n(deflayer l0 (macro %s) b)' % body
                h = ['t3'] + (['d31', 't4'] if who == 31 else []) + ['d30', 't%d' % off, 'r%d' % who, 't2', 'r%d' % who, 't60', 'u30', 'u31', 't100', 'q']
                cases.append({'id': 'c08-osrep-%d' % ri, 'cfg': cfg, 'hist': h, 'sub': 'ksim', 'tags': {'mode': 'os-repeat-during-macro', 'offset': off}})
                ri += 1
    # "precisely the items it spells out, modifier groups included": a modifier prefix applied to a list held in a variable
    # (S-$v) is the same group as the list written in place, and the items after it still play; twins compared event by event
    vi = 0
    for body in ('S-$hi x 10 y', 'C-S-$hi z', 'x S-$hi 20 C-$hi y', 'S-$hi', 'S-$hi 30 x', 'S-$hi C-x y', 'A-$hi S-(x y) z', 'S-$one x y'):
        for form in ('macro', 'macro-release-cancel'):
            cfgv = '(defvar hi (h i) one (j))\n(defsrc a s)\n(deflayer l0 (%s %s) b)' % (form, body)
            cfgi = '(defsrc a s)\n(deflayer l0 (%s %s) b)' % (form, body.replace('$hi', '(h i)').replace('$one', '(j)'))
            h = ['t3', 'd30', 't150', 'u30', 't100', 'q']
            cases.append({'id': 'c08-var-%d' % vi, 'cfg': cfgv, 'hist': h, 'sub': 'ksim', 'twin_inline': 'c08-var-%d.i' % vi,
                          'tags': {'mode': 'modifier-prefix-on-list-variable'}})
            cases.append({'id': 'c08-var-%d.i' % vi, 'cfg': cfgi, 'hist': h, 'sub': 'ksim', 'tags': {'mode': 'modifier-prefix-on-list-inline'}})
            vi += 1
    return cases


def post(all_results, run_impl, rng, tier, stats):
    """cancel-on-press: another key pressed while the macro is running cancels it - the steps that had not been reached do not play"""
    import gen
    by = {c['id']: it for c, it, mt in all_results}
    out = []
    n = 0
    for c, it, mt in all_results:
        cc = c.get('cancel')
        if not cc or not it or cc['last_key'] not in gen.KEYCODES or cc['repeat']:
            continue
        code = gen.KEYCODES[cc['last_key']]
        base = by.get(cc['base']) or []
        t_last = [int(l.split(' ')[0][1:].rstrip('+')) for l in base if l.startswith('@') and ('d%d' % code) in l.split(' ')[1:]]
        if not t_last:
            continue
        n += 1
        # the cancelling press arrives at input time `off` and is handled in the following tick
        # (a key pressed in the first millisecond or two arrives before the macro's own press has been dequeued: not yet running)
        if cc['off'] >= 2 and cc['off'] + 2 < t_last[0] and any(l.startswith('@') and ('d%d' % code) in l.split(' ')[1:] for l in it):
            out.append((c, it, mt, 'a key pressed %d ms after the macro started (its last key would go down at tick %d) did not cancel it: '
                                   'the last key %s was still played' % (cc['off'], t_last[0], cc['last_key'])))
    stats['cancel_window_judged'] = n
    nt = 0
    for c, it, mt in all_results:
        tw = c.get('twin_inline')
        if not tw:
            continue
        other = by.get(tw)
        nt += 1
        a = [l for l in (it or []) if l.startswith(('@', 'PARSE'))]
        b = [l for l in (other or []) if l.startswith(('@', 'PARSE'))]
        if a != b:
            k = 0
            while k < min(len(a), len(b)) and a[k] == b[k]:
                k += 1
            out.append((c, it, mt, 'a macro with a modifier prefix on a list variable plays differently from the same macro with the list '
                                   'written in place: with the variable [%s], in place [%s]' % (a[k][:80] if k < len(a) else '<end>', b[k][:80] if k < len(b) else '<end>')))
    stats['variable_twins'] = nt
    return out


def oracle(c, it):
    """when the macro has finished or was cancelled and every physical key is up, every key and button it pressed is released"""
    if not c.get('settled') or not it or it[0].startswith('PARSE-') or any(l.startswith(('PANIC', 'ABORT', 'HANG')) for l in it):
        return None
    if any(l.startswith('INFO lostcr=') and not l.startswith('INFO lostcr=0') for l in it):
        return None     # two custom releases in one tick: finding custom-release-lost (recorded under C01)
    if c['sub'] == 'lsim':
        last = [l for l in it if l.startswith('@') and ' K' in l]
        if last:
            keys = last[-1].split(' K', 1)[1].split(' C ')[0].split()
            if keys:
                return 'all keys released and 900 quiet ticks later the layout still holds keys %s' % keys
        return None
    down, btn = [], []
    for l in it:
        if l.startswith('@'):
            for ev in l.split(' ')[1:]:
                if len(ev) > 1 and ev[0] in 'du' and ev[1:].isdigit():
                    k = int(ev[1:])
                    if ev[0] == 'd' and k not in down:
                        down.append(k)
                    elif ev[0] == 'u' and k in down:
                        down.remove(k)
                elif len(ev) == 3 and ev[0] == 'b' and ev[1] in 'du':
                    if ev[1] == 'd' and ev[2] not in btn:
                        btn.append(ev[2])
                    elif ev[1] == 'u' and ev[2] in btn:
                        btn.remove(ev[2])
    if down or btn:
        return 'macro finished / cancelled and every physical key up, yet keys %s buttons %s stay pressed at the OS' % (down, btn)
    if 'quiet_from' in c:
        late = [l for l in it if l.startswith('@') and int(l.split(' ')[0][1:].rstrip('+')) > c['quiet_from']]
        if late:
            return 'the repeating macro still produces output after its key was let go (tick %d on): %s' % (c['quiet_from'], late[0][:60])
    return None


SPEC = {
    'oracle': oracle,
    'post': post,
    'id': 'C08', 'sub': 'lsim', 'gen_cases': gen_cases, 'nontrivial': trace_has_output,
    'rule': 'random macro bodies (keys, delays, modifier-prefixed groups, nested groups) in every macro variant x histories activating them once, repeatedly, overlapping, >4 concurrently (incl. eviction inside held groups), cancellation of macros with press/release action items at every millisecond' + '; non-trivial = distinct (config, trace) with output',
    'explanation': 'theorems: delay read/countdown, press/release steps, one step per tick, cancel paths clear every macro-held key, repeat only while held',
}
