"""C08 — macros play exactly their key list."""
from checks.common import lsim_cases, trace_has_output


def gen_cases(rng, tier):
    cases = lsim_cases(rng, 'c08', 150 if tier == 'quick' else 4000, 3, nev=(2, 16), tag='c08')
    # more than 4 macros concurrently, cancellation at different step indices
    import gen
    for i in range(10 if tier == 'quick' else 200):
        src = gen.SRC_POOL[:7]
        acts = []
        for j in range(6):
            g = gen.CfgGen(rng, 'c08')
            variant = rng.choice(['macro', 'macro-release-cancel', 'macro-repeat', 'macro-cancel-on-press'])
            acts.append('(%s %s)' % (variant, ' '.join(g.macro_items())))
        acts.append('y')
        cfg = '(defsrc %s)\n(deflayer l0 %s)' % (' '.join(src), ' '.join(acts))
        codes = [gen.KEYCODES[k] for k in src]
        h = []
        for k in rng.sample(codes[:6], rng.randint(3, 6)):
            h += ['p0,%d' % k, 't%d' % rng.choice([0, 1, 2, 3])]
            if rng.random() < 0.7:
                h += ['r0,%d' % k, 't%d' % rng.choice([0, 1, 5])]
        for k in codes:
            h += ['r0,%d' % k]
        h += ['t%d' % rng.choice([3, 40, 400])]
        cases.append({'id': 'c08-conc-%d' % i, 'cfg': cfg, 'hist': h, 'sub': 'lsim', 'tags': {'mode': 'concurrent'}})
    # kanata-level cancel paths (release-cancel, cancel-on-press and their window, repeat variants), macros started
    # without a physical press (virtual key tapped on release, hold action of a tap-hold)
    for i in range(160 if tier == 'quick' else 4000):
        g = gen.CfgGen(rng, 'c08')
        src = gen.SRC_POOL[:6]
        variants = ['macro', 'macro-release-cancel', 'macro-cancel-on-press', 'macro-release-cancel-and-cancel-on-press',
                    'macro-repeat', 'macro-repeat-release-cancel', 'macro-repeat-cancel-on-press',
                    'macro-repeat-release-cancel-and-cancel-on-press']
        acts = ['(%s %s)' % (rng.choice(variants), ' '.join(g.macro_items())) for _ in range(3)]
        acts.append(rng.choice(['(on-release tap-vkey v0)', '(on-press tap-vkey v0)', '(tap-hold 20 20 x (macro %s))' % ' '.join(g.macro_items())]))
        acts.append(rng.choice(['y', 'lsft', '(layer-while-held l1)']))
        acts.append('z')
        cfg = '(defsrc %s)\n(deflayer l0 %s)\n(deflayer l1 %s)\n(defvirtualkeys v0 (macro %s))' % (
            ' '.join(src), ' '.join(acts), ' '.join(['_'] * 6), ' '.join(g.macro_items()))
        codes = [gen.KEYCODES[k] for k in src]
        if i % 2 == 0:
            # schedule around the cancel-on-press window: a cancellable macro is started and released early, another macro is
            # started without a physical press, then some key is pressed while that one runs
            long_body = ' '.join(rng.choice(['x', 'y', '50', '100', '200', 'S-(z x)', '(unicode r)']) for _ in range(rng.randint(3, 6)))
            acts[0] = '(%s %s)' % (rng.choice(['macro-release-cancel-and-cancel-on-press', 'macro-repeat-release-cancel-and-cancel-on-press', 'macro-cancel-on-press']), long_body)
            acts[3] = rng.choice(['(on-release tap-vkey v0)', '(on-press tap-vkey v0)'])
            cfg = '(defsrc %s)\n(deflayer l0 %s)\n(deflayer l1 %s)\n(defvirtualkeys v0 (macro %s))' % (
                ' '.join(src), ' '.join(acts), ' '.join(['_'] * 6),
                ' '.join(rng.choice(['b', 'n', '50', '100', 'm']) for _ in range(rng.randint(2, 5))))
            a, b, z = codes[0], codes[3], codes[5]
            gap = lambda: 't%d' % rng.choice([1, 3, 10, 30, 80, 200])
            h = ['d%d' % b, gap(), 'd%d' % a, gap(), 'u%d' % a, gap(), 'u%d' % b, gap(), 'd%d' % z, gap(), 'u%d' % z, 't700', 'q']
            if rng.random() < 0.3:
                h = ['d%d' % a, gap(), 'u%d' % a, gap(), 'd%d' % b, gap(), 'u%d' % b, gap(), 'd%d' % z, gap(), 'u%d' % z, 't700', 'q']
            cases.append({'id': 'c08-k-%d' % i, 'cfg': cfg, 'hist': h, 'sub': 'ksim', 'tags': {'mode': 'kanata-cancel-window'}})
            continue
        h = []
        down = []
        for _ in range(rng.randint(4, 14)):
            if down and rng.random() < 0.45:
                k = down.pop(rng.randrange(len(down)))
                h.append('u%d' % k)
            else:
                k = rng.choice(codes)
                if k not in down:
                    down.append(k)
                    h.append('d%d' % k)
            h.append('t%d' % rng.choice([1, 2, 5, 10, 30, 120]))
        h += ['u%d' % k for k in down] + ['t%d' % rng.choice([50, 600]), 'q']
        cases.append({'id': 'c08-k-%d' % i, 'cfg': cfg, 'hist': h, 'sub': 'ksim', 'tags': {'mode': 'kanata-cancel'}})
    return cases


SPEC = {
    'id': 'C08', 'sub': 'lsim', 'gen_cases': gen_cases, 'nontrivial': trace_has_output,
    'rule': 'random macro bodies (keys, delays, modifier-prefixed groups, nested groups) in every macro variant x histories activating them once, repeatedly, overlapping, >4 concurrently' + '; non-trivial = distinct (config, trace) with output',
    'explanation': 'theorems: delay read/countdown, press/release steps, one step per tick, cancel paths clear every macro-held key, repeat only while held',
}
