"""C09 — input chords (defchords) fire for exactly the pressed set."""
from checks.common import lsim_cases, trace_has_output
import itertools, random

V2KEYS = {'a': 30, 's': 31, 'd': 32, 'f': 33, 'g': 34, 'h': 35}
ACT = {str(i): ('U%d' % ord(str(i))) for i in range(1, 7)}      # chord actions: (unicode <digit>), a non-idempotent output nothing else produces
BASEOUT = {30: 30, 31: 31, 32: 32, 33: 33, 34: 34, 35: 35}


def v2_case(rng, i):
    """defchordsv2 (not modelled): scenarios whose outcome the property text fixes, checked on the real output"""
    keys = list(V2KEYS)
    nch = rng.randint(1, 4)
    chords = []
    for _ in range(20):
        if len(chords) >= nch:
            break
        if chords and rng.random() < 0.5:
            base = rng.choice(chords)[0]
            extra = [k for k in keys if k not in base]
            ks = tuple(sorted(base + (rng.choice(extra),))) if extra else None
        else:
            ks = tuple(sorted(rng.sample(keys, rng.randint(2, 3))))
        if ks and ks not in [c[0] for c in chords]:
            chords.append((ks, str(len(chords) + 1), rng.choice([40, 100]), rng.choice(['first-release', 'all-released']),
                           rng.choice([(), (), ('base',), ('other',)])))
    cfg = '(defcfg concurrent-tap-hold yes)\n(defsrc a s d f g h j)\n(deflayer base a s d f g h (layer-while-held other))\n(deflayer other a s d f g h _)\n' \
          '(defchordsv2 %s)' % ' '.join('(%s) (unicode %s) %d %s (%s)' % (' '.join(c[0]), c[1], c[2], c[3], ' '.join(c[4])) for c in chords)
    target = rng.choice(chords)
    layer = rng.choice(['base', 'base', 'other'])
    h = ['t5']
    if layer == 'other':
        h += ['d36', 't300']          # hold the layer key long enough to be past any chord timeout
    order = list(target[0]); rng.shuffle(order)
    kind = rng.choice(['exact', 'exact', 'abort'])
    burst = rng.random() < 0.3      # presses (and the first release) arrive within one tick, as in a fast roll
    for k in order:
        h += ['d%d' % V2KEYS[k]] + ([] if burst else ['t%d' % rng.randint(1, 8)])
    if burst and rng.random() < 0.7:
        h += ['u%d' % V2KEYS[order[0]], 'd%d' % V2KEYS[order[0]]] if False else ['u%d' % V2KEYS[order[0]]]
        burst_released = order[0]
    else:
        burst_released = None
    extra = None
    if kind == 'abort' and burst_released is None:
        cand = [k for k in keys if k not in target[0] and not any(set(target[0]) | {k} <= set(c[0]) for c in chords)]
        if cand:
            extra = rng.choice(cand)
            h += ['d%d' % V2KEYS[extra], 't%d' % rng.randint(1, 5)]
        else:
            kind = 'exact'
    elif kind == 'abort':
        kind = 'exact'
    h += ['t%d' % 150]
    rel = [k for k in order if k != burst_released] + ([extra] if extra else [])
    rng.shuffle(rel)
    for k in rel:
        h += ['u%d' % V2KEYS[k], 't3']
    if layer == 'other':
        h += ['u36']
    h += ['t300', 'q']
    return {'id': 'c09-v2-%d' % i, 'cfg': cfg, 'hist': h, 'sub': 'ksim',
            'v2': {'chords': chords, 'target': target, 'layer': layer, 'kind': kind, 'extra': extra},
            'tags': {'mode': 'chords-v2', 'scenario': kind, 'layer': layer, 'burst': burst}}


def oracle(c, it):
    if 'v2rel' in c and it and not it[0].startswith('PARSE-'):
        return oracle_release(c, it)
    if 'v2' not in c or not it or it[0].startswith('PARSE-'):
        return None
    v = c['v2']
    evs = [e for l in it if l.startswith('@') for e in l.split(' ')[1:]]
    presses = [int(e[1:]) for e in evs if e[0] == 'd' and e[1:].isdigit()] + [e for e in evs if e[0] == 'U']
    disabled_here = [ch for ch in v['chords'] if v['layer'] in ch[4]]
    for ch in disabled_here:
        if ACT[ch[1]] in presses:
            return 'chord (%s) is disabled on layer %s but its action fired' % (' '.join(ch[0]), v['layer'])
    tgt = v['target']
    enabled = v['layer'] not in tgt[4]
    # is the target a strict sub-chord of another enabled chord? then the extra key / timeout decide; only the clear cases are judged
    supers = [ch for ch in v['chords'] if set(tgt[0]) < set(ch[0]) and v['layer'] not in ch[4]]
    if v['kind'] == 'exact':
        if enabled:
            if presses.count(ACT[tgt[1]]) != 1:
                return 'exactly the keys of chord (%s) were pressed together but its action fired %d times' % (' '.join(tgt[0]), presses.count(ACT[tgt[1]]))
            own = [p for p in presses if p in [V2KEYS[k] for k in tgt[0]]]
            if own:
                return 'participants of the fired chord were also delivered: %s' % own
        elif not any(v['layer'] not in ch[4] and set(ch[0]) <= set(tgt[0]) for ch in v['chords']):
            want = sorted(V2KEYS[k] for k in tgt[0])
            if sorted(p for p in presses if p in BASEOUT) != want:
                return 'chord disabled here: its keys should be delivered individually, saw presses %s' % presses
    return None


RELOUT = {'1': 44, '2': 45, '3': 46, '4': 47}     # chord actions of the release scenarios: plain keys z x c v


def v2_release_case(rng, i):
    """defchordsv2 release rule: the chord's key goes up at the first participant release (first-release) or at the last one
    (all-released), never earlier - in particular not when some other key is released - and never later"""
    keys = list(V2KEYS)
    chords = []
    for _ in range(rng.randint(1, 3)):
        ks = tuple(sorted(rng.sample(keys, rng.randint(2, 3))))
        if ks not in [c[0] for c in chords] and not any(set(ks) < set(c[0]) or set(c[0]) < set(ks) for c in chords):
            chords.append((ks, str(len(chords) + 1), rng.choice([40, 100]), rng.choice(['first-release', 'all-released']), ()))
    cfg = '(defcfg concurrent-tap-hold yes%s)\n(defsrc a s d f g h k l)\n(deflayer base a s d f g h k l)\n' \
          '(defchordsv2 %s)' % (rng.choice(['', '', ' chords-v2-min-idle 30']),
                               ' '.join('(%s) %s %d %s ()' % (' '.join(c[0]), 'zxcv'[int(c[1]) - 1], c[2], c[3]) for c in chords))
    tgt = rng.choice(chords)
    h = ['t200']
    by = rng.choice([None, 37, 38, 37])         # a bystander key (never a participant) held from before the chord
    if by:
        h += ['d%d' % by, 't%d' % rng.choice([100, 300])]
    order = list(tgt[0]); rng.shuffle(order)
    for k in order:
        h += ['d%d' % V2KEYS[k], 't%d' % rng.randint(1, 6)]
    h += ['t%d' % rng.choice([20, 150])]
    steps = [('p', k) for k in order]
    rng.shuffle(steps)
    if by:
        steps.insert(rng.randint(0, len(steps)), ('b', by))
    else:
        # or a bystander tapped while the chord is held
        steps.insert(rng.randint(0, len(steps)), ('t', rng.choice([37, 38])))
    for kind, k in steps:
        if kind == 'p':
            h += ['u%d' % V2KEYS[k]]
        elif kind == 'b':
            h += ['u%d' % k]
        else:
            h += ['d%d' % k, 't%d' % rng.choice([3, 60]), 'u%d' % k]
        h += ['t%d' % rng.choice([12, 40, 90])]
    h += ['t300', 'q']
    return {'id': 'c09-v2rel-%d' % i, 'cfg': cfg, 'hist': h, 'sub': 'ksim',
            'v2rel': {'target': tgt, 'out': RELOUT[tgt[1]]},
            'tags': {'mode': 'chords-v2-release', 'rule': tgt[3], 'bystander': 'held' if by else 'tapped'}}


def oracle_release(c, it):
    v = c['v2rel']
    tgt = v['target']
    part = [V2KEYS[k] for k in tgt[0]]
    now = 0
    rel_times = []
    for t in c['hist']:
        if t[0] == 't':
            now += int(t[1:])
        elif t[0] == 'u' and int(t[1:]) in part:
            rel_times.append(now)
    downs, ups = [], []
    for l in it:
        if l.startswith('@'):
            tick = int(l.split(' ')[0][1:].rstrip('+'))
            for e in l.split(' ')[1:]:
                if e == 'd%d' % v['out']:
                    downs.append(tick)
                elif e == 'u%d' % v['out']:
                    ups.append(tick)
    if len(downs) != 1 or len(ups) != 1:
        return 'chord (%s) pressed together and then released: its key %d went down %d times and up %d times' % (
            ' '.join(tgt[0]), v['out'], len(downs), len(ups))
    want = rel_times[0] if tgt[3] == 'first-release' else rel_times[-1]
    if not (want <= ups[0] <= want + 12):
        return '%s chord (%s): its key went up at tick %d, the deciding participant release was at tick %d (participant releases at %s)' % (
            tgt[3], ' '.join(tgt[0]), ups[0], want, rel_times)
    return None


def v2_random_case(rng, i):
    """chords v2 under random typing: compared with the model; the oracle only checks that disabled chords stay silent"""
    import gen
    keys = list(V2KEYS)
    chords = []
    for _ in range(rng.randint(1, 5)):
        ks = tuple(sorted(rng.sample(keys, rng.randint(2, 4))))
        if ks not in [c[0] for c in chords]:
            chords.append((ks, str(len(chords) + 1), rng.choice([5, 30, 100]), rng.choice(['first-release', 'all-released']),
                           rng.choice([(), (), ('base',), ('other',)])))
    base = [rng.choice([k, k, '(tap-hold 0 %d %s lsft)' % (rng.choice([20, 100]), k), '(one-shot 50 lctl)', 'XX']) for k in keys]
    cfg = '(defcfg concurrent-tap-hold yes%s)\n(defsrc a s d f g h j)\n(deflayer base %s (layer-while-held other))\n(deflayer other a s d f g h _)\n' \
          '(defchordsv2 %s)' % (rng.choice(['', ' chords-v2-min-idle 5', ' chords-v2-min-idle 50']), ' '.join(base),
                               ' '.join('(%s) (unicode %s) %d %s (%s)' % (' '.join(c[0]), c[1], c[2], c[3], ' '.join(c[4])) for c in chords))
    h = ['t3']
    down = []
    pool = [V2KEYS[k] for k in keys] + [36]
    for _ in range(rng.randint(4, 18)):
        if down and rng.random() < 0.45:
            k = down.pop(rng.randrange(len(down)))
            h.append('u%d' % k)
        else:
            k = rng.choice(pool)
            if k not in down:
                down.append(k); h.append('d%d' % k)
        if rng.random() < 0.75:
            h.append('t%d' % rng.choice([1, 1, 2, 4, 10, 40, 120]))
    h += ['u%d' % k for k in down] + ['t300', 'q']
    layer_known = 36 not in [int(t[1:]) for t in h if t[0] == 'd']
    return {'id': 'c09-v2r-%d' % i, 'cfg': cfg, 'hist': h, 'sub': 'ksim',
            'v2': {'chords': chords, 'target': chords[0], 'layer': 'base' if layer_known else '?', 'kind': 'random', 'extra': None},
            'tags': {'mode': 'chords-v2-random', 'nchords': len(chords)}}


def v2_release_same_ms_case(i, tier):
    """defchordsv2: the chord completes early in its timeout and all participants (or several of them) are let go within one
    millisecond, so that as many events arrive as the chord consumed: the chord's key must still go up with the deciding release,
    not when the old timeout would have ended.  Deterministic shapes with their own random stream."""
    rng = random.Random(9241 * i + (0 if tier == 'quick' else 500009))
    ks = [('a', 's'), ('d', 'f'), ('a', 's', 'd'), ('f', 'g', 'h')][i % 4]
    rule = ['all-released', 'first-release'][(i // 4) % 2]
    timeout = [120, 200, 400][(i // 8) % 3]
    tgt = (ks, '1', timeout, rule, ())
    cfg = ('(defcfg concurrent-tap-hold yes)\n(defsrc a s d f g h k l)\n(deflayer base a s d f g h k l)\n'
           '(defchordsv2 (%s) z %d %s ())' % (' '.join(ks), timeout, rule))
    h = ['t200']
    order = list(ks); rng.shuffle(order)
    for j, k in enumerate(order):
        h += ['d%d' % V2KEYS[k]] + (['t%d' % rng.choice([1, 20, 50])] if j + 1 < len(order) else [])
    h += ['t%d' % rng.choice([1, 2, 10])]
    rel = list(ks); rng.shuffle(rel)
    for k in rel:
        h += ['u%d' % V2KEYS[k]]           # no time passes between the releases
    h += ['t%d' % (timeout + 300), 'q']
    return {'id': 'c09-v2relsame-%d' % i, 'cfg': cfg, 'hist': h, 'sub': 'ksim',
            'v2rel': {'target': tgt, 'out': RELOUT['1']},
            'tags': {'mode': 'chords-v2-release-same-ms', 'rule': rule}}


def v2_two_chords_case(rng, i):
    """two disjoint chords held at the same time, let go in activation order or the other way round: each goes up per its own rule"""
    r1, r2 = rng.choice(['first-release', 'all-released']), rng.choice(['first-release', 'all-released'])
    cfg = ('(defcfg concurrent-tap-hold yes)\n(defsrc a s d f g h k l)\n(deflayer base a s d f g h k l)\n'
           '(defchordsv2 (a s) z 50 %s () (d f) x 50 %s () (g h) c 50 all-released ())' % (r1, r2))
    groups = [[30, 31], [32, 33], [34, 35]][:rng.choice([2, 2, 3])]
    h = ['t200']
    for g in groups:
        ks = list(g); rng.shuffle(ks)
        h += ['d%d' % ks[0], 't%d' % rng.randint(1, 5), 'd%d' % ks[1], 't%d' % rng.choice([70, 120])]
    order = list(range(len(groups)))
    if rng.random() < 0.7:
        order.reverse()
    else:
        rng.shuffle(order)
    for gi in order:
        ks = list(groups[gi]); rng.shuffle(ks)
        h += ['u%d' % ks[0], 't%d' % rng.randint(1, 30), 'u%d' % ks[1], 't%d' % rng.choice([5, 80])]
    h += ['t300', 'q']
    return {'id': 'c09-v2two-%d' % i, 'cfg': cfg, 'hist': h, 'sub': 'ksim', 'tags': {'mode': 'chords-v2-two-held', 'n': len(groups)}}


def gen_cases(rng, tier):
    cases = lsim_cases(rng, 'c09', 150 if tier == 'quick' else 4000, 3, nev=(2, 16), tag='c09')
    for i in range(200 if tier == 'quick' else 6000):
        cases.append(v2_case(rng, i))
    for i in range(250 if tier == 'quick' else 8000):
        cases.append(v2_random_case(rng, i))
    for i in range(150 if tier == 'quick' else 4000):
        cases.append(v2_release_case(rng, i))
    for i in range(24 if tier == 'quick' else 600):
        cases.append(v2_two_chords_case(rng, i))
    for i in range(48 if tier == 'quick' else 960):
        cases.append(v2_release_same_ms_case(i, tier))
    # defchords: an undefined set decomposed into defined sub-chords, one of them of two or more keys that contains neither the
    # first key pressed nor the key whose release ended the chord: its action belongs to ITS keys (up when they are up, not before)
    dj = 0
    for T in (60, 150):
        for order in (('a', 'b', 'c'), ('a', 'c', 'b'), ('d', 'b', 'c'), ('a', 'b', 'c', 'd')):
            for ending in ('timeout', 'release-first'):
                cfg = ('(defsrc a b c d)\n(deflayer l0 (chord g a) (chord g b) (chord g c) (chord g d))\n'
                       '(defchords g %d (a) x (b c) y (a d) z (d) 1)' % T)
                K = {'a': 30, 'b': 48, 'c': 46, 'd': 32}
                h = ['t3']
                for k in order:
                    h += ['d%d' % K[k], 't4']
                rest = [k for k in order if k in ('b', 'c')]
                others = [k for k in order if k not in ('b', 'c')]
                if ending == 'timeout':
                    h += ['t%d' % (T + 30)]
                    for k in rest:
                        h += ['u%d' % K[k], 't15']
                    h += ['t60']
                    for k in others:
                        h += ['u%d' % K[k], 't15']
                else:
                    h += ['u%d' % K[others[0]], 't%d' % (T + 60)]
                    for k in others[1:]:
                        h += ['u%d' % K[k], 't15']
                    h += ['t60']
                    for k in rest:
                        h += ['u%d' % K[k], 't15']
                h += ['t%d' % (T + 100), 'q']
                cases.append({'id': 'c09-decomp-%d' % dj, 'cfg': cfg, 'hist': h, 'sub': 'ksim',
                              'tags': {'mode': 'defchords-decomposed-pair', 'ending': ending}})
                dj += 1
    # more than 16 chords that contain the pressed keys (the candidate list of the implementation holds 16): the chord that is
    # exactly the pressed set, written after them, still fires when the timeout passes or a participant is released
    import itertools
    others = ['d', 'f', 'g', 'h', 'j']
    subsets = [c for r in range(1, 6) for c in itertools.combinations(others, r)]
    for i in range(12 if tier == 'quick' else 200):
        n = rng.choice([15, 16, 17, 20, 31])
        sup = rng.sample(subsets, n)
        chords = [('a', 's') + c for c in sup]
        pos = rng.choice([len(chords), len(chords), 0, rng.randint(0, len(chords))])
        chords.insert(pos, ('a', 's'))
        cfg = ('(defcfg concurrent-tap-hold yes)\n(defsrc a s d f g h j k)\n(deflayer base a s d f g h j k)\n(defchordsv2 %s)'
               % ' '.join('(%s) (unicode %s) 60 %s ()' % (' '.join(c), 'abcdefghijklmnopqrstuvwxyzABCDEFGH'[j], rng.choice(['first-release', 'all-released'])) for j, c in enumerate(chords)))
        first, second = rng.sample(['a', 's'], 2)
        h = ['t5', 'd%d' % V2KEYS[first], 't%d' % rng.randint(1, 6), 'd%d' % V2KEYS[second]]
        h += ['t%d' % rng.choice([3, 80]), 'u%d' % V2KEYS[first], 't4', 'u%d' % V2KEYS[second], 't200', 'd37', 't5', 'u37', 't300', 'q']
        cases.append({'id': 'c09-v2cap-%d' % i, 'cfg': cfg, 'hist': h, 'sub': 'ksim', 'tags': {'mode': 'v2-many-supersets', 'nchords': n + 1}})
    return cases


SPEC = {
    'id': 'C09', 'sub': 'lsim', 'gen_cases': gen_cases, 'nontrivial': trace_has_output, 'oracle': oracle,
    'rule': 'random chord groups over 2-4 keys (overlapping, sub-chords, undefined supersets) x consistent histories with gaps around the chord timeout; '
            'defchordsv2 (not modelled): exact-set and abort scenarios on either layer judged on the real output (fires once and consumes its keys when enabled, '
            'never fires where disabled, keys delivered individually then); non-trivial = distinct (config, trace) with output',
    'explanation': 'theorems: pressed set independent of press order (permutation), exact set fires iff no defined strict superset, participants consumed; '
                   'defchordsv2 is outside the model: its scenarios are run on the implementation only and judged by the oracle',
}
