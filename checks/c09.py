"""C09 — input chords (defchords) fire for exactly the pressed set."""
from checks.common import lsim_cases, trace_has_output


def gen_cases(rng, tier):
    cases = lsim_cases(rng, 'c09', 150 if tier == 'quick' else 4000, 3, nev=(2, 16), tag='c09')
    return cases


SPEC = {
    'id': 'C09', 'sub': 'lsim', 'gen_cases': gen_cases, 'nontrivial': trace_has_output,
    'rule': 'random chord groups over 2-4 keys (overlapping, sub-chords, undefined supersets) x consistent histories with gaps around the chord timeout' + '; non-trivial = distinct (config, trace) with output',
    'explanation': 'theorems: pressed set independent of press order (permutation), exact set fires iff no defined strict superset, participants consumed; defchordsv2 not modelled yet (cases with chords v2 are reported unsupported)',
}
