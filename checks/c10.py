"""C10 — switch and fork conditions evaluate exactly as written."""
import itertools, random
import gen
from checks.common import lsim_cases, trace_has_output

KEYS = {'a': 30, 'b': 48, 'c': 46}
ACTION_KEYS = ['1', '2', '3', '4', '5', '6', '7', '8', '9', '0', 'q', 'w', 'e', 'r', 't', 'y', 'u', 'i', 'o', 'p',
               'd', 'f', 'g', 'h', 'j', 'k', 'l', 'z', 'x', 'v']
LAYERS = ['l0', 'l1', 'l2']


# ---- AST: ('k', name) | ('hk', name, rec) | ('lt'|'gt', nth, ms) | ('in', name) | ('hin', name, rec) | ('ly', i) | ('bl', i) | (op, [children])
def to_kanata(e):
    t = e[0]
    if t == 'k':
        return e[1]
    if t == 'hk':
        return '(key-history %s %d)' % (e[1], e[2] + 1)
    if t in ('lt', 'gt'):
        return '(key-timing %d %s %d)' % (e[1] + 1, t, e[2])
    if t == 'in':
        return '(input real %s)' % e[1]
    if t == 'hin':
        return '(input-history real %s %d)' % (e[1], e[2] + 1)
    if t == 'ly':
        return '(layer %s)' % LAYERS[e[1]]
    if t == 'bl':
        return '(base-layer %s)' % LAYERS[e[1]]
    return '(%s %s)' % (t, ' '.join(to_kanata(c) for c in e[1]))


def to_tokens(e):
    t = e[0]
    if t == 'k':
        return ['k', str(KEYS[e[1]])]
    if t == 'hk':
        return ['hk', str(KEYS[e[1]]), str(e[2])]
    if t in ('lt', 'gt'):
        return [t, str(e[1]), str(e[2])]
    if t == 'in':
        return ['in', '0', str(KEYS[e[1]])]
    if t == 'hin':
        return ['hin', '0', str(KEYS[e[1]]), str(e[2])]
    if t in ('ly', 'bl'):
        return [t, str(e[1])]
    out = [t, str(len(e[1]))]
    for c in e[1]:
        out += to_tokens(c)
    return out


def forests(n, leaves):
    """all forests (lists of trees) with exactly n nodes; operators have >= 1 child"""
    if n == 0:
        yield []
        return
    for k in range(1, n + 1):
        for t in trees(k, leaves):
            for rest in forests(n - k, leaves):
                yield [t] + rest


def trees(n, leaves):
    if n == 1:
        for l in leaves:
            yield ('k', l)
        return
    for op in ('or', 'and', 'not'):
        for f in forests(n - 1, leaves):
            if f:
                yield (op, f)


def depth(e):
    return 1 if e[0] not in ('or', 'and', 'not') else 1 + max(depth(c) for c in e[1])


def rand_expr(rng, d, maxd):
    if d >= maxd or rng.random() < 0.35:
        r = rng.random()
        name = rng.choice(list(KEYS))
        if r < 0.4:
            return ('k', name)
        if r < 0.5:
            return ('hk', name, rng.randint(0, 7))
        if r < 0.65:
            return (rng.choice(['lt', 'gt']), rng.randint(0, 7), rng.choice([0, 1, 5, 100, 255, 256, 263, 264, 1000, 2303, 2304, 2431, 2432, 5000, 65535]))
        if r < 0.75:
            return ('in', name)
        if r < 0.85:
            return ('hin', name, rng.randint(0, 7))
        if r < 0.93:
            return ('ly', rng.randint(0, 2))
        return ('bl', rng.randint(0, 2))
    op = rng.choice(['or', 'and', 'not'])
    return (op, [rand_expr(rng, d + 1, maxd) for _ in range(rng.randint(1, 3))])


def env_tokens(keys=(), coords=(), hk=(), hi=(), layers=(0,), default=0):
    t = ['ENV', 'K', str(len(keys))] + [str(k) for k in keys]
    t += ['C', str(len(coords))] + [str(v) for c in coords for v in c]
    t += ['HK', str(len(hk))] + [str(v) for h in hk for v in h]
    t += ['HI', str(len(hi))] + [str(v) for h in hi for v in h]
    t += ['L', str(len(layers))] + [str(l) for l in layers]
    t += ['D', str(default)]
    return t


def mk_case(cid, conds, brks, envs, tags):
    """conds: list of forests (one per switch case)"""
    cases_txt = ' '.join('(%s) %s %s' % (' '.join(to_kanata(e) for e in f), ACTION_KEYS[i], 'break' if b else 'fallthrough')
                         for i, (f, b) in enumerate(zip(conds, brks)))
    cfg = '(defsrc a)\n(deflayer l0 (switch %s))\n(deflayer l1 a)\n(deflayer l2 a)' % cases_txt
    h = ['AST', str(len(conds))]
    for f, b in zip(conds, brks):
        h.append(str(len(f)))
        for e in f:
            h += to_tokens(e)
        h.append('1' if b else '0')
    h.append(';')
    for e in envs:
        h += e
    return {'id': cid, 'cfg': cfg, 'hist': h, 'sub': 'swev', 'tags': tags}


def gen_cases(rng, tier):
    cases = []
    # exhaustive: all forests up to a node bound over 3 key leaves x all 8 assignments
    bound = 5 if tier == 'quick' else 6
    allf = []
    for n in range(0, bound + 1):
        allf += list(forests(n, ['a', 'b', 'c']))
    if tier == 'quick':
        # quick: every forest up to 4 nodes, a seeded sample of the 5-node ones
        small = [f for f in allf if sum(1 for _ in flat(f)) <= 4]
        big = [f for f in allf if sum(1 for _ in flat(f)) == 5]
        allf = small + rng.sample(big, min(len(big), 6000))
    envs8 = [env_tokens(keys=[KEYS[k] for k, on in zip('abc', bits) if on]) for bits in itertools.product([0, 1], repeat=3)]
    per = 30
    for i in range(0, len(allf), per):
        chunk = allf[i:i + per]
        cases.append(mk_case('c10-exh-%d' % i, chunk, [False] * len(chunk), envs8, {'kind': 'exhaustive-shapes', 'ncases': len(chunk)}))
    # random deep expressions with every leaf kind, random environments, break/fallthrough mixes
    nrand = 150 if tier == 'quick' else 4000
    for i in range(nrand):
        nc = rng.randint(1, 8)
        conds = [[rand_expr(rng, 1, rng.choice([2, 4, 8])) for _ in range(rng.randint(0, 3))] for _ in range(nc)]
        brks = [rng.random() < 0.4 for _ in range(nc)]
        envs = []
        for _ in range(12):
            keys = [KEYS[k] for k in KEYS if rng.random() < 0.4]
            coords = [(0, KEYS[k]) for k in KEYS if rng.random() < 0.4]
            hk = [(rng.choice(list(KEYS.values()) + [57]), rng.choice([0, 1, 5, 100, 255, 256, 263, 264, 1000, 2303, 2304, 2431, 2432, 5000, 65535]))
                  for _ in range(rng.randint(0, 8))]
            hi = [(0, rng.choice(list(KEYS.values())), rng.randint(0, 500)) for _ in range(rng.randint(0, 8))]
            layers = [rng.randint(0, 2)] + [0]
            envs.append(env_tokens(keys, coords, hk, hi, layers, rng.randint(0, 2)))
        cases.append(mk_case('c10-rand-%d' % i, conds, brks, envs, {'kind': 'random-deep', 'maxdepth': max([depth(e) for f in conds for e in f] or [0])}))
    # through the whole pipeline (history / timing leaves fed by real ticks), layout level
    cases += lsim_cases(rng, 'c10', 60 if tier == 'quick' else 1500, 3, modes=('consistent',), tag='c10-pipe')
    # fork / switch key leaves: "currently active" whatever keeps the key active - a held physical key, a macro holding it, a pressed
    # virtual key, a pending one-shot, the hold action of a tap-hold - and not active once release-key has let it go
    MECH = {
        'plain': ('lsft', ['d31', 't20'], True),
        'macro-holds-it': ('(macro S-(400))', ['d31', 't5', 'u31', 't20'], True),
        'macro-over': ('(macro S-(20))', ['d31', 't5', 'u31', 't80'], False),
        'virtual-key': ('(on-press press-vkey vk)', ['d31', 't5', 'u31', 't20'], True),
        'one-shot': ('(one-shot 500 lsft)', ['d31', 't5', 'u31', 't20'], True),
        'tap-hold-hold': ('(tap-hold 0 30 z lsft)', ['d31', 't60'], True),
        'tap-hold-tap': ('(tap-hold 0 30 z lsft)', ['d31', 't5', 'u31', 't20'], False),
        'released-by-release-key': ('lsft', ['d31', 't10', 'd32', 't10'], False),
        'none': ('lsft', ['t20'], False),
        'multi': ('(multi lctl lsft)', ['d31', 't20'], True),
    }
    for i in range(60 if tier == 'quick' else 900):
        mech = rng.choice(sorted(MECH))
        act, pre, active = MECH[mech]
        form = rng.choice(['fork', 'switch', 'fork-chord-left', 'fork-chord-right', 'switch-chord'])
        trig = rng.choice(['lsft', 'lsft rsft', 'lalt lsft'])
        # the branches as plain keys, or one of them a defchords key (resolved by a separate parser pass; one group per key, since a
        # position can stand for only one key of a group): x = not active, y = active
        decider = {'fork': '(fork x y (%s))' % trig,
                   'switch': '(switch ((or %s)) y break () x break)' % trig,
                   'fork-chord-left': '(fork (chord gx kx) y (%s))' % trig,
                   'fork-chord-right': '(fork x (chord gy ky) (%s))' % trig,
                   'switch-chord': '(switch ((or %s)) (chord gy ky) break () (chord gx kx) break)' % trig}[form]
        cfg = '(defsrc a s d)\n(deflayer l0 %s %s (release-key lsft))\n(defvirtualkeys vk lsft)%s%s' % (
            decider, act, '\n(defchords gx 20 (kx) x)' if 'gx' in decider else '', '\n(defchords gy 20 (ky) y)' if 'gy' in decider else '')
        h = ['t3'] + pre + ['d30', 't5', 'u30', 't30', 'u31', 'u32', 't600']
        cases.append({'id': 'c10-active-%d' % i, 'cfg': cfg, 'hist': h, 'sub': 'ksim', 'active': active, 'mech': mech,
                      'tags': {'kind': 'active-key-by-' + mech, 'form': form}})
    # key-history / key-timing see every key kanata has output, whatever produced it: a plain key, a one-shot, the hold of a
    # tap-hold, a virtual key, a multi, a macro (deterministic: every mechanism x both leaves x both answers)
    HMECH = {
        'plain': ('lsft', ['d31', 't5', 'u31']),
        'one-shot': ('(one-shot 2000 lsft)', ['d31', 't5', 'u31']),
        'one-shot-release': ('(one-shot-release 2000 lsft)', ['d31', 't5', 'u31']),
        'tap-hold-hold': ('(tap-hold 0 30 z lsft)', ['d31', 't60', 'u31']),
        'virtual-key': ('(on-press tap-vkey vk)', ['d31', 't5', 'u31']),
        'multi': ('(multi lctl lsft)', ['d31', 't5', 'u31']),
        'macro': ('(macro lsft)', ['d31', 't5', 'u31']),
    }
    hj = 0
    for mech in sorted(HMECH):
        act, pre = HMECH[mech]
        for leaf, yes in (('(key-history lsft 1)', True), ('(key-history c 1)', False), ('(key-timing 1 lt 100)', True), ('(key-timing 1 gt 100)', False)):
            cfg = '(defsrc a s d)\n(deflayer l0 (switch (%s) y break () x break) %s c)\n(defvirtualkeys vk lsft)' % (leaf, act)
            h = ['t3', 'd32', 't5', 'u32', 't500'] + pre + ['t10', 'd30', 't5', 'u30', 't2100']
            cases.append({'id': 'c10-hist-%d' % hj, 'cfg': cfg, 'hist': h, 'sub': 'ksim', 'active': yes, 'mech': 'history-after-' + mech,
                          'tags': {'kind': 'key-history-by-' + mech, 'leaf': leaf.split(' ')[0][1:]}})
            hj += 1
    # (input real K): K is active while it is physically held, whatever its action is (key, custom action, layer, macro); a position
    # whose action leaves no state behind (XX) is not visible to kanata as held and is not judged
    j = 0
    for kind, act in [('key', 'b'), ('mouse-button', 'mlft'), ('layer', '(layer-while-held l0)'), ('repeating-macro', '(macro-repeat z 50)'),
                      ('wheel', '(mwheel-up 50 120)'), ('unmod', '(unmod c)'), ('tap-hold', '(tap-hold 0 20 c d)'),
                      ('one-shot', '(one-shot 500 lalt)'), ('caps-word', '(caps-word 500)')]:
        for held in (True, False):
            if kind == 'one-shot' and not held:
                continue          # a tapped one-shot key keeps its state, at its position, until the one-shot ends: not judged
            cfg = '(defsrc a s d)\n(deflayer l0 (switch ((input real s)) y break () x break) %s n)' % act
            h = ['t3'] + (['d31', 't40'] if held else ['d31', 't10', 'u31', 't30']) + ['d30', 't5', 'u30', 't30', 'u31', 't600']
            cases.append({'id': 'c10-inputreal-%d' % j, 'cfg': cfg, 'hist': h, 'sub': 'ksim', 'active': held, 'mech': 'input-real-' + kind,
                          'tags': {'kind': 'input-real-by-' + kind, 'form': 'switch'}})
            j += 1
    # input-history leaves in a configuration that also has a defchordsv2 block over other keys (presses then travel through the chord
    # queue before they reach the layout: the history must be the same)
    for ci in range(12 if tier == 'quick' else 200):
        R = rng.choice([1, 2, 3])
        who = rng.choice(['s', 'd'])
        cfg = ('(defcfg concurrent-tap-hold yes)\n(defsrc a s d f g)\n(deflayer l0 (switch ((input-history real %s %d)) y break () x break) b c f g)\n'
               '(defchordsv2 (f g) esc 50 all-released ())' % (who, R))
        h = ['t3']
        for _ in range(rng.randint(1, 4)):
            kk = rng.choice([31, 32])
            h += ['d%d' % kk, 't%d' % rng.choice([3, 60]), 'u%d' % kk, 't%d' % rng.choice([3, 70])]
        h += ['d30', 't5', 'u30', 't100']
        cases.append({'id': 'c10-ihchv2-%d' % ci, 'cfg': cfg, 'hist': h, 'sub': 'ksim', 'tags': {'kind': 'input-history-with-chords-v2'}})
        cases.append({'id': 'c10-ihplain-%d' % ci, 'cfg': cfg.replace('\n(defchordsv2 (f g) esc 50 all-released ())', ''), 'hist': h, 'sub': 'ksim',
                      'ih_twin': 'c10-ihchv2-%d' % ci, 'tags': {'kind': 'input-history-plain-twin'}})
    # key-timing on an older key after many keys have been typed (the history keeps 8; every entry ages, also after the ring has wrapped)
    for n in range(1, 21):
        for R in (1, 2, 3, 8):
            cfg = ('(defsrc a s d)\n(deflayer l0 (switch ((key-timing %d gt 500)) y break ((key-timing %d lt 500)) x break () z break) b c)' % (R, R))
            h = ['t3']
            for q in range(n):
                k = (31, 32)[q % 2]
                h += ['d%d' % k, 't4', 'u%d' % k, 't6']
            h += ['t%d' % rng.choice([300, 1000]), 'd30', 't5', 'u30', 't50']
            cases.append({'id': 'c10-ktdepth-%d-%d' % (n, R), 'cfg': cfg, 'hist': h, 'sub': 'ksim', 'tags': {'kind': 'key-timing-after-n-keys', 'n': n}})
    # key-timing thresholds and the processing loop: the loop may not sleep before the largest threshold of the configuration has
    # passed since the last key (the key-history clock only runs with ticks); thresholds in both orders, gaps around them
    from checks.common import loop_pairs
    lp = []
    for i in range(30 if tier == 'quick' else 500):
        big, small = rng.choice([300, 1000, 2500]), rng.choice([20, 100])
        first, second = (big, small) if rng.random() < 0.6 else (small, big)
        cfg = ('(defsrc a s)\n(deflayer l0 b (switch ((key-timing 1 gt %d)) x break ((key-timing 1 lt %d)) y break () z break))' % (first, second))
        h = ['t3']
        for _ in range(rng.randint(1, 3)):
            h += ['d30', 't3', 'u30', 't%d' % rng.choice([10, small - 1, small + 5, big - 1, big + 50, 3 * big]), 'd31', 't3', 'u31', 't20']
        lp.append({'id': 'c10-timing-%d' % i, 'cfg': cfg, 'hist': h, 'sub': 'ksim', 'tags': {'kind': 'key-timing-loop', 'order': 'big-first' if first == big else 'small-first'}})
    cases += loop_pairs(lp)
    return cases


def post(all_results, run_impl, rng, tier, stats):
    from checks.common import loop_pair_violations
    out = loop_pair_violations(all_results)
    # input-history: the same history with and without an unrelated defchordsv2 block gives the same key presses
    import re
    by = {c['id']: (c, it) for c, it, mt in all_results}
    n = 0
    for cid, (c, it) in by.items():
        if 'ih_twin' not in c or c['ih_twin'] not in by or not it:
            continue
        o = by[c['ih_twin']]
        ev = lambda tr: [e for l in (tr or []) if l.startswith('@') for e in l.split()[1:] if re.fullmatch(r'd\d+', e)]
        n += 1
        if ev(it) != ev(o[1]):
            out.append((o[0], o[1], None, 'the input-history case fires differently when an unrelated defchordsv2 block is present: presses %s '
                                          'with it, %s without' % (ev(o[1]), ev(it))))
    stats['input_history_twins'] = n
    return out


def flat(f):
    for e in f:
        yield e
        if e[0] in ('or', 'and', 'not'):
            yield from flat(e[1])


def nontrivial(case, it):
    if case.get('sub') == 'swev':
        return bool(it) and any(l.startswith('EV') and l.split(':')[1].strip() for l in it)
    return trace_has_output(case, it)


def oracle(case, it):
    """spec oracle for swev cases: python evaluation of the written condition vs the implementation's answer"""
    if 'active' in case and it and not it[0].startswith('PARSE-'):
        evs = [e for l in it if l.startswith('@') for e in l.split(' ')[1:]]
        x, y = evs.count('d45'), evs.count('d21')
        want = 'y' if case['active'] else 'x'
        if (x, y) != ((0, 1) if case['active'] else (1, 0)):
            return 'trigger key %s (%s) when the deciding key was pressed: expected %s, saw x pressed %d times and y %d times' % (
                'active' if case['active'] else 'not active', case['mech'], want, x, y)
        return None
    if case.get('sub') != 'swev' or not it:
        return None
    h = case['hist']
    # re-parse AST and ENV from tokens
    pos = [0]

    def nxt():
        v = h[pos[0]]
        pos[0] += 1
        return v

    def rd():
        t = nxt()
        if t == 'k':
            return ('k', int(nxt()))
        if t == 'hk':
            return ('hk', int(nxt()), int(nxt()))
        if t in ('lt', 'gt'):
            return (t, int(nxt()), int(nxt()))
        if t == 'in':
            return ('in', int(nxt()), int(nxt()))
        if t == 'hin':
            return ('hin', int(nxt()), int(nxt()), int(nxt()))
        if t in ('ly', 'bl'):
            return (t, int(nxt()))
        n = int(nxt())
        return (t, [rd() for _ in range(n)])
    assert nxt() == 'AST'
    nc = int(nxt())
    conds = []
    for _ in range(nc):
        ni = int(nxt())
        items = [rd() for _ in range(ni)]
        brk = nxt() == '1'
        conds.append((items, brk))
    assert nxt() == ';'
    envs = []
    while pos[0] < len(h):
        assert nxt() == 'ENV'
        env = {}
        assert nxt() == 'K'; n = int(nxt()); env['keys'] = [int(nxt()) for _ in range(n)]
        assert nxt() == 'C'; n = int(nxt()); env['coords'] = [(int(nxt()), int(nxt())) for _ in range(n)]
        assert nxt() == 'HK'; n = int(nxt()); env['hk'] = [(int(nxt()), int(nxt())) for _ in range(n)]
        assert nxt() == 'HI'; n = int(nxt()); env['hi'] = [(int(nxt()), int(nxt()), int(nxt())) for _ in range(n)]
        assert nxt() == 'L'; n = int(nxt()); env['layers'] = [int(nxt()) for _ in range(n)]
        assert nxt() == 'D'; env['default'] = int(nxt())
        envs.append(env)

    def thr(t):
        c = t if t <= 255 else ((t - 255) // 8 + 255 if t <= 2303 else (t - 2303) // 128 + 511)
        return c if c <= 255 else ((c - 255) * 8 + 255 if c <= 511 else (c - 511) * 128 + 2303)

    def ev(e, env):
        t = e[0]
        if t == 'k':
            return e[1] in env['keys']
        if t == 'hk':
            return e[2] < len(env['hk']) and env['hk'][e[2]][0] == e[1]
        if t == 'lt':
            return e[1] < len(env['hk']) and env['hk'][e[1]][1] <= thr(e[2])
        if t == 'gt':
            return e[1] < len(env['hk']) and env['hk'][e[1]][1] > thr(e[2])
        if t == 'in':
            return (e[1], e[2]) in env['coords']
        if t == 'hin':
            return e[3] < len(env['hi']) and env['hi'][e[3]][:2] == (e[1], e[2])
        if t == 'ly':
            return bool(env['layers']) and env['layers'][0] == e[1]
        if t == 'bl':
            return env['default'] == e[1]
        vals = [ev(c, env) for c in e[1]]
        return any(vals) if t == 'or' else all(vals) if t == 'and' else not any(vals)
    evl = [l for l in it if l.startswith('EV ')]
    for j, env in enumerate(envs):
        want = []
        for i, (items, brk) in enumerate(conds):
            if (not items) or any(ev(e, env) for e in items):
                want.append(str(i))
                if brk:
                    break
        got = evl[j].split(':', 1)[1].split() if j < len(evl) else ['<missing>']
        if got != want:
            return 'environment %d: written conditions fire cases %s, implementation fired %s' % (j, want, got)
    return None


SPEC = {
    'post': post,
    'id': 'C10',
    'sub': 'swev',
    'gen_cases': gen_cases,
    'nontrivial': nontrivial,
    'oracle': oracle,
    'rule': 'exhaustive: every forest of and/or/not over 3 key leaves up to the node bound (quick: all <=4 nodes + a sample of 5; thorough: all <=6) '
            'x all 8 truth assignments; random: expressions to depth 8 over every leaf kind incl. key-timing at the compression break points, '
            'case lists with break/fallthrough; pipeline: random switch/fork configs at layout level; fork and switch key leaves with the key kept active by each mechanism (held, macro, virtual key, one-shot, tap-hold hold, multi) or let go (release-key, expired); non-trivial = some case fires / some output',
    'explanation': 'C10_eval_correct is proved for all forests and all environments; the correspondence ties compile (parser) and evaluate '
                   '(keyberon) to the model on opcodes and fired cases; the python oracle evaluates the written condition independently',
}
