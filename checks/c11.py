"""C11 — key identity.  Proof by computation over tables regenerated from the source (translator),
plus correspondence: the regenerated tables/model functions vs the compiled crates (from_u16, as_u16,
both transmutes, str_to_oscode for every listed name and for unknown names) and the identity pipeline
(every known code through a self-mapped / transparent / unmapped configuration)."""
import os, re, time, random, subprocess, hashlib
import kvlib

PID = 'C11'


def read_names():
    txt = open(os.path.join(kvlib.COQ, 'theories', 'Gen', 'KeyTables.v'), encoding='utf-8').read()
    names = []
    for tbl in ('default_key_names', 'match_key_names'):
        m = re.search(r'Definition ' + tbl + r' : list \(string \* string\) := \[(.*?)\n\]\.', txt, re.S)
        for a, b in re.findall(r'\("((?:[^"]|"")*)", "((?:[^"]|"")*)"\)', m.group(1)):
            names.append((a.replace('""', '"'), b))
    fu = re.search(r'Definition from_u16_linux_tbl : list \(N \* string\) := \[(.*?)\n\]\.', txt, re.S)
    codes = [(int(c), v) for c, v in re.findall(r'\((\d+)%N, "([^"]*)"\)', fu.group(1))]
    imin = int(re.search(r'KEY_IGNORE_MIN : N := (\d+)', txt).group(1))
    imax = int(re.search(r'KEY_IGNORE_MAX : N := (\d+)', txt).group(1))
    return names, codes, imin, imax


def run(tier, seed):
    t0 = time.time()
    broken, viol_lines = [], []
    n_thm, ass, tinfo = 0, [], {}
    coq_ok = False
    try:
        tinfo = kvlib.translator()
        kvlib.coq_make()
        bad = kvlib.scan_forbidden()
        if bad:
            raise kvlib.BuildBroken('forbidden-construct', '\n'.join(bad))
        n_thm, ass = kvlib.coq_props(PID)
        coq_ok = True
    except kvlib.BuildBroken as e:
        broken.append((e.what, e.detail))
    harness_ok = False
    try:
        kvlib.build_harness()
        harness_ok = True
        if coq_ok:
            kvlib.build_driver()
    except kvlib.BuildBroken as e:
        broken.append((e.what, e.detail))
    if tier == 'thorough' and coq_ok:
        rc, out = kvlib.sh(['coqchk', '-silent', '-o', '-Q', 'theories', 'KV', 'KV.Props.' + PID], cwd=kvlib.COQ, timeout=3000)
        if rc != 0:
            broken.append(('theorem:coqchk', out[-2000:]))
    rng = random.Random(seed)
    evals = 0
    nontriv = set()
    samples = []
    mism = []        # (query, impl, model)
    oracle = []      # (description, replay text)
    if harness_ok:
        # ---- tables: model functions vs compiled code
        names, codes, imin, imax = read_names() if os.path.exists(os.path.join(kvlib.COQ, 'theories', 'Gen', 'KeyTables.v')) else ([], [], 676, 685)
        qs = ['F %d' % c for c in range(0, 1024)]
        allnames = sorted(set(n for n, _ in names))
        unknown = ['', 'zzzz', 'KEY_A', 'A', 'lsft ', 'nop10', '€', 'kp', 'f25'] + \
                  [''.join(rng.choice('abcxyz019-+') for _ in range(rng.randint(1, 5))) for _ in range(200 if tier == 'quick' else 3000)]
        for n in allnames + unknown:
            qs.append('N ' + n.encode('utf-8').hex())
        inp = '\n'.join(qs) + '\n'
        pi = subprocess.run([kvlib.HARNESS_BIN, 'keys'], input=inp.encode(), stdout=subprocess.PIPE, env=kvlib.ENV, timeout=600)
        il = pi.stdout.decode('utf-8', 'replace').split('\n')
        ml = None
        if os.path.exists(kvlib.DRIVER_BIN):
            pm = subprocess.run([kvlib.DRIVER_BIN, 'keys'], input=inp.encode(), stdout=subprocess.PIPE, timeout=600)
            ml = pm.stdout.decode('utf-8', 'replace').split('\n')
        for i, q in enumerate(qs):
            evals += 1
            a = il[i] if i < len(il) else '<none>'
            if ml is not None:
                b = ml[i] if i < len(ml) else '<none>'
                if a != b:
                    mism.append((q, a, b))
            if not a.endswith('None'):
                nontriv.add(a)
            # property oracle directly on the implementation
            f = a.split()
            if f and f[0] == 'F' and len(f) == 7:
                c, osc, d, kc, kd, back = int(f[1]), f[2], int(f[3]), f[4], int(f[5]), f[6]
                if d != c or kd != c or back != osc:
                    oracle.append(('code %d does not round-trip: %s' % (c, a), q))
        if len(samples) < 3:
            samples += [{'query': qs[30], 'impl': il[30]}, {'query': 'N ' + 'lsft', 'impl': il[1024 + allnames.index('lsft')] if 'lsft' in allnames else ''}]
        # names: a listed name must resolve to its listed variant
        listed = {}
        for n, v in names:
            listed.setdefault(n, v)
        for i, n in enumerate(allnames):
            a = il[1024 + i].split()
            want = None
            # defaults come first in `names`, so `listed` holds the winning variant
            want = listed[n]
            if len(a) < 3 or a[2] != want:
                oracle.append(('name %r resolves to %s, table says %s' % (n, a[2] if len(a) > 2 else '?', want), 'N ' + n))
        # ---- identity pipeline through the real Kanata
        # 0 = KEY_RESERVED (kanata's reserved no-op coordinate) and 240 = KEY_UNKNOWN / KeyCode::No are sentinels, not keys
        known = [c for c, v in codes if 0 < c < 767 and c != 240]
        def is_plain(v):
            return not (v.startswith('BTN_') or v.startswith('MouseWheel'))
        vmap = dict(codes)
        named_keys = ['a', 's', 'd', 'f', 'lsft', 'ret', '1', 'f1', 'nop0', 'nop9', 'spc']
        cfgs = {
            'self': '(defcfg process-unmapped-keys yes)\n(defsrc %s)\n(deflayer base %s)' % (' '.join(named_keys), ' '.join(named_keys)),
            'trans': '(defcfg process-unmapped-keys yes)\n(defsrc %s)\n(deflayer base %s)\n(deflayer l2 %s)' % (
                ' '.join(named_keys), ' '.join(['(layer-switch l2)'] + named_keys[1:]), ' '.join(['_'] * len(named_keys))),
            'unmapped': '(defcfg process-unmapped-keys yes)\n(defsrc a)\n(deflayer base a)',
        }
        # keys that are not in defsrc, mapped to themselves by name in a deflayermap, next to an any-key entry (written before or
        # after them) that blocks or remaps everything else: the keys written out keep their identity
        self_names = [('e', 18), ('kp5', 76), ('s', 31), ('ret', 28), ('1', 2), ('f1', 59), ('spc', 57), ('lsft', 42)]
        pairs = ' '.join('%s %s' % (n, n) for n, _ in self_names)
        only_self = {}
        for anyk in ('__', '___'):
            for anyact in ('XX', 'z'):
                for first in (False, True):
                    nm = 'lmself%s%s%s' % (len(anyk), anyact, 'F' if first else 'L')
                    body = ('%s %s %s' % (anyk, anyact, pairs)) if first else ('%s %s %s' % (pairs, anyk, anyact))
                    cfgs[nm] = '(defcfg process-unmapped-keys yes)\n(defsrc a)\n(deflayermap (base) %s)' % body
                    only_self[nm] = [c for _, c in self_names]
        cases = []
        chunk = 64
        for cname, cfg in cfgs.items():
            ks = [c for c in known if is_plain(vmap[c])]
            if cname in only_self:
                ks = only_self[cname]
            elif tier == 'quick' and cname != 'unmapped':
                ks = [c for c in ks if c < 128 or (imin - 2 <= c <= imax + 2)]
            for i in range(0, len(ks), chunk):
                h = []
                if cname == 'trans':
                    h += ['d30', 't2', 'u30', 't2']
                for c in ks[i:i + chunk]:
                    h += ['d%d' % c, 't2', 'r%d' % c, 't1', 'u%d' % c, 't2']
                cases.append({'id': 'ident-%s-%d' % (cname, i), 'cfg': cfg, 'hist': h, 'keys': ks[i:i + chunk], 'pre': 4 if cname == 'trans' else 0})
        res = run_impl('ksim', cases)
        for c in cases:
            it = res.get(c['id'])
            evals += 1
            if not it or kvlib.is_crash(it):
                oracle.append(('identity case crashed: ' + c['id'], kvlib.case_text(c, it)))
                continue
            evs = {}
            for l in it:
                m = re.match(r'@(\d+)\+? (.*)', l)
                if m:
                    evs.setdefault(int(m.group(1)), []).extend(m.group(2).split())
                m = re.match(r'R@(\d+) \d+ : ?(.*)', l)
                if m and m.group(2).split():
                    # a forwarded OS repeat: reported right after the event, i.e. "between" tick t and t+1
                    evs.setdefault(int(m.group(1)) + 1, []).extend(m.group(2).split())
            t = c['pre']
            ok = True
            for kcode in c['keys']:
                ign = imin <= kcode <= imax
                # press handled in the first tick after the event, repeat is written immediately and shows with the next tick
                want = {} if ign else {t + 1: ['d%d' % kcode], t + 3: ['d%d' % kcode], t + 4: ['u%d' % kcode]}
                got = {tt: evs.get(tt, []) for tt in range(t + 1, t + 6) if evs.get(tt)}
                if got != want:
                    ok = False
                    oracle.append(('key code %d (%s) through config %s: expected %s got %s' % (kcode, vmap[kcode], c['id'], want, got),
                                   kvlib.case_text(c, it)))
                    break
                t += 5
                nontriv.add((c['id'].split('-')[1], kcode))
            if len(samples) < 5:
                samples.append({'cfg': c['cfg'], 'history': ' '.join(c['hist'][:12]) + ' ...', 'impl_trace': it[:4]})
        # ---- intercepted set = defsrc + deflayermap inputs (+ all known keys minus exceptions)
        name2code = {}
        vcode = {v: c for c, v in codes}
        for n, v in names:
            if n not in name2code and v in vcode:
                name2code[n] = vcode[v]
        simple = [n for n in name2code if re.fullmatch(r'[a-z0-9]{1,5}', n) and name2code[n] < 767 and name2code[n] > 0
                  and not vmap[name2code[n]].startswith(('BTN_', 'MouseWheel'))]
        mcases = []
        for i in range(150 if tier == 'quick' else 3000):
            src = rng.sample(simple, rng.randint(1, 8))
            pu = rng.random() < 0.6
            rest = [n for n in simple if name2code[n] not in {name2code[s] for s in src}]
            exc = rng.sample(rest, rng.randint(0, 4)) if pu and rng.random() < 0.6 else []
            exc_codes = {name2code[n] for n in exc}
            exc = [n for j, n in enumerate(exc) if name2code[n] not in {name2code[m] for m in exc[:j]}]
            lm = rng.sample(simple, rng.randint(0, 4)) if rng.random() < 0.6 else []
            if exc and rng.random() < 0.6:
                lm += rng.sample(exc, rng.randint(1, min(2, len(exc))))     # an excepted key that a deflayermap remaps
            lm = [n for j, n in enumerate(lm) if name2code[n] not in {name2code[m] for m in lm[:j]}]
            opt = ''
            if pu:
                opt = 'process-unmapped-keys ' + ('(all-except %s)' % ' '.join(exc) if exc else 'yes')
            cfgt = '(defcfg %s)\n(defsrc %s)\n(deflayer base %s)' % (opt, ' '.join(src), ' '.join(src))
            if lm:
                cfgt += '\n(deflayermap (lm) %s)' % ' '.join('%s x' % n for n in lm)
            want = {name2code[n] for n in src} | {name2code[n] for n in lm}
            if pu:
                want |= {c for c in known if c not in exc_codes}
            mcases.append({'id': 'mapped-%d' % i, 'cfg': cfgt, 'hist': [], 'want': want})
        mres = run_impl('pinfo', mcases)
        for c in mcases:
            evals += 1
            it = mres.get(c['id'])
            if not it or it[0].startswith(('PARSE', 'REJECTED')):
                continue
            got = set(int(x) for x in it[0].split()[1:])
            nontriv.add(('mapped', tuple(sorted(got))[:40]))
            if (got - {0, 240}) != (c['want'] - {0, 240}):
                oracle.append(('intercepted set differs: extra %s missing %s' % (sorted(got - c['want'])[:8], sorted(c['want'] - got)[:8]),
                               kvlib.case_text(c, it)))
        # ---- the reserved no-op codes never reach the OS, whatever output path they take: plain / multi / output chord / macro /
        # tap-hold / one-shot / unmod / fork / key repeat, and as members of sequences in every input mode (completed, cancelled by a
        # key that fits no sequence, timed out - hidden-delay-type types the buffered keys out when the sequence fails)
        ncases = []
        nop_acts = ['nop1', '(multi nop2 x)', 'S-nop3', '(macro nop3 y nop4)', '(tap-hold 0 20 nop5 nop6)', '(one-shot 50 nop7)', '(unmod nop8)',
                    '(fork nop9 nop0 (lsft))', '(tap-dance 20 (nop1 nop2))', '(macro S-(nop1 5 nop2))', '(unshift nop4)', '(multi lsft nop5)']
        for i in range(12 if tier == 'quick' else 200):
            acts = rng.sample(nop_acts, 4)
            cfgt = '(defcfg process-unmapped-keys yes)\n(defsrc a s d f)\n(deflayer base %s)' % ' '.join(acts)
            h = []
            for k in rng.sample([30, 31, 32, 33], 4):
                h += ['d%d' % k, 't%d' % rng.choice([3, 30]), 'r%d' % k, 't2', 'u%d' % k, 't%d' % rng.choice([2, 60])]
            ncases.append({'id': 'nop-act-%d' % i, 'cfg': cfgt, 'hist': h + ['t100']})
        for i in range(36 if tier == 'quick' else 600):
            mode = ['hidden-suppressed', 'hidden-delay-type', 'visible-backspaced'][i % 3]
            T = rng.choice([30, 100])
            cfgt = ('(defcfg sequence-input-mode %s sequence-timeout %d)\n(defsrc a s d f g)\n(deflayer base sldr nop1 nop2 x (multi nop3 y))\n'
                    '(defvirtualkeys v0 z)\n(defseq v0 (nop1 nop2) v0 (nop3 x))' % (mode, T))
            first = rng.choice([31, 31, 34])
            end = rng.choice(['complete', 'other-key', 'timeout', 'leader-again'])
            h = ['t3', 'd30', 't2', 'u30', 't2', 'd%d' % first, 't2', 'r%d' % first, 't1', 'u%d' % first, 't2']
            if end == 'complete':
                nxt = 32 if first == 31 else 33
                h += ['d%d' % nxt, 't2', 'u%d' % nxt]
            elif end == 'other-key':
                nxt = 33 if first == 31 else 31
                h += ['d%d' % nxt, 't2', 'u%d' % nxt]
            elif end == 'timeout':
                h += ['t%d' % (T + 5)]
            else:
                h += ['d30', 't2', 'u30', 't2', 'd31', 't2', 'u31', 't%d' % (T + 5)]
            ncases.append({'id': 'nop-seq-%d' % i, 'cfg': cfgt, 'hist': h + ['t100']})
        nres = run_impl('ksim', ncases)
        for c in ncases:
            evals += 1
            it = nres.get(c['id'])
            if not it or it[0].startswith('PARSE'):
                if it and it[0].startswith('PARSE'):
                    oracle.append(('no-op key configuration rejected by the parser (generator drift): %s' % c['id'], kvlib.case_text(c, it)))
                continue
            if kvlib.is_crash(it):
                oracle.append(('no-op key case crashed: ' + c['id'], kvlib.case_text(c, it)))
                continue
            nontriv.add(('nop', c['id']))
            leaked = [e for l in it if l.startswith(('@', 'R@')) for e in l.split(' ')[1:]
                      if re.fullmatch(r'[du]\d+', e) and imin <= int(e[1:]) <= imax]
            if leaked:
                oracle.append(('reserved no-op code sent to the OS: %s (%s)' % (' '.join(leaked[:6]), c['id']), kvlib.case_text(c, it)))
        # ---- a name bound by deflocalkeys-linux denotes that code wherever it is written (defsrc: intercepted; action: output),
        # for fresh names, for the overridable default names and for built-in names alike
        lcases = []
        plain_codes = [c for c in known if is_plain(vmap[c]) and not (imin <= c <= imax) and c < 600]
        builtin = [n for n in simple if len(n) <= 4]
        for i in range(40 if tier == 'quick' else 800):
            nm = rng.choice([rng.choice(['lkey%d' % rng.randint(1, 99), 'ì', 'new', 'ü', 'k_%d' % i]),
                             rng.choice(['[', ']', ';', ',', '.', 'yen', '<', '/', "'", '=', '-']), rng.choice(builtin)])
            code = rng.choice(plain_codes)
            other = rng.choice([n for n in builtin if n != nm and name2code[n] != code])
            lcases.append({'id': 'lk-src-%d' % i, 'sub': 'pinfo', 'cfg': '(deflocalkeys-linux %s %d)\n(defsrc %s %s)\n(deflayer base x y)' % (nm, code, nm, other),
                           'hist': [], 'want': {code, name2code[other]}, 'nm': nm, 'code': code})
            oc = name2code[other]
            lcases.append({'id': 'lk-out-%d' % i, 'sub': 'ksim', 'cfg': '(deflocalkeys-linux %s %d)\n(defsrc %s)\n(deflayer base %s)' % (nm, code, other, nm),
                           'hist': ['d%d' % oc, 't3', 'u%d' % oc, 't3'], 'nm': nm, 'code': code})
        # ... and a locally named key that the layer leaves transparent, maps to itself by name, or that is only a deflayermap input
        # comes out as its own code: every code without a built-in name gets a local name here (240 = KEY_UNKNOWN among them)
        unnamed = [c for c in known if c not in set(name2code.values()) and is_plain(vmap[c]) and not (imin <= c <= imax) and c != 0]
        # 240 (KEY_UNKNOWN) is a valid code for a locally named key in defsrc, whatever it stands for inside keyberon
        pick = sorted(set(unnamed[:3] + [240] + rng.sample(unnamed, min(len(unnamed), 6 if tier == 'quick' else 60))))
        for code in pick:
            for form, cfgt in (('transparent', '(deflocalkeys-linux lk %d)\n(defsrc lk)\n(deflayer base _)'),
                               ('itself', '(deflocalkeys-linux lk %d)\n(defsrc lk)\n(deflayer base lk)'),
                               ('layermap-input', '(deflocalkeys-linux lk %d)\n(defsrc a)\n(deflayer base a)\n(deflayermap (other) lk x)')):
                lcases.append({'id': 'lk-id-%d-%s' % (code, form), 'sub': 'ksim', 'cfg': cfgt % code,
                               'hist': ['d%d' % code, 't3', 'u%d' % code, 't3'], 'nm': 'lk (%s)' % form, 'code': code})
        lres = run_impl('pinfo', [c for c in lcases if c['sub'] == 'pinfo'])
        lres.update(run_impl('ksim', [c for c in lcases if c['sub'] == 'ksim']))
        for c in lcases:
            evals += 1
            it = lres.get(c['id'])
            if not it or it[0].startswith(('PARSE', 'REJECTED')):
                continue
            nontriv.add(('localkey', c['nm'], c['code'], c['sub']))
            if c['sub'] == 'pinfo':
                got = set(int(x) for x in it[0].split()[1:])
                if got != c['want']:
                    oracle.append(('deflocalkeys-linux binds %r to %d but defsrc %r intercepts %s' % (c['nm'], c['code'], c['nm'], sorted(got)),
                                   kvlib.case_text(c, it)))
            else:
                evs = [e for l in it if l.startswith('@') for e in l.split(' ')[1:]]
                if evs != ['d%d' % c['code'], 'u%d' % c['code']]:
                    oracle.append(('deflocalkeys-linux binds %r to %d but the action %r outputs %s' % (c['nm'], c['code'], c['nm'], evs),
                                   kvlib.case_text(c, it)))
    # ---- a mouse button or wheel named anywhere in defsrc is intercepted: unless the configuration says otherwise, the Linux back
    # end must then also grab pure mouse devices (device detect mode Any), and only then
    try:
        dcases = []
        mouse = ['mlft', 'mrgt', 'mmid', 'mbck', 'mfwd', 'mwu', 'mwd', 'mwl', 'mwr']
        for mi, mk in enumerate(mouse):
            for pos, src in (('first', [mk, 'a', 'b']), ('middle', ['a', mk, 'b']), ('last', ['a', 'b', mk])):
                dcases.append({'id': 'dm-%d-%s' % (mi, pos), 'sub': 'pinfo', 'cfg': '(defsrc %s)\n(deflayer base %s)' % (' '.join(src), ' '.join(src)),
                               'hist': [], 'want': 'Some(Any)', 'what': '%s %s in defsrc' % (mk, pos)})
        dcases.append({'id': 'dm-none', 'sub': 'pinfo', 'cfg': '(defsrc a b c)\n(deflayer base a b c)', 'hist': [], 'want': 'Some(KeyboardMice)', 'what': 'no mouse key in defsrc'})
        dres = run_impl('pinfo', dcases)
        for c in dcases:
            evals += 1
            it = dres.get(c['id']) or []
            d = [l for l in it if l.startswith('DETECT ')]
            if it and not it[0].startswith(('PARSE', 'REJECTED')) and d and d[0].split(' ', 1)[1].strip() != c['want']:
                oracle.append(('%s: the derived device detect mode is %s, expected %s (mouse inputs of defsrc would not be intercepted)'
                               % (c['what'], d[0].split(' ', 1)[1].strip(), c['want']), kvlib.case_text(c, it)))
            elif d:
                nontriv.add(('detect', c['id']))
    except Exception as e:
        broken.append(('device detect mode cases', repr(e)))
    # ---- mouse buttons: the regenerated tables must be inverse to each other (the theorem C11_mouse_button_codes_round_trip says
    # so; this names the button and the two codes when it does not)
    try:
        ctext = open(os.path.join(kvlib.VERIF, 'coq', 'theories', 'Gen', 'Consts.v')).read()
        tin = [tuple(int(x) for x in m) for m in re.findall(r'\((\d+), (\d+)\)', re.search(r'src_osc_to_btn[^\[]*\[([^\]]*)\]', ctext).group(1))]
        tout = dict(tuple(int(x) for x in m) for m in re.findall(r'\((\d+), (\d+)\)', re.search(r'src_btn_to_osc[^\[]*\[([^\]]*)\]', ctext).group(1)))
        for code, b in tin:
            evals += 1
            if tout.get(b) != code:
                oracle.append(('mouse button %d is read from code %d but written to the OS as code %s' % (b, code, tout.get(b)),
                               'tables regenerated from src/kanata/output_logic.rs (osc_to_btn) and parser/src/keys/linux.rs (From<Btn> for OsCode)'))
    except Exception as e:
        broken.append(('translator: button tables', repr(e)))
    # ---- verdict
    violations = 0
    if oracle:
        violations += 1
        desc, rep = oracle[0]
        p = kvlib.write_replay(PID, 'oracle-%s.txt' % hashlib.sha1(desc.encode()).hexdigest()[:10],
                               '# %s\n# (%d oracle failures in total)\n%s\n' % (desc, len(oracle), rep))
        viol_lines.append('VIOLATION property=%s replay=%s' % (PID, p))
    elif mism:
        violations += 1
        q, a, b = mism[0]
        p = kvlib.write_replay(PID, 'corr-%s.txt' % hashlib.sha1(q.encode()).hexdigest()[:10],
                               '# table correspondence differs (%d queries)\nquery: %s\nimplementation: %s\nmodel (regenerated tables): %s\n' % (len(mism), q, a, b))
        viol_lines.append('VIOLATION property=%s replay=%s no-failing-input-found' % (PID, p))
    elif broken:
        violations += 1
        txt = ''.join('== %s\n%s\n' % b for b in broken)
        p = kvlib.write_replay(PID, 'broken-%s.txt' % re.sub(r'[^A-Za-z0-9_.-]', '_', broken[0][0])[:60], txt)
        viol_lines.append('VIOLATION property=%s replay=%s no-failing-input-found' % (PID, p))
    wall = time.time() - t0
    cov = {
        'obligations': max(n_thm, 1), 'discharged': n_thm if coq_ok else 0,
        'checker_cmd': 'tools/gen_tables.py && make -C coq && coqc Props/C11.v (Print Assumptions parsed)' + (' && coqchk -o' if tier == 'thorough' else ''),
        'trusted_base': kvlib.TRUSTED_BASE + ['Linux tables only (target_os = linux); BTN_*/MouseWheel* codes excluded from the pipeline identity run (they are routed to mouse output)'],
        'theorems': [{'name': t, 'assumptions': r} for t, r in ass], 'translator': tinfo,
        'evaluations': evals, 'distinct_nontrivial': len(nontriv),
        'rule': 'every u16 0..1023 through from_u16/as_u16/transmutes; every listed key name plus random unknown names through str_to_oscode; '
                'every known non-mouse code pressed/repeated/released through self-mapped, transparent and unmapped(process-unmapped-keys) configs; '
                'non-trivial = distinct query with a Some answer, or distinct (config kind, code) pair',
        'samples': samples or [{'note': 'nothing ran'}], 'table_mismatches': len(mism), 'oracle_failures': len(oracle),
        'exhaustive': True, 'broken': [b[0] for b in broken],
    }
    kvlib.write_evidence(PID, tier, seed, 'proof', cov, wall, violations)
    for l in viol_lines:
        print(l)
    print('%s: tier=%s theorems=%d evals=%d table_mismatch=%d oracle_fail=%d wall=%.1fs' % (PID, tier, n_thm if coq_ok else 0, evals, len(mism), len(oracle), wall))
    return 1 if violations else 0


def run_impl(sub, cases, shards=kvlib.NPROC):
    """implementation-only run; returns id -> trace"""
    from concurrent.futures import ThreadPoolExecutor
    d = os.path.join(kvlib.BUILD, 'runs', 'c11-' + sub)
    os.makedirs(d, exist_ok=True)
    shards = max(1, min(shards, len(cases)))
    parts = [cases[i::shards] for i in range(shards)]

    def work(i):
        cf = os.path.join(d, 'cases_%d.txt' % i)
        kvlib.write_cases(cf, parts[i])
        io = os.path.join(d, 'impl_%d.txt' % i)
        kvlib.run_impl_shard(sub, cf, len(parts[i]), [c['id'] for c in parts[i]], io, 600)
        b = kvlib.split_blocks(open(io, encoding='utf-8').read())
        return {cid: kvlib.trace_of(b.get(cid, [])) for cid in [c['id'] for c in parts[i]]}
    out = {}
    with ThreadPoolExecutor(max_workers=shards) as ex:
        for r in ex.map(work, range(shards)):
            out.update(r)
    return out
