"""C12 — sequences: accepted sets are unambiguous; a typed sequence fires its key once."""
import itertools, re
import gen
from checks.common import trace_has_output

K = gen.KEYCODES
POOL = ['x', 'y', 'z', 'b', 'n', 'm']
MODMASK = {'S': (42, 0x8000), 'C': (29, 0x4000), 'A': (56, 0x2000), 'RA': (100, 0x1000), 'M': (125, 0x0800)}
VK_OUT = ['f1', 'f2', 'f3', 'f4']          # what the virtual keys type: distinctive


def rand_seq(rng, allow_big=False):
    """AST: list of items: ('k', name) | ('mod', M, [names]) | ('ov', [names])"""
    items = []
    for _ in range(rng.randint(1, 3)):
        r = rng.random()
        if r < 0.12:
            items.append(('k', rng.choice(['lsft', 'lctl', 'lalt'])))     # a modifier written as a plain member of the sequence
        elif r < 0.6:
            items.append(('k', rng.choice(POOL)))
        elif r < 0.8:
            items.append(('mod', rng.choice(list(MODMASK)), [rng.choice(POOL) for _ in range(rng.randint(1, 2))]))
        else:
            # 5-6 keys give 120-720 orderings: at most one such group per sequence (the trie holds every ordering)
            big = any(it[0] == 'ov' and len(it[1]) > 3 for it in items)
            n = rng.choice([2, 2, 3, 3]) if (big or not allow_big) else rng.choice([2, 2, 3, 3, 4, 5, 6])
            items.append(('ov', rng.sample(POOL, n)))
    return items


def seq_txt(items):
    out = []
    for it in items:
        if it[0] == 'k':
            out.append(it[1])
        elif it[0] == 'mod':
            out.append('%s-(%s)' % (it[1], ' '.join(it[2])) if len(it[2]) > 1 else '%s-%s' % (it[1], it[2][0]))
        else:
            out.append('O-(%s)' % ' '.join(it[1]))
    return '(%s)' % ' '.join(out)


def encode(items):
    """what parse_sequence_keys produces (validated against the real parser by this very check)"""
    vals = []
    for it in items:
        if it[0] == 'k':
            vals.append(K[it[1]])
        elif it[0] == 'mod':
            code, mask = MODMASK[it[1]]
            vals.append(code | mask)
            vals += [K[k] | mask for k in it[2]]
        else:
            vals += [K[k] | 0x0400 for k in it[1]] + [0x0400]
    return vals


def typings(items, rng):
    """one way to type the sequence: list of (press/release, key name) respecting chords and overlaps"""
    ev = []
    for it in items:
        if it[0] == 'k':
            ev += [('d', it[1]), ('u', it[1])]
        elif it[0] == 'mod':
            # either side of shift / ctrl / meta counts as the modifier of a chorded sequence
            m = rng.choice({'S': ['lsft', 'rsft'], 'C': ['lctl', 'rctl'], 'A': ['lalt'], 'RA': ['ralt'], 'M': ['lmet', 'rmet']}[it[1]])
            ev.append(('d', m))
            for k in it[2]:
                ev += [('d', k), ('u', k)]
            ev.append(('u', m))
        else:
            order = list(it[1])
            rng.shuffle(order)
            ev += [('d', k) for k in order]
            rel = list(order)
            rng.shuffle(rel)
            ev += [('u', k) for k in rel]
    return ev


def gen_cases(rng, tier):
    cases = []
    # ---- tables (route B): the model elaborates the encoded lists itself
    nt = 150 if tier == 'quick' else 4000
    for i in range(nt):
        nseq = rng.randint(1, 4)
        seqs = [rand_seq(rng, allow_big=(j == 0)) for j in range(nseq)]
        if rng.random() < 0.25 and nseq >= 2:
            # plant a conflict: a prefix, an exact duplicate or a permuted overlap group
            base = seqs[0]
            r = rng.random()
            if r < 0.4:
                seqs[-1] = base + [('k', rng.choice(POOL))]
            elif r < 0.7:
                seqs[-1] = list(base)
            else:
                seqs[-1] = [(it[0], list(reversed(it[1]))) if it[0] == 'ov' else it for it in base]
            if rng.random() < 0.5:
                seqs.reverse()
        cfg = '(defsrc a)\n(deflayer l0 a)\n(defvirtualkeys %s)\n(defseq %s)' % (
            ' '.join('v%d %s' % (j, VK_OUT[j]) for j in range(nseq)),
            ' '.join('v%d %s' % (j, seq_txt(s)) for j, s in enumerate(seqs)))
        h = []
        for j, s in enumerate(seqs):
            vals = encode(s)
            h += ['DEF', '1', str(j), str(len(vals))] + [str(v) for v in vals]
        cases.append({'id': 'c12-tab-%d' % i, 'cfg': cfg, 'hist': h, 'sub': 'pinfo', 'tags': {'kind': 'table', 'nseq': nseq}})
    # ---- typing histories through the whole pipeline
    nr = 120 if tier == 'quick' else 3000
    for i in range(nr):
        nseq = rng.randint(1, 3)
        seqs = []
        for _ in range(nseq):
            for _ in range(20):
                s = rand_seq(rng)
                e = encode(s)
                if not any(e[:len(o)] == o or o[:len(e)] == e for o in [encode(x) for x in seqs]):
                    seqs.append(s)
                    break
        nseq = len(seqs)
        mode = rng.choice(['hidden-suppressed', 'hidden-delay-type', 'visible-backspaced'])
        T = rng.choice([20, 100])
        always = rng.random() < 0.15
        src = ['a'] + POOL + ['lsft', 'lctl', 'lalt', 'ralt', 'lmet', 'rsft', 'rctl', 'rmet']
        cfg = '(defcfg sequence-timeout %d sequence-input-mode %s%s)\n(defsrc %s)\n(deflayer l0 %s)\n(defvirtualkeys %s)\n(defseq %s)' % (
            T, mode, ' sequence-always-on yes' if always else '', ' '.join(src), ' '.join(['sldr'] + src[1:]),
            ' '.join('v%d %s' % (j, VK_OUT[j]) for j in range(nseq)),
            ' '.join('v%d %s' % (j, seq_txt(s)) for j, s in enumerate(seqs)))
        h = []
        kind = rng.choice(['complete', 'complete', 'complete-slow', 'prefix-then-other', 'timeout', 'random'])
        # complete-slow: every key comes within the timeout of the previous one, the whole sequence takes longer than the timeout
        slow = kind == 'complete-slow'
        if slow:
            kind = 'complete'
        target = rng.choice(seqs)
        ev = typings(target, rng)
        if kind == 'prefix-then-other':
            cut = rng.randint(1, max(1, len(ev) - 1))
            ev = ev[:cut] + [('d', 'a'), ('u', 'a')]
        if not always:
            h += ['d%d' % K['a'], 't2', 'u%d' % K['a'], 't2']
        gapset = [1, 2, 3] if kind != 'timeout' else [1, 2, T - 1, T, T + 1]
        if slow:
            gapset = [(T - 2) // 2, (T - 2) // 2 - 1, (T - 2) // 3]
        downs = []
        # OS auto-repeat of a typed key that is still held while the sequence is in progress (never of the key that completes it:
        # that one is the subject of known finding hidden-sequence-key-held-past-end of C14)
        reps = rng.random() < 0.35 and not slow
        since_press = 4
        last_d = max((j for j, (d, _k) in enumerate(ev) if d == 'd'), default=-1)
        for j, (d, k) in enumerate(ev):
            h.append('%s%d' % (d, K[k]))
            (downs.append(k) if d == 'd' else (k in downs and downs.remove(k)))
            if reps and d == 'd' and j < last_d and kind != 'timeout':
                for _ in range(rng.randint(1, 3)):
                    h += ['t1', 'r%d' % K[k]]
            g = rng.choice(gapset)
            if slow:
                # the timeout restarts at every press: the press-to-press distance (releases in between included) stays below it, and
                # every event still has a millisecond of its own
                nxt = next((jj for jj in range(j + 1, len(ev)) if ev[jj][0] == 'd'), len(ev))
                g = max(1, (T - 2) // max(1, nxt - (max(jj for jj in range(j + 1) if ev[jj][0] == 'd') if any(e2[0] == 'd' for e2 in ev[:j + 1]) else 0)))
            h.append('t%d' % g)
        for k in downs:
            h += ['u%d' % K[k], 't2']
        if kind == 'random':
            for _ in range(rng.randint(2, 10)):
                k = rng.choice(src)
                h += ['d%d' % K[k], 't%d' % rng.choice([1, 2, T]), 'u%d' % K[k], 't1']
        h += ['t%d' % (T + 30), 'q']
        # an O-(...) group is typed key by key: while its first keys go down they are ordinary presses, so a shorter sequence made of
        # those very keys (plain) completes first (known finding plain-sequence-shadows-overlap-group)
        presses = [{'rsft': 'lsft', 'rctl': 'lctl', 'rmet': 'lmet'}.get(k, k) for d, k in ev if d == 'd']

        def flat_orders(sq):
            outs = [[]]
            for it2 in sq:
                if it2[0] == 'k':
                    outs = [o + [it2[1]] for o in outs]
                elif it2[0] == 'mod':
                    mk = {'S': 'lsft', 'C': 'lctl', 'A': 'lalt', 'RA': 'ralt', 'M': 'lmet'}[it2[1]]
                    outs = [o + [mk] + list(it2[2]) for o in outs]
                else:
                    outs = [o + list(q) for o in outs for q in itertools.permutations(it2[1])]
            return outs
        # the typist's view: another sequence whose keys, in some permitted order, are the first keys pressed here; the two differ
        # only in which keys overlap, which is not decided yet when the shorter one completes
        def cpl(a, b):
            n = 0
            while n < len(a) and n < len(b) and a[n] == b[n]:
                n += 1
            return n
        # ... or that shares its first two or more keys with what is typed here (`(b m A-(n y))` next to `(O-(m b) m)` typed b, m:
        # the presses run down the plain path b m and the overlap group is never recognised)
        shadow = any(s2 is not target and any(o == presses[:len(o)] or cpl(o, presses) >= 2 for o in flat_orders(s2))
                     and (any(it3[0] == 'ov' for it3 in target) or any(it3[0] == 'ov' for it3 in s2)) for s2 in seqs)
        # the same ambiguity with a modifier: written as a plain member in one sequence and as the modifier of a chorded item in another
        # (`(lsft)` next to `(S-(b n) n)`: the tapped shift is also the beginning of the chorded item)
        MODK = {'S': 'lsft', 'C': 'lctl', 'A': 'lalt', 'RA': 'ralt', 'M': 'lmet'}
        plain_mods = lambda sq: {it4[1] for it4 in sq if it4[0] == 'k' and it4[1] in MODK.values()}
        chord_mods = lambda sq: {MODK[it4[1]] for it4 in sq if it4[0] == 'mod'}
        shadow = shadow or any(s2 is not target and ((plain_mods(target) & chord_mods(s2)) or (chord_mods(target) & plain_mods(s2))) for s2 in seqs)
        cases.append({'id': 'c12-run-%d' % i, 'cfg': cfg, 'hist': h, 'sub': 'ksim', 'kind': kind, 'mode': mode, 'always': always,
                      'shadow': shadow, 'target_vk': seqs.index(target), 'tags': {'kind': kind + ('-slow' if slow else ''), 'mode': mode, 'always_on': always, 'shadowed': shadow, 'os_repeats': reps}})
    # structured tables for the backtracking and the release path (judged by correspondence): an overlap group whose keys also start a
    # longer plain sequence (it can only complete when its keys go up), and a sequence that begins with an inner key of another one
    # (after a wrong key the tracker keeps only what is still a suffix of what was typed)
    K3 = POOL
    si = 0
    for mode in ('hidden-suppressed', 'hidden-delay-type', 'visible-backspaced'):
        for _ in range(6 if tier == 'quick' else 120):
            p, q, r, d, w = rng.sample(K3, 5)
            T = rng.choice([50, 200])
            src = ['a'] + POOL
            base = '(defcfg sequence-timeout %d sequence-input-mode %s)\n(defsrc %s)\n(deflayer l0 %s)\n(defvirtualkeys v0 f1 v1 f2)\n' % (
                T, mode, ' '.join(src), ' '.join(['sldr'] + src[1:]))
            lead = ['t3', 'd%d' % K['a'], 't2', 'u%d' % K['a'], 't2']
            # (O-(p q)) next to (p q r): group typed overlapping, released, then another key
            cfg = base + '(defseq v0 (O-(%s %s)) v1 (%s %s %s))' % (p, q, p, q, r)
            a, b = rng.sample([p, q], 2)
            h = lead + ['d%d' % K[a], 't3', 'd%d' % K[b], 't3', 'u%d' % K[a], 't2', 'u%d' % K[b], 't5']
            nxt = rng.choice([r, w, 'a'])
            h += ['d%d' % K[nxt], 't3', 'u%d' % K[nxt], 't%d' % (T + 30), 'q']
            cases.append({'id': 'c12-struct-%d' % si, 'cfg': cfg, 'hist': h, 'sub': 'ksim', 'kind': 'random', 'mode': mode, 'always': False,
                          'shadow': True, 'target_vk': 0, 'tags': {'kind': 'group-completes-on-release', 'mode': mode}})
            si += 1
            # (p q r) next to (q d): p q, a wrong key, then d
            cfg = base + '(defseq v0 (%s %s %s) v1 (%s %s))' % (p, q, r, q, d)
            h = list(lead)
            for k in (p, q, w, d):
                h += ['d%d' % K[k], 't3', 'u%d' % K[k], 't3']
            h += ['t%d' % (T + 30), 'q']
            cases.append({'id': 'c12-struct-%d' % si, 'cfg': cfg, 'hist': h, 'sub': 'ksim', 'kind': 'random', 'mode': mode, 'always': False,
                          'shadow': False, 'target_vk': 0, 'tags': {'kind': 'wrong-key-after-prefix', 'mode': mode}})
            si += 1
    # the sequence timeout must keep the processing loop awake: leader, then nothing (or a prefix, then nothing) for longer than the
    # timeout, then keys; run once ticking every millisecond and once blocking whenever kanata says it may
    from checks.common import loop_pairs
    lp = []
    j = 0
    for mode in ('visible-backspaced', 'hidden-suppressed', 'hidden-delay-type'):
        for T in (60, 200):
            for prefix in (0, 1):
                cfg = ('(defcfg sequence-timeout %d sequence-input-mode %s)\n(defsrc a s d f)\n(deflayer l0 sldr s d f)\n'
                       '(defvirtualkeys v0 z)\n(defseq v0 (s d))' % (T, mode))
                h = ['t5', 'd30', 't3', 'u30', 't5']
                if prefix:
                    h += ['d31', 't3', 'u31']
                h += ['t%d' % (T + 100), 'd31', 't3', 'u31', 't5', 'd32', 't3', 'u32', 't%d' % (T + 50)]
                lp.append({'id': 'c12-loop-%d' % j, 'cfg': cfg, 'hist': h, 'sub': 'ksim', 'kind': 'loop', 'mode': mode, 'always': False,
                           'shadow': False, 'target_vk': 0, 'tags': {'kind': 'loop-pair-timeout-while-quiet', 'mode': mode}})
                j += 1
    cases += loop_pairs(lp)
    return cases


def post(all_results, run_impl, rng, tier, stats):
    from checks.common import loop_pair_violations
    v = loop_pair_violations(all_results)
    stats['loop_pairs'] = sum(1 for c, it, mt in all_results if c.get('loop_mode') == '1')
    return v


def oracle(case, it):
    if case.get('sub') == 'pinfo':
        # independent reading of the acceptance condition: no expanded sequence is a prefix of another
        toks = case['hist']
        defs = []
        i = 0
        while i < len(toks):
            if toks[i] == 'DEF':
                n = int(toks[i + 3])
                defs.append([int(x) for x in toks[i + 4:i + 4 + n]])
                i += 4 + n
            else:
                i += 1

        def expand(vals):
            perms = [[]]
            i = 0
            while i < len(vals):
                v = vals[i]
                if not v & 0x400:
                    perms = [p + [v] for p in perms]
                    i += 1
                    continue
                j = i
                grp = []
                while vals[j] != 0x400:
                    grp.append(vals[j]); j += 1
                perms = [p + list(q) + [0x400] for p in perms for q in itertools.permutations(grp)]
                i = j + 1
            return perms
        full, prefixes = set(), set()
        ambiguous = False
        for d in defs:
            for p in expand(d):
                tp = tuple(p)
                if tp in full or tp in prefixes or any(tp[:n] in full for n in range(1, len(tp))):
                    ambiguous = True
                full.add(tp)
                for n in range(1, len(tp)):
                    prefixes.add(tp[:n])
        accepted = bool(it) and it[0].startswith('SEQS')
        if accepted and ambiguous:
            return 'the parser accepted a set of sequences in which one (in some permitted ordering) is a prefix of another'
        if not accepted and not ambiguous and it and it[0].startswith('REJECTED'):
            return 'the parser rejected an unambiguous set of sequences'
        return None
    if not it or any(l.startswith(('PANIC', 'ABORT', 'PARSE')) for l in it):
        return None
    if case.get('kind') == 'complete' and not case.get('always'):
        code = K[VK_OUT[case['target_vk']]]
        n = sum(l.split().count('d%d' % code) for l in it if l.startswith('@'))
        if n != 1:
            return 'typing a defined sequence within the timeout tapped its virtual key %d times%s' % (n, ' [plain-sequence-shadows-overlap-group]' if case.get('shadow') else '')
    if case.get('mode') in ('hidden-suppressed', 'hidden-delay-type') and case.get('kind') in ('complete',) and not case.get('always') \
            and not case.get('shadow'):
        # a completed sequence: neither hidden mode ever shows a typed key to the OS, as a press or as an auto-repeat
        typed = {K[k] for k in POOL}
        for l in it:
            if l.startswith(('@', 'R@')):
                evs = l.split(':', 1)[1].split() if l.startswith('R@') else l.split()[1:]
                for e in evs:
                    m = re.fullmatch(r'd(\d+)', e) or re.fullmatch(r'rp?(\d+)', e)
                    if m and int(m.group(1)) in typed:
                        return '%s mode sent typed key %s to the OS (%s) while the sequence was in progress' % (
                            case['mode'], m.group(1), 'auto-repeat' if l.startswith('R@') else 'press')
    return None


def nontrivial(case, it):
    if case.get('sub') == 'pinfo':
        return bool(it) and it[0].startswith('SEQS') and len(it[0].split()) > 1
    return trace_has_output(case, it)


SPEC = {
    'id': 'C12', 'sub': 'ksim', 'gen_cases': gen_cases, 'nontrivial': nontrivial, 'oracle': oracle, 'post': post,
    'rule': 'tables: 1-4 sequences of plain keys, modifier-chorded keys/groups and O-(...) groups of 2-6 keys, a quarter with a planted '
            'conflict (prefix, duplicate, permuted group), the model elaborating the encoded lists itself; typing: each defined sequence in a '
            'random permitted order, proper prefix + other key, gaps at T-1/T/T+1, all three input modes, always-on; non-trivial = table '
            'with entries / output produced',
    'explanation': 'theorems: every accepted table is prefix-free (all orderings of overlap groups), hence a proper prefix never matches, the '
                   'completed sequence yields its key, dead ends are reported, cancel ends sequence mode and types nothing outside hidden-delay-type, '
                   'one backspace per typed key',
}
