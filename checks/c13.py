"""C13 — global overrides substitute exactly the configured combination, then let go."""
import itertools
import gen
from checks.common import trace_has_output

MODS = ['lctl', 'lsft', 'lalt', 'lmet', 'rctl', 'rsft', 'ralt', 'rmet']
NM = ['a', 'b', 'x', 'y', '1']
CODE = dict(gen.KEYCODES)


def table(rng, n):
    ovs = []
    for _ in range(n):
        im = rng.sample(MODS, rng.choice([0, 1, 1, 2, 2, 3]))
        ik = rng.choice(NM[:3])
        om = rng.sample(MODS, rng.choice([0, 0, 1, 2]))
        ok = rng.choice(NM)
        ovs.append((im, ik, om, ok))
    # an entry that maps a combination to itself exempts it from a smaller override of the same key (the most modifiers win)
    if rng.random() < 0.3:
        im, ik, _om, _ok = rng.choice(ovs)
        extra = [m for m in MODS if m not in im]
        im2 = im + rng.sample(extra, rng.choice([1, 1, 2]))
        ovs.insert(rng.randint(0, len(ovs)), (im2, ik, list(im2), ik))
    return ovs


def table_txt(ovs, rng=None):
    def lst(mods, key):
        l = list(mods) + [key]
        if rng is not None and rng.random() < 0.4:
            rng.shuffle(l)             # the written order of an entry's keys carries no meaning
        return ' '.join(l)
    return '(defoverrides %s)' % ' '.join('(%s) (%s)' % (lst(im, ik), lst(om, ok)) for im, ik, om, ok in ovs)


def spec_sets(ovs, keys):
    """independent reading of the property on a key list (modifiers count for a key when they precede it)"""
    removed, added = [], []
    mods = set()
    for k in keys:
        if k in MODS:
            mods.add(k)
            continue
        best = None
        for o in ovs:
            im, ik, om, ok = o
            if ik == k and set(im) <= mods and (best is None or len(im) > len(best[0])):
                best = o
        if best:
            removed += best[0] + [best[1]]
            added += best[2] + [best[3]]
    return set(removed), set(added)


def gen_cases(rng, tier):
    cases = []
    ntab = 40 if tier == 'quick' else 600
    for i in range(ntab):
        ovs = table(rng, rng.randint(1, 5))
        cfg = '(defsrc a)\n(deflayer l0 a)\n' + table_txt(ovs, rng)
        universe = sorted({k for im, ik, om, ok in ovs for k in im + [ik]} | {'b', 'lsft'})
        lists = []
        for n in range(0, 5):
            perms = list(itertools.permutations(universe, n))
            if len(perms) > 120:
                perms = rng.sample(perms, 120)
            lists += perms
        # key lists with repeated codes: keyberon's key list holds one entry per state, so two physical keys mapped to the
        # same modifier, or a held shift plus an S-x output chord, give the same code twice
        for n in range(2, 6):
            for _ in range(40):
                l = tuple(rng.choice(universe) for _ in range(n))
                if len(set(l)) < len(l):
                    lists.append(l)
        h = ' | '.join(' '.join(str(CODE[k]) for k in l) for l in lists).split()
        cases.append({'id': 'c13-ovr-%d' % i, 'cfg': cfg, 'hist': h, 'sub': 'ovr', 'ovs': ovs, 'lists': lists,
                      'tags': {'kind': 'key-list', 'noverrides': len(ovs)}})
    # through the pipeline
    for i in range(60 if tier == 'quick' else 1500):
        ovs = table(rng, rng.randint(1, 4))
        src = ['a', 's', 'd', 'f', 'g']
        acts = ['lsft', 'lctl', rng.choice(['a', 'b', 'x']), rng.choice(['(multi a b)', 'ralt', 'y', '(multi lsft x)', 'S-a', 'lsft']), rng.choice(['1', 'lalt', 'lsft', 'C-b'])]
        cfg = '(defcfg override-release-on-activation %s)\n(defsrc %s)\n(deflayer l0 %s)\n%s' % (
            rng.choice(['yes', 'no']), ' '.join(src), ' '.join(acts), table_txt(ovs, rng))
        hg = gen.HistGen(rng, gen.codes_of(src), [0, 1, 2, 7])
        toks = []
        for t in hg.consistent(rng.randint(3, 14)) + ['t30']:
            if t[0] == 'p':
                toks.append('d' + t.split(',')[1])
            elif t[0] == 'r':
                toks.append('u' + t.split(',')[1])
            else:
                toks.append(t)
        cases.append({'id': 'c13-pipe-%d' % i, 'cfg': cfg, 'hist': toks, 'sub': 'ksim', 'tags': {'kind': 'pipeline'}})
    # "when the combination ends the override's output keys are released" also when the processing loop sleeps as soon as kanata
    # lets it: each shape once ticking every millisecond, once blocking whenever allowed
    from checks.common import loop_pairs
    lp = []
    j = 0
    for roa in ('yes', 'no'):
        for tbl in ('(lsft a) (lsft 9)', '(lsft a) (b)', '(lctl a) (lalt x)', '(lsft a) (b) (lctl a) (c)'):
            for hold in (3, 80):
                cfg = '(defcfg override-release-on-activation %s)\n(defsrc a b lsft lctl)\n(deflayer l0 a b lsft lctl)\n(defoverrides %s)' % (roa, tbl)
                m = 29 if 'lctl a' in tbl and 'lsft' not in tbl else 42
                h = ['t3', 'd%d' % m, 't5', 'd30', 't%d' % hold, 'u30', 't20', 'u%d' % m, 't80', 'd48', 't3', 'u48', 't80']
                lp.append({'id': 'c13-loop-%d' % j, 'cfg': cfg, 'hist': h, 'sub': 'ksim', 'tags': {'kind': 'loop-pair', 'release_on_activation': roa}})
                j += 1
    cases += loop_pairs(lp)
    return cases


def post(all_results, run_impl, rng, tier, stats):
    from checks.common import loop_pair_violations
    v = loop_pair_violations(all_results)
    stats['loop_pairs'] = sum(1 for c, it, mt in all_results if c.get('loop_mode') == '1')
    return v


def oracle(case, it):
    if case.get('sub') != 'ovr' or not it:
        return None
    lines = [l for l in it if l.startswith('OV ')]
    inv = {v: k for k, v in CODE.items() if k in MODS + NM}
    for i, lst in enumerate(case['lists']):
        if i >= len(lines):
            return 'missing output for key list %d' % i
        out = [int(x) for x in lines[i].split(':', 1)[1].split(';')[0].split()]
        rem, add = spec_sets(case['ovs'], list(lst))
        want = (set(CODE[k] for k in lst) - set(CODE[k] for k in rem)) | set(CODE[k] for k in add)
        if set(out) != want:
            return 'key list %s: OS should see %s, implementation gives %s' % (list(lst), sorted(want), out)
        # keys outside every chosen combination keep their relative order
        outside = [CODE[k] for k in lst if k not in rem]
        kept = [c for c in out if c in outside][:len(outside)]
        if [c for c in out[:len(outside)]] != outside:
            return 'key list %s: keys outside the combination were reordered: %s' % (list(lst), out)
    return None


def nontrivial(case, it):
    if case.get('sub') == 'ovr':
        return bool(it) and any(';' in l and l.split(';')[1].strip() for l in it)
    return trace_has_output(case, it)


SPEC = {
    'id': 'C13', 'sub': 'ovr', 'gen_cases': gen_cases, 'nontrivial': nontrivial, 'oracle': oracle, 'post': post,
    'rule': 'override tables of 1-5 entries over 5 non-modifier keys and all 8 modifiers; for each table every ordered key list of '
            'length <= 4 over the keys it mentions (sampled above 120 per length) plus lists of length 2-5 with repeated codes through the real Overrides::override_keys; plus random '
            'press/release histories through the whole pipeline with override-release-on-activation on/off; non-trivial = some key removed / some output',
    'explanation': 'theorems for arbitrary tables and key lists: the chosen override matches and has the most modifiers, substitution '
                   'adds outputs and removes the combination, outside keys keep their order, no combination => list unchanged',
}
