"""C14 — OS key-repeat is forwarded for, and only for, keys kanata is holding down."""
import re
import gen
from checks.common import trace_has_output


def ktoks(h, rng, keys):
    out = []
    down = []
    for t in h:
        if t[0] == 'p':
            c = int(t.split(',')[1]); out.append('d%d' % c); down.append(c)
        elif t[0] == 'r':
            c = int(t.split(',')[1]); out.append('u%d' % c)
            if c in down:
                down.remove(c)
        else:
            out.append(t)
        if rng.random() < 0.45:
            if down and rng.random() < 0.85:
                out.append('r%d' % rng.choice(down))
            else:
                out.append('r%d' % rng.choice(keys))
    return out


def gen_cases(rng, tier):
    cases = []
    n = 150 if tier == 'quick' else 4000
    for i in range(n):
        g = gen.CfgGen(rng, 'c14', nlayers=rng.choice([1, 2, 3]))
        cfg = g.gen()
        keys = gen.codes_of(g.src)
        hg = gen.HistGen(rng, keys, gen.gaps_for(g.timeouts) + [250])
        for j in range(3):
            h = hg.consistent(rng.randint(2, 12)) + ['t%d' % rng.choice([5, 300])]
            cases.append({'id': 'c14-%d-%d' % (i, j), 'cfg': cfg, 'hist': ktoks(h, rng, keys), 'sub': 'ksim',
                          'tags': {'nlayers': g.nlayers}})
    # every key-producing action form held alone until it has produced its output, then repeated
    forms = ['x', 'S-x', '(multi lctl x)', '(tap-hold 0 20 x y)', '(tap-hold-press 0 20 x y)', '(tap-hold-release 0 20 x y)',
             '(tap-hold-press-timeout 0 20 x y z)', '(tap-hold-release-timeout 0 20 x y z)', '(tap-hold-release-keys 0 20 x y (s))',
             '(tap-hold-except-keys 0 20 x y (s))', '(tap-dance 20 (x y))', '(tap-dance-eager 20 (x y))', '(one-shot 20 lsft)',
             '(fork x y (lsft))', '(switch () x break)', '(switch (lsft) y break () x break)', '(unmod x)', '(unshift x)', 'use-defsrc', '_',
             '(multi (tap-hold 0 20 x y) lalt)', '(tap-hold 0 20 S-x C-y)', '(fork (tap-hold 0 20 x y) z (lsft))',
             '(tap-dance 20 ((tap-hold 0 20 x y) z))', '(switch () (tap-hold 0 20 x y) break)']
    for fi, f in enumerate(forms):
        for layered in (False, True):
            if layered:
                cfg = '(defsrc a s)\n(deflayer l0 %s (layer-while-held l1))\n(deflayer l1 %s _)' % ('z' if f != '_' else 'z', f)
                pre = ['d31', 't3']
                post = ['u31', 't3']
            else:
                cfg = '(defsrc a s)\n(deflayer l0 %s b)' % f
                pre, post = [], []
            h = pre + ['d30', 't60', 'r30', 't2', 'r30', 't5', 'u30', 't60', 'r30', 't5'] + post
            cases.append({'id': 'c14-form-%d-%d' % (fi, layered), 'cfg': cfg, 'hist': h, 'sub': 'ksim', 'form': True,
                          'tags': {'form': f, 'layered': layered}})
    return cases


def oracle(case, it):
    if not it or any(l.startswith(('PANIC', 'ABORT', 'PARSE')) for l in it):
        return None
    down = []
    for l in it:
        m = re.match(r'@(\d+)\+? (.*)', l)
        if m:
            for e in m.group(2).split():
                mm = re.fullmatch(r'([du])(\d+)', e)
                if mm:
                    k = int(mm.group(2))
                    if mm.group(1) == 'd' and k not in down:
                        down.append(k)
                    elif mm.group(1) == 'u' and k in down:
                        down.remove(k)
            continue
        m = re.match(r'R@(\d+) (\d+) : ?(.*)', l)
        if m:
            evs = m.group(3).split()
            if len(evs) > 1:
                return 'repeat of %s at tick %s emitted %d events: %s' % (m.group(2), m.group(1), len(evs), evs)
            if evs:
                mm = re.fullmatch(r'd(\d+)', evs[0])
                if not mm:
                    return 'repeat produced a non-repeat event %s' % evs[0]
                if int(mm.group(1)) not in down:
                    return 'repeat emitted for key %s which is up at the OS (down: %s) at tick %s' % (mm.group(1), down, m.group(1))
            elif case.get('form') and down and int(m.group(1)) >= 60 and int(m.group(1)) < 70:
                return 'held key produced %s but its repeat at tick %s was not forwarded' % (down, m.group(1))
    return None


SPEC = {
    'id': 'C14', 'sub': 'ksim', 'gen_cases': gen_cases, 'nontrivial': lambda c, it: bool(it) and any(l.startswith('R@') and l.split(':')[1].strip() for l in it),
    'oracle': oracle,
    'rule': 'random configs over every key-producing action form (depth <= 3, 1-3 layers, overrides, chords v1) with OS repeats injected at '
            '~45% of the steps for held and for arbitrary keys; plus each action form held alone (on the base layer and on a held layer) '
            'until it has produced output, then repeated; non-trivial = some repeat was forwarded',
    'explanation': 'theorems: at most one repeat and only for a key in the handler\'s held set; an unmod-released modifier is never '
                   'repeated; the last-listed key of a chord is preferred.  The python oracle checks every emitted repeat against the OS-down '
                   'set reconstructed from the output, and completeness for the single-key forms',
}
