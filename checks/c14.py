"""C14 — OS key-repeat is forwarded for, and only for, keys kanata is holding down."""
import re
import gen
from checks.common import trace_has_output


def ktoks(h, rng, keys):
    out = []
    down = []
    for t in h:
        if t[0] == 'p':
            c = int(t.split(',')[1]); out.append('d%d' % c); down.append(c)
        elif t[0] == 'r':
            c = int(t.split(',')[1]); out.append('u%d' % c)
            if c in down:
                down.remove(c)
        else:
            out.append(t)
        if rng.random() < 0.45:
            if down and rng.random() < 0.85:
                out.append('r%d' % rng.choice(down))
            else:
                out.append('r%d' % rng.choice(keys))
    return out


def gen_cases(rng, tier):
    cases = []
    n = 150 if tier == 'quick' else 4000
    for i in range(n):
        g = gen.CfgGen(rng, 'c14', nlayers=rng.choice([1, 2, 3]))
        cfg = g.gen()
        keys = gen.codes_of(g.src)
        hg = gen.HistGen(rng, keys, gen.gaps_for(g.timeouts) + [250])
        for j in range(3):
            h = hg.consistent(rng.randint(2, 12)) + ['t%d' % rng.choice([5, 300])]
            cases.append({'id': 'c14-%d-%d' % (i, j), 'cfg': cfg, 'hist': ktoks(h, rng, keys), 'sub': 'ksim',
                          'tags': {'nlayers': g.nlayers}})
    # every key-producing action form held alone until it has produced its output, then repeated
    forms = ['x', 'S-x', '(multi lctl x)', '(tap-hold 0 20 x y)', '(tap-hold-press 0 20 x y)', '(tap-hold-release 0 20 x y)',
             '(tap-hold-press-timeout 0 20 x y z)', '(tap-hold-release-timeout 0 20 x y z)', '(tap-hold-release-keys 0 20 x y (s))',
             '(tap-hold-except-keys 0 20 x y (s))', '(tap-dance 20 (x y))', '(tap-dance-eager 20 (x y))', '(one-shot 20 lsft)',
             '(fork x y (lsft))', '(switch () x break)', '(switch (lsft) y break () x break)', '(unmod x)', '(unshift x)', 'use-defsrc', '_',
             '(multi (tap-hold 0 20 x y) lalt)', '(tap-hold 0 20 S-x C-y)', '(fork (tap-hold 0 20 x y) z (lsft))',
             '(tap-dance 20 ((tap-hold 0 20 x y) z))', '(switch () (tap-hold 0 20 x y) break)']
    for fi, f in enumerate(forms):
        for layered in (False, True):
            if layered:
                cfg = '(defsrc a s)\n(deflayer l0 %s (layer-while-held l1))\n(deflayer l1 %s _)' % ('z' if f != '_' else 'z', f)
                pre = ['d31', 't3']
                post = ['u31', 't3']
            else:
                cfg = '(defsrc a s)\n(deflayer l0 %s b)' % f
                pre, post = [], []
            h = pre + ['d30', 't60', 'r30', 't2', 'r30', 't5', 'u30', 't60', 'r30', 't5'] + post
            cases.append({'id': 'c14-form-%d-%d' % (fi, layered), 'cfg': cfg, 'hist': h, 'sub': 'ksim', 'form': True,
                          'tags': {'form': f, 'layered': layered}})
    # overrides as part of what puts the key down: the position is remapped (a -> x / y / z), the override is declared for the key the
    # action outputs, for the key another override outputs (a chain on one position) or for the name of the physical position;
    # modifiers held on other positions; the key at the OS is then the override's output and that is what must repeat
    oi = 0
    for f in forms:
        if f in ('use-defsrc', '_'):
            continue
        for ot in ['(lsft x) (lsft 9)', '(lsft x) (y) (lctl y) (z)', '(lctl y) (z) (lsft x) (y)', '(lsft a) (lsft 8)', '(x) (9) (y) (8)',
                   '(lsft x) (9) (lsft y) (8)',
                   # several overrides of one key: each of their outputs is a key the position can hold down
                   '(lsft x) (y) (lctl x) (z)', '(lctl x) (z) (lsft x) (y)', '(lsft x) (8) (lctl x) (9) (lsft lctl x) (7)']:
            for held in (['d31'], ['d31', 'd32'], ['d32']):
                cfg = '(defsrc a s d)\n(deflayer l0 %s lsft lctl)\n(defoverrides %s)' % (f, ot)
                h = held + ['t3', 'd30', 't60', 'r30', 't2', 'r30', 't5', 'u30', 't60', 'r30', 't5', 'u31', 'u32', 't30']
                cases.append({'id': 'c14-ovr-%d' % oi, 'cfg': cfg, 'hist': h, 'sub': 'ksim', 'form': True, 'others': [42, 29],
                              'tags': {'form': 'override:' + f, 'overrides': ot, 'mods_held': len(held)}})
                oi += 1
    # two layers held at once that map the same position differently: the key went down through the layer that was active when it
    # was pressed; its repeat must be forwarded whichever layers are held on top afterwards (and whatever they map there)
    li = 0
    for upper in ['y', '_', 'XX', '(multi lctl y)', 'lsft']:
        for lower in ['x', 'S-x', '(tap-hold 0 20 x z)']:
            for order in ('lower-first', 'upper-first'):
                cfg = ('(defsrc a s d)\n(deflayer base b (layer-while-held nav1) (layer-while-held nav2))\n'
                       '(deflayer nav1 %s _ _)\n(deflayer nav2 %s _ _)' % (lower, upper))
                if order == 'lower-first':
                    # hold nav1, press a (through nav1), then hold nav2 on top
                    h = ['d31', 't3', 'd30', 't40', 'd32', 't17', 'r30', 't2', 'r30', 't5', 'u30', 't5', 'u32', 'u31', 't60']
                else:
                    # hold nav2 then nav1 (nav1 on top), press a through nav1; both layers stay active (the statement is about
                    # actions on the layers that are active when the repeat arrives)
                    h = ['d32', 't3', 'd31', 't3', 'd30', 't54', 'r30', 't2', 'r30', 't5', 'u30', 't5', 'u31', 'u32', 't60']
                cases.append({'id': 'c14-layers-%d' % li, 'cfg': cfg, 'hist': h, 'sub': 'ksim', 'form': True,
                              'tags': {'form': 'two-held-layers', 'upper': upper, 'lower': lower, 'order': order}})
                li += 1
    # chords (v1 and v2) as the key-producing action: a participant shared by two chords, one of them disabled on the layer in use
    # (held layer or layer-switch target), held until the chord has produced its key, then every participant repeated
    ci = 0
    import itertools
    combos = [(True, d1, d2, use, first) for d1, d2, use, first in
              itertools.product(['', 'other', 'base'], ['', 'other', 'base'], ['base', 'other-held', 'other-switched'], [True, False])]
    combos += [(False, '', '', use, first) for use in ['base', 'other-held', 'other-switched'] for first in (True, False)]
    combos = [c + (False,) for c in combos] + [c + (True,) for c in combos if c[0]]
    for v2, dis1, dis2, use, first, noop in combos:          # exhaustive: 54 chords-v2 situations (x2: participants that are no-op keys) + 6 chords-v1
        lay = 'base' if use == 'base' else 'other'
        if v2:
            # (participants may be positions that do nothing by themselves: XX on every layer)
            pk = 'XX XX XX' if noop else 'a s d'
            cfg = ('(defcfg concurrent-tap-hold yes)\n(defsrc a s d j k)\n(deflayer base %s (layer-while-held other) (layer-switch other))\n'
                   '(deflayer other %s _ (layer-switch base))\n(defchordsv2 (a s) x 50 %s (%s) (a d) y 50 %s (%s))'
                   % (pk, pk, rng.choice(['all-released', 'first-release']), dis1, rng.choice(['all-released', 'first-release']), dis2))
            disabled = (dis1 if first else dis2) == lay
        else:
            cfg = ('(defsrc a s d j k)\n(deflayer base (chord g a) (chord g s) (chord g d) (layer-while-held other) (layer-switch other))\n'
                   '(deflayer other _ _ _ _ (layer-switch base))\n(defchords g 50 (a) a (s) s (d) d (a s) x (a d) y)')
            disabled = False
        pre = {'base': ['t6'], 'other-held': ['d36', 't6'], 'other-switched': ['d37', 't3', 'u37', 't3']}[use]
        k2 = 31 if first else 32
        h = pre + ['d30', 'd%d' % k2, 't54', 'r30', 't2', 'r%d' % k2, 't5', 'u30', 'u%d' % k2, 't60'] + (['u36'] if use == 'other-held' else [])
        cases.append({'id': 'c14-chord-%d' % ci, 'cfg': cfg, 'hist': h, 'sub': 'ksim', 'form': True,
                      'tags': {'form': 'chords-v2' if v2 else 'chords-v1', 'layer': use, 'disabled_here': disabled, 'noop_participants': noop}})
        ci += 1
    # sequences: while a sequence is collecting, the hidden modes keep the typed keys away from the OS, so their repeats must not
    # be forwarded either; in the visible mode the key is down and its repeat goes through
    for n in range(24 if tier == 'quick' else 300):
        mode = rng.choice(['hidden-suppressed', 'hidden-delay-type', 'visible-backspaced'])
        T = rng.choice([40, 200])
        cfg = ('(defcfg sequence-input-mode %s sequence-timeout %d)\n(defsrc a s d f)\n(deflayer l0 sldr s d f)\n(defvirtualkeys v0 x)\n(defseq v0 (s d f))'
               % (mode, T))
        h = ['t3', 'd30', 't2', 'u30', 't2', 'd31', 't%d' % rng.choice([2, 8]), 'r31', 't1', 'r31', 't2']
        if rng.random() < 0.5:
            h += ['u31', 't2']
        second = rng.choice([32, 32, 33])          # d continues the sequence, f does not (the sequence is cancelled there)
        h += ['d%d' % second, 't3', 'r%d' % second, 't2', 'r31', 't1']
        end_at = sum(int(t[1:]) for t in h[:h.index('d%d' % second)] if t[0] == 't') if second == 33 else None
        if end_at is None:
            if rng.random() < 0.5:
                end_at = sum(int(t[1:]) for t in h if t[0] == 't')
                h += ['d33', 't2', 'r33', 'u33']
            else:
                end_at = sum(int(t[1:]) for t in h[:h.index('d32')] if t[0] == 't') + T
                h += ['t%d' % (T + 5), 'r32']
        h += ['t3', 'r%d' % second, 'u%d' % second, 'u31', 't50']
        cases.append({'id': 'c14-seq-%d' % n, 'cfg': cfg, 'hist': h, 'sub': 'ksim', 'seq_end': end_at, 'seq_hidden': mode != 'visible-backspaced',
                      'tags': {'form': 'sequence', 'mode': mode}})
    return cases


def oracle(case, it):
    if not it or any(l.startswith(('PANIC', 'ABORT', 'PARSE')) for l in it):
        return None
    down = []
    for l in it:
        m = re.match(r'@(\d+)\+? (.*)', l)
        if m:
            for e in m.group(2).split():
                mm = re.fullmatch(r'([du])(\d+)', e)
                if mm:
                    k = int(mm.group(2))
                    if mm.group(1) == 'd' and k not in down:
                        down.append(k)
                    elif mm.group(1) == 'u' and k in down:
                        down.remove(k)
            continue
        m = re.match(r'R@(\d+) (\d+) : ?(.*)', l)
        if m:
            evs = m.group(3).split()
            if len(evs) > 1:
                return 'repeat of %s at tick %s emitted %d events: %s' % (m.group(2), m.group(1), len(evs), evs)
            if evs:
                mm = re.fullmatch(r'd(\d+)', evs[0])
                if not mm:
                    return 'repeat produced a non-repeat event %s' % evs[0]
                if int(mm.group(1)) not in down:
                    tag = ''
                    if case.get('seq_hidden') and case.get('seq_end') is not None and int(m.group(1)) > case['seq_end'] + 1:
                        # the key was typed into a hidden sequence (never pressed at the OS) and is still held after the sequence ended
                        tag = ' [hidden-sequence-key-held-past-end]'
                    return 'repeat emitted for key %s which is up at the OS (down: %s) at tick %s%s' % (mm.group(1), down, m.group(1), tag)
            elif case.get('form') and [k for k in down if k not in case.get('others', ())] and int(m.group(1)) >= 60 and int(m.group(1)) < 70:
                # (`others`: modifiers held on other positions do not show that the repeated position put anything down)
                return 'held key produced %s but its repeat at tick %s was not forwarded' % (down, m.group(1))
    return None


SPEC = {
    'id': 'C14', 'sub': 'ksim', 'gen_cases': gen_cases, 'nontrivial': lambda c, it: bool(it) and any(l.startswith('R@') and l.split(':')[1].strip() for l in it),
    'oracle': oracle,
    'rule': 'random configs over every key-producing action form (depth <= 3, 1-3 layers, overrides, chords v1) with OS repeats injected at '
            '~45% of the steps for held and for arbitrary keys; plus each action form held alone (on the base layer and on a held layer) '
            'until it has produced output, then repeated; two simultaneously held layers mapping the same position differently; chords v1/v2 with a participant shared by two chords (one disabled on the layer in use); repeats during sequences in all three input modes; non-trivial = some repeat was forwarded',
    'explanation': 'theorems: at most one repeat and only for a key in the handler\'s held set; an unmod-released modifier is never '
                   'repeated; the last-listed key of a chord is preferred.  The python oracle checks every emitted repeat against the OS-down '
                   'set reconstructed from the output, and completeness for the single-key forms',
}
