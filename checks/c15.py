"""C15 — live reload is all-or-nothing.

Theorems (Props/C15.v) on the reload model (Kanata/Reload.v): a failed parse changes nothing, the deferral rule,
reload = fresh instance exactly when the retained fields are at their initial values, reload twice = once, file index
arithmetic of lrld-next/prev/num.  Tie to the code: the real Kanata created from files and driven through
handle_time_ticks with a mocked clock (hook), observed through outputs, the server-message channel, the active
layer and the file index:
  F  failed reload (syntax error, rejected config, empty, missing file, directory) vs the same run with the reload
     key replaced by a no-op: identical traces;
  S  successful reload, then idle, then a history vs a fresh instance of the new file on that history;
  D  the deferral decision observed every tick (hook) vs the model's rule;
  N  lrld-next / lrld-prev / lrld-num over several files: index and notifications vs the model."""
import random, re
import kvlib, gen

PID = 'C15'
F12 = 88


def with_reload_key(cfg, action):
    """adds f12 to defsrc and `action` (a string or a per-layer list) to every deflayer"""
    out = []
    li = 0
    for line in cfg.split('\n'):
        if line.startswith('(defsrc '):
            line = line[:-1] + ' f12)'
        elif line.startswith('(deflayer '):
            a = action if isinstance(action, str) else action[li % len(action)]
            line = line[:-1] + ' ' + a + ')'
            li += 1
        out.append(line)
    return '\n'.join(out)


def first_layer(cfg):
    m = re.search(r'\(deflayer (\S+)', cfg)
    return m.group(1) if m else '?'


def rand_hist(rng, keys, gaps, n, f12_prob=0.0, repeats=0.0):
    h = []
    down = []
    for t in gen.HistGen(rng, keys, gaps).consistent(n):
        if repeats and down and t[0] == 't' and rng.random() < repeats:
            h += ['r' + rng.choice(down), 't1']        # OS auto-repeat of a held key (resolved through the key-outputs table)
        if t[0] == 'p':
            h.append('d' + t.split(',')[1]); down.append(t.split(',')[1])
        elif t[0] == 'r':
            h.append('u' + t.split(',')[1])
            if t.split(',')[1] in down:
                down.remove(t.split(',')[1])
        else:
            h.append(t)
        if f12_prob and rng.random() < f12_prob:
            h += ['d%d' % F12, 't%d' % rng.randint(1, 4), 'u%d' % F12, 't%d' % rng.randint(1, 5)]
    return h, down


BAD = {
    'syntax': '(defsrc a b\n',
    'unbalanced': '(defsrc a) (deflayer x a))\n',
    'empty': '',
    'semantic': '(defsrc a)\n(deflayer x (no-such-action 1))\n',
    'nolayer': '(defsrc a)\n',
}


def gen_cases(rng, tier):
    nF, nS, nN = (150, 220, 60) if tier == 'quick' else (6000, 9000, 3000)
    cases = []
    # ---- F: failed reload == no request
    for i in range(nF):
        g = gen.CfgGen(rng, 'all')
        base = g.gen()
        act = rng.choice(['lrld', 'lrld', 'lrld-next', 'lrld-prev', '(lrld-num 1)'])
        keys = gen.codes_of(g.src)
        gaps = gen.gaps_for(g.timeouts)
        h, down = rand_hist(rng, keys, gaps, rng.randint(4, 14), f12_prob=0.25)
        kind = rng.choice(list(BAD) + ['missing', 'dir'])
        w = {'missing': 'W0,-', 'dir': 'W0,/'}.get(kind, 'W0,bad')
        hist = ['t3', w] + h + ['d%d' % F12, 't2', 'u%d' % F12] + ['u' + d for d in down] + ['t1300', 'q']
        files = {'bad': BAD.get(kind, '')}
        cases.append({'id': 'F%d' % i, 'cfg': with_reload_key(base, act), 'files': files, 'hist': hist, 'sub': 'rsim', 'no_compare': True,
                      'role': 'F', 'twin': 'F%d.t' % i, 'tags': {'scenario': 'failed-reload', 'fault': kind, 'action': act}})
        cases.append({'id': 'F%d.t' % i, 'cfg': with_reload_key(base, '(push-msg twin)'), 'files': files, 'hist': hist, 'sub': 'rsim', 'no_compare': True,
                      'role': 'twin', 'tags': {'scenario': 'twin'}})
    # ---- S: successful reload == restart
    for i in range(nS):
        g1 = gen.CfgGen(rng, 'all'); old = g1.gen()
        g2 = gen.CfgGen(rng, 'all'); new = g2.gen()
        k1, k2 = gen.codes_of(g1.src), gen.codes_of(g2.src)
        h1, down = rand_hist(rng, k1, gen.gaps_for(g1.timeouts), rng.randint(0, 12))
        h2, down2 = rand_hist(rng, k2, gen.gaps_for(g2.timeouts), rng.randint(3, 14), repeats=0.5)
        tail = ['u' + d for d in down2] + ['t1500', 'q']
        held_at_request = bool(down) and rng.random() < 0.5
        pre = h1 + ([] if held_at_request else ['u' + d for d in down] + ['t%d' % rng.choice([1, 5, 40, 400])])
        # keys held at the request are released soon after it, or stay held for longer than the one-second fallback
        hist = ['t2'] + pre + ['W0,new', 'd%d' % F12, 't3', 'u%d' % F12] + ['t%d' % rng.choice([rng.randint(1, 30), rng.randint(1, 30), 1600])] + \
               ['u' + d for d in down] + ['t1300', 't3000', 'q'] + h2 + tail
        newk = with_reload_key(new, 'lrld')
        cases.append({'id': 'S%d' % i, 'cfg': with_reload_key(old, 'lrld'), 'files': {'new': newk}, 'hist': hist, 'sub': 'rsim',
                      'no_compare': True, 'role': 'S', 'twin': 'S%d.f' % i, 'newfirst': first_layer(newk),
                      'tags': {'scenario': 'reload-then-history', 'held_at_request': held_at_request}})
        cases.append({'id': 'S%d.f' % i, 'cfg': newk, 'files': {}, 'hist': ['t10', 'q'] + h2 + tail, 'sub': 'rsim', 'no_compare': True,
                      'role': 'fresh', 'tags': {'scenario': 'fresh'}})
    # ---- SH: a key is down when the reload is requested and stays down for longer than the one-second fallback, with no other
    # input in between; every kind of thing a held key can be (key, modifier, layer, virtual key pressed from a tapped key, tap-hold hold)
    HELD = [('key', 'b', ['d30']), ('modifier', 'lsft', ['d30']), ('layer', '(layer-while-held up)', ['d30']),
            ('tap-hold', '(tap-hold 0 20 b lctl)', ['d30']), ('virtual-key', '(on-press press-vkey vk)', ['d30', 't3', 'u30']),
            ('output-chord', 'C-b', ['d30']), ('multi', '(multi lalt c)', ['d30'])]
    for i, (kindh, act, press) in enumerate(HELD):
        for hold in (1600, 2500):
            old = '(defsrc a s)\n(deflayer base %s x)\n(deflayer up _ y)\n(defvirtualkeys vk z)' % act
            new = '(defsrc a s)\n(deflayer fresh 1 2)\n(deflayer up _ y)\n(defvirtualkeys vk z)'
            h2 = ['d30', 't5', 'u30', 't5', 'd31', 't5', 'u31', 't5']
            tail = ['t1500', 'q']
            hist = ['t2'] + press + ['t20', 'W0,new', 'd%d' % F12, 't3', 'u%d' % F12, 't%d' % hold, 'u30', 't20', 't1300', 't3000', 'q'] + h2 + tail
            newk = with_reload_key(new, ['lrld', '(on-press release-vkey vk)'] if False else 'lrld')
            cid = 'SH%d-%d' % (i, hold)
            cases.append({'id': cid, 'cfg': with_reload_key(old, 'lrld'), 'files': {'new': newk}, 'hist': hist, 'sub': 'rsim',
                          'no_compare': True, 'role': 'S', 'twin': cid + '.f', 'newfirst': first_layer(newk),
                          'tags': {'scenario': 'reload-requested-while-held', 'held': kindh, 'hold_ms': hold}})
            cases.append({'id': cid + '.f', 'cfg': newk, 'files': {}, 'hist': ['t10', 'q'] + h2 + tail, 'sub': 'rsim', 'no_compare': True,
                          'role': 'fresh', 'tags': {'scenario': 'fresh'}})
    # ---- Z: the zippychord dictionary is part of the configuration: it must be replaced / removed by a reload
    for i in range(nN):
        def zcfg(dic):
            base = '(defsrc a b c d)\n(deflayer zl a b c d)'
            return with_reload_key(base + ('\n(defzippy %s on-first-press-chord-deadline 200 idle-reactivate-time 50)' % dic if dic else ''), 'lrld')
        words = [''.join(rng.choice('mnopqr') for _ in range(rng.randint(2, 5))) for _ in range(4)]
        d1 = 'ab\t%s\ncd\t%s' % (words[0], words[1])
        d2 = rng.choice(['ab\t%s' % words[2], 'bc\t%s\nab\t%s' % (words[2], words[3])])
        kind = rng.choice(['removed', 'added', 'changed'])
        old, new = {'removed': (zcfg('z1.txt'), zcfg(None)), 'added': (zcfg(None), zcfg('z2.txt')), 'changed': (zcfg('z1.txt'), zcfg('z2.txt'))}[kind]
        files = {'aux:z1.txt': d1, 'aux:z2.txt': d2, 'new': new}
        h2 = []
        for pair in rng.sample([('a', 'b'), ('c', 'd'), ('b', 'c')], 2):
            c1, c2 = (30 if pair[0] == 'a' else 48 if pair[0] == 'b' else 46), (48 if pair[1] == 'b' else 46 if pair[1] == 'c' else 32)
            h2 += ['d%d' % c1, 't3', 'd%d' % c2, 't5', 'u%d' % c1, 't2', 'u%d' % c2, 't300']
        tail = ['t500', 'q']
        h1 = ['d30', 't3', 'd48', 't5', 'u30', 't2', 'u48', 't200'] if rng.random() < 0.6 else ['t5']
        hist = ['t2'] + h1 + ['W0,new', 'd%d' % F12, 't3', 'u%d' % F12, 't1300', 't3000', 'q'] + h2 + tail
        cases.append({'id': 'Z%d' % i, 'cfg': old, 'files': files, 'hist': hist, 'sub': 'rsim', 'no_compare': True, 'role': 'S', 'twin': 'Z%d.f' % i,
                      'newfirst': 'zl', 'tags': {'scenario': 'reload-zippy-' + kind}})
        cases.append({'id': 'Z%d.f' % i, 'cfg': new, 'files': {k: v for k, v in files.items() if k.startswith('aux:')}, 'hist': ['t10', 'q'] + h2 + tail,
                      'sub': 'rsim', 'no_compare': True, 'role': 'fresh', 'tags': {'scenario': 'fresh'}})
    # ---- ZS: zippychord state that outlives a chord (smart space pending, follow-up context) at the moment of the reload: the first
    # key typed afterwards is a punctuation key / the follow-up key; both files have the dictionary and smart-space full
    for i in range(6 if nN < 100 else 60):
        zc = with_reload_key('(defsrc a b c d . ,)\n(deflayer zl a b c d . ,)\n(defzippy z1.txt on-first-press-chord-deadline 200 '
                             'idle-reactivate-time 50 smart-space full)', 'lrld')
        d1 = 'ab\tday\nab c\tmonday\ncd\tnight'
        files = {'aux:z1.txt': d1, 'new': zc}
        first = rng.choice([52, 51, 46, 30])          # . , c (the follow-up key) a
        h2 = ['d%d' % first, 't3', 'u%d' % first, 't20', 'd46', 't3', 'd32', 't5', 'u46', 't2', 'u32', 't300']
        tail = ['t500', 'q']
        h1 = ['d30', 't3', 'd48', 't5', 'u30', 't2', 'u48', 't%d' % rng.choice([60, 200])]
        hist = ['t2'] + h1 + ['W0,new', 'd%d' % F12, 't3', 'u%d' % F12, 't1300', 't3000', 'q'] + h2 + tail
        cases.append({'id': 'ZS%d' % i, 'cfg': zc, 'files': files, 'hist': hist, 'sub': 'rsim', 'no_compare': True, 'role': 'S', 'twin': 'ZS%d.f' % i,
                      'newfirst': 'zl', 'tags': {'scenario': 'reload-zippy-pending-state'}})
        cases.append({'id': 'ZS%d.f' % i, 'cfg': zc, 'files': {'aux:z1.txt': d1}, 'hist': ['t10', 'q'] + h2 + tail,
                      'sub': 'rsim', 'no_compare': True, 'role': 'fresh', 'tags': {'scenario': 'fresh'}})
    # ---- VD: a hold-for-duration deadline that is running when the reload happens (its virtual key holds a layer, so no output key
    # is down and the reload is applied at once); the same key is armed again soon afterwards
    for i, D in enumerate((300, 500, 900)):
        vc = with_reload_key('(defsrc a b)\n(deflayer base (hold-for-duration %d vnav) b)\n(deflayer nav _ x)\n(defvirtualkeys vnav (layer-while-held nav))' % D,
                             'lrld')
        h2 = ['d30', 't3', 'u30', 't40', 'd48', 't5', 'u48', 't%d' % (D - 120), 'd48', 't5', 'u48', 't200', 'd48', 't5', 'u48', 't300']
        tail = ['t500', 'q']
        hist = ['t2', 'd30', 't3', 'u30', 't50', 'W0,new', 'd%d' % F12, 't3', 'u%d' % F12, 't30', 'q'] + h2 + tail
        cases.append({'id': 'VD%d' % i, 'cfg': vc, 'files': {'new': vc}, 'hist': hist, 'sub': 'rsim', 'no_compare': True, 'role': 'S', 'twin': 'VD%d.f' % i,
                      'newfirst': 'base', 'tags': {'scenario': 'reload-with-running-vkey-deadline', 'D': D}})
        cases.append({'id': 'VD%d.f' % i, 'cfg': vc, 'files': {}, 'hist': ['t10', 'q'] + h2 + tail, 'sub': 'rsim', 'no_compare': True,
                      'role': 'fresh', 'tags': {'scenario': 'fresh'}})
    # ---- N: several files
    for i in range(nN):
        nfiles = rng.randint(2, 4)
        cfgs = []
        for f in range(nfiles):
            acts = [rng.choice(['lrld', 'lrld-next', 'lrld-prev', '(lrld-num %d)' % rng.randint(1, nfiles + 1)])]
            base = '(defsrc a b)\n(deflayer file%d-base a b)' % f
            cfgs.append(with_reload_key(base, acts))
        files = {'p%d' % f: cfgs[f] for f in range(1, nfiles)}
        hist = ['t3']
        for _ in range(rng.randint(2, 7)):
            hist += ['d%d' % F12, 't3', 'u%d' % F12, 't5', 'q']
        cases.append({'id': 'N%d' % i, 'cfg': cfgs[0], 'files': files, 'hist': hist, 'sub': 'rsim', 'no_compare': True, 'role': 'N',
                      'cfgs': cfgs, 'tags': {'scenario': 'multi-file', 'files': nfiles}})
    return cases


def strip(tr, drop=('RQ@', 'RA@')):
    # the twin's key is another custom action without effect on the keyboard: its message is not compared; a second release of a
    # key that is already up in the same millisecond (one release per state holding the key) is the same behaviour
    from checks.c07 import dedup_releases
    # (the number of layout states is bookkeeping, not behaviour: a state left behind by a lost custom release - known finding of C01 -
    # differs between a run whose reload key carries `lrld` and its twin whose key carries `push-msg`)
    return [re.sub(r' nstates=\d+', '', dedup_releases(l)) for l in (tr or []) if not l.startswith(drop) and not (l.startswith('M@') and ' other ' in l)]


def after_marker(tr):
    """lines after the first L@ line, ticks made relative to it"""
    out = []
    base = None
    for l in tr or []:
        if base is None:
            m = re.match(r'L@(\d+) (.*)', l)
            if m:
                base = int(m.group(1))
                out.append('L ' + re.sub(r' file=\d+', '', m.group(2)))
            continue
        m = re.match(r'([A-Z]*)@(\d+)(\+?) (.*)', l)
        if m:
            out.append('%s@%d%s %s' % (m.group(1), int(m.group(2)) - base, m.group(3), re.sub(r' file=\d+', '', m.group(4))))
        elif l.startswith('END'):
            out.append(re.sub(r'tick=\d+', '', l))
        else:
            out.append(l)
    return out


def os_down_at_marker(tr):
    down = set()
    for l in tr or []:
        if l.startswith('L@'):
            break
        if l.startswith('@'):
            for e in l.split(' ')[1:]:
                if e.startswith(('bd', 'bu')):
                    continue    # kanata does not track mouse buttons: a restart would not release them either
                if e[0] == 'd' and e[1:].isdigit():
                    down.add(e[1:])
                elif e[0] == 'u' and e[1:].isdigit():
                    down.discard(e[1:])
    return down


_model_cache = {}


def model_query(q):
    """evaluates next_index / reload_due of Kanata/Reload.v through the extracted model"""
    if q not in _model_cache:
        import subprocess
        p = subprocess.run([kvlib.DRIVER_BIN, 'rld'], input=(q + '\n').encode(), stdout=subprocess.PIPE, timeout=60)
        out = p.stdout.decode().strip().split(' ')
        if len(out) != 2:
            raise RuntimeError('model query failed: %r -> %r' % (q, p.stdout))
        _model_cache[q] = int(out[1])
    return _model_cache[q]


def model_index(action, idx, n):
    """file index after the request: Kanata/Reload.v next_index"""
    if action == 'lrld':
        a, m = 'same', 0
    elif action == 'lrld-next':
        a, m = 'next', 0
    elif action == 'lrld-prev':
        a, m = 'prev', 0
    else:
        a, m = 'num', int(re.match(r'\(lrld-num (\d+)\)', action).group(1)) - 1
    return model_query('IDX %s %d %d %d' % (a, m, idx, n))


def post(all_results, run_impl, rng, tier, stats):
    viol = []
    by = {c['id']: (c, it) for c, it, mt in all_results}
    pairs = 0
    for cid, (c, it) in by.items():
        role = c.get('role')
        if it and it[0].startswith('PARSE-'):
            continue
        if it is None or any(l.startswith(('PANIC', 'ABORT', 'HANG')) for l in it):
            viol.append((c, it, None, 'crash during the run: %s' % ([l for l in (it or ['no output']) if l.startswith(('PANIC', 'ABORT', 'HANG', 'no '))] or ['?'])[0][:120]))
            continue
        # D: deferral rule on every observed tick
        for l in it:
            m = re.match(r'RQ@(\d+) keys_up=(\d) tsi=(\d+) req_after=1', l)
            if m and model_query('DUE 1 %s %s' % (m.group(2), m.group(3))) == 1:
                viol.append((c, it, None, 'a requested reload stayed pending at tick %s although no key was down or more than 1000 idle ticks had passed: %s' % (m.group(1), l)))
                break
        if role == 'F':
            tc, tt = by[c['twin']]
            pairs += 1
            a_, b_ = strip(it), strip(tt)
            if any(l.startswith('L@') and ' req=1' in l for l in a_):
                # the request is still pending (a key is held for good): only then may the idle flag differ
                a_ = [re.sub(r' idle=\d( req=\d)?', '', l) for l in a_]
                b_ = [re.sub(r' idle=\d( req=\d)?', '', l) for l in b_]
            if tt and not tt[0].startswith('PARSE-') and a_ != b_:
                d = [(a, b) for a, b in zip(a_, b_) if a != b][:1] or [('length', 'length')]
                viol.append((c, it, None, 'failed reload (%s) changed behaviour compared with no request: %s vs %s' % (c['tags']['fault'], d[0][0][:80], d[0][1][:80])))
            if any(l.startswith('M@') and ' reload ' in l for l in it):
                viol.append((c, it, None, 'a failed reload (%s) sent a ConfigFileReload notification' % c['tags']['fault']))
        elif role == 'S':
            fc, ft = by[c['twin']]
            pairs += 1
            if ft is None or ft[0].startswith('PARSE-'):
                # the new file is rejected: then the reload must have failed silently
                if any(' reload ' in l for l in it if l.startswith('M@')):
                    viol.append((c, it, None, 'reload notified for a file a fresh start rejects'))
                continue
            ms = [l for l in it if l.startswith('M@')]
            rel = [i for i, l in enumerate(ms) if ' reload ' in l]
            # the reload waits until no output key is down: a key the user is holding is not let go under the finger
            # (RA = the decision inputs of the millisecond in which the request was consumed)
            ra = [re.match(r'RA@(\d+) keys_up=(\d) tsi=(\d+)', l) for l in it if l.startswith('RA@')]
            if rel and ra and ra[0].group(2) == '0' and int(ra[0].group(3)) >= 1000:
                # (keys_up=0 with a small idle count is the ordinary case of the last key going up in the very millisecond of the decision)
                viol.append((c, it, None, 'the reload was applied at tick %s by the one-second fallback while output keys were down: %s ticks had been '
                                          'counted as idle although a key was held' % (ra[0].group(1), ra[0].group(3))))
                continue
            first_l = next((l for l in it if l.startswith('L@')), '')
            if not any(' reload ' in l for l in it if l.startswith('M@')) and ' req=0' in first_l and ' idle=0' in first_l:
                # the old configuration never came to rest and no longer processes input (the request key was never seen):
                # that is a defect of the old configuration's run (C01: see the known finding rpt-any-self-trigger), not of the reload
                stats['old_config_never_idle'] = stats.get('old_config_never_idle', 0) + 1
                continue
            if ' req=1' in first_l:
                # the request is still pending at the marker: allowed only while kanata holds a key (the fallback needs idleness)
                if 'down=[]' in first_l:
                    viol.append((c, it, None, 'the reload is still pending long after the request although no key is down: ' + first_l))
                continue
            if len(rel) != 1:
                viol.append((c, it, None, 'expected exactly one ConfigFileReload notification, saw %d' % len(rel)))
                continue
            nxt = ms[rel[0] + 1] if rel[0] + 1 < len(ms) else ''
            if not nxt.endswith(' layer ' + c['newfirst']) or nxt.split(' ')[0] != ms[rel[0]].split(' ')[0]:
                viol.append((c, it, None, 'reload notification not followed by LayerChange to the first layer %r: %r' % (c['newfirst'], nxt)))
                continue
            downs = os_down_at_marker(it)
            if downs:
                viol.append((c, it, None, 'after the reload and idling something is still pressed at the OS: %s' % sorted(downs)))
                continue
            a, b = after_marker(it), after_marker(ft)
            if a != b:
                d = [(x, y) for x, y in zip(a, b) if x != y][:1] or [('length %d' % len(a), 'length %d' % len(b))]
                viol.append((c, it, None, 'after a successful reload and idling, behaviour differs from a fresh instance of the new configuration: reloaded %r, fresh %r'
                             % (d[0][0][:90], d[0][1][:90])))
        elif role == 'N':
            n = len(c['cfgs'])
            idx = 0
            ls = [l for l in it if l.startswith(('L@', 'M@'))]
            li = 0
            ok = True
            for l in ls:
                if l.startswith('L@'):
                    # one request happened since the previous L line
                    act = re.search(r'\(deflayer \S+ a b (.*)\)$', c['cfgs'][idx], re.M).group(1)
                    idx = model_index(act, idx, n)
                    m = re.match(r'L@\d+ layer=0:(\S+) file=(\d+)', l)
                    if not m or int(m.group(2)) != idx or m.group(1) != 'file%d-base' % idx:
                        viol.append((c, it, None, 'after %s the active file should be %d (layer file%d-base): %s' % (act, idx, idx, l)))
                        ok = False
                        break
            pairs += 1
    stats['pairs'] = pairs
    return viol


SPEC = {
    'id': PID,
    'sub': 'rsim',
    'gen_cases': gen_cases,
    'post': post,
    'timeouts': {'rsim': 300},
    'rule': 'theorems on the reload model; oracles on the real Kanata driven through handle_time_ticks: failed reload == no request (paired run), '
            'successful reload + idle == fresh instance (paired run), deferral rule on every tick, notifications, file index arithmetic',
    'explanation': 'The parser is the real one; the reload logic (do_live_reload, the deferral in handle_time_ticks, index selection) runs in the real '
                   'Kanata through two guarded hooks (mocked clock, read-only decision inputs).',
}
