"""C16 — configuration abstractions are transparent.

Theorems (Props/C16.v): on the s-expression model, a variable use resolves to exactly what its value resolves to; on the
template-expansion model (Parser/Template.v), a call of a template is replaced by its substituted content and the
neighbours are untouched.  Correspondence: the template/conditional expander model vs kanata_parser's expand_templates.
Metamorphic oracle on the real parser and state machine: a generated configuration and its rewritten form (alias,
variable, parameterised template, item behind a template / if-equal, include, platform, deflayermap; random
compositions) must be accepted alike, produce the same parsed tables (layers, key outputs, overrides, sequences,
custom actions, options) and the same output on random histories."""
import random, re
import kvlib, gen, rewrite

PID = 'C16'


def gen_cases(rng, tier):
    n = 800 if tier == 'quick' else 9000
    cases = []
    for i in range(n):
        g = gen.CfgGen(rng, 'all')
        cfg = g.gen()
        keys = gen.codes_of(g.src)
        gaps = gen.gaps_for(g.timeouts)
        h = []
        for t in gen.HistGen(rng, keys, gaps).consistent(rng.randint(4, 16)):
            h.append(('d' + t.split(',')[1]) if t[0] == 'p' else ('u' + t.split(',')[1]) if t[0] == 'r' else t)
        h += ['t700', 'q']
        cases.append({'id': 'o%d' % i, 'cfg': cfg, 'hist': h, 'sub': 'ksim', 'no_compare': True, 'tags': {'role': 'original'}})
        for j in range(2 if tier == 'quick' else 3):
            rw = rewrite.Rewriter(rng)
            t2, files, labels = rw.apply_random(cfg, rng.choice([1, 1, 2, 3]))
            if not labels:
                continue
            cases.append({'id': 'o%d.r%d' % (i, j), 'cfg': t2, 'files': files, 'hist': h, 'sub': 'ksim', 'no_compare': True,
                          'orig': 'o%d' % i, 'labels': labels, 'tags': {'role': 'rewritten', 'rewrites': '+'.join(sorted(set(l.split(':')[0] for l in labels)))}})
    import cfgmut
    for i in range(1500 if tier == 'quick' else 40000):
        t = tmpl_text(rng)
        cases.append({'id': 'tm%d' % i, 'cfg': '', 'sub': 'tmpl', 'hist': ['X', cfgmut.hx(t)], 'text': t, 'tags': {'role': 'template-text'}})
    return cases


def tmpl_text(rng):
    """random text exercising deftemplate / template-expand / concat / conditionals, valid and invalid"""
    names = ['t%d' % i for i in range(rng.randint(1, 4))]
    defined = []
    parts = []

    def atom(params):
        r = rng.random()
        if params and r < 0.35:
            return '$' + rng.choice(params)
        return rng.choice(['a', 'b', 'on', 'off', 'x', '"q r"', 'r#"z"#', '$free', '1', 'lctl', '"on"'])

    def expr(params, depth, in_template):
        r = rng.random()
        if depth > 3 or r < 0.3:
            return atom(params)
        if r < 0.42 and defined:
            t, ps = rng.choice(defined)
            n = len(ps) if rng.random() < 0.97 else rng.randint(0, 3)
            return '(%s %s%s)' % (rng.choice(['template-expand', 't!']), t if rng.random() < 0.985 else 'nope',
                                  ''.join(' ' + expr(params, depth + 1, in_template) for _ in range(n)))
        if r < 0.5 and in_template:
            return '(concat %s)' % ' '.join(expr(params, depth + 1, in_template) for _ in range(rng.randint(0, 3)))
        if r < 0.72 and (in_template or rng.random() < 0.2):
            op = rng.choice(['if-equal', 'if-not-equal', 'if-in-list', 'if-not-in-list'])
            a1 = atom(params) if rng.random() < 0.985 else '(l)'
            if op.endswith('list'):
                a2 = '(%s)' % ' '.join(expr(params, depth + 2, in_template) for _ in range(rng.randint(0, 3))) if rng.random() < 0.985 else 'notalist'
            else:
                a2 = atom(params) if rng.random() < 0.985 else '(l)'
            k = rng.randint(0, 3)
            if rng.random() < 0.01:
                return '(%s %s)' % (op, a1)
            return '(%s %s %s%s)' % (op, a1, a2, ''.join(' ' + expr(params, depth + 1, in_template) for _ in range(k)))
        return '(%s%s)' % (rng.choice(['multi', 'k', 'deflayer', 'defalias', 'm']),
                           ''.join(' ' + expr(params, depth + 1, in_template) for _ in range(rng.randint(0, 4))))
    for nm in names:
        ps = ['p%d' % i for i in range(rng.randint(0, 3))]
        body = ' '.join(expr(ps, 1, True) for _ in range(rng.randint(0, 4)))
        r = rng.random()
        if r < 0.01:
            parts.append('(deftemplate)')
        elif r < 0.02:
            parts.append('(deftemplate %s)' % nm)
        elif r < 0.03:
            parts.append('(deftemplate %s notalist %s)' % (nm, body))
        elif r < 0.04:
            parts.append('(deftemplate %s ((p)) %s)' % (nm, body))
        elif r < 0.055 and defined:
            parts.append('(deftemplate %s (%s) %s)' % (defined[0][0], ' '.join(ps), body))
        elif r < 0.065:
            parts.append('(deftemplate %s (%s) (deftemplate x () a))' % (nm, ' '.join(ps)))
        else:
            parts.append('(deftemplate %s (%s) %s)' % (nm, ' '.join(ps), body))
            defined.append((nm, ps))
        for _ in range(rng.randint(0, 2)):
            parts.append(expr([], 0, False) if rng.random() < 0.99 else 'stray')
    for _ in range(rng.randint(1, 3)):
        parts.append(expr([], 0, False))
    parts = [x if x.startswith('(') or rng.random() < 0.02 else '(w %s)' % x for x in parts]
    return '\n'.join(parts)


def canon_dump(block_lines):
    """the parsed tables with custom-action ids replaced by their content"""
    cu = {}
    for l in block_lines:
        if l.startswith('CU '):
            p = l.split(' ', 2)
            cu[p[1]] = p[2].strip().replace(' ', '_')
    out = []
    for l in block_lines:
        if l.startswith(('CU ', 'CUSTOMS')):
            continue
        toks = l.split(' ')
        res = []
        i = 0
        while i < len(toks):
            if toks[i] in ('C', 'c') and i + 1 < len(toks) and toks[i + 1] in cu and l.startswith(('ROW', 'LCFG')) is not None:
                res.append(toks[i] + '{' + cu[toks[i + 1]] + '}')
                i += 2
            else:
                res.append(toks[i])
                i += 1
        out.append(' '.join(res))
    return out


def post(all_results, run_impl, rng, tier, stats):
    import os
    viol = []
    # the dumps are in the raw implementation output of the run; reload them
    d = os.path.join(kvlib.BUILD, 'runs', PID + '-ksim')
    dumps = {}
    for fn in os.listdir(d):
        if fn.startswith('impl_'):
            blocks = kvlib.split_blocks(open(os.path.join(d, fn), encoding='utf-8').read())
            for cid, lines in blocks.items():
                if 'DUMP-BEGIN' in lines and 'DUMP-END' in lines:
                    dumps[cid] = lines[lines.index('DUMP-BEGIN') + 1:lines.index('DUMP-END')]
    by = {c['id']: (c, it) for c, it, mt in all_results}
    npairs = 0
    for cid, (c, it) in by.items():
        if 'orig' not in c:
            continue
        oc, oit = by[c['orig']]
        npairs += 1
        rej_o = bool(oit) and oit[0].startswith('PARSE-')
        rej_r = bool(it) and it[0].startswith('PARSE-')
        lab = '+'.join(c['labels'])
        if rej_o != rej_r:
            viol.append((c, it, None, 'rewrite [%s] changed acceptance: original %s, rewritten %s (%s)' % (
                lab, 'rejected' if rej_o else 'accepted', 'rejected' if rej_r else 'accepted', (it or oit or [''])[0][:160])))
            continue
        if rej_o:
            continue
        a, b = canon_dump(dumps.get(c['orig'], [])), canon_dump(dumps.get(cid, []))
        if a != b:
            diff = [(x, y) for x, y in zip(a, b) if x != y][:1]
            viol.append((c, it, None, 'rewrite [%s] changed the parsed tables: %s' % (lab, (diff or [('len', 'len')])[0])))
            continue
        if kvlib.canon_trace(oit) != kvlib.canon_trace(it):
            viol.append((c, it, None, 'rewrite [%s] changed the behaviour on the same history' % lab))
    stats['pairs'] = npairs
    return viol


def parse_oracle(c, it):
    return None


SPEC = {
    'id': PID,
    'sub': 'ksim',
    'gen_cases': gen_cases,
    'post': post,
    'parse_oracle': parse_oracle,
    'rule': 'theorems: variable use = value; template call = substituted content, neighbours untouched; correspondence: template expander model == '
            'expand_templates; metamorphic oracle: original vs rewritten configuration agree on acceptance, parsed tables and traces',
    'explanation': 'The rewriting relation itself (which rewrites are neutral) is a Python transformation; the theorems cover the substitution '
                   'mechanisms it relies on (variables, template expansion, conditionals), the oracle covers the real parser end to end.',
}
