"""C17 — tap-dance performs exactly the action for the number of taps."""
from checks.common import lsim_cases, trace_has_output, grid_schedules


def gen_cases(rng, tier):
    cases = lsim_cases(rng, 'c17', 150 if tier == 'quick' else 4000, 3, nev=(2, 16), tag='c17')
    # grid: list length 1-4, lazy/eager, T, schedules over the dance key and one other key
    i = 0
    for eager in (False, True):
        for n in (1, 2, 3, 4):
            for T in ([20] if tier == 'quick' else [2, 20, 200]):
                acts = ['x', 'y', '(layer-while-held l1)', '(tap-hold 0 %d z lsft)' % T][:n]
                if eager:
                    acts = ['x', 'y', 'z', 'lctl'][:n]
                cfg = '(defsrc a s)\n(deflayer l0 (%s %d (%s)) 1)\n(deflayer l1 2 3)' % (
                    'tap-dance-eager' if eager else 'tap-dance', T, ' '.join(acts))
                gaps = sorted({0, 1, T - 1, T, T + 1})
                for toks in grid_schedules(rng, [30, 30, 30, 31], gaps, 10, 30 if tier == 'quick' else 800, T + 40):
                    cases.append({'id': 'c17-grid-%d' % i, 'cfg': cfg, 'hist': toks, 'sub': 'lsim',
                                  'tags': {'eager': eager, 'n': n, 'T': T}})
                    i += 1
    return cases


SPEC = {
    'id': 'C17', 'sub': 'lsim', 'gen_cases': gen_cases, 'nontrivial': trace_has_output,
    'rule': 'random C17-profile configs (lists of 1-4 keys/layers/tap-holds, lazy and eager) x consistent histories with gaps {0,1,T-1,T,T+1}' + '; non-trivial = distinct (config, trace) with output',
    'explanation': 'theorems: tap count = 1 + own presses before the first other press, the three end conditions, chosen action = min(count,len)-1, eviction keeps other keys in order',
}
