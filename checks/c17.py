"""C17 — tap-dance performs exactly the action for the number of taps."""
from checks.common import lsim_cases, trace_has_output, grid_schedules


def gen_cases(rng, tier):
    cases = lsim_cases(rng, 'c17', 150 if tier == 'quick' else 4000, 3, nev=(2, 16), tag='c17')
    # grid: list length 1-4, lazy/eager, T, schedules over the dance key and one other key
    i = 0
    for eager in (False, True):
        for n in (1, 2, 3, 4):
            for T in ([20] if tier == 'quick' else [2, 20, 200]):
                acts = ['x', 'y', '(layer-while-held l1)', '(tap-hold 0 %d z lsft)' % T][:n]
                if eager:
                    acts = ['x', 'y', 'z', 'lctl'][:n]
                cfg = '(defsrc a s)\n(deflayer l0 (%s %d (%s)) 1)\n(deflayer l1 2 3)' % (
                    'tap-dance-eager' if eager else 'tap-dance', T, ' '.join(acts))
                gaps = sorted({0, 1, T - 1, T, T + 1})
                for toks in grid_schedules(rng, [30, 30, 30, 31], gaps, 10, 30 if tier == 'quick' else 800, T + 40):
                    cases.append({'id': 'c17-grid-%d' % i, 'cfg': cfg, 'hist': toks, 'sub': 'lsim',
                                  'tags': {'eager': eager, 'n': n, 'T': T}})
                    i += 1
    # the statement itself: N taps in a row (each within T of the previous), the last one held, then released
    KEYS = [45, 21, 44, 46, 47]       # x y z c v
    j = 0
    # (lists of plain keys, and lists in which one entry is an action that presses nothing or is a macro: what an entry does must not
    # decide whether the next tap counts)
    for eager, variant in [(e, v) for e in (False, True) for v in ('keys', 'xx-first', 'xx-second', 'macro-first', 'release-first')]:
        for L in (2, 3, 4, 5):
            for N in range(1, L + 2):
                T = rng.choice([30, 100])
                slots = list('xyzcv'[:L])
                if variant == 'xx-first':
                    slots[0] = 'XX'
                elif variant == 'xx-second':
                    slots[1] = 'XX'
                elif variant == 'macro-first':
                    slots[0] = '(macro x)'
                elif variant == 'release-first':
                    slots[0] = '(release-key lalt)'
                cfg = '(defsrc a s)\n(deflayer l0 (%s %d (%s)) 1)' % ('tap-dance-eager' if eager else 'tap-dance', T, ' '.join(slots))
                h = ['t5']
                for k in range(min(N, L) if N > L else N):
                    last = (k == (min(N, L) if N > L else N) - 1)
                    h += ['p0,30', 't%d' % rng.randint(1, 4)]
                    if not last:
                        h += ['r0,30', 't%d' % rng.randint(1, max(1, T // 3))]
                hold = rng.choice([5, T + 30])
                h += ['t%d' % hold, 'r0,30', 't%d' % (T + 60)]
                taps = min(N, L) if N > L else N
                silent = [i for i, sl in enumerate(slots) if sl in ('XX', '(release-key lalt)')]
                cases.append({'id': 'c17-spec-%d' % j, 'cfg': cfg, 'hist': h, 'sub': 'lsim',
                              'spec': {'eager': eager, 'L': L, 'taps': taps, 'silent': silent},
                              'tags': {'eager': eager, 'n': L, 'taps': taps, 'mode': 'statement', 'list': variant}})
                j += 1
    # one tap-dance bound to two positions (through an alias): every position counts its own taps
    tj = 0
    for eager in (False, True):
        for T in (30, 100):
            for pat in ('a b b', 'a b b b', 'a a b b', 'b a a', 'a b a b'):
                cfg = '(defsrc a s d)\n(defalias td (%s %d (x y z)))\n(deflayer l0 @td @td 1)' % ('tap-dance-eager' if eager else 'tap-dance', T)
                h = ['t5']
                for k in pat.split():
                    code = 30 if k == 'a' else 31
                    h += ['p0,%d' % code, 't%d' % rng.randint(1, 4), 'r0,%d' % code, 't%d' % rng.randint(2, max(3, T // 4))]
                h += ['t%d' % (T + 60)]
                cases.append({'id': 'c17-two-%d' % tj, 'cfg': cfg, 'hist': h, 'sub': 'lsim', 'tags': {'eager': eager, 'mode': 'same-list-on-two-keys', 'pattern': pat}})
                tj += 1
    # "one press held until the final release", seen from the OS: while the final tap is held the chosen action's key is down and the
    # OS repeats of the physical key are forwarded as repeats of that key (lazy and eager, every count, list exhausted or timed out)
    hj = 0
    for eager in (False, True):
        for T in (30, 100):
            for n in (1, 2, 3):
                for layered in (False, True):
                    td = '(%s %d (x y z))' % ('tap-dance-eager' if eager else 'tap-dance', T)
                    if layered:
                        cfg = '(defsrc a s)\n(deflayer l0 b (layer-while-held l1))\n(deflayer l1 %s _)' % td
                        h = ['d31', 't3']
                    else:
                        cfg = '(defsrc a s)\n(deflayer l0 %s b)' % td
                        h = ['t3']
                    for _ in range(n - 1):
                        h += ['d30', 't3', 'u30', 't4']
                    h += ['d30', 't%d' % (T + 40)]
                    now = sum(int(t[1:]) for t in h if t[0] == 't')
                    h += ['r30', 't2', 'r30', 't5', 'u30', 't%d' % (T + 60)] + (['u31', 't5'] if layered else [])
                    cases.append({'id': 'c17-held-%d' % hj, 'cfg': cfg, 'hist': h, 'sub': 'ksim', 'heldrep': {'code': [45, 21, 44][n - 1], 'ticks': [now, now + 2]},
                                  'tags': {'eager': eager, 'mode': 'final-tap-held-with-os-repeats', 'taps': n}})
                    hj += 1
    return cases


def oracle_held(c, it):
    import re
    want = c['heldrep']
    seen = {}
    for l in it:
        m = re.match(r'R@(\d+) (\d+) : ?(.*)', l)
        if m:
            seen[int(m.group(1))] = m.group(3).split()
    for t in want['ticks']:
        if seen.get(t) != ['d%d' % want['code']]:
            return 'tap-dance resolved to key %d and held: the OS repeat at tick %d produced %s, expected a repeat of that key' % (want['code'], t, seen.get(t))
    return None


def oracle(c, it):
    if 'heldrep' in c and it and not it[0].startswith('PARSE-') and not any(l.startswith(('PANIC', 'ABORT', 'HANG')) for l in it):
        return oracle_held(c, it)
    if 'spec' not in c or not it or it[0].startswith('PARSE-') or any(l.startswith(('PANIC', 'ABORT', 'HANG')) for l in it):
        return None
    sp = c['spec']
    KEYS = [45, 21, 44, 46, 47]
    prev, downs, last = set(), {}, set()
    for l in it:
        if l.startswith('@') and ' K' in l:
            cur = set(int(x) for x in l.split(' K', 1)[1].split(' C ')[0].split())
            for k in cur - prev:
                downs[k] = downs.get(k, 0) + 1
            prev = cur
            last = cur
    want = KEYS[sp['taps'] - 1]
    if sp['eager']:
        exp = {k: 1 for i, k in enumerate(KEYS[:sp['taps']]) if i not in sp.get('silent', ())}
    else:
        exp = {want: 1} if sp['taps'] - 1 not in sp.get('silent', ()) else {}
    if downs != exp:
        return '%d taps on a %s of %d actions: expected key presses %s, saw %s' % (sp['taps'], 'tap-dance-eager' if sp['eager'] else 'tap-dance', sp['L'], exp, downs)
    if last:
        return 'keys left down at the end: %s' % sorted(last)
    return None


SPEC = {
    'oracle': oracle,
    'id': 'C17', 'sub': 'lsim', 'gen_cases': gen_cases, 'nontrivial': trace_has_output,
    'rule': 'random C17-profile configs (lists of 1-4 keys/layers/tap-holds, lazy and eager) x consistent histories with gaps {0,1,T-1,T,T+1}' + '; non-trivial = distinct (config, trace) with output',
    'explanation': 'theorems: tap count = 1 + own presses before the first other press, the three end conditions, chosen action = min(count,len)-1, eviction keeps other keys in order',
}
