"""C18 — virtual keys obey press / release / tap / toggle and their timed forms."""
import re
import gen
from checks.common import trace_has_output

SRC = ['a', 's', 'd', 'f', 'g', 'h', 'j', 'k']
C = {k: gen.KEYCODES[k] for k in SRC}


def gen_cases(rng, tier):
    cases = []
    n = 200 if tier == 'quick' else 5000
    for i in range(n):
        nv = rng.randint(1, 3)
        vk_actions = []
        for v in range(nv):
            vk_actions.append(rng.choice(['x', 'y', 'lsft', '(layer-while-held l1)', '(macro z 5 b)', 'S-x', '(multi lctl y)']))
        D = rng.choice([2, 10, 50])
        D2 = rng.choice([5, 30, 200])
        while D2 == D:
            D2 = rng.choice([5, 30, 200])
        ops = ['press-vkey', 'release-vkey', 'tap-vkey', 'toggle-vkey']
        acts = []
        # hash-map / hash-set iteration order is observable when two deadlines expire in the same tick: keep one
        # hold-for-duration virtual key (two durations) and at most one on-idle entry per duration
        hfd_v = 'v%d' % rng.randrange(nv)
        idle_entries = {D: '(on-idle %d %s v%d)' % (D, rng.choice(['tap-vkey', 'toggle-vkey', 'press-vkey']), rng.randrange(nv)),
                        D2: '(on-idle %d %s v%d)' % (D2, rng.choice(['tap-vkey', 'toggle-vkey', 'release-vkey']), rng.randrange(nv))}
        for _ in SRC[:-1]:
            v = 'v%d' % rng.randrange(nv)
            r = rng.random()
            if r < 0.35:
                acts.append('(on-press %s %s)' % (rng.choice(ops), v))
            elif r < 0.55:
                acts.append('(on-release %s %s)' % (rng.choice(ops), v))
            elif r < 0.75:
                acts.append('(hold-for-duration %d %s)' % (rng.choice([D, D2]), hfd_v))
            elif r < 0.9:
                acts.append(idle_entries[rng.choice([D, D2])])
            else:
                acts.append('(macro (on-press tap-vkey %s) 5 (on-press toggle-vkey %s))' % (v, v))
        acts.append('n')
        cfg = '(defsrc %s)\n(deflayer l0 %s)\n(deflayer l1 %s)\n(defvirtualkeys %s)' % (
            ' '.join(SRC), ' '.join(acts), ' '.join(['1'] * len(SRC)),
            ' '.join('v%d %s' % (j, a) for j, a in enumerate(vk_actions)))
        h = []
        down = []
        gaps = sorted({0, 1, 2, D - 1, D, D + 1, D2 - 1, D2, D2 + 1})
        for _ in range(rng.randint(3, 16)):
            r = rng.random()
            if r < 0.15:
                h.append('v%s,1,%d' % (rng.choice('prtg'), rng.randrange(nv)))     # direct fake-key call (TCP path)
            else:
                k = rng.choice(SRC)
                if k in down:
                    down.remove(k); h.append('u%d' % C[k])
                else:
                    down.append(k); h.append('d%d' % C[k])
            g = rng.choice(gaps) if rng.random() < 0.5 else rng.choice([0, 1, 2, 3])
            if g:
                h.append('t%d' % g)
        for k in down:
            h += ['u%d' % C[k], 't2']
        h += ['t%d' % (max(D, D2) + 30), 'q']
        cases.append({'id': 'c18-%d' % i, 'cfg': cfg, 'hist': h, 'sub': 'ksim', 'tags': {'nv': nv, 'D': D, 'D2': D2}})
    return cases


SPEC = {
    'id': 'C18', 'sub': 'ksim', 'gen_cases': gen_cases, 'nontrivial': trace_has_output,
    'rule': 'configs with 1-3 virtual keys carrying key / chord / layer / macro actions operated through on-press, on-release, on-idle, '
            'hold-for-duration (two different durations), macros, and direct fake-key calls, with gaps at D-1/D/D+1; non-trivial = output produced',
    'explanation': 'theorems: press/release/tap are the layout\'s own events whoever triggers them, toggle releases iff something is held at '
                   'the coordinate, hold-for-duration releases exactly at D for every D and is re-armed without a second press, on-idle fires once '
                   'the idle time is reached and not before',
}
