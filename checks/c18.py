"""C18 — virtual keys obey press / release / tap / toggle and their timed forms."""
import re, random
import gen
from checks.common import trace_has_output

SRC = ['a', 's', 'd', 'f', 'g', 'h', 'j', 'k']
C = {k: gen.KEYCODES[k] for k in SRC}


def gen_cases(rng, tier):
    cases = []
    n = 200 if tier == 'quick' else 5000
    for i in range(n):
        nv = rng.randint(1, 3)
        vk_actions = []
        for v in range(nv):
            vk_actions.append(rng.choice(['x', 'y', 'lsft', '(layer-while-held l1)', '(macro z 5 b)', 'S-x', '(multi lctl y)']))
        D = rng.choice([2, 10, 50])
        D2 = rng.choice([5, 30, 200])
        while D2 == D:
            D2 = rng.choice([5, 30, 200])
        ops = ['press-vkey', 'release-vkey', 'tap-vkey', 'toggle-vkey']
        acts = []
        # hash-map / hash-set iteration order is observable when two deadlines expire in the same tick: keep one
        # hold-for-duration virtual key (two durations) and at most one on-idle entry per duration
        hfd_v = 'v%d' % rng.randrange(nv)
        idle_entries = {D: '(on-idle %d %s v%d)' % (D, rng.choice(['tap-vkey', 'toggle-vkey', 'press-vkey']), rng.randrange(nv)),
                        D2: '(on-idle %d %s v%d)' % (D2, rng.choice(['tap-vkey', 'toggle-vkey', 'release-vkey']), rng.randrange(nv))}
        for _ in SRC[:-1]:
            v = 'v%d' % rng.randrange(nv)
            r = rng.random()
            if r < 0.35:
                acts.append('(on-press %s %s)' % (rng.choice(ops), v))
            elif r < 0.55:
                acts.append('(on-release %s %s)' % (rng.choice(ops), v))
            elif r < 0.75:
                acts.append('(hold-for-duration %d %s)' % (rng.choice([D, D2]), hfd_v))
            elif r < 0.9:
                acts.append(idle_entries[rng.choice([D, D2])])
            else:
                acts.append('(macro (on-press tap-vkey %s) 5 (on-press toggle-vkey %s))' % (v, v))
        acts.append('n')
        cfg = '(defsrc %s)\n(deflayer l0 %s)\n(deflayer l1 %s)\n(defvirtualkeys %s)' % (
            ' '.join(SRC), ' '.join(acts), ' '.join(['1'] * len(SRC)),
            ' '.join('v%d %s' % (j, a) for j, a in enumerate(vk_actions)))
        h = []
        down = []
        gaps = sorted({0, 1, 2, D - 1, D, D + 1, D2 - 1, D2, D2 + 1})
        for _ in range(rng.randint(3, 16)):
            r = rng.random()
            if r < 0.15:
                h.append('v%s,1,%d' % (rng.choice('prtg'), rng.randrange(nv)))     # direct fake-key call (TCP path)
            else:
                k = rng.choice(SRC)
                if k in down:
                    down.remove(k); h.append('u%d' % C[k])
                else:
                    down.append(k); h.append('d%d' % C[k])
            g = rng.choice(gaps) if rng.random() < 0.5 else rng.choice([0, 1, 2, 3])
            if g:
                h.append('t%d' % g)
        for k in down:
            h += ['u%d' % C[k], 't2']
        h += ['t%d' % (max(D, D2) + 30), 'q']
        cases.append({'id': 'c18-%d' % i, 'cfg': cfg, 'hist': h, 'sub': 'ksim', 'tags': {'nv': nv, 'D': D, 'D2': D2}})
    # on-idle: fires once after kanata has been idle for the stated time - counted from the last input event, press or release -
    # and not before; run in the processing-loop order (idle bookkeeping before every millisecond)
    for i in range(60 if tier == 'quick' else 1500):
        D = rng.choice([10, 50, 200])
        cfg = '(defsrc a s d)\n(deflayer l0 (on-idle %d %s v0) b c)\n(defvirtualkeys v0 x)' % (D, rng.choice(['tap-vkey', 'tap-vkey', 'press-vkey', 'toggle-vkey']))
        h = [rng.choice(['B0', 'B1']), 't%d' % rng.randint(1, 5), 'd30', 't%d' % rng.randint(1, 3), 'u30']
        now = sum(int(t[1:]) for t in h if t[0] == 't')
        last = now
        down = []
        for _ in range(rng.randint(0, 4)):
            g = rng.randint(1, max(1, D - 6))
            h.append('t%d' % g); now += g
            if down and rng.random() < 0.6:
                h.append('u%d' % down.pop())
            else:
                # (the on-idle key itself may be tapped again while its entry is waiting: that only restarts the idle time)
                k = rng.choice([k for k in (31, 32) if k not in down] or [31])
                if rng.random() < 0.35:
                    h += ['d30', 't1', 'u30']; now += 1
                    last = now
                    continue
                if k in down:
                    down.remove(k); h.append('u%d' % k)
                else:
                    down.append(k); h.append('d%d' % k)
            last = now
        if down:
            # a key that is still held keeps kanata busy while an on-idle entry waits: the idle time starts at its release
            g = rng.choice([3, D + 40])
            h += ['t%d' % g] + ['u%d' % k for k in down]
            last = now + g
        # the quiet stretch in iterations of 1, 2, 3, 5 or 7 milliseconds (a loop that comes late): the idle time advances by the
        # length of the iteration and may step over the stated time without ever being equal to it
        step = rng.choice([1, 1, 2, 3, 5, 7])
        if step == 1:
            h += ['t%d' % (D + 40), 'q']
        else:
            h += ['m%d' % step] * ((D + 40) // step + 1) + ['q']
        cases.append({'id': 'c18-idle-%d' % i, 'cfg': cfg, 'hist': h, 'sub': 'ksim', 'idle': {'D': D, 'last': last, 'step': step},
                      'tags': {'kind': 'on-idle', 'D': D, 'loop_step_ms': step}})
    # a virtual key operated while a chords-v2 key is waiting for its chord: the virtual key's own press and release reach the
    # output at once, whatever the chord machinery is waiting for (deterministic shapes, own random stream)
    for i in range(36 if tier == 'quick' else 360):
        r2 = random.Random(5113 * i + (0 if tier == 'quick' else 700001))
        T = [150, 200, 400][i % 3]
        first = ['chord-key', 'vkey'][(i // 3) % 2]
        gap = [1, 1, 2, 3, 10, 40][(i // 6) % 6]
        cfg = ('(defcfg concurrent-tap-hold yes)\n(defsrc a s d f)\n(deflayer l0 a s d f)\n(defvirtualkeys v0 lsft)\n'
               '(defchordsv2 (d f) z %d all-released ())' % T)
        h = ['t100']
        now = 100
        exp = []
        if first == 'chord-key':
            h += ['d32'] + (['t%d' % g] if (g := r2.choice([0, 0, 4])) else [])
            now += g
            h += ['vp,1,0']; exp.append((now, 'd'))
        else:
            h += ['vp,1,0']; exp.append((now, 'd'))
            g = r2.choice([1, 5])
            h += ['t%d' % g, 'd32']; now += g
        h += ['t%d' % gap]; now += gap
        h += ['vr,1,0']; exp.append((now, 'u'))
        h += ['t%d' % (T + 100), 'u32', 't50', 'q']
        cases.append({'id': 'c18-pend-%d' % i, 'cfg': cfg, 'hist': h, 'sub': 'ksim', 'vkpend': exp,
                      'tags': {'kind': 'vkey-while-chord-key-pending', 'first': first, 'gap': gap}})
    return cases


def oracle_pending(c, it):
    got = []
    for l in it:
        if l.startswith('@'):
            tick = int(l.split(' ')[0][1:].rstrip('+'))
            for e in l.split(' ')[1:]:
                if e in ('d42', 'u42'):
                    got.append((tick, e[0]))
    exp = c['vkpend']
    if [k for _, k in got] != [k for _, k in exp]:
        return 'virtual key (lsft) operated at %s: its key did %s' % (exp, got)
    for (te, k), (tg, _) in zip(exp, got):
        if not (te <= tg <= te + 3):
            return 'virtual key (lsft) %s requested at tick %d reached the output at tick %d (a chords-v2 key was waiting for its chord)' % (
                'press' if k == 'd' else 'release', te, tg)
    return None


def oracle(c, it):
    if 'vkpend' in c and it and not it[0].startswith('PARSE-') and not any(l.startswith(('PANIC', 'ABORT', 'HANG')) for l in it):
        return oracle_pending(c, it)
    if 'idle' not in c or not it or it[0].startswith('PARSE-') or any(l.startswith(('PANIC', 'ABORT', 'HANG')) for l in it):
        return None
    D, last = c['idle']['D'], c['idle']['last']
    fires = [int(l.split(' ')[0][1:].rstrip('+')) for l in it if l.startswith('@') and 'd45' in l.split(' ')[1:]]
    if not fires:
        return 'on-idle %d never fired although kanata was idle for %d ms after the last input event (tick %d)' % (D, D + 40, last)
    if fires[0] < last + D:
        return 'on-idle %d fired at tick %d, only %d ms after the last input event (tick %d)' % (D, fires[0], fires[0] - last, last)
    if fires[0] > last + D + 5 + 2 * c['idle'].get('step', 1):
        return 'on-idle %d fired at tick %d, %d ms after the last input event (tick %d)' % (D, fires[0], fires[0] - last, last)
    if len(fires) != 1:
        return 'on-idle fired %d times (ticks %s)' % (len(fires), fires)
    return None


SPEC = {
    'oracle': oracle,
    'id': 'C18', 'sub': 'ksim', 'gen_cases': gen_cases, 'nontrivial': trace_has_output,
    'rule': 'configs with 1-3 virtual keys carrying key / chord / layer / macro actions operated through on-press, on-release, on-idle, '
            'hold-for-duration (two different durations), macros, and direct fake-key calls, with gaps at D-1/D/D+1; non-trivial = output produced',
    'explanation': 'theorems: press/release/tap are the layout\'s own events whoever triggers them, toggle releases iff something is held at '
                   'the coordinate, hold-for-duration releases exactly at D for every D and is re-armed without a second press, on-idle fires once '
                   'the idle time is reached and not before',
}
