"""C19 — dynamic macros replay what was typed and never leave a key down."""
import re
import gen
from checks.common import trace_has_output

# keys: a s d f = typing keys; g = record 1, h = stop, j = play 1, k = record 2 / variants, l = stop-truncate, q = record 2, w = play 2
SRC = ['a', 's', 'd', 'f', 'g', 'h', 'j', 'k', 'l', 'q', 'w']
C = {k: gen.KEYCODES[k] for k in SRC}


def cfg_for(rng, sensitive):
    typ = ['x', 'y', 'lsft', 'z']
    if sensitive:
        typ = ['x', '(tap-hold 0 %d y lctl)' % rng.choice([20, 50]), 'lsft', '(one-shot 50 lalt)']
    opts = 'dynamic-macro-replay-delay-behaviour %s dynamic-macro-max-presses %d' % (
        rng.choice(['constant', 'recorded']), rng.choice([3, 8, 128, 128, 32767, 32768, 65535]))
    acts = typ + ['(dynamic-macro-record 1)', 'dynamic-macro-record-stop', '(dynamic-macro-play 1)',
                  rng.choice(['(dynamic-macro-record 2)', '(dynamic-macro-play 2)', '(multi (dynamic-macro-play 1) x)']),
                  '(dynamic-macro-record-stop-truncate %d)' % rng.randint(0, 3), '(dynamic-macro-record 2)', '(dynamic-macro-play 2)']
    return '(defcfg %s)\n(defsrc %s)\n(deflayer l0 %s)' % (opts, ' '.join(SRC), ' '.join(acts))


def tap(k, g1=2, g2=2):
    return ['d%d' % C[k], 't%d' % g1, 'u%d' % C[k], 't%d' % g2]


def typing(rng, n, hold_across=False, single=True):
    toks = []
    down = []
    for _ in range(n):
        k = rng.choice(['a', 's', 'd', 'f'])
        if single and down and k not in down:
            k = down[0]
        if k in down:
            down.remove(k); toks += ['u%d' % C[k]]
        else:
            down.append(k); toks += ['d%d' % C[k]]
        toks += ['t%d' % rng.choice([1, 2, 5, 12, 30])]
    if not hold_across:
        for k in down:
            toks += ['u%d' % C[k], 't2']
        down = []
    return toks, down


def gen_cases(rng, tier):
    cases = []
    n = 150 if tier == 'quick' else 4000
    for i in range(n):
        sensitive = rng.random() < 0.3
        cfg = cfg_for(rng, sensitive)
        h = []
        kind = rng.choice(['simple', 'simple', 'held-across', 'nested', 'recursive', 'switch-record', 'rerecord', 'limit', 'empty', 'random', 'record-key-held', 'truncate-held', 'boundary-repress', 'limit-rollover', 'limit-rollover'])
        single = rng.random() < 0.7      # at most one typing key down at a time: the order of the final releases is then determined
        def ty_(n, hold_across=False):
            return typing(rng, n, hold_across, single)
        if kind == 'simple':
            ty, _ = ty_(rng.randint(2, 10))
            h = tap('g') + ty + tap(rng.choice(['h', 'l'])) + ['t20'] + tap('j') + ['t600']
        elif kind == 'held-across':
            pre, down0 = ty_(rng.randint(1, 3), hold_across=True)
            ty, down = ty_(rng.randint(2, 8), hold_across=True)
            h = pre + tap('g') + ty + tap('h') + ['t5']
            for k in set(down0 + down):
                h += ['u%d' % C[k], 't2']
            h += tap('j') + ['t600']
        elif kind == 'nested':
            ty, _ = ty_(rng.randint(2, 6))
            ty2, _ = ty_(rng.randint(1, 4))
            h = tap('g') + ty + tap('h') + tap('k') + ty2 + tap('j') + tap('k') + ['t10'] + tap('k') + ['t800'] + tap('j') + ['t800']
        elif kind == 'recursive':
            ty, _ = ty_(rng.randint(1, 3))
            ty2, _ = ty_(rng.randint(0, 2))
            # macro 2 = typing + its own play key; macro 1 = play-2 key (+ typing); then play 1 (and play 2 directly)
            h = tap('q') + ty + tap('w') + tap('h') + ['t5'] + tap('g') + ty2 + tap('w') + ['t300'] + tap('h') + ['t5'] + tap('j') + ['t900'] + tap('w') + ['t900']
        elif kind == 'switch-record':
            # recording 1 ends by starting recording 2 (or by the same record key / the stop key) while a recorded key is held
            ty, _ = ty_(rng.randint(0, 3))
            k = rng.choice(['a', 's', 'd'])
            ender = rng.choice(['q', 'q', 'g', 'h'])
            h = tap('g') + ty + ['d%d' % C[k], 't3'] + tap(ender) + ['u%d' % C[k], 't3'] + tap('h') + ['t5'] + tap('j') + ['t600']
        elif kind == 'rerecord':
            ty, _ = ty_(rng.randint(2, 6))
            ty2, _ = ty_(rng.randint(2, 6))
            h = tap('g') + ty + tap('g') + ['t5'] + tap('j') + ['t300'] + tap('g') + ty2 + tap('k') + ['t5'] + tap('h') + tap('j') + ['t600']
        elif kind == 'limit':
            ty, _ = ty_(rng.randint(10, 40))
            h = tap('g') + ty + tap('h') + tap('j') + ['t1500']
        elif kind == 'record-key-held':
            # the record key stays down while the first keys are typed, after an idle stretch: the first recorded event is a real key
            ty, _ = ty_(rng.randint(2, 6))
            h = ['d%d' % C['g'], 't%d' % rng.choice([3, 60, 150, 400])] + ty[:rng.randint(2, len(ty))]
            h += ['u%d' % C['g'], 't3'] + [t for t in ty[len(h) - 2:]][:0]
            down_now = []
            for t in h:
                if t[0] == 'd' and int(t[1:]) in [C[k] for k in 'asdf']:
                    down_now.append(t[1:])
                elif t[0] == 'u' and t[1:] in down_now:
                    down_now.remove(t[1:])
            h += sum([['u' + k, 't2'] for k in down_now], []) + tap('h') + ['t20'] + tap('j') + ['t900']
        elif kind == 'truncate-held':
            # stop-truncate with a recorded key still held when recording stops
            ty, _ = ty_(rng.randint(1, 4))
            k = rng.choice(['a', 's', 'd'])
            k2 = rng.choice(['f', 'a'])
            h = tap('g') + ty + ['d%d' % C[k], 't3'] + (tap(k2) if k2 != k and rng.random() < 0.6 else []) + tap('l') + ['t5', 'u%d' % C[k], 't5'] + tap('j') + ['t900']
        elif kind == 'limit-rollover':
            # the recording ends by itself at the size limit, and the press that exceeds it comes while another key is still down
            mp = rng.choice([1, 2, 3])
            cfg = re.sub(r'dynamic-macro-max-presses \d+', 'dynamic-macro-max-presses %d' % mp, cfg)
            h = tap('g')
            for k in ['a', 's', 'd'][:mp - 1]:
                h += tap(k)
            k1, k2 = rng.sample(['a', 's', 'd', 'f'], 2)
            h += ['d%d' % C[k1], 't3', 'd%d' % C[k2], 't3', 'u%d' % C[k1], 't3', 'u%d' % C[k2], 't5'] + tap('h') + ['t10'] + tap('j') + ['t600']
        elif kind == 'boundary-repress':
            # a key that is down when recording starts, let go and pressed again during the recording, still down when it stops
            k = rng.choice(['a', 's', 'd'])
            ty, _ = ty_(rng.randint(0, 2))
            ty = [t for t in ty if t[1:] != str(C[k])]
            h = ['d%d' % C[k], 't5'] + tap('g') + ['u%d' % C[k], 't3'] + ty + ['d%d' % C[k], 't3'] + tap(rng.choice(['h', 'h', 'l'])) + ['t5', 'u%d' % C[k], 't5'] + tap('j') + ['t600']
        elif kind == 'empty':
            h = tap('g') + tap(rng.choice(['h', 'g', 'l'])) + tap('j') + ['t100'] + tap('h') + tap('j') + ['t100']
        else:
            for _ in range(rng.randint(4, 14)):
                h += tap(rng.choice(SRC), rng.choice([0, 1, 3]), rng.choice([0, 1, 5, 40]))
            h += ['t800']
        # the releases added for keys still down come out of a hash set "in no particular order": with two or more
        # such keys possible the trace is only checked by the oracle, not compared event by event with the model
        # with recorded delays a replay lasts as long as the typing did: drain for at least the length of the history
        # the replay in loop iterations of several milliseconds (a late loop): tick_ms(n) catches up on the recorded delays
        step = rng.choice([1, 1, 1, 2, 3, 7])
        if step > 1 and kind in ('simple', 'held-across', 'limit', 'boundary-repress', 'truncate-held'):
            jpos = max(i2 for i2, t in enumerate(h) if t == 'd%d' % C['j']) if ('d%d' % C['j']) in h else None
            if jpos is not None:
                tail = []
                for t in h[jpos + 1:]:
                    if t[0] == 't' and t[1:].isdigit() and int(t[1:]) >= step:
                        tail += ['m%d' % step] * (int(t[1:]) // step) + (['t%d' % (int(t[1:]) % step)] if int(t[1:]) % step else [])
                    else:
                        tail.append(t)
                h = h[:jpos + 1] + tail
        h = h + ['t%d' % (sum(int(t[1:]) * (1 if t[0] == 't' else 1) for t in h if t[0] in 'tm' and t[1:].isdigit()) + 300)]
        exact = single and kind != 'random'
        cases.append({'id': 'c19-%d' % i, 'cfg': cfg, 'hist': h + ['q'], 'sub': 'ksim', 'kind': kind, 'sensitive': sensitive,
                      'no_compare': not exact, 'tags': {'kind': kind, 'sensitive': sensitive, 'exact_compare': exact}})
    return cases


def oracle(case, it):
    """nothing may stay down at the end; for the simple time-insensitive class the replay must produce
    the same key events as the typing did"""
    if not it or it[0].startswith(('PARSE', 'PANIC')) or any(l.startswith(('PANIC', 'ABORT')) for l in it):
        return None
    end = [l for l in it if l.startswith('END ')]
    if end:
        m = re.search(r'down=\[([^\]]*)\]', end[0])
        if m and m.group(1).strip():
            # a macro that was recorded while its own play key was pressed replays itself: is output still periodic at the very end
            # of a drain that is longer than the whole history?
            tot = int(re.search(r'tick=(\d+)', end[0]).group(1))
            last = max([int(mm.group(1)) for mm in (re.match(r'@(\d+)', l) for l in it) if mm] or [0])
            # (the stop key itself may be handled late — behind a pending tap-hold — so a play key pressed after it can still be recorded)
            seen_rec = False
            play_inside = False
            for tok in case['hist']:
                if tok in ('d%d' % C['g'], 'd%d' % C['q'], 'd%d' % C['k']):
                    seen_rec = True
                elif seen_rec and tok in ('d%d' % C['j'], 'd%d' % C['k'], 'd%d' % C['w']):
                    play_inside = True
            tag = ' [endless-replay]' if (last > tot - 80 and play_inside) else ''
            return 'keys left down at the end: [%s]%s' % (m.group(1), tag)
    if case.get('kind') == 'simple' and not case.get('sensitive') and re.search(r'max-presses (128|32767|32768|65535)', case['cfg']) and 'u%d' % C['l'] not in case['hist']:
        # locate the tick at which play was pressed
        t = 0
        t_play = None
        for tok in case['hist']:
            if tok[0] == 't':
                t += int(tok[1:])
            elif tok == 'd%d' % C['j']:
                t_play = t
        evs = []
        for l in it:
            m = re.match(r'@(\d+)\+? (.*)', l)
            if m:
                for e in m.group(2).split():
                    if re.fullmatch(r'[du]\d+', e):
                        evs.append((int(m.group(1)), e))
        before = [e for tt, e in evs if tt <= t_play]
        after = [e for tt, e in evs if tt > t_play]
        if before != after:
            return 'replay output %s differs from what typing produced %s' % (after, before)
    return None


def compare(it, mt):
    """event-by-event equality, except when the saved macros differ only in the order of the releases appended for keys still down
    (a hash set in the Rust: "in no particular order"; the model uses first-pressed order) - then the replay timing legitimately differs"""
    import kvlib
    if kvlib.same_trace(it, mt):
        return True
    def macros(tr):
        out = {}
        for l in tr or []:
            m = re.match(r'DM@\d+ (\d+) : ?(.*)', l)
            if m:
                out[m.group(1)] = m.group(2).split()
        return out
    a, b = macros(it), macros(mt)
    if not a or a.keys() != b.keys():
        return False
    ambiguous = False
    for k in a:
        if a[k] == b[k]:
            continue
        def split(items):
            i = len(items)
            while i > 0 and re.fullmatch(r'R\d+,0', items[i - 1]):
                i -= 1
            return items[:i], sorted(items[i:])
        if split(a[k]) != split(b[k]):
            return False
        ambiguous = True
    return ambiguous


SPEC = {
    'compare': compare,
    'id': 'C19', 'sub': 'ksim', 'gen_cases': gen_cases, 'nontrivial': trace_has_output, 'oracle': oracle,
    'rule': 'recording scenarios (simple, keys held across start/stop, record key held while typing, stop-truncate with a key held, nested play, re-record, size limit, empty recording, random) on '
            'time-insensitive and time-sensitive mappings, both replay-delay behaviours, truncation 0-3; non-trivial = distinct (config, trace) with output',
    'explanation': 'theorems: saved macro = typed events minus the stop key and truncated tail; add_releases leaves nothing down; '
                   'no self recursion; size limit; replay pops items in order with the 5-tick pacing',
}
