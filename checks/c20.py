"""C20 — zippychord leaves exactly the expansion on screen.

Theorems (Props/C20.v) on the Gallina model of zippychord.rs (Kanata/Zippy.v).  Correspondence: kanata with an
identity layer and a generated dictionary vs the model (kanata model + zippy filter) on the same histories.
Oracle on the real output: the OS events are replayed into a text buffer; after a chord is completed (any
permutation of its keys, with or without shift) the buffer must hold the text typed before plus the entry's
expansion (plus the smart space), and pass-through typing must appear unchanged."""
import random, itertools
import kvlib, gen

PID = 'C20'
LETTERS = ['a', 'b', 'c', 'd', 'e', 'f', 'g', 'h']
CODE = dict(gen.KEYCODES) if hasattr(gen, 'KEYCODES') else {}
CODE.update({'a': 30, 'b': 48, 'c': 46, 'd': 32, 'e': 18, 'f': 33, 'g': 34, 'h': 35, 'x': 45, 'z': 44, 'y': 21, 'spc': 57,
             'lsft': 42, 'rsft': 54, '.': 52, ',': 51, 'o': 24, 'u': 22, 'i': 23, 't': 20, 'n': 49, 'm': 50, 'w': 17, 'r': 19, 's': 31})
CHAR = {v: k for k, v in CODE.items() if len(k) == 1}
CHAR[57] = ' '
OUT_ALPHA = 'abcdefghotunmwrsi'


def gen_dict(rng):
    """-> list of (path, output) where path = list of key-sets (follow-up chain)"""
    entries = []
    used = set()
    n = rng.randint(2, 7)
    for _ in range(60):
        if len(entries) >= n:
            break
        r = rng.random()
        if entries and r < 0.3:
            # extend an existing single chord with one more key (overlapping chord)
            base = rng.choice([e for e in entries if len(e[0]) == 1] or entries)
            ks = set(base[0][0])
            extra = [l for l in LETTERS if l not in ks]   # LETTERS order: deterministic
            if not extra or len(base[0]) != 1:
                continue
            path = [frozenset(ks | {rng.choice(extra)})]
        elif entries and r < 0.5:
            # follow-up of an existing chord
            base = rng.choice(entries)
            k = rng.randint(1, 2)
            path = list(base[0]) + [frozenset(rng.sample(LETTERS, k))]
            if rng.random() < 0.25:
                path[-1] = frozenset([rng.choice(['.', ','])])      # a punctuation key as follow-up (smart space full erases its space)
        elif r < 0.65:
            # a follow-up chain whose first chord has no output of its own (`r df<TAB>recipient`): the first keys are typed as
            # they are and erased when the chain completes
            path = [frozenset(rng.sample(LETTERS, rng.randint(1, 2))), frozenset(rng.sample(LETTERS, rng.randint(1, 2)))]
            if any(e[0][0] == path[0] or (len(e[0][0]) > 1 and path[0] < e[0][0]) for e in entries):
                continue
        else:
            path = [frozenset(rng.sample(LETTERS, rng.randint(2, 4)))]
        if tuple(path) in used:
            continue
        used.add(tuple(path))
        w = ''.join(rng.choice(OUT_ALPHA) for _ in range(rng.randint(1, 6)))
        if entries and rng.random() < 0.35:
            # share a prefix with another expansion (exercises the common-prefix reuse)
            o = rng.choice(entries)[1]
            w = o[:rng.randint(1, len(o))] + w
        if rng.random() < 0.25:
            w = w[0].upper() + w[1:]
        if rng.random() < 0.1:
            w = w + ' ' + rng.choice(OUT_ALPHA)
        entries.append((path, w))
    # a chain head without output of its own that overlaps (subset / superset) any other chord of the dictionary is ambiguous for the
    # typist and handled inconsistently (see the known findings followup-overlap / headless-overlap): most dictionaries keep such
    # heads apart from everything else, one in eight keeps the overlaps (then tagged by the scenario)
    if rng.random() < 0.875:
        with_output = {tuple(p) for p, _ in entries}
        heads = {p[0] for p, _ in entries if len(p) > 1 and (p[0],) not in with_output}
        def clash(p):
            for h in heads:
                for i, q in enumerate(p):
                    if (i, q) != (0, h) and (q <= h or h <= q):
                        return True
            return False
        kept = [(p, w) for p, w in entries if not clash(p)]
        if kept:
            entries = kept
    return entries


def dict_file(entries):
    lines = []
    for path, w in entries:
        lines.append(' '.join(''.join(sorted(ks)) for ks in path) + '\t' + w)
    return '\n'.join(lines)


def make_case(rng, i, tier):
    entries = gen_dict(rng)
    deadline = rng.choice([40, 200, 500, 1500])
    wait = rng.choice([30, 150])
    ss = rng.choice(['none', 'none', 'add-space-only', 'full'])
    src = LETTERS + ['x', 'z', 'lsft', 'spc', '.', ',']
    cfg = '(defsrc %s)\n(deflayer base %s)\n(defzippy zf.txt on-first-press-chord-deadline %d idle-reactivate-time %d%s)' % (
        ' '.join(src), ' '.join(src), deadline, wait, '' if ss == 'none' else ' smart-space ' + ss)
    files = {'zf.txt': dict_file(entries)}
    # scenario list; each scenario starts from rest (everything released for longer than wait and deadline)
    h = []
    scen = []
    rest = 't%d' % (max(wait, deadline) + 20)
    in_followup_context = False
    for s in range(rng.randint(1, 4)):
        kind = rng.choice(['chord', 'chord', 'chord', 'passthrough', 'chord-then-type', 'slow-chord', 'late-chord', 'extend-late', 'partial-release'])
        # a completed chord that has followups keeps its followup dictionary prioritized until other input or
        # 10000 quiet ticks clear it: start the next scenario from a state where that context is gone
        h.append('t10100' if in_followup_context else rest)
        in_followup_context = False
        if kind == 'passthrough':
            ks = [rng.choice(['x', 'z']) for _ in range(rng.randint(1, 4))]
            for k in ks:
                h += ['d%d' % CODE[k], 't%d' % rng.randint(1, 5), 'u%d' % CODE[k], 't%d' % rng.randint(1, 5)]
            scen.append(('pass', ''.join(ks)))
            h.append('M')
            continue
        path, w = rng.choice(entries)
        if kind == 'late-chord':
            # the keys of an entry held together, but the first one alone for longer than the deadline: not a chord, plain typing
            # (entries of which no part is a chord by itself, so that nothing activates before the deadline runs out)
            cands = [(p2, w2) for p2, w2 in entries if len(p2) == 1 and len(p2[0]) >= 2
                     and not any(q[0] <= p2[0] and q[0] != p2[0] for q, _ in entries)]
            if not cands:
                kind = 'chord'
            else:
                path, w = rng.choice(cands)
                order = sorted(path[0])
                rng.shuffle(order)
                h += ['d%d' % CODE[order[0]], 't%d' % (deadline + rng.choice([10, 30]))]
                for k in order[1:]:
                    h += ['d%d' % CODE[k], 't%d' % rng.randint(1, 5)]
                for k in order:
                    h += ['u%d' % CODE[k], 't%d' % rng.randint(1, 3)]
                scen.append(('pass', ''.join(order)))
                h.append('M')
                continue
        sub = None
        partial = False
        if kind == 'partial-release':
            # within one hold: the shorter chord completed, one of its keys let go, the extra keys of the longer chord added, the key
            # pressed again: the longer chord supersedes the shorter one
            cands = [(p2, w2, q[0]) for p2, w2 in entries if len(p2) == 1 for q, _ in entries
                     if len(q) == 1 and q[0] < p2[0] and len(q[0]) >= 2]
            if not cands:
                kind = 'chord'
            else:
                p2, w, sub = rng.choice(cands)
                path = p2
                partial = True
        if kind == 'extend-late':
            # a chord that extends another chord, the shorter one completed first (it activates: a chord did activate within the
            # deadline), the remaining keys added later than one deadline after the very first press but sooner than one deadline
            # after that activation
            cands = [(p2, w2, q[0]) for p2, w2 in entries if len(p2) == 1 for q, _ in entries
                     if len(q) == 1 and q[0] < p2[0] and len(q[0]) >= 2]
            if not cands or deadline < 200:
                kind = 'chord'
            else:
                p2, w, sub = rng.choice(cands)
                path = p2
        shift = rng.random() < 0.2
        if shift:
            h += ['d42', 't2']
        gap_max = max(1, min(8, deadline // 6))
        for si, ks in enumerate(path):
            order = sorted(ks)
            rng.shuffle(order)
            if kind == 'slow-chord':
                # slowly, but every key of the chord goes down within the deadline counted from its first key
                gap_max = max(1, (deadline - 10) // max(1, len(order)))
            if sub is not None and si == 0:
                first = sorted(sub)
                rng.shuffle(first)
                later = sorted(ks - sub)
                rng.shuffle(later)
                if partial:
                    for k in first:
                        h += ['d%d' % CODE[k], 't2']
                    back = rng.choice(first)
                    h += ['u%d' % CODE[back], 't2']
                    for k in later:
                        h += ['d%d' % CODE[k], 't2']
                    h += ['d%d' % CODE[back], 't2']
                else:
                    for k in first[:-1]:
                        h += ['d%d' % CODE[k], 't20']
                    h += ['d%d' % CODE[first[-1]], 't%d' % (deadline - 12)]
                    for k in later:
                        h += ['d%d' % CODE[k], 't1']
                order = []
            for k in order:
                h += ['d%d' % CODE[k], 't%d' % (rng.randint(max(1, gap_max // 2), gap_max) if kind == 'slow-chord' else rng.randint(1, gap_max))]
            rel = sorted(ks)
            rng.shuffle(rel)
            for k in rel:
                h += ['u%d' % CODE[k], 't%d' % rng.randint(1, 3)]
        if shift:
            # the user still holds shift here: it must be down at the OS again once the expansion is typed
            h.append('M')
            held_at = len(scen)
            scen.append(None)
            h += ['u42', 't2']
        # at a followup level, a chord that strictly contains a sibling chord (known finding followup-overlap)
        overlap = any(len(p2) > i and p2[:i] == path[:i] and p2[i] < path[i]
                      for i in range(1, len(path)) for p2, _ in entries)
        # the same eager activation with a standalone chord: a followup chord that contains the first chord of some chain
        # (`d dg`: pressing d of the followup {d g} activates the standalone d again)
        overlap = overlap or any(p2[0] <= path[i] for i in range(1, len(path)) for p2, _ in entries) \
            or any(path[j] <= path[i] for i in range(1, len(path)) for j in range(i))
        # ... and a standalone chord that contains the head of a chain together with the keys of one of its follow-ups (`ad`, `ad de`,
        # `ade`): while it is being typed the head activates and then the follow-up, which wins over the longer standalone chord
        overlap = overlap or (len(path) == 1 and any(len(p2) > 1 and p2[0] < path[0] and p2[1] <= path[0] for p2, _ in entries))
        # a standalone chord that strictly contains the output-less head of some chain, with smart space on: the keys typed for the
        # head are erased together with the space that was added automatically after the previous expansion
        with_output = {tuple(p2) for p2, _ in entries}
        heads = {p2[0] for p2, _ in entries if len(p2) > 1 and (p2[0],) not in with_output}
        headless = any((i, q) != (0, h) and (q <= h or h <= q) for h in heads for i, q in enumerate(path))
        cls = 'followup-overlap' if overlap else ('headless-overlap' if headless else '')
        if shift:
            scen[held_at] = ('held', cls)
        scen.append(('chord', w, shift, ss, [sorted(ks) for ks in path], cls))
        in_followup_context = any(len(p2) > len(path) and p2[:len(path)] == path for p2, _ in entries)
        h.append('M')
        if kind == 'chord-then-type':
            h.append('t%d' % (wait + 20))
            ks = [rng.choice(['x', 'z']) for _ in range(rng.randint(1, 3))]
            for k in ks:
                h += ['d%d' % CODE[k], 't2', 'u%d' % CODE[k], 't3']
            scen.append(('pass', ''.join(ks)))
            h.append('M')
    h += ['t%d' % (max(wait, deadline) + 30), 'q']
    hist = [t for t in h if t != 'M']
    # marker positions: number of history tokens before each marker
    marks = []
    cnt = 0
    for t in h:
        if t == 'M':
            marks.append(cnt)
        else:
            cnt += 1
    return {'id': 'z%d' % i, 'cfg': cfg, 'files': files, 'hist': hist, 'sub': 'ksim', 'scen': scen, 'marks': marks,
            'entries': [(['+'.join(sorted(ks)) for ks in p], w) for p, w in entries],
            'tags': {'smart_space': ss, 'entries': len(entries), 'followups': sum(1 for p, _ in entries if len(p) > 1)}}


RESET_DICT = [([{'d', 'g'}], 'dog'), ([{'a', 'b'}], 'about'), ([{'c', 'e'}], 'Come'), ([{'a', 'f', 'h'}], 'feh')]


def reset_case(i, tier):
    """a modifier held across zippychord's forced state reset (more than 10000 ticks without any other key event), then a chord:
    the property wants the first letter capitalized and the modifier still held afterwards; the unchanged code forgets the held
    shift (known finding shift-held-past-reset).  Controls: the same with a hold that stays below the limit.  Its own random
    stream, so that the stream of the other cases does not move."""
    rng = random.Random(7717 * i + (0 if tier == 'quick' else 1000003))
    ss = ['none', 'add-space-only', 'full'][i % 3]
    deadline, wait = 500, 150
    src = LETTERS + ['x', 'z', 'lsft', 'rsft', 'spc', '.', ',']
    cfg = '(defsrc %s)\n(deflayer base %s)\n(defzippy zf.txt on-first-press-chord-deadline %d idle-reactivate-time %d%s)' % (
        ' '.join(src), ' '.join(src), deadline, wait, '' if ss == 'none' else ' smart-space ' + ss)
    path, w = RESET_DICT[(i // 3) % len(RESET_DICT)]
    sft = [42, 54][(i // 12) % 2]
    past = (i // 24) % 2 == 0
    hold = rng.choice([10001, 10050, 12000, 20500]) if past else rng.choice([200, 5000, 9000, 9350])
    h = ['t600', 'd%d' % sft, 't%d' % hold]
    order = sorted(path[0])
    rng.shuffle(order)
    for k in order:
        h += ['d%d' % CODE[k], 't%d' % rng.randint(1, 5)]
    rel = sorted(path[0])
    rng.shuffle(rel)
    for k in rel:
        h += ['u%d' % CODE[k], 't%d' % rng.randint(1, 3)]
    marks = [len(h)]
    h += ['u%d' % sft, 't2']
    marks.append(len(h))
    h += ['t%d' % (deadline + 30), 'q']
    scen = [('held', 'shift-held-past-reset' if past else ''), ('chord', w, True, ss, [sorted(path[0])], 'shift-held-past-reset' if past else '')]
    return {'id': 'zr%d' % i, 'cfg': cfg, 'files': {'zf.txt': dict_file(RESET_DICT)}, 'hist': h, 'sub': 'ksim', 'scen': scen, 'marks': marks,
            'entries': [(['+'.join(sorted(ks)) for ks in p], w2) for p, w2 in RESET_DICT],
            'tags': {'smart_space': ss, 'entries': len(RESET_DICT), 'followups': 0, 'class': 'modifier-held-%s-forced-reset' % ('past' if past else 'below')}}


def gen_cases(rng, tier):
    n = 1200 if tier == 'quick' else 30000
    return [make_case(rng, i, tier) for i in range(n)] + [reset_case(i, tier) for i in range(48 if tier == 'quick' else 480)]


def tick_of_marks(c):
    """tick count at each scenario end"""
    t = 0
    out = []
    mi = 0
    for idx, tok in enumerate(c['hist']):
        while mi < len(c['marks']) and c['marks'][mi] == idx:
            out.append(t)
            mi += 1
        if tok[0] == 't':
            t += int(tok[1:])
    while mi < len(c['marks']):
        out.append(t)
        mi += 1
    return out


def replay_text(trace, upto_tick):
    """OS events up to the given tick -> (text, shift_down, altgr_down)"""
    buf = []
    sh = set()
    ag = False
    for l in trace:
        if not l.startswith('@'):
            continue
        tk, *evs = l.split(' ')
        tk = int(tk[1:].rstrip('+'))
        if tk > upto_tick:
            break
        for e in evs:
            if e[0] == 'd':
                code = int(e[1:])
                if code in (42, 54):
                    sh.add(code)
                elif code == 100:
                    ag = True
                elif code == 14:
                    if buf:
                        buf.pop()
                    else:
                        buf.append('<BS>')
                elif code in CHAR:
                    ch = CHAR[code]
                    buf.append(ch.upper() if sh else ch)
            elif e[0] == 'u':
                code = int(e[1:])
                sh.discard(code)
                if code == 100:
                    ag = False
    return ''.join(buf), bool(sh), ag


def oracle(c, it):
    if it is None or not it or it[0].startswith('PARSE-'):
        return None
    if any(l.startswith(('PANIC', 'ABORT', 'HANG')) for l in it):
        return 'crash: ' + [l for l in it if l.startswith(('PANIC', 'ABORT', 'HANG'))][0][:120]
    ticks = tick_of_marks(c)
    expected = ''
    for sc, tk in zip(c['scen'], ticks):
        # the events of tick tk belong to the history up to the marker: replay through tick tk + 1
        text, sh, ag = replay_text(it, tk)
        if sc[0] == 'held':
            if not sh:
                return 'the user still holds shift after the chord but it is up at the OS%s' % ((' [%s]' % sc[1]) if sc[1] else '')
            continue
        if sc[0] == 'pass':
            expected += sc[1]
        else:
            _, w, shift, ss, path, cls = sc
            exp = w
            if shift:
                exp = w[0].upper() + w[1:]
            if ss != 'none' and not w.endswith(' '):
                exp += ' '
            expected += exp
        if text != expected:
            tag = sc[5] if sc[0] == 'chord' else ''
            if tag == 'shift-held-past-reset':
                # the recorded finding is one specific wrong text: the whole expansion typed with the forgotten shift still down
                if text != expected[:len(expected) - len(exp)] + exp.upper():
                    tag = ''
            return 'after scenario %r%s the text buffer holds %r, expected %r' % (sc[:2], (' [%s]' % tag) if tag else '', text, expected)
        if sh or ag:
            return 'after scenario %r a modifier is left down (shift=%s altgr=%s)' % (sc[:2], sh, ag)
    return None


SPEC = {
    'id': PID,
    'sub': 'ksim',
    'gen_cases': gen_cases,
    'oracle': oracle,
    'rule': 'theorems on the zippychord model; correspondence kanata(identity layer)+zippy vs model; oracle: OS output replayed into a text '
            'buffer equals text-before + expansion (+ smart space) after every chord, pass-through typing unchanged, no modifier left down',
    'explanation': 'Model: zippychord.rs + subset.rs lookup. The dictionary file parser is outside the model (the model reads the parsed dictionary '
                   'dumped through the SubsetMap hook).',
}
