"""Case generators shared by the layout-level checks."""
import gen


def lsim_cases(rng, profile, ncfg, nhist, modes=('consistent',), nev=(2, 14), tag=None, cfg_kwargs=None):
    cases = []
    for i in range(ncfg):
        g = gen.CfgGen(rng, profile, **(cfg_kwargs or {}))
        cfg = g.gen()
        keys = gen.codes_of(g.src)
        hg = gen.HistGen(rng, keys, gen.gaps_for(g.timeouts), extra_keys=[gen.KEYCODES['p'], gen.KEYCODES['o']])
        for j in range(nhist):
            mode = modes[j % len(modes)]
            if mode == 'consistent':
                h = hg.consistent(rng.randint(*nev))
            elif mode == 'hostile':
                h = hg.hostile(rng.randint(5, 60))
            else:
                raise ValueError(mode)
            h.append('t%d' % rng.choice([30, 300, 700]))
            cases.append({'id': '%s-%d-%d' % (tag or profile, i, j), 'cfg': cfg, 'hist': h, 'sub': 'lsim',
                          'tags': {'mode': mode, 'nlayers': g.nlayers, 'nkeys': g.nkeys, 'hist_len': len(h)}})
    return cases


def trace_has_output(case, it):
    return bool(it) and any(l.startswith('@') for l in it)
