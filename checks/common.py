"""Case generators shared by the layout-level checks."""
import gen


def lsim_cases(rng, profile, ncfg, nhist, modes=('consistent',), nev=(2, 14), tag=None, cfg_kwargs=None):
    cases = []
    for i in range(ncfg):
        g = gen.CfgGen(rng, profile, **(cfg_kwargs or {}))
        cfg = g.gen()
        keys = gen.codes_of(g.src)
        hg = gen.HistGen(rng, keys, gen.gaps_for(g.timeouts), extra_keys=[gen.KEYCODES['p'], gen.KEYCODES['o']])
        for j in range(nhist):
            mode = modes[j % len(modes)]
            if mode == 'consistent':
                h = hg.consistent(rng.randint(*nev))
            elif mode == 'hostile':
                h = hg.hostile(rng.randint(5, 60))
            else:
                raise ValueError(mode)
            h.append('t%d' % rng.choice([30, 300, 700]))
            cases.append({'id': '%s-%d-%d' % (tag or profile, i, j), 'cfg': cfg, 'hist': h, 'sub': 'lsim',
                          'tags': {'mode': mode, 'nlayers': g.nlayers, 'nkeys': g.nkeys, 'hist_len': len(h)}})
    return cases


def trace_has_output(case, it):
    return bool(it) and any(l.startswith('@') for l in it)


def grid_schedules(rng, keys, gaps, nmax, count, tail):
    """physically consistent random schedules over the given coordinates with gaps from a fixed set"""
    out = []
    for _ in range(count):
        down = []
        toks = []
        for _ in range(rng.randint(2, nmax)):
            k = rng.choice(keys)
            if k in down:
                down.remove(k); toks.append('r0,%d' % k)
            else:
                down.append(k); toks.append('p0,%d' % k)
            g = rng.choice(gaps) if rng.random() < 0.45 else rng.choice([0, 1, 1, 2])
            if g:
                toks.append('t%d' % g)
        rng.shuffle(down)
        for k in down:
            toks.append('r0,%d' % k)
            g = rng.choice(gaps)
            if g:
                toks.append('t%d' % g)
        toks.append('t%d' % tail)
        out.append(toks)
    return out


def oneshot_sessions(rng, os_keys, plain, T):
    """structured one-shot histories: 2-4 sessions of (pre-held plain key?) (tap/hold 1-3 one-shot keys) (ending)"""
    toks = []
    held = []

    def gap(small=True):
        g = rng.choice([0, 1, 1, 2, 3]) if small else rng.choice([T - 1, T, T + 1, T + 5])
        if g:
            toks.append('t%d' % g)

    def press(k):
        if k not in held:
            held.append(k); toks.append('p0,%d' % k)

    def release(k):
        if k in held:
            held.remove(k); toks.append('r0,%d' % k)
    for _ in range(rng.randint(2, 4)):
        pre = None
        if rng.random() < 0.4:
            pre = rng.choice(plain)
            press(pre); gap()
        for k in rng.sample(os_keys, rng.randint(1, len(os_keys))):
            press(k); gap()
            if rng.random() < 0.8:
                release(k); gap()
        if pre is not None and rng.random() < 0.5:
            release(pre); gap()
        ending = rng.choice(['expire', 'tap', 'hold-expire', 'repress', 'press-release-later', 'two'])
        if ending == 'expire':
            gap(False)
        elif ending == 'tap':
            k = rng.choice(plain); press(k); gap(); release(k); gap()
        elif ending == 'hold-expire':
            k = rng.choice(plain); press(k); gap(False); release(k); gap()
        elif ending == 'repress':
            k = rng.choice(os_keys); press(k); gap(); release(k); gap()
        elif ending == 'press-release-later':
            k = rng.choice(plain); press(k); gap(); k2 = rng.choice(plain); press(k2); gap(); release(k); gap(); release(k2); gap()
        else:
            k = rng.choice(plain); press(k); gap(); release(k); gap(); k2 = rng.choice(plain); press(k2); gap(); release(k2); gap()
        for k in list(held):
            if rng.random() < 0.7:
                release(k); gap()
    for k in list(held):
        release(k); gap()
    toks.append('t%d' % (T + 40))
    return toks


# ---- processing-loop pairs (shared by the checks whose property has a timing the loop must not sleep through) ----
def loop_pairs(cases):
    """for each ksim case: the same history run once honouring can_block_update_idle_waiting before every millisecond (B1: a blocked
    millisecond runs no tick) and once ticking regardless (B0)"""
    out = []
    for c in cases:
        h = [t for t in c['hist'] if t != 'q']
        for mode in ('0', '1'):
            out.append(dict(c, id='%s-B%s' % (c['id'], mode), hist=['B' + mode] + h + ['t50'], loop_pair=c['id'], loop_mode=mode,
                            tags=dict(c.get('tags') or {}, loop='B' + mode)))
    return out


def loop_pair_violations(all_results):
    import re
    from checks.c07 import dedup_releases
    by = {c['id']: (c, it) for c, it, mt in all_results}
    out = []
    for cid, (c, it) in by.items():
        if c.get('loop_mode') != '1' or not it or it[0].startswith('PARSE'):
            continue
        other = by.get(c['loop_pair'] + '-B0')
        if not other or not other[1]:
            continue
        a = [dedup_releases(re.sub(r' nstates=\d+', '', l)) for l in it if not l.startswith(('DM@', 'INFO '))]
        b = [dedup_releases(re.sub(r' nstates=\d+', '', l)) for l in other[1] if not l.startswith(('DM@', 'INFO '))]
        if a != b:
            k = 0
            while k < min(len(a), len(b)) and a[k] == b[k]:
                k += 1
            out.append((c, it, None, 'blocking whenever can_block_update_idle_waiting allows it changes the behaviour: blocking run [%s], '
                                     'always-ticking run [%s]' % (a[k] if k < len(a) else '<end>', b[k] if k < len(b) else '<end>')))
    return out
