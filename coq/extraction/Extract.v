(* Extraction of the executable model for the correspondence check.
   Directives in force: those of ExtrOcamlBasic only (bool, option, list, prod, unit, sumbool -> OCaml
   native types).  N, Z, positive, nat, ascii and string stay the extracted datatypes. *)
Require Extraction.
Require ExtrOcamlBasic.
From KV Require Import Base.Prelude Keys.KeyModel Keyberon.Types Keyberon.Switch Keyberon.Layout
  Parser.SwitchCompile Spec.BoolSpec Kanata.Glue Parser.SeqTable Parser.Sexpr Parser.Template Kanata.Zippy Kanata.Reload Spec.Keymap Proofs.C04Refine.
Extraction Language OCaml.
Extraction "model.ml"
  layout_event layout_tick layout_event2 layout_tick2 chv2_init set_chords2 init_layout keycodes current_layer evaluate_boolean switch_actions
  os_from_u16 os_as_u16 osc_to_kc kc_to_osc kc_as_u16 str_to_oscode out_filter
  compiles compile_case cases_spec parse_sequences
  k_input k_tick k_tick_ms k_init k_is_idle k_is_idle_cfg k_can_block override_keys fakekey_action set_k_layout
  parse_ atom_res list_res fmt_sexpr parse_vars_items expand_templates
  z_init z_press z_release z_tick z_is_idle
  next_index reload_due
  frag_cfg hist_ok km_run km_init
  N.add N.mul N.of_nat N.to_nat.
