(* Driver for the extracted model.  Reads the harness output (CASE / DUMP / H blocks) or command
   lines on stdin and prints traces in the same canonical format as the Rust harness. *)
open Model

(* ---------- conversions ---------- *)
let rec pos_of_int (i : int) : positive =
  if i = 1 then XH else if i land 1 = 0 then XO (pos_of_int (i lsr 1)) else XI (pos_of_int (i lsr 1))
let n_of_int (i : int) : n = if i = 0 then N0 else Npos (pos_of_int i)
let rec int_of_pos = function XH -> 1 | XO p -> 2 * int_of_pos p | XI p -> 2 * int_of_pos p + 1
let int_of_n = function N0 -> 0 | Npos p -> int_of_pos p
let z_of_int (i : int) : z = if i = 0 then Z0 else if i > 0 then Zpos (pos_of_int i) else Zneg (pos_of_int (-i))
let rec nat_of_int i = if i = 0 then O else S (nat_of_int (i - 1))
let rec int_of_nat = function O -> 0 | S n -> 1 + int_of_nat n
(* decimal string -> N, exact for values beyond 62 bits (u128 chord masks) *)
let n_of_string (s : Stdlib.String.t) : n =
  if String.length s <= 17 then n_of_int (int_of_string s)
  else begin
    let ten = n_of_int 10 in
    let acc = ref N0 in
    String.iter (fun c -> acc := N.add (N.mul !acc ten) (n_of_int (Char.code c - 48))) s;
    !acc
  end
let rec string_of_n_big (x : n) : Stdlib.String.t = string_of_int (int_of_n x)

let coq_string_of (s : Stdlib.String.t) : Model.string =
  let rec go i = if i >= String.length s then EmptyString
    else
      let c = Char.code s.[i] in
      let b k = (c lsr k) land 1 = 1 in
      String (Ascii (b 0, b 1, b 2, b 3, b 4, b 5, b 6, b 7), go (i + 1)) in
  go 0
let ocaml_string_of (s : Model.string) : Stdlib.String.t =
  let b = Buffer.create 16 in
  let rec go = function
    | EmptyString -> ()
    | String (Ascii (b0, b1, b2, b3, b4, b5, b6, b7), t) ->
      let v x k = if x then 1 lsl k else 0 in
      Buffer.add_char b (Char.chr (v b0 0 + v b1 1 + v b2 2 + v b3 3 + v b4 4 + v b5 5 + v b6 6 + v b7 7));
      go t in
  go s; Buffer.contents b

(* ---------- token reader ---------- *)
type toks = { arr : Stdlib.String.t array; mutable pos : int }
let mk_toks (line : Stdlib.String.t) : toks =
  { arr = Array.of_list (List.filter (fun s -> s <> "") (String.split_on_char ' ' line)); pos = 0 }
let next t = let s = t.arr.(t.pos) in t.pos <- t.pos + 1; s
let next_int t = int_of_string (next t)
let next_n t = n_of_string (next t)
let rec repeat k f = if k <= 0 then [] else let x = f () in x :: repeat (k - 1) f

let read_seq_events t : seq_ev list =
  let n = next_int t in
  repeat n (fun () ->
    match next t with
    | "n" -> SNoOp
    | "p" -> SPress (next_n t)
    | "r" -> SRelease (next_n t)
    | "t" -> STap (next_n t)
    | "d" -> SDelay (next_n t)
    | "c" -> SCustom (next_n t)
    | "x" -> SComplete
    | s -> failwith ("bad seq event " ^ s))

let rec read_action t : action =
  match next t with
  | "N" -> NoOp
  | "T" -> Trans
  | "K" -> KeyCode (next_n t)
  | "MK" -> let n = next_int t in MultipleKeyCodes (repeat n (fun () -> next_n t))
  | "MA" -> let n = next_int t in MultipleActions (repeat n (fun () -> read_action t))
  | "L" -> Layer (next_n t)
  | "DL" -> DefaultLayer (next_n t)
  | "SQ" -> Sequence (read_seq_events t)
  | "RSQ" -> RepeatableSequence (read_seq_events t)
  | "CS" -> CancelSequences
  | "RK" -> ReleaseKey (next_n t)
  | "RL" -> ReleaseLayer (next_n t)
  | "HT" ->
    let timeout = next_n t in
    let hold = read_action t in
    let tap = read_action t in
    let tac = read_action t in
    let cfg = (match next t with
      | "D" -> HTDefault | "P" -> HTHoldOnOtherKeyPress | "R" -> HTPermissiveHold
      | "RKS" -> let n = next_int t in HTReleaseKeys (repeat n (fun () -> next_n t))
      | "EKS" -> let n = next_int t in HTExceptKeys (repeat n (fun () -> next_n t))
      | s -> failwith ("bad ht cfg " ^ s)) in
    let interval = next_n t in
    HoldTap (timeout, hold, tap, tac, cfg, interval)
  | "C" -> Custom (next_n t)
  | "OS" ->
    let a = read_action t in
    let timeout = next_n t in
    let e = (match next_int t with
      | 0 -> EndOnFirstPress | 1 -> EndOnFirstPressOrRepress | 2 -> EndOnFirstRelease
      | _ -> EndOnFirstReleaseOrRepress) in
    OneShot (a, timeout, e)
  | "OSI" -> OneShotIgnoreEventsTicks (next_n t)
  | "TD" ->
    let n = next_int t in
    let acs = repeat n (fun () -> read_action t) in
    let timeout = next_n t in
    let eager = next_int t = 1 in
    TapDance (acs, timeout, eager)
  | "CH" ->
    let nc = next_int t in
    let coords = repeat nc (fun () -> let x = next_n t in let y = next_n t in let m = next_n t in ((x, y), m)) in
    let nch = next_int t in
    let chords = repeat nch (fun () -> let m = next_n t in let a = read_action t in (m, a)) in
    let timeout = next_n t in
    Chords (coords, chords, timeout)
  | "RP" -> Repeat
  | "F" ->
    let l = read_action t in
    let r = read_action t in
    let n = next_int t in
    Fork (l, r, repeat n (fun () -> next_n t))
  | "SW" ->
    let n = next_int t in
    Switch (repeat n (fun () ->
      let nops = next_int t in
      let ops = repeat nops (fun () -> next_n t) in
      let a = read_action t in
      let brk = next_int t = 1 in
      ((ops, a), brk)))
  | "SRC" -> Src
  | s -> failwith ("bad action token " ^ s)

let read_row (line : Stdlib.String.t) : row =
  let t = mk_toks line in
  if next t <> "ROW" then failwith "expected ROW";
  let len = next_n t in
  let d = (match next t with
    | "N" -> RDConst NoOp | "T" -> RDConst Trans | "K0" -> RDConst (KeyCode N0) | "I" -> RDIdentKey
    | s -> failwith ("bad row default " ^ s)) in
  let n = next_int t in
  let cells = repeat n (fun () -> let i = next_n t in let a = read_action t in (i, a)) in
  { r_len = len; r_default = d; r_cells = cells }

(* ---------- printing ---------- *)
let fmt_state (s : kstate) : Stdlib.String.t =
  let i = int_of_n in
  match s with
  | NormalKey (k, (x, y), f) -> Printf.sprintf "NK(%d,%d,%d,%d)" (i k) (i x) (i y) (i f)
  | LayerModifier (l, (x, y)) -> Printf.sprintf "LM(%d,%d,%d)" (i l) (i x) (i y)
  | CustomSt (v, (x, y)) -> Printf.sprintf "CU(%d,%d,%d)" (i v) (i x) (i y)
  | FakeKey k -> Printf.sprintf "FK(%d)" (i k)
  | RepeatingSequence (_, (x, y)) -> Printf.sprintf "RS(%d,%d)" (i x) (i y)
  | SeqCustomPending v -> Printf.sprintf "SP(%d)" (i v)
  | SeqCustomActive v -> Printf.sprintf "SA(%d)" (i v)
  | Tombstone -> "TS"

exception Model_panic of Stdlib.String.t
exception Model_fuel

let unwrap = function
  | Ok a -> a
  | Panic s -> raise (Model_panic (ocaml_string_of s))
  | OutOfFuel -> raise Model_fuel

let starts_with (p : Stdlib.String.t) (s : Stdlib.String.t) =
  String.length s >= String.length p && String.sub s 0 (String.length p) = p


(* ---------- chords v2 configuration from the dump (CHV2 / CH2 lines) ---------- *)
let read_chv2 (dump : Stdlib.String.t list) : chv2 option =
  match List.find_opt (starts_with "CHV2") dump with
  | None -> None
  | Some hdr ->
    let t = mk_toks hdr in
    ignore (next t);
    let min_idle = next_n t in
    let chords = List.map (fun line ->
      let t = mk_toks line in
      ignore (next t);
      let nk = next_int t in
      let keys = repeat nk (fun () -> next_n t) in
      let pending = next_n t in
      let first_rel = next_int t = 1 in
      let nd = next_int t in
      let dis = repeat nd (fun () -> next_n t) in
      let act = read_action t in
      { c2_action = act; c2_keys = keys; c2_pending = pending; c2_disabled = dis; c2_first_release = first_rel })
      (List.filter (starts_with "CH2 ") dump) in
    Some (chv2_init chords min_idle)

(* ---------- layout-level simulation ---------- *)
let run_lsim (dump : Stdlib.String.t list) (hist : Stdlib.String.t) (out : Buffer.t) =
  match dump with
  | [] -> Buffer.add_string out "MODEL-ERROR empty dump\n"
  | hdr :: rows ->
    let t = mk_toks hdr in
    if next t <> "LCFG" then failwith "expected LCFG";
    let trans_v2 = next_int t = 1 in
    let delegate = next_int t = 1 in
    let quick = next_int t = 1 in
    let pause = next_n t in
    let nlayers = next_int t in
    let _chv2 = next_int t = 1 in
    begin
    let rows = List.map read_row (List.filter (starts_with "ROW") rows) in
    let src, rest = (match rows with s :: r -> s, r | [] -> failwith "no src row") in
    let rec pair = function a :: b :: r -> (a, b) :: pair r | [] -> [] | _ -> failwith "odd rows" in
    let layers = pair rest in
    if List.length layers <> nlayers then failwith "layer count";
    let cfg = { layers = layers; src_keys = src; trans_v2 = trans_v2; delegate_first = delegate; quick_tap_hold = quick } in
    let l = ref (match read_chv2 dump with Some c -> set_chords2 (Some c) (init_layout pause) | None -> init_layout pause) in
    let tick = ref 0 in
    let last_keys = ref [] in
    (* inputs and observations for the layered-keymap spec (C04 refinement theorem) *)
    let spec_inputs = ref [] and spec_obs = ref [] in
    (try
      List.iter (fun tok ->
        if tok <> "" then begin
          let kind = tok.[0] and rest = String.sub tok 1 (String.length tok - 1) in
          match kind with
          | 'p' | 'r' ->
            (match String.split_on_char ',' rest with
             | [x; y] ->
               let c = (n_of_int (int_of_string x), n_of_int (int_of_string y)) in
               l := unwrap (layout_event2 cfg !l (kind = 'p') c);
               spec_inputs := KmEvent (kind = 'p', c) :: !spec_inputs;
               spec_obs := List.map int_of_n (keycodes !l) :: !spec_obs
             | _ -> failwith "bad coord")
          | 't' ->
            for _ = 1 to int_of_string rest do
              let (l', ce) = unwrap (layout_tick2 cfg !l) in
              l := l'; incr tick;
              spec_inputs := KmTick :: !spec_inputs;
              spec_obs := List.map int_of_n (keycodes l') :: !spec_obs;
              let keys = List.map int_of_n (keycodes l') in
              let ces = (match ce with
                | CNone -> ""
                | CPress v -> Printf.sprintf " C p %d" (int_of_n v)
                | CRelease v -> Printf.sprintf " C r %d" (int_of_n v)) in
              if keys <> !last_keys || ces <> "" then begin
                Buffer.add_string out (Printf.sprintf "@%d K %s%s\n" !tick (String.concat " " (List.map string_of_int keys)) ces);
                last_keys := keys
              end
            done
          | _ -> failwith ("bad history token " ^ tok)
        end) (String.split_on_char ' ' hist);
      (* does the refinement theorem apply to this case (fragment configuration, covered history)?  if so the
         spec's key lists must equal the model's: a consistency check of extraction and driver, the equality
         itself is theorem C04_refines_layered_keymap *)
      (match read_chv2 dump with
       | Some _ -> Buffer.add_string out "INFO frag=0 histok=0 spec=na\n"
       | None ->
         let is = List.rev !spec_inputs in
         let fr = frag_cfg cfg and hk = hist_ok cfg O is in
         let verdict =
           if fr && hk then begin
             let spec = List.map (List.map int_of_n) (km_run cfg km_init is) in
             if spec = List.rev !spec_obs then "agree" else "DISAGREE"
           end else "na" in
         Buffer.add_string out (Printf.sprintf "INFO frag=%d histok=%d spec=%s\n" (if fr then 1 else 0) (if hk then 1 else 0) verdict));
      let lv = !l in
      Buffer.add_string out (Printf.sprintf "END tick=%d states=[%s] layer=%d default=%d q=%d waiting=%d extra=%d os=%d seqs=%d aq=%d\n"
        !tick (String.concat " " (List.map fmt_state lv.states)) (int_of_n (current_layer lv)) (int_of_n lv.default_layer)
        (List.length lv.queue) (match lv.waiting_ with Some _ -> 1 | None -> 0) (List.length lv.extra_waiting)
        (List.length lv.oneshot.os_keys) (List.length lv.active_sequences) (List.length lv.action_queue))
    with
    | Model_panic s -> Buffer.add_string out (Printf.sprintf "PANIC tick=%d %s\n" !tick s)
    | Model_fuel -> Buffer.add_string out (Printf.sprintf "PANIC tick=%d OUT-OF-FUEL\n" !tick))
    end

let sim_main (runner : Stdlib.String.t list -> Stdlib.String.t -> Buffer.t -> unit) (path : Stdlib.String.t) =
  let ic = open_in path in
  let out = Buffer.create 65536 in
  let dump = ref [] and in_dump = ref false and hist = ref "" in
  (try
    while true do
      let line = input_line ic in
      if String.length line >= 5 && String.sub line 0 5 = "CASE " then begin
        Buffer.add_string out line; Buffer.add_char out '\n'; dump := []; hist := ""
      end
      else if line = "DUMP-BEGIN" then in_dump := true
      else if line = "DUMP-END" then in_dump := false
      else if !in_dump then dump := line :: !dump
      else if String.length line >= 2 && String.sub line 0 2 = "H " then hist := String.sub line 2 (String.length line - 2)
      else if line = "H" then hist := ""
      else if line = "TRACE-BEGIN" then begin
        Buffer.add_string out "TRACE-BEGIN\n";
        (try runner (List.rev !dump) !hist out
         with Failure s -> Buffer.add_string out ("MODEL-ERROR " ^ s ^ "\n")
            | Invalid_argument s -> Buffer.add_string out ("MODEL-ERROR " ^ s ^ "\n")
            | Stack_overflow -> Buffer.add_string out "MODEL-ERROR stack overflow\n");
        Buffer.add_string out "TRACE-END\n"
      end
      else if String.length line >= 6 && String.sub line 0 6 = "PARSE-" then begin
        Buffer.add_string out line; Buffer.add_char out '\n'
      end
    done
  with End_of_file -> ());
  close_in ic;
  print_string (Buffer.contents out)



(* ---------- kanata-level simulation ---------- *)
let read_custom t : custom_action =
  match next t with
  | "uni" -> CaUnicode (next_n t)
  | "mo" -> CaMouse (next_n t)
  | "mt" -> CaMouseTap (next_n t)
  | "fk" -> let x = next_n t in let y = next_n t in let o = next_n t in CaFakeKey (x, y, o)
  | "fkr" -> let x = next_n t in let y = next_n t in let o = next_n t in CaFakeKeyOnRelease (x, y, o)
  | "fki" -> let x = next_n t in let y = next_n t in let o = next_n t in let i = next_n t in CaFakeKeyOnIdle (x, y, o, i)
  | "fkh" -> let x = next_n t in let y = next_n t in let d = next_n t in CaFakeKeyHoldFor (x, y, d)
  | "mw" -> let d = next_n t in let i = next_n t in let ds = next_n t in CaMWheel (d, i, ds)
  | "mwn" -> CaMWheelNotch (next_n t)
  | "mm" -> let d = next_n t in let i = next_n t in CaMoveMouse (d, i)
  | "mma" -> let d = next_n t in let i = next_n t in CaMoveMouseAccel (d, i)
  | "mms" -> CaMoveMouseSpeed (next_n t)
  | "sc" -> CaSequenceCancel
  | "sl" -> let tm = next_n t in let m = next_n t in CaSequenceLeader (tm, m)
  | "sn" -> CaSequenceNoerase (next_n t)
  | "lr" -> CaLiveReload
  | "rp" -> CaRepeat
  | "cmr" -> CaCancelMacroOnRelease
  | "cmp" -> CaCancelMacroOnNextPress (next_n t)
  | "dr" -> CaDynRecord (next_n t)
  | "ds" -> CaDynRecordStop (next_n t)
  | "dp" -> CaDynPlay (next_n t)
  | "ac" -> CaSendArbitraryCode (next_n t)
  | "cw" ->
    let n = next_int t in let caps = repeat n (fun () -> next_n t) in
    let n2 = next_int t in let non = repeat n2 (fun () -> next_n t) in
    let tm = next_n t in let tg = next_int t = 1 in
    CaCapsWord (caps, non, tm, tg)
  | "um" -> let n = next_int t in let ks = repeat n (fun () -> next_n t) in let m = next_n t in CaUnmodded (ks, m)
  | "us" -> let n = next_int t in CaUnshifted (repeat n (fun () -> next_n t))
  | "rro" -> CaReverseReleaseOrder
  | "op" -> CaOpaque
  | s -> failwith ("bad custom action token " ^ s)

let fmt_ev (e : os_ev) : Stdlib.String.t =
  let i = int_of_n in
  match e with
  | KDown k -> Printf.sprintf "d%d" (i k)
  | KUp k -> Printf.sprintf "u%d" (i k)
  | KRepeat k -> Printf.sprintf "d%d" (i k)
  | BDown b -> Printf.sprintf "bd%d" (i b)
  | BUp b -> Printf.sprintf "bu%d" (i b)
  | Scroll (d, ds) -> Printf.sprintf "sc%d,%d" (i d) (i ds)
  | MMove d -> Printf.sprintf "mv%d" (i d)
  | Unicode c -> Printf.sprintf "U%d" (i c)
  | Code (c, p) -> Printf.sprintf "C%d,%s" (i c) (if p then "p" else "r")


(* ---------- C20: zippychord dictionary from the dump ---------- *)
let read_zout t : zout =
  let kind = next_n t in let ne = next_int t = 1 in let osc = next_n t in ZO (kind, ne, osc)
let rec read_ztree t : zchords =
  let n = next_int t in
  ZChords (repeat n (fun () ->
    let nk = next_int t in
    let keys = repeat nk (fun () -> next_n t) in
    let no = next_int t in
    let outs = repeat no (fun () -> read_zout t) in
    let hasf = next_int t = 1 in
    let fol = if hasf then Some (read_ztree t) else None in
    (keys, (outs, fol))))
let read_zippy (dump : Stdlib.String.t list) : zcfg option =
  match List.find_opt (starts_with "ZIPPY") dump with
  | None -> None
  | Some line when starts_with "ZIPPY none" line -> None
  | Some line ->
    let t = mk_toks line in
    ignore (next t);
    let wait = next_n t in let dl = next_n t in let ss = next_n t in
    let np = next_int t in
    let punct = repeat np (fun () -> read_zout t) in
    let tt = mk_toks (List.find (starts_with "ZTREE") dump) in
    ignore (next tt);
    Some { zc_wait = wait; zc_deadline = dl; zc_ss = ss; zc_punct = punct; zc_chords = read_ztree tt }

let run_ksim (dump : Stdlib.String.t list) (hist : Stdlib.String.t) (out : Buffer.t) =
  let hdr = List.find (starts_with "LCFG") dump in
  let t = mk_toks hdr in
  ignore (next t);
  let trans_v2 = next_int t = 1 in
  let delegate = next_int t = 1 in
  let quick = next_int t = 1 in
  let pause = next_n t in
  let nlayers = next_int t in
  let _chv2 = next_int t = 1 in
  begin
  let rows = List.map read_row (List.filter (starts_with "ROW") dump) in
  let src, rest = (match rows with s :: r -> s, r | [] -> failwith "no src row") in
  let rec pair = function a :: b :: r -> (a, b) :: pair r | [] -> [] | _ -> failwith "odd rows" in
  let layers = pair rest in
  if List.length layers <> nlayers then failwith "layer count";
  let lcfg = { layers = layers; src_keys = src; trans_v2 = trans_v2; delegate_first = delegate; quick_tap_hold = quick } in
  let kt = mk_toks (List.find (starts_with "KCFG") dump) in
  ignore (next kt);
  let ov_rel = next_int kt = 1 in
  let seq_always = next_int kt = 1 in
  let seq_mode = next_n kt in
  let seq_timeout = next_n kt in
  let seq_bt = next_int kt = 1 in
  let dyn_max = next_n kt in
  let dyn_rec = next_int kt = 1 in
  let smkt = next_n kt in
  let mm_smooth = next_int kt = 1 in
  let keyouts = List.map (fun line ->
    let t = mk_toks line in ignore (next t); ignore (next t);
    let n = next_int t in
    repeat n (fun () -> let k = next_n t in let m = next_int t in let outs = repeat m (fun () -> next_n t) in (k, outs)))
    (List.filter (starts_with "KEYOUT") dump) in
  let ot = mk_toks (List.find (starts_with "OVERRIDES") dump) in
  ignore (next ot);
  let novs = next_int ot in
  let ovs = repeat novs (fun () ->
    let inm = next_n ot in let onm = next_n ot in
    let ni = next_int ot in let im = repeat ni (fun () -> next_n ot) in
    let no = next_int ot in let om = repeat no (fun () -> next_n ot) in
    { ov_in_nm = inm; ov_out_nm = onm; ov_in_mods = im; ov_out_mods = om }) in
  let st = mk_toks (List.find (starts_with "SEQS") dump) in
  ignore (next st);
  let nseq = next_int st in
  let seqs = repeat nseq (fun () ->
    let n = next_int st in let key = repeat n (fun () -> next_n st) in
    let x = next_n st in let y = next_n st in (key, (x, y))) in
  let customs = List.map (fun line ->
    let t = mk_toks line in ignore (next t); ignore (next t);
    let n = next_int t in repeat n (fun () -> read_custom t)) (List.filter (starts_with "CU ") dump) in
  let cfg = { kc_layout = lcfg; kc_customs = customs; kc_key_outputs = keyouts; kc_overrides = ovs;
              kc_override_release_on_activation = ov_rel; kc_sequences = seqs; kc_seq_always_on = seq_always;
              kc_seq_input_mode = seq_mode; kc_seq_timeout = seq_timeout; kc_seq_backtrack_modcancel = seq_bt;
              kc_dyn_max_presses = dyn_max; kc_dyn_replay_recorded = dyn_rec; kc_switch_max_key_timing = smkt;
              kc_mm_smooth_diagonals = mm_smooth; kc_ignore_min = n_of_int 676; kc_ignore_max = n_of_int 685 } in
  let k = ref (k_init (match read_chv2 dump with Some c -> set_chords2 (Some c) (init_layout pause) | None -> init_layout pause)) in
  let zc = read_zippy dump in
  let z = ref z_init in
  (* every key press / release kanata emits goes through the zippychord filter *)
  let zfilter (evs : os_ev list) : os_ev list =
    match zc with
    | None -> evs
    | Some c ->
      List.concat_map (fun e ->
        let conv = List.map (function ZP o -> KDown o | ZR o -> KUp o) in
        match e with
        | KDown o -> let (z', out) = z_press c !z o in z := z'; conv out
        | KUp o -> let (z', out) = z_release c !z o in z := z'; conv out
        | e -> [e]) evs in
  let zidle () = (match zc with None -> true | Some _ -> z_is_idle !z) in
  let tick = ref 0 in
  let pending = ref [] in
  let loop_mode = ref None in
  let iter_open = ref false in
  let dump_macros () =
    let ms = List.sort (fun (a, _) (b, _) -> compare (int_of_n a) (int_of_n b)) (!k).k_dyn_macros in
    List.iter (fun (id, items) ->
      let f = function
        | DMPress (kc, d) -> Printf.sprintf "P%d,%d" (int_of_n kc) (int_of_n d)
        | DMRelease (kc, d) -> Printf.sprintf "R%d,%d" (int_of_n kc) (int_of_n d)
        | DMEnd i -> Printf.sprintf "E%d" (int_of_n i) in
      Buffer.add_string out (Printf.sprintf "DM@%d %d : %s\n" !tick (int_of_n id) (String.concat " " (List.map f items)))) ms in
  (try
    List.iter (fun tok ->
      if tok <> "" then begin
        let kind = tok.[0] and rest = String.sub tok 1 (String.length tok - 1) in
        match kind with
        | 'B' -> loop_mode := Some (rest = "1")
        | 'd' | 'u' | 'r' | 'T' ->
          let code = n_of_int (int_of_string rest) in
          if os_from_u16 code = None then () else
          let ev = (match kind with 'd' -> IPress code | 'u' -> IRelease code | 'r' -> IRepeat code | _ -> ITap code) in
          (* loop mode: one iteration of the processing loop = idle bookkeeping, the input events that arrived, one millisecond *)
          (match !loop_mode with
           | Some _ when not !iter_open ->
             let (k', _) = k_can_block cfg !k (n_of_int 1) in k := k'; iter_open := true
           | _ -> ());
          let (k', evs) = unwrap (k_input cfg !k ev) in
          k := k';
          if kind = 'r' then
            Buffer.add_string out (Printf.sprintf "R@%d %s : %s\n" !tick rest (String.concat " " (List.map fmt_ev evs)))
          else pending := !pending @ List.map fmt_ev (zfilter evs)
        | 'v' ->
          (match String.split_on_char ',' rest with
           | [op; x; y] ->
             let opn = (match op with "p" -> 0 | "r" -> 1 | "t" -> 2 | _ -> 3) in
             let l' = unwrap (fakekey_action cfg (!k).k_layout (n_of_int opn) (n_of_int (int_of_string x), n_of_int (int_of_string y))) in
             k := set_k_layout l' !k
           | _ -> failwith "bad v token")
        | 'q' ->
          let idle = k_is_idle_cfg cfg !k && zidle () in
          let (k', block) = k_can_block cfg !k (n_of_int 1) in
          k := k';
          let block = block && zidle () in     (* is_idle() includes the zippychord state (zch().zch_is_idle()) *)
          Buffer.add_string out (Printf.sprintf "Q@%d idle=%d block=%d\n" !tick (if idle then 1 else 0) (if block then 1 else 0));
          dump_macros ()
        | 't' ->
          for _ = 1 to int_of_string rest do
            let blocked = (match !loop_mode with
              | None -> false
              | Some _ when !iter_open -> iter_open := false; false
              | Some honour ->
                let (k', cb) = k_can_block cfg !k (n_of_int 1) in
                k := k'; (cb && zidle ()) && honour) in
            if blocked then incr tick else
            let (k', evs) = unwrap (k_tick cfg !k) in
            k := k'; incr tick;
            pending := !pending @ List.map fmt_ev (zfilter evs);
            (match zc with Some _ -> z := z_tick ((!k).k_caps_word <> None) !z | None -> ());
            if !pending <> [] then begin
              Buffer.add_string out (Printf.sprintf "@%d %s\n" !tick (String.concat " " !pending));
              pending := []
            end
          done
        | 'm' ->
          (* one iteration of the processing loop that covers n milliseconds (the loop was late): the idle bookkeeping is told n,
             then tick_ms(n) of the model *)
          let n = int_of_string rest in
          let blocked = (match !loop_mode with
            | None -> false
            | Some _ when !iter_open -> iter_open := false; false
            | Some honour ->
              let (k', cb) = k_can_block cfg !k (n_of_int n) in
              k := k'; (cb && zidle ()) && honour) in
          if blocked then tick := !tick + n else begin
            let (k', evs) = unwrap (k_tick_ms cfg (n_of_int n) !k) in
            k := k';
            pending := !pending @ List.map fmt_ev (zfilter evs);
            for _ = 1 to n do
              (match zc with Some _ -> z := z_tick ((!k).k_caps_word <> None) !z | None -> ())
            done;
            tick := !tick + n;
            if !pending <> [] then begin
              Buffer.add_string out (Printf.sprintf "@%d %s\n" !tick (String.concat " " !pending));
              pending := []
            end
          end
        | _ -> failwith ("bad history token " ^ tok)
      end) (String.split_on_char ' ' hist);
    if !pending <> [] then Buffer.add_string out (Printf.sprintf "@%d+ %s\n" !tick (String.concat " " !pending));
    dump_macros ();
    let kv = !k in
    let sc = (match kv.k_scroll with Some _ -> 1 | None -> 0) + (match kv.k_hscroll with Some _ -> 1 | None -> 0) in
    let mv = (match kv.k_mmv with Some _ -> 1 | None -> 0) + (match kv.k_mmh with Some _ -> 1 | None -> 0) in
    Buffer.add_string out (Printf.sprintf "END tick=%d down=[%s] nstates=%d layer=%d idle=%d scroll=%d move=%d rec=%d\n"
      !tick (String.concat " " (List.map (fun x -> string_of_int (int_of_n x)) kv.k_prev_keys))
      (List.length kv.k_layout.states) (int_of_n (current_layer kv.k_layout)) (if k_is_idle_cfg cfg kv && zidle () then 1 else 0) sc mv (match kv.k_record with Some _ -> 1 | None -> 0))
  with
  | Model_panic s -> Buffer.add_string out (Printf.sprintf "PANIC tick=%d %s\n" !tick s)
  | Model_fuel -> Buffer.add_string out (Printf.sprintf "PANIC tick=%d OUT-OF-FUEL\n" !tick))
  end


(* ---------- C13: overrides as a key-list transformation ---------- *)
let run_ovr (dump : Stdlib.String.t list) (hist : Stdlib.String.t) (out : Buffer.t) =
  let ot = mk_toks (List.find (starts_with "OVERRIDES") dump) in
  ignore (next ot);
  let novs = next_int ot in
  let ovs = repeat novs (fun () ->
    let inm = next_n ot in let onm = next_n ot in
    let ni = next_int ot in let im = repeat ni (fun () -> next_n ot) in
    let no = next_int ot in let om = repeat no (fun () -> next_n ot) in
    { ov_in_nm = inm; ov_out_nm = onm; ov_in_mods = im; ov_out_mods = om }) in
  List.iteri (fun i lst ->
    let codes = List.map (fun s -> n_of_int (int_of_string s)) (List.filter (fun s -> s <> "") (String.split_on_char ' ' lst)) in
    let (o, r) = override_keys ovs codes in
    let f l = String.concat " " (List.map (fun x -> string_of_int (int_of_n x)) l) in
    (* OverrideStates is only cleaned when there are overrides: with an empty table `removed` keeps its previous value (empty) *)
    Buffer.add_string out (Printf.sprintf "OV %d : %s ; %s\n" i (f o) (f r))) (String.split_on_char '|' hist)


(* ---------- C12: defseq table (route B: the model elaborates the encoded key lists itself) ---------- *)
let run_seqtab (_dump : Stdlib.String.t list) (hist : Stdlib.String.t) (out : Buffer.t) =
  let t = mk_toks hist in
  let defs = ref [] in
  while t.pos < Array.length t.arr do
    match next t with
    | "DEF" ->
      let x = next_n t in let y = next_n t in
      let n = next_int t in
      let vals = repeat n (fun () -> next_n t) in
      defs := ((x, y), vals) :: !defs
    | _ -> ()
  done;
  match parse_sequences (List.rev !defs) [] with
  | Inl _ -> Buffer.add_string out "REJECTED\n"
  | Inr tr ->
    let ents = List.map (fun (k, (x, y)) ->
      Printf.sprintf "%s>%d,%d" (String.concat "." (List.map (fun v -> string_of_int (int_of_n v)) k)) (int_of_n x) (int_of_n y)) tr in
    Buffer.add_string out (Printf.sprintf "SEQS %s\n" (String.concat " " (List.sort compare ents)))

(* ---------- C10: switch compile + evaluate ---------- *)
let rec read_bexpr t : bexpr =
  match next t with
  | "k" -> BLeaf (LKey (next_n t))
  | "hk" -> let k = next_n t in let r = next_n t in BLeaf (LHistKey (k, r))
  | "lt" -> let n = next_n t in let ms = next_n t in BLeaf (LLt (n, ms))
  | "gt" -> let n = next_n t in let ms = next_n t in BLeaf (LGt (n, ms))
  | "in" -> let r = next_n t in let y = next_n t in BLeaf (LInput (r, y))
  | "hin" -> let r = next_n t in let y = next_n t in let c = next_n t in BLeaf (LHistInput (r, y, c))
  | "ly" -> BLeaf (LLayer (next_n t))
  | "bl" -> BLeaf (LBaseLayer (next_n t))
  | "or" -> let n = next_int t in BOp (BOr, repeat n (fun () -> read_bexpr t))
  | "and" -> let n = next_int t in BOp (BAnd, repeat n (fun () -> read_bexpr t))
  | "not" -> let n = next_int t in BOp (BNot, repeat n (fun () -> read_bexpr t))
  | s -> failwith ("bad bexpr token " ^ s)

let run_swev (hist : Stdlib.String.t) (out : Buffer.t) =
  let t = mk_toks hist in
  let cases = ref [] in
  let envs = ref [] in
  while t.pos < Array.length t.arr do
    match next t with
    | "AST" ->
      let nc = next_int t in
      cases := repeat nc (fun () ->
        let ni = next_int t in
        let items = repeat ni (fun () -> read_bexpr t) in
        let brk = next_int t = 1 in
        (items, brk));
      if next t <> ";" then failwith "expected ;"
    | "ENV" ->
      let expect s = if next t <> s then failwith ("expected " ^ s) in
      expect "K"; let n = next_int t in let keys = repeat n (fun () -> next_n t) in
      expect "C"; let n = next_int t in let coords = repeat n (fun () -> let x = next_n t in let y = next_n t in (x, y)) in
      expect "HK"; let n = next_int t in let hk = repeat n (fun () -> let k = next_n t in let s = next_n t in (k, s)) in
      expect "HI"; let n = next_int t in let hi = repeat n (fun () -> let x = next_n t in let y = next_n t in let s = next_n t in ((x, y), s)) in
      expect "L"; let n = next_int t in let ls = repeat n (fun () -> next_n t) in
      expect "D"; let d = next_n t in
      envs := { e_keys = keys; e_coords = coords; e_hkeys = hk; e_hinputs = hi; e_layers = ls; e_default = d } :: !envs
    | _ -> ()
  done;
  let envs = List.rev !envs in
  let acs = List.mapi (fun i (items, brk) -> ((items, KeyCode (n_of_int i)), brk)) !cases in
  let compiled = List.map compile_case acs in
  List.iteri (fun i ((ops, _), _) ->
    Buffer.add_string out (Printf.sprintf "OPS %d : %s\n" i (String.concat " " (List.map (fun o -> string_of_int (int_of_n o)) ops)))) compiled;
  let idx_of = function KeyCode k -> string_of_int (int_of_n k) | _ -> "?" in
  List.iteri (fun j env ->
    let spec = List.map idx_of (cases_spec env acs) in
    match switch_actions compiled env with
    | Ok l ->
      let m = List.map idx_of l in
      if m = spec then Buffer.add_string out (Printf.sprintf "EV %d : %s\n" j (String.concat " " m))
      else Buffer.add_string out (Printf.sprintf "EV %d : SPEC-DIFF model=[%s] spec=[%s]\n" j (String.concat " " m) (String.concat " " spec))
    | _ -> Buffer.add_string out (Printf.sprintf "EV %d : PANIC\n" j)) envs

let swev_main (path : Stdlib.String.t) =
  let ic = open_in path in
  let out = Buffer.create 65536 in
  let hist = ref "" in
  (try
    while true do
      let line = input_line ic in
      if String.length line >= 5 && String.sub line 0 5 = "CASE " then begin
        Buffer.add_string out line; Buffer.add_char out '\n'; hist := ""
      end
      else if String.length line >= 2 && String.sub line 0 2 = "H " then hist := String.sub line 2 (String.length line - 2)
      else if line = "TRACE-BEGIN" then begin
        Buffer.add_string out "TRACE-BEGIN\n";
        (try run_swev !hist out
         with Failure s -> Buffer.add_string out ("MODEL-ERROR " ^ s ^ "\n")
            | Invalid_argument s -> Buffer.add_string out ("MODEL-ERROR " ^ s ^ "\n"));
        Buffer.add_string out "TRACE-END\n"
      end
      else if String.length line >= 6 && String.sub line 0 6 = "PARSE-" then begin
        Buffer.add_string out line; Buffer.add_char out '\n'
      end
    done
  with End_of_file -> ());
  close_in ic;
  print_string (Buffer.contents out)


(* ---------- C03: s-expression layer ---------- *)
let bytes_of_hex (h : Stdlib.String.t) : n list =
  List.init (String.length h / 2) (fun i -> n_of_int (int_of_string ("0x" ^ String.sub h (2 * i) 2)))
let hex_of_bytes (l : n list) : Stdlib.String.t =
  String.concat "" (List.map (fun b -> Printf.sprintf "%02x" (int_of_n b)) l)
let sx_pos (p : pos) = Printf.sprintf "%d.%d.%d" (int_of_n p.p_abs) (int_of_n p.p_line) (int_of_n p.p_lb)
let sx_span (s : span) = Printf.sprintf "[%s-%s]" (sx_pos s.s_start) (sx_pos s.s_end)
let rec sx_tree (b : Buffer.t) (e : sexpr) =
  match e with
  | Atom (t, s) -> Buffer.add_string b (Printf.sprintf "A%s:%s " (sx_span s) (hex_of_bytes t))
  | SList (l, s) ->
    Buffer.add_string b (Printf.sprintf "L%s( " (sx_span s));
    List.iter (sx_tree b) l;
    Buffer.add_string b ") "
let sx_show (ignore_ws : bool) (text : n list) : Stdlib.String.t =
  match unwrap (parse_ ignore_ws text) with
  | Inl e ->
    let k = (match e.pe_msg with
      | MUnexpectedClose -> "unexpected-close" | MUnclosedOpen -> "unclosed-open" | MNotInList -> "not-in-list"
      | MLex EUntermString -> "unterm-string" | MLex EUntermMultiString -> "unterm-mstring"
      | MLex EUntermComment -> "unterm-comment") in
    Printf.sprintf "ERR %s %s" k (sx_span e.pe_span)
  | Inr (tops, metas) ->
    let b = Buffer.create 256 in
    Buffer.add_string b "OK ";
    List.iter (fun (l, s) -> sx_tree b (SList (l, s))) tops;
    Buffer.add_string b "| ";
    List.iter (fun m ->
      let (k, t, s) = (match m with MLine (t, s) -> ("ML", t, s) | MBlock (t, s) -> ("MB", t, s) | MWs (t, s) -> ("MW", t, s)) in
      Buffer.add_string b (Printf.sprintf "%s%s:%s " k (sx_span s) (hex_of_bytes t))) metas;
    Buffer.contents b
let sx_head_is (l : sexpr list) (name : Stdlib.String.t) =
  match l with
  | Atom (t, _) :: _ -> hex_of_bytes t = hex_of_bytes (List.map (fun c -> n_of_int (Char.code c)) (List.of_seq (String.to_seq name)))
  | _ -> false
let run_sx (_dump : Stdlib.String.t list) (hist : Stdlib.String.t) (out : Buffer.t) =
  let t = mk_toks hist in
  ignore (next t);
  let text = bytes_of_hex (if t.pos < Array.length t.arr then next t else "") in
  (try
    Buffer.add_string out (Printf.sprintf "P1 %s\n" (sx_show true text));
    Buffer.add_string out (Printf.sprintf "P0 %s\n" (sx_show false text));
    (match unwrap (parse_ true text) with
     | Inl _ -> ()
     | Inr (tops, _) ->
       List.iter (fun (l, s) -> Buffer.add_string out (Printf.sprintf "D %s\n" (hex_of_bytes (fmt_sexpr (SList (l, s)))))) tops;
       let defvars = List.filter (fun (l, _) -> sx_head_is l "defvar") tops in
       if defvars <> [] then begin
         let res = List.fold_left (fun acc (l, _) ->
           match acc with
           | VOk vs -> unwrap (parse_vars_items vs (List.tl l))
           | r -> r) (VOk []) defvars in
         (match res with
          | VOther -> Buffer.add_string out "V OTHER\n"
          | VErr VDuplicate -> Buffer.add_string out "V DUP\n"
          | VErr VSelfRef -> Buffer.add_string out "V SELF\n"
          | VOk vs ->
            Buffer.add_string out "V OK\n";
            let fuel = nat_of_int (List.length vs + 1) in
            let qi = ref 0 in
            List.iter (fun (l, _) ->
              if sx_head_is l "q" then
                List.iter (fun e ->
                  let a = (match unwrap (atom_res fuel vs e) with Some t -> hex_of_bytes t | None -> "None") in
                  let ls = (match unwrap (list_res fuel vs e) with
                    | Some xs -> hex_of_bytes (List.concat_map (fun x -> fmt_sexpr x @ [n_of_int 59]) xs)
                    | None -> "None") in
                  Buffer.add_string out (Printf.sprintf "Q %d atom=%s list=%s\n" !qi a ls);
                  incr qi) (List.tl l)) tops)
       end)
  with
  | Model_panic s -> Buffer.add_string out (Printf.sprintf "PANIC sx: %s\n" s)
  | Model_fuel -> Buffer.add_string out "PANIC sx: OUT-OF-FUEL\n")


(* ---------- C16: template expansion ---------- *)
let rec tm_tree (b : Buffer.t) (e : sexpr) =
  match e with
  | Atom (t, _) -> Buffer.add_string b (Printf.sprintf "A:%s " (hex_of_bytes t))
  | SList (l, _) -> Buffer.add_string b "( "; List.iter (tm_tree b) l; Buffer.add_string b ") "
let tm_class = function
  | TENoName -> "no-name" | TENameNotString -> "name-not-string" | TEDuplicate -> "duplicate" | TENoVars -> "no-vars"
  | TEVarsNotList -> "vars-not-list" | TEVarNotString -> "var-not-string" | TENested -> "nested"
  | TEUnknownInBody -> "unknown-in-body" | TECallNoName -> "call-no-name" | TECallNameNotString -> "name-not-string"
  | TECallUnknown -> "call-unknown" | TECallArity -> "call-arity" | TECondArg1 -> "cond-arg1" | TECondArg1Type -> "cond-type"
  | TECondArg2 -> "cond-arg2" | TECondArg2Type -> "cond-type" | TETopAtom -> "top-atom"
let run_tmpl (_dump : Stdlib.String.t list) (hist : Stdlib.String.t) (out : Buffer.t) =
  let t = mk_toks hist in
  ignore (next t);
  let text = bytes_of_hex (if t.pos < Array.length t.arr then next t else "") in
  (try
    (match unwrap (parse_ true text) with
     | Inl _ -> Buffer.add_string out "T LEXERR\n"
     | Inr (tops, _) ->
       (match unwrap (expand_templates (nat_of_int 400) tops) with
        | Inl e -> Buffer.add_string out (Printf.sprintf "T ERR %s\n" (tm_class e))
        | Inr tops' ->
          let b = Buffer.create 256 in
          Buffer.add_string b "T OK ";
          List.iter (fun (l, s) -> tm_tree b (SList (l, s))) tops';
          Buffer.add_string out (Buffer.contents b); Buffer.add_char out '\n'))
  with
  | Model_panic s -> Buffer.add_string out (Printf.sprintf "PANIC tmpl: %s\n" s)
  | Model_fuel -> Buffer.add_string out "PANIC tmpl: OUT-OF-FUEL\n")


(* ---------- C15: reload decision functions, one query per line on stdin ---------- *)
let rld_main () =
  (try
    while true do
      let line = input_line stdin in
      match List.filter (fun s -> s <> "") (String.split_on_char ' ' line) with
      | ["DUE"; r; ku; tsi] ->
        let b = reload_due (r = "1") (ku = "1") (n_of_int (int_of_string tsi)) in
        Printf.printf "DUE %d\n" (if b then 1 else 0)
      | ["IDX"; a; m; i; n] ->
        let act = (match a with "same" -> RlSame | "next" -> RlNext | "prev" -> RlPrev | _ -> RlNum (n_of_int (int_of_string m))) in
        Printf.printf "IDX %d\n" (int_of_n (next_index act (n_of_int (int_of_string i)) (n_of_int (int_of_string n))))
      | _ -> print_endline "?"
    done
  with End_of_file -> ())

(* ---------- C11 key tables ---------- *)
let hex_decode (h : Stdlib.String.t) : Stdlib.String.t =
  String.init (String.length h / 2) (fun i -> Char.chr (int_of_string ("0x" ^ String.sub h (2 * i) 2)))

let keys_main () =
  (try
    while true do
      let line = input_line stdin in
      match List.filter (fun s -> s <> "") (String.split_on_char ' ' line) with
      | ["F"; c] ->
        let ci = int_of_string c in
        (match os_from_u16 (n_of_int ci) with
         | None -> Printf.printf "F %d None\n" ci
         | Some v ->
           let d = (match os_as_u16 v with Some d -> int_of_n d | None -> -1) in
           let kc = (match osc_to_kc v with Some k -> k | None -> coq_string_of "?") in
           let kd = (match kc_as_u16 kc with Some d -> int_of_n d | None -> -1) in
           let back = (match kc_to_osc kc with Some o -> ocaml_string_of o | None -> "?") in
           Printf.printf "F %d %s %d %s %d %s\n" ci (ocaml_string_of v) d (ocaml_string_of kc) kd back)
      | ["N"; h] ->
        (match str_to_oscode (coq_string_of (hex_decode h)) with
         | None -> Printf.printf "N %s None\n" h
         | Some v -> Printf.printf "N %s %s\n" h (ocaml_string_of v))
      | ["N"] -> (match str_to_oscode (coq_string_of "") with
         | None -> Printf.printf "N  None\n"
         | Some v -> Printf.printf "N  %s\n" (ocaml_string_of v))
      | _ -> ()
    done
  with End_of_file -> ())

let () =
  match Array.to_list Sys.argv with
  | _ :: "lsim" :: path :: _ -> sim_main run_lsim path
  | _ :: "ksim" :: path :: _ -> sim_main run_ksim path
  | _ :: "ovr" :: path :: _ -> sim_main run_ovr path
  | _ :: "pinfo" :: path :: _ -> sim_main run_seqtab path
  | _ :: "sx" :: path :: _ -> sim_main run_sx path
  | _ :: "tmpl" :: path :: _ -> sim_main run_tmpl path
  | _ :: "keys" :: _ -> keys_main ()
  | _ :: "rld" :: _ -> rld_main ()
  | _ :: "rsim" :: _ -> ()
  | _ :: "swev" :: path :: _ -> swev_main path
  | _ -> prerr_endline "usage: driver <lsim FILE|keys>"; exit 2
