(* Shared base: outcome monad (explicit panic / out-of-fuel), u16 arithmetic, bounded containers.
   Model files contain no proofs. *)
From Coq Require Export String.
From Coq Require Export List NArith ZArith Bool.
Export ListNotations.
Open Scope N_scope.

Inductive outcome (A : Type) : Type :=
| Ok (a : A)
| Panic (site : string)
| OutOfFuel.
Arguments Ok {A} a.
Arguments Panic {A} site.
Arguments OutOfFuel {A}.

Definition bind {A B} (m : outcome A) (f : A -> outcome B) : outcome B :=
  match m with
  | Ok a => f a
  | Panic s => Panic s
  | OutOfFuel => OutOfFuel
  end.
Notation "x <- m ;; k" := (bind m (fun x => k)) (at level 61, m at next level, right associativity).
Notation "' p <- m ;; k" := (bind m (fun p => k)) (at level 61, p pattern, m at next level, right associativity).

Definition is_ok {A} (m : outcome A) : bool := match m with Ok _ => true | _ => false end.

(* ---- u16 / u32 arithmetic as written in the Rust ---- *)
Definition U16_MAX : N := 65535.
Definition sat_sub (a b : N) : N := a - b.                    (* saturating_sub: N.sub truncates at 0 *)
Definition sat_add16 (a b : N) : N := N.min U16_MAX (a + b).   (* u16::saturating_add *)
(* plain `a + b` on u16: panics on overflow with overflow checks (debug profile, which the
   correspondence harness uses); wraps in release.  Modelled as a panic. *)
Definition add16 (a b : N) : outcome N :=
  if a + b <=? U16_MAX then Ok (a + b) else Panic "u16 add overflow".
(* plain `a - b` on unsigned *)
Definition sub_chk (a b : N) : outcome N :=
  if b <=? a then Ok (a - b) else Panic "unsigned sub overflow".

(* ---- bounded containers: lists + capacity ---- *)
(* arraydeque Wrapping push_back: when full, evicts and returns the front *)
Definition wdeque_push_back {A} (cap : nat) (x : A) (l : list A) : list A * option A :=
  if Nat.ltb (length l) cap then (l ++ [x], None)
  else match l with
       | [] => ([x], None)          (* cap = 0: unreachable for our capacities *)
       | h :: t => (t ++ [x], Some h)
       end.
(* arraydeque Wrapping push_front: when full, evicts the back *)
Definition wdeque_push_front {A} (cap : nat) (x : A) (l : list A) : list A :=
  if Nat.ltb (length l) cap then x :: l else x :: removelast l.
(* arraydeque Saturating push_back / heapless Vec push: fails when full *)
Definition sat_push_back {A} (cap : nat) (x : A) (l : list A) : list A * bool :=
  if Nat.ltb (length l) cap then (l ++ [x], true) else (l, false).
(* Wrapping extend = repeated push_back *)
Definition wdeque_extend {A} (cap : nat) (xs l : list A) : list A :=
  fold_left (fun acc x => fst (wdeque_push_back cap x acc)) xs l.

Fixpoint remove_nth {A} (n : nat) (l : list A) : list A :=
  match n, l with
  | _, [] => []
  | O, _ :: t => t
  | S n', h :: t => h :: remove_nth n' t
  end.

Definition coord := (N * N)%type.
Definition coord_eqb (a b : coord) : bool := (fst a =? fst b) && (snd a =? snd b).
Definition mem_coord (c : coord) (l : list coord) : bool := existsb (coord_eqb c) l.
Definition mem_n (k : N) (l : list N) : bool := existsb (N.eqb k) l.

Fixpoint find_idx {A} (p : A -> bool) (l : list A) : option nat :=
  match l with
  | [] => None
  | x :: t => if p x then Some O else option_map S (find_idx p t)
  end.
