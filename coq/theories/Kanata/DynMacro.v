(* Model of src/kanata/dynamic_macro.rs.  No proofs.  HashSet iteration order (the releases added
   for keys still down) is modelled as first-pressed order; the property says "in no particular order". *)
From KV Require Export Keyberon.Layout.

Inductive dm_item := DMPress (k d : N) | DMRelease (k d : N) | DMEnd (id : N).

Record dm_record := { dr_id : N; dr_waiting : option (N * bool) (* (key, is_press) *);
                      dr_items : list dm_item; dr_delay : N }.
Record dm_replay := { dp_active : list N; dp_delay_remaining : N; dp_items : list dm_item }.

Definition dr_new (id : N) : dm_record := {| dr_id := id; dr_waiting := None; dr_items := []; dr_delay := 0 |}.

Definition unreleased (items : list dm_item) : list N :=
  fold_left (fun acc it => match it with
                           | DMPress k _ => if mem_n k acc then acc else acc ++ [k]
                           | DMRelease k _ => filter (fun x => negb (x =? k)) acc
                           | DMEnd _ => acc end) items [].

Definition add_releases (items : list dm_item) : list dm_item :=
  items ++ map (fun k => DMRelease k 0) (unreleased items).

Definition flush_waiting (s : dm_record) : list dm_item :=
  match dr_waiting s with
  | Some (k, true) => dr_items s ++ [DMPress k (dr_delay s)]
  | Some (k, false) => dr_items s ++ [DMRelease k (dr_delay s)]
  | None => dr_items s
  end.

Definition dr_add_event (s : dm_record) (k : N) (is_press : bool) : dm_record :=
  {| dr_id := dr_id s; dr_waiting := Some (k, is_press); dr_items := flush_waiting s; dr_delay := 0 |}.

Definition tick_record (r : option dm_record) : option dm_record :=
  option_map (fun s => {| dr_id := dr_id s; dr_waiting := dr_waiting s; dr_items := dr_items s;
                          dr_delay := sat_add16 (dr_delay s) 1 |}) r.

(* record_press: (new record state, macro to save) *)
Definition record_press (r : option dm_record) (k max_presses : N) : option dm_record * option (N * list dm_item) :=
  match r with
  | None => (None, None)
  | Some s =>
    if max_presses * 2 <? N.of_nat (length (dr_items s))
    then (None, Some (dr_id s, add_releases (dr_items s)))
    else (Some (dr_add_event s k true), None)
  end.
Definition record_release (r : option dm_record) (k : N) : option dm_record :=
  option_map (fun s => dr_add_event s k false) r.

(* `macro_items.pop()`: drops the last item, a no-op on an empty vector *)
Definition drop_last (items : list dm_item) : outcome (list dm_item) := Ok (removelast items).

Definition begin_record (id : N) (r : option dm_record) : outcome (option dm_record * option (N * list dm_item)) :=
  match r with
  | None => Ok (Some (dr_new id), None)
  | Some s =>
    items <- drop_last (flush_waiting s) ;;
    let items := add_releases items in
    Ok (if dr_id s =? id then None else Some (dr_new id), Some (dr_id s, items))
  end.

Definition stop_macro (r : option dm_record) (n_remove : N) : outcome (option dm_record * option (N * list dm_item)) :=
  match r with
  | None => Ok (None, None)
  | Some s =>
    items <- drop_last (flush_waiting s) ;;
    let items := firstn (length items - N.to_nat n_remove) items in
    Ok (None, Some (dr_id s, add_releases items))
  end.

Fixpoint dm_lookup (id : N) (ms : list (N * list dm_item)) : option (list dm_item) :=
  match ms with [] => None | (i, m) :: t => if i =? id then Some m else dm_lookup id t end.
Definition dm_insert (id : N) (m : list dm_item) (ms : list (N * list dm_item)) : list (N * list dm_item) :=
  (id, m) :: filter (fun p => negb (fst p =? id)) ms.

Definition play_macro (id : N) (rp : option dm_replay) (ms : list (N * list dm_item)) : option dm_replay :=
  match rp with
  | None => option_map (fun items => {| dp_active := [id]; dp_delay_remaining := 0; dp_items := items |}) (dm_lookup id ms)
  | Some st =>
    if mem_n id (dp_active st) then rp
    else match dm_lookup id ms with
         | Some items => Some {| dp_active := id :: dp_active st; dp_delay_remaining := dp_delay_remaining st;
                                 dp_items := items ++ DMEnd id :: dp_items st |}
         | None => rp
         end
  end.

(* tick_replay_state: (new state, event to feed: (press?, key, delay)) *)
Definition tick_replay (rp : option dm_replay) (recorded : bool) : option dm_replay * option (bool * N * N) :=
  match rp with
  | None => (None, None)
  | Some st =>
    let dr := sat_sub (dp_delay_remaining st) 1 in
    if dr =? 0 then
      match dp_items st with
      | [] => (None, None)
      | DMPress k d :: t =>
        (Some {| dp_active := dp_active st; dp_delay_remaining := if recorded then d else 5; dp_items := t |},
         Some (true, k, if recorded then d else 0))
      | DMRelease k d :: t =>
        (Some {| dp_active := dp_active st; dp_delay_remaining := if recorded then d else 5; dp_items := t |},
         Some (false, k, if recorded then d else 0))
      | DMEnd id :: t =>
        (Some {| dp_active := filter (fun x => negb (x =? id)) (dp_active st); dp_delay_remaining := 5; dp_items := t |}, None)
      end
    else (Some {| dp_active := dp_active st; dp_delay_remaining := dr; dp_items := dp_items st |}, None)
  end.
