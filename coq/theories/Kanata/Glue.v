(* Executable model of kanata's per-tick glue around the keyberon layout (src/kanata/mod.rs:
   handle_input_event, tick_ms / tick_states, handle_keystate_changes with every custom action that
   affects C01-C20, key_repeat.rs, caps_word.rs, idle predicates).  Written to follow the Rust
   statement by statement.  No proofs here.

   Not modelled (opaque custom actions, no effect on the modelled state): cmd*, push-msg, clipboard*,
   set-mouse, the sleeps of on-press-delay/on-release-delay; mouse-move distances (float arithmetic)
   — only the start/stop/interval logic of mouse movement is modelled, a move event carries its
   direction only.  Zippychord is a pass-through here (model valid for configurations without defzippy). *)
From KV Require Export Keyberon.Layout Kanata.Overrides Kanata.DynMacro Kanata.SeqMode.

Inductive custom_action :=
| CaUnicode (c : N)
| CaMouse (btn : N) | CaMouseTap (btn : N)
| CaFakeKey (x y op : N) | CaFakeKeyOnRelease (x y op : N)
| CaFakeKeyOnIdle (x y op idle : N) | CaFakeKeyHoldFor (x y dur : N)
| CaMWheel (dir interval distance : N) | CaMWheelNotch (dir : N)
| CaMoveMouse (dir interval : N) | CaMoveMouseAccel (dir interval : N) | CaMoveMouseSpeed (speed : N)
| CaSequenceCancel | CaSequenceLeader (timeout mode : N) | CaSequenceNoerase (n : N)
| CaLiveReload
| CaRepeat
| CaCancelMacroOnRelease | CaCancelMacroOnNextPress (dur : N)
| CaDynRecord (id : N) | CaDynRecordStop (n : N) | CaDynPlay (id : N)
| CaSendArbitraryCode (code : N)
| CaCapsWord (caps : list N) (nonterm : list N) (timeout : N) (toggle : bool)
| CaUnmodded (keys : list N) (mods : N) | CaUnshifted (keys : list N)
| CaReverseReleaseOrder
| CaOpaque.

Inductive os_ev :=
| KDown (k : N) | KUp (k : N) | KRepeat (k : N)
| BDown (b : N) | BUp (b : N)
| Scroll (dir dist : N) | MMove (dir : N)
| Unicode (c : N) | Code (c : N) (press : bool).

Record scroll_state := { sc_dir : N; sc_interval : N; sc_distance : N; sc_ticks_until : N }.
Record mmove_state := { mm_dir : N; mm_interval : N; mm_ticks_until : N }.
Record capsword_state := { cw_caps : list N; cw_nonterm : list N; cw_timeout : N; cw_ticks : N }.

Record kcfg := {
  kc_layout : lcfg;
  kc_customs : list (list custom_action);
  kc_key_outputs : list (list (N * list N));        (* per layer: physical key -> possible outputs *)
  kc_overrides : list override;
  kc_override_release_on_activation : bool;
  kc_sequences : trie;
  kc_seq_always_on : bool; kc_seq_input_mode : N; kc_seq_timeout : N; kc_seq_backtrack_modcancel : bool;
  kc_dyn_max_presses : N; kc_dyn_replay_recorded : bool;
  kc_switch_max_key_timing : N;
  kc_mm_smooth_diagonals : bool;
  kc_ignore_min : N; kc_ignore_max : N }.

Record kstate := {
  k_layout : layout;
  k_prev_keys : list N;
  k_scroll : option scroll_state; k_hscroll : option scroll_state;
  k_mmv : option mmove_state; k_mmh : option mmove_state; k_mm_buffer : option (bool * N) (* (vertical axis?, dir) *);
  k_seq : seq_kstate;
  k_dyn_macros : list (N * list dm_item); k_replay : option dm_replay; k_record : option dm_record;
  k_live_reload_requested : bool;
  k_caps_word : option capsword_state;
  k_waiting_for_idle : list (N * N * N * N);       (* x y op idle_duration *)
  k_vkeys_pending : list (coord * N);
  k_ticks_since_idle : N;
  k_unmodded_keys : list N; k_unmodded_mods : N; k_unshifted_keys : list N;
  k_last_pressed_key : N;
  k_macro_cancel_dur : N }.

Definition set_k_layout v k := {| k_layout := v; k_prev_keys := k_prev_keys k; k_scroll := k_scroll k; k_hscroll := k_hscroll k; k_mmv := k_mmv k; k_mmh := k_mmh k; k_mm_buffer := k_mm_buffer k; k_seq := k_seq k; k_dyn_macros := k_dyn_macros k; k_replay := k_replay k; k_record := k_record k; k_live_reload_requested := k_live_reload_requested k; k_caps_word := k_caps_word k; k_waiting_for_idle := k_waiting_for_idle k; k_vkeys_pending := k_vkeys_pending k; k_ticks_since_idle := k_ticks_since_idle k; k_unmodded_keys := k_unmodded_keys k; k_unmodded_mods := k_unmodded_mods k; k_unshifted_keys := k_unshifted_keys k; k_last_pressed_key := k_last_pressed_key k; k_macro_cancel_dur := k_macro_cancel_dur k |}.
Definition set_k_prev_keys v k := {| k_layout := k_layout k; k_prev_keys := v; k_scroll := k_scroll k; k_hscroll := k_hscroll k; k_mmv := k_mmv k; k_mmh := k_mmh k; k_mm_buffer := k_mm_buffer k; k_seq := k_seq k; k_dyn_macros := k_dyn_macros k; k_replay := k_replay k; k_record := k_record k; k_live_reload_requested := k_live_reload_requested k; k_caps_word := k_caps_word k; k_waiting_for_idle := k_waiting_for_idle k; k_vkeys_pending := k_vkeys_pending k; k_ticks_since_idle := k_ticks_since_idle k; k_unmodded_keys := k_unmodded_keys k; k_unmodded_mods := k_unmodded_mods k; k_unshifted_keys := k_unshifted_keys k; k_last_pressed_key := k_last_pressed_key k; k_macro_cancel_dur := k_macro_cancel_dur k |}.
Definition set_k_scroll v k := {| k_layout := k_layout k; k_prev_keys := k_prev_keys k; k_scroll := v; k_hscroll := k_hscroll k; k_mmv := k_mmv k; k_mmh := k_mmh k; k_mm_buffer := k_mm_buffer k; k_seq := k_seq k; k_dyn_macros := k_dyn_macros k; k_replay := k_replay k; k_record := k_record k; k_live_reload_requested := k_live_reload_requested k; k_caps_word := k_caps_word k; k_waiting_for_idle := k_waiting_for_idle k; k_vkeys_pending := k_vkeys_pending k; k_ticks_since_idle := k_ticks_since_idle k; k_unmodded_keys := k_unmodded_keys k; k_unmodded_mods := k_unmodded_mods k; k_unshifted_keys := k_unshifted_keys k; k_last_pressed_key := k_last_pressed_key k; k_macro_cancel_dur := k_macro_cancel_dur k |}.
Definition set_k_hscroll v k := {| k_layout := k_layout k; k_prev_keys := k_prev_keys k; k_scroll := k_scroll k; k_hscroll := v; k_mmv := k_mmv k; k_mmh := k_mmh k; k_mm_buffer := k_mm_buffer k; k_seq := k_seq k; k_dyn_macros := k_dyn_macros k; k_replay := k_replay k; k_record := k_record k; k_live_reload_requested := k_live_reload_requested k; k_caps_word := k_caps_word k; k_waiting_for_idle := k_waiting_for_idle k; k_vkeys_pending := k_vkeys_pending k; k_ticks_since_idle := k_ticks_since_idle k; k_unmodded_keys := k_unmodded_keys k; k_unmodded_mods := k_unmodded_mods k; k_unshifted_keys := k_unshifted_keys k; k_last_pressed_key := k_last_pressed_key k; k_macro_cancel_dur := k_macro_cancel_dur k |}.
Definition set_k_mmv v k := {| k_layout := k_layout k; k_prev_keys := k_prev_keys k; k_scroll := k_scroll k; k_hscroll := k_hscroll k; k_mmv := v; k_mmh := k_mmh k; k_mm_buffer := k_mm_buffer k; k_seq := k_seq k; k_dyn_macros := k_dyn_macros k; k_replay := k_replay k; k_record := k_record k; k_live_reload_requested := k_live_reload_requested k; k_caps_word := k_caps_word k; k_waiting_for_idle := k_waiting_for_idle k; k_vkeys_pending := k_vkeys_pending k; k_ticks_since_idle := k_ticks_since_idle k; k_unmodded_keys := k_unmodded_keys k; k_unmodded_mods := k_unmodded_mods k; k_unshifted_keys := k_unshifted_keys k; k_last_pressed_key := k_last_pressed_key k; k_macro_cancel_dur := k_macro_cancel_dur k |}.
Definition set_k_mmh v k := {| k_layout := k_layout k; k_prev_keys := k_prev_keys k; k_scroll := k_scroll k; k_hscroll := k_hscroll k; k_mmv := k_mmv k; k_mmh := v; k_mm_buffer := k_mm_buffer k; k_seq := k_seq k; k_dyn_macros := k_dyn_macros k; k_replay := k_replay k; k_record := k_record k; k_live_reload_requested := k_live_reload_requested k; k_caps_word := k_caps_word k; k_waiting_for_idle := k_waiting_for_idle k; k_vkeys_pending := k_vkeys_pending k; k_ticks_since_idle := k_ticks_since_idle k; k_unmodded_keys := k_unmodded_keys k; k_unmodded_mods := k_unmodded_mods k; k_unshifted_keys := k_unshifted_keys k; k_last_pressed_key := k_last_pressed_key k; k_macro_cancel_dur := k_macro_cancel_dur k |}.
Definition set_k_mm_buffer v k := {| k_layout := k_layout k; k_prev_keys := k_prev_keys k; k_scroll := k_scroll k; k_hscroll := k_hscroll k; k_mmv := k_mmv k; k_mmh := k_mmh k; k_mm_buffer := v; k_seq := k_seq k; k_dyn_macros := k_dyn_macros k; k_replay := k_replay k; k_record := k_record k; k_live_reload_requested := k_live_reload_requested k; k_caps_word := k_caps_word k; k_waiting_for_idle := k_waiting_for_idle k; k_vkeys_pending := k_vkeys_pending k; k_ticks_since_idle := k_ticks_since_idle k; k_unmodded_keys := k_unmodded_keys k; k_unmodded_mods := k_unmodded_mods k; k_unshifted_keys := k_unshifted_keys k; k_last_pressed_key := k_last_pressed_key k; k_macro_cancel_dur := k_macro_cancel_dur k |}.
Definition set_k_seq v k := {| k_layout := k_layout k; k_prev_keys := k_prev_keys k; k_scroll := k_scroll k; k_hscroll := k_hscroll k; k_mmv := k_mmv k; k_mmh := k_mmh k; k_mm_buffer := k_mm_buffer k; k_seq := v; k_dyn_macros := k_dyn_macros k; k_replay := k_replay k; k_record := k_record k; k_live_reload_requested := k_live_reload_requested k; k_caps_word := k_caps_word k; k_waiting_for_idle := k_waiting_for_idle k; k_vkeys_pending := k_vkeys_pending k; k_ticks_since_idle := k_ticks_since_idle k; k_unmodded_keys := k_unmodded_keys k; k_unmodded_mods := k_unmodded_mods k; k_unshifted_keys := k_unshifted_keys k; k_last_pressed_key := k_last_pressed_key k; k_macro_cancel_dur := k_macro_cancel_dur k |}.
Definition set_k_dyn_macros v k := {| k_layout := k_layout k; k_prev_keys := k_prev_keys k; k_scroll := k_scroll k; k_hscroll := k_hscroll k; k_mmv := k_mmv k; k_mmh := k_mmh k; k_mm_buffer := k_mm_buffer k; k_seq := k_seq k; k_dyn_macros := v; k_replay := k_replay k; k_record := k_record k; k_live_reload_requested := k_live_reload_requested k; k_caps_word := k_caps_word k; k_waiting_for_idle := k_waiting_for_idle k; k_vkeys_pending := k_vkeys_pending k; k_ticks_since_idle := k_ticks_since_idle k; k_unmodded_keys := k_unmodded_keys k; k_unmodded_mods := k_unmodded_mods k; k_unshifted_keys := k_unshifted_keys k; k_last_pressed_key := k_last_pressed_key k; k_macro_cancel_dur := k_macro_cancel_dur k |}.
Definition set_k_replay v k := {| k_layout := k_layout k; k_prev_keys := k_prev_keys k; k_scroll := k_scroll k; k_hscroll := k_hscroll k; k_mmv := k_mmv k; k_mmh := k_mmh k; k_mm_buffer := k_mm_buffer k; k_seq := k_seq k; k_dyn_macros := k_dyn_macros k; k_replay := v; k_record := k_record k; k_live_reload_requested := k_live_reload_requested k; k_caps_word := k_caps_word k; k_waiting_for_idle := k_waiting_for_idle k; k_vkeys_pending := k_vkeys_pending k; k_ticks_since_idle := k_ticks_since_idle k; k_unmodded_keys := k_unmodded_keys k; k_unmodded_mods := k_unmodded_mods k; k_unshifted_keys := k_unshifted_keys k; k_last_pressed_key := k_last_pressed_key k; k_macro_cancel_dur := k_macro_cancel_dur k |}.
Definition set_k_record v k := {| k_layout := k_layout k; k_prev_keys := k_prev_keys k; k_scroll := k_scroll k; k_hscroll := k_hscroll k; k_mmv := k_mmv k; k_mmh := k_mmh k; k_mm_buffer := k_mm_buffer k; k_seq := k_seq k; k_dyn_macros := k_dyn_macros k; k_replay := k_replay k; k_record := v; k_live_reload_requested := k_live_reload_requested k; k_caps_word := k_caps_word k; k_waiting_for_idle := k_waiting_for_idle k; k_vkeys_pending := k_vkeys_pending k; k_ticks_since_idle := k_ticks_since_idle k; k_unmodded_keys := k_unmodded_keys k; k_unmodded_mods := k_unmodded_mods k; k_unshifted_keys := k_unshifted_keys k; k_last_pressed_key := k_last_pressed_key k; k_macro_cancel_dur := k_macro_cancel_dur k |}.
Definition set_k_live_reload_requested v k := {| k_layout := k_layout k; k_prev_keys := k_prev_keys k; k_scroll := k_scroll k; k_hscroll := k_hscroll k; k_mmv := k_mmv k; k_mmh := k_mmh k; k_mm_buffer := k_mm_buffer k; k_seq := k_seq k; k_dyn_macros := k_dyn_macros k; k_replay := k_replay k; k_record := k_record k; k_live_reload_requested := v; k_caps_word := k_caps_word k; k_waiting_for_idle := k_waiting_for_idle k; k_vkeys_pending := k_vkeys_pending k; k_ticks_since_idle := k_ticks_since_idle k; k_unmodded_keys := k_unmodded_keys k; k_unmodded_mods := k_unmodded_mods k; k_unshifted_keys := k_unshifted_keys k; k_last_pressed_key := k_last_pressed_key k; k_macro_cancel_dur := k_macro_cancel_dur k |}.
Definition set_k_caps_word v k := {| k_layout := k_layout k; k_prev_keys := k_prev_keys k; k_scroll := k_scroll k; k_hscroll := k_hscroll k; k_mmv := k_mmv k; k_mmh := k_mmh k; k_mm_buffer := k_mm_buffer k; k_seq := k_seq k; k_dyn_macros := k_dyn_macros k; k_replay := k_replay k; k_record := k_record k; k_live_reload_requested := k_live_reload_requested k; k_caps_word := v; k_waiting_for_idle := k_waiting_for_idle k; k_vkeys_pending := k_vkeys_pending k; k_ticks_since_idle := k_ticks_since_idle k; k_unmodded_keys := k_unmodded_keys k; k_unmodded_mods := k_unmodded_mods k; k_unshifted_keys := k_unshifted_keys k; k_last_pressed_key := k_last_pressed_key k; k_macro_cancel_dur := k_macro_cancel_dur k |}.
Definition set_k_waiting_for_idle v k := {| k_layout := k_layout k; k_prev_keys := k_prev_keys k; k_scroll := k_scroll k; k_hscroll := k_hscroll k; k_mmv := k_mmv k; k_mmh := k_mmh k; k_mm_buffer := k_mm_buffer k; k_seq := k_seq k; k_dyn_macros := k_dyn_macros k; k_replay := k_replay k; k_record := k_record k; k_live_reload_requested := k_live_reload_requested k; k_caps_word := k_caps_word k; k_waiting_for_idle := v; k_vkeys_pending := k_vkeys_pending k; k_ticks_since_idle := k_ticks_since_idle k; k_unmodded_keys := k_unmodded_keys k; k_unmodded_mods := k_unmodded_mods k; k_unshifted_keys := k_unshifted_keys k; k_last_pressed_key := k_last_pressed_key k; k_macro_cancel_dur := k_macro_cancel_dur k |}.
Definition set_k_vkeys_pending v k := {| k_layout := k_layout k; k_prev_keys := k_prev_keys k; k_scroll := k_scroll k; k_hscroll := k_hscroll k; k_mmv := k_mmv k; k_mmh := k_mmh k; k_mm_buffer := k_mm_buffer k; k_seq := k_seq k; k_dyn_macros := k_dyn_macros k; k_replay := k_replay k; k_record := k_record k; k_live_reload_requested := k_live_reload_requested k; k_caps_word := k_caps_word k; k_waiting_for_idle := k_waiting_for_idle k; k_vkeys_pending := v; k_ticks_since_idle := k_ticks_since_idle k; k_unmodded_keys := k_unmodded_keys k; k_unmodded_mods := k_unmodded_mods k; k_unshifted_keys := k_unshifted_keys k; k_last_pressed_key := k_last_pressed_key k; k_macro_cancel_dur := k_macro_cancel_dur k |}.
Definition set_k_ticks_since_idle v k := {| k_layout := k_layout k; k_prev_keys := k_prev_keys k; k_scroll := k_scroll k; k_hscroll := k_hscroll k; k_mmv := k_mmv k; k_mmh := k_mmh k; k_mm_buffer := k_mm_buffer k; k_seq := k_seq k; k_dyn_macros := k_dyn_macros k; k_replay := k_replay k; k_record := k_record k; k_live_reload_requested := k_live_reload_requested k; k_caps_word := k_caps_word k; k_waiting_for_idle := k_waiting_for_idle k; k_vkeys_pending := k_vkeys_pending k; k_ticks_since_idle := v; k_unmodded_keys := k_unmodded_keys k; k_unmodded_mods := k_unmodded_mods k; k_unshifted_keys := k_unshifted_keys k; k_last_pressed_key := k_last_pressed_key k; k_macro_cancel_dur := k_macro_cancel_dur k |}.
Definition set_k_unmod v1 v2 k := {| k_layout := k_layout k; k_prev_keys := k_prev_keys k; k_scroll := k_scroll k; k_hscroll := k_hscroll k; k_mmv := k_mmv k; k_mmh := k_mmh k; k_mm_buffer := k_mm_buffer k; k_seq := k_seq k; k_dyn_macros := k_dyn_macros k; k_replay := k_replay k; k_record := k_record k; k_live_reload_requested := k_live_reload_requested k; k_caps_word := k_caps_word k; k_waiting_for_idle := k_waiting_for_idle k; k_vkeys_pending := k_vkeys_pending k; k_ticks_since_idle := k_ticks_since_idle k; k_unmodded_keys := v1; k_unmodded_mods := v2; k_unshifted_keys := k_unshifted_keys k; k_last_pressed_key := k_last_pressed_key k; k_macro_cancel_dur := k_macro_cancel_dur k |}.
Definition set_k_unshifted_keys v k := {| k_layout := k_layout k; k_prev_keys := k_prev_keys k; k_scroll := k_scroll k; k_hscroll := k_hscroll k; k_mmv := k_mmv k; k_mmh := k_mmh k; k_mm_buffer := k_mm_buffer k; k_seq := k_seq k; k_dyn_macros := k_dyn_macros k; k_replay := k_replay k; k_record := k_record k; k_live_reload_requested := k_live_reload_requested k; k_caps_word := k_caps_word k; k_waiting_for_idle := k_waiting_for_idle k; k_vkeys_pending := k_vkeys_pending k; k_ticks_since_idle := k_ticks_since_idle k; k_unmodded_keys := k_unmodded_keys k; k_unmodded_mods := k_unmodded_mods k; k_unshifted_keys := v; k_last_pressed_key := k_last_pressed_key k; k_macro_cancel_dur := k_macro_cancel_dur k |}.
Definition set_k_last_pressed_key v k := {| k_layout := k_layout k; k_prev_keys := k_prev_keys k; k_scroll := k_scroll k; k_hscroll := k_hscroll k; k_mmv := k_mmv k; k_mmh := k_mmh k; k_mm_buffer := k_mm_buffer k; k_seq := k_seq k; k_dyn_macros := k_dyn_macros k; k_replay := k_replay k; k_record := k_record k; k_live_reload_requested := k_live_reload_requested k; k_caps_word := k_caps_word k; k_waiting_for_idle := k_waiting_for_idle k; k_vkeys_pending := k_vkeys_pending k; k_ticks_since_idle := k_ticks_since_idle k; k_unmodded_keys := k_unmodded_keys k; k_unmodded_mods := k_unmodded_mods k; k_unshifted_keys := k_unshifted_keys k; k_last_pressed_key := v; k_macro_cancel_dur := k_macro_cancel_dur k |}.
Definition set_k_macro_cancel_dur v k := {| k_layout := k_layout k; k_prev_keys := k_prev_keys k; k_scroll := k_scroll k; k_hscroll := k_hscroll k; k_mmv := k_mmv k; k_mmh := k_mmh k; k_mm_buffer := k_mm_buffer k; k_seq := k_seq k; k_dyn_macros := k_dyn_macros k; k_replay := k_replay k; k_record := k_record k; k_live_reload_requested := k_live_reload_requested k; k_caps_word := k_caps_word k; k_waiting_for_idle := k_waiting_for_idle k; k_vkeys_pending := k_vkeys_pending k; k_ticks_since_idle := k_ticks_since_idle k; k_unmodded_keys := k_unmodded_keys k; k_unmodded_mods := k_unmodded_mods k; k_unshifted_keys := k_unshifted_keys k; k_last_pressed_key := k_last_pressed_key k; k_macro_cancel_dur := v |}.

Definition k_init (lay : layout) : kstate :=
  {| k_layout := lay; k_prev_keys := []; k_scroll := None; k_hscroll := None; k_mmv := None; k_mmh := None;
     k_mm_buffer := None; k_seq := sq_init; k_dyn_macros := []; k_replay := None; k_record := None;
     k_live_reload_requested := false; k_caps_word := None; k_waiting_for_idle := []; k_vkeys_pending := [];
     k_ticks_since_idle := 0; k_unmodded_keys := []; k_unmodded_mods := 0; k_unshifted_keys := [];
     k_last_pressed_key := 240 (* KeyCode::No *); k_macro_cancel_dur := 0 |}.

(* ------------------------------------------------------------------ output filters (output_logic.rs) *)
Definition btn_of_code (k : N) : option N :=
  if k =? 272 then Some 0 else if k =? 273 then Some 1 else if k =? 274 then Some 2
  else if k =? 276 then Some 3 (* BTN_EXTRA -> Forward *) else if k =? 275 then Some 4 (* BTN_SIDE -> Backward *) else None.
Definition wheel_of_code (k : N) : option N :=
  if k =? 745 then Some 0 else if k =? 746 then Some 1 else if k =? 747 then Some 2 else if k =? 748 then Some 3 else None.

Definition in_ignore (cfg : kcfg) (k : N) : bool := (kc_ignore_min cfg <=? k) && (k <=? kc_ignore_max cfg).

Definition press_key (cfg : kcfg) (k : N) : list os_ev :=
  if in_ignore cfg k then [] else
  match btn_of_code k with
  | Some b => [BDown b]
  | None => match wheel_of_code k with Some d => [Scroll d 120] | None => [KDown k] end
  end.
Definition release_key (cfg : kcfg) (k : N) : list os_ev :=
  if in_ignore cfg k then [] else
  match btn_of_code k with
  | Some b => [BUp b]
  | None => match wheel_of_code k with Some _ => [] | None => [KUp k] end
  end.
Definition write_repeat (cfg : kcfg) (k : N) : list os_ev := if in_ignore cfg k then [] else [KRepeat k].

Definition seq_out_events (cfg : kcfg) (o : list seq_out) : list os_ev :=
  flat_map (fun e => match e with
                     | SOPress k => press_key cfg k | SORelease k => release_key cfg k
                     | SORawPress k => [KDown k] | SORawRelease k => [KUp k] end) o.

(* ------------------------------------------------------------------ small helpers *)
Definition lay_event (cfg : kcfg) (l : layout) (press : bool) (c : coord) : outcome layout :=
  layout_event2 (kc_layout cfg) l press c.

Definition states_has_coord (l : layout) (c : coord) : bool :=
  existsb (fun s => match st_coord s with Some c' => coord_eqb c' c | None => false end) (states l).

(* handle_fakekey_action *)
Definition fakekey_action (cfg : kcfg) (l : layout) (op : N) (c : coord) : outcome layout :=
  if op =? 0 then lay_event cfg l true c
  else if op =? 1 then lay_event cfg l false c
  else if op =? 2 then (l1 <- lay_event cfg l true c ;; lay_event cfg l1 false c)
  else if states_has_coord l c then lay_event cfg l false c else lay_event cfg l true c.

Definition cancel_macros_l (l : layout) : layout :=
  set_states (filter (fun s => match s with FakeKey _ | RepeatingSequence _ _ => false | _ => true end) (states l))
             (set_active_sequences [] l).

Definition custom_list (cfg : kcfg) (id : N) : list custom_action :=
  match nth_error (kc_customs cfg) (N.to_nat id) with Some l => l | None => [] end.

(* CapsWordState::maybe_add_lsft: (new state or End, keys) *)
Definition caps_word_step (cw : capsword_state) (keys : list N) : option capsword_state * list N :=
  if cw_ticks cw =? 0 then (None, keys)
  else if negb (forallb (fun k => mem_n k (cw_caps cw) || mem_n k (cw_nonterm cw)) keys) then (None, keys)
  else
    let keys' := match rev keys with
                 | lastk :: _ => if mem_n lastk (cw_caps cw) then 42 :: keys else keys
                 | [] => keys end in
    let t := match keys' with [] => cw_ticks cw | _ => cw_timeout cw end in
    (Some {| cw_caps := cw_caps cw; cw_nonterm := cw_nonterm cw; cw_timeout := cw_timeout cw; cw_ticks := sat_sub t 1 |}, keys').

Definition unmod_kc_of_bit (b : N) : N :=
  if b =? 1 then 42 else if b =? 2 then 54 else if b =? 4 then 56 else if b =? 8 then 100
  else if b =? 16 then 29 else if b =? 32 then 97 else if b =? 64 then 125 else 126.
Definition unmod_mod_keys (mods : N) : list N :=
  filter_map (fun b => if N.land mods b =? 0 then None else Some (unmod_kc_of_bit b)) [1; 2; 4; 8; 16; 32; 64; 128].

Fixpoint remove_first (x : N) (l : list N) : list N :=
  match l with [] => [] | y :: t => if y =? x then t else y :: remove_first x t end.

(* HashMap entry on vkeys_pending_release *)
Fixpoint vk_find (c : coord) (l : list (coord * N)) : bool :=
  match l with [] => false | (c', _) :: t => coord_eqb c c' || vk_find c t end.

(* ------------------------------------------------------------------ key repeat (key_repeat.rs) *)
Definition outputs_for (cfg : kcfg) (layer code : N) : option (list N) :=
  match nth_error (kc_key_outputs cfg) (N.to_nat layer) with
  | Some m => match find (fun p => fst p =? code) m with Some p => Some (snd p) | None => None end
  | None => None
  end.

Definition first_repeatable (k : kstate) (cur : list N) (outs : list N) : option N :=
  find (fun kc => mem_n kc cur) (rev outs).

Fixpoint repeat_layers (cfg : kcfg) (k : kstate) (cur : list N) (code : N) (ls : list N) : outcome (option N) :=
  match ls with
  | [] => Ok None
  | ly :: rest =>
    match nth_error (kc_key_outputs cfg) (N.to_nat ly) with
    | None => Panic "index out of bounds: key_outputs[layer]"
    | Some _ =>
      match outputs_for cfg ly code with
      | Some outs => match first_repeatable k cur outs with Some kc => Ok (Some kc) | None => repeat_layers cfg k cur code rest end
      | None => repeat_layers cfg k cur code rest
      end
    end
  end.

Definition handle_repeat (cfg : kcfg) (k : kstate) (code : N) : outcome (list os_ev) :=
  if sq_active (k_seq k) && negb (sq_mode (k_seq k) =? 2) then Ok [] else
  let base := keycodes (k_layout k) in
  let base := match k_unmodded_keys k with
              | [] => base
              | _ => filter (fun x => negb (mem_n x (unmod_mod_keys (k_unmodded_mods k)))) base ++ k_unmodded_keys k end in
  let base := match k_unshifted_keys k with
              | [] => base
              | _ => filter (fun x => negb ((x =? 42) || (x =? 54))) base ++ k_unshifted_keys k end in
  let cur := fst (override_keys (kc_overrides cfg) base) in
  ls <- trans_order (kc_layout cfg) (k_layout k) ;;
  r <- repeat_layers cfg k cur code ls ;;
  match r with
  | Some kc => Ok (write_repeat cfg kc)
  | None =>
    match nth_error (kc_key_outputs cfg) (N.to_nat (default_layer (k_layout k))) with
    | None => Panic "index out of bounds: key_outputs[default_layer]"
    | Some _ =>
      match (match outputs_for cfg (default_layer (k_layout k)) code with
             | Some outs => first_repeatable k cur outs | None => None end) with
      | Some kc => Ok (write_repeat cfg kc)
      | None =>
        if mem_n code cur then Ok (write_repeat cfg code) else Ok []
      end
    end
  end.

(* ------------------------------------------------------------------ handle_input_event *)
Inductive in_ev := IPress (code : N) | IRelease (code : N) | IRepeat (code : N) | ITap (code : N).

Definition k_input (cfg : kcfg) (k : kstate) (e : in_ev) : outcome (kstate * list os_ev) :=
  let k := set_k_ticks_since_idle 0 k in
  match e with
  | IPress code =>
    let '(rec', saved) := record_press (k_record k) code (kc_dyn_max_presses cfg) in
    let k := set_k_record rec' k in
    let k := match saved with Some (id, m) => set_k_dyn_macros (dm_insert id m (k_dyn_macros k)) k | None => k end in
    let k := if 0 <? k_macro_cancel_dur k
             then set_k_layout (cancel_macros_l (k_layout k)) (set_k_macro_cancel_dur 0 k) else k in
    l <- lay_event cfg (k_layout k) true (0, code) ;;
    Ok (set_k_layout l k, [])
  | IRelease code =>
    let k := set_k_record (record_release (k_record k) code) k in
    l <- lay_event cfg (k_layout k) false (0, code) ;;
    Ok (set_k_layout l k, [])
  | IRepeat code =>
    evs <- handle_repeat cfg k code ;;
    Ok (k, evs)
  | ITap code =>
    l <- lay_event cfg (k_layout k) true (0, code) ;;
    l <- lay_event cfg l false (0, code) ;;
    Ok (set_k_layout l k, [])
  end.

(* ------------------------------------------------------------------ handle_keystate_changes *)
(* successful sequence termination on the layout *)
Definition seq_terminate (cfg : kcfg) (k : kstate) (v : coord) (sequence : list N) (l : layout)
  : outcome (kstate * layout * list os_ev) :=
  let s := set_sq_active false (k_seq k) in
  let '(l, out, s) :=
    if sq_mode s =? 2 then
      let rel := filter_map (fun st => match st with
                                       | NormalKey kc _ _ => if is_seq_mod_release_key kc then Some kc else None
                                       | _ => None end) (states l) in
      let l := set_states (filter (fun st => match st with
                                             | NormalKey kc _ _ => negb (is_seq_mod_release_key kc)
                                             | _ => true end) (states l)) l in
      let '(bs, ne) := seq_backspaces (kc_ignore_min cfg) (kc_ignore_max cfg) sequence (sq_noerase s) in
      (l, flat_map (release_key cfg) rel ++ seq_out_events cfg bs, set_sq_noerase ne s)
    else (l, [], s) in
  let kcs := filter_map (fun x => if x =? KEY_OVERLAP_MARKER then None else Some (N.land x MASK_KEYCODES)) sequence in
  let l := set_states (filter (fun st => match st with NormalKey kc _ _ => negb (mem_n kc kcs) | _ => true end) (states l)) l in
  l <- lay_event cfg l true v ;;
  l <- lay_event cfg l false v ;;
  Ok (set_k_seq s k, l, out).

(* the press loop: keys in cur missing from prev *)
Fixpoint press_loop (cfg : kcfg) (k : kstate) (l : layout) (cur : list N) (todo : list N) (out : list os_ev)
  : outcome (kstate * layout * list os_ev) :=
  match todo with
  | [] => Ok (k, l, out)
  | kc :: rest =>
    if mem_n kc (k_prev_keys k) then press_loop cfg k l cur rest out else
    let k := set_k_last_pressed_key kc (set_k_prev_keys (k_prev_keys k ++ [kc]) k) in
    let k := if kc_seq_always_on cfg && negb (sq_active (k_seq k))
             then set_k_seq (sq_activate (kc_seq_input_mode cfg) (kc_seq_timeout cfg)) k else k in
    if sq_active (k_seq k) then
      '(s, so, term) <- seq_press_logic (kc_sequences cfg) (kc_seq_backtrack_modcancel cfg) (k_seq k) kc (mod_mask_for_keys cur) ;;
      let k := set_k_seq s k in
      let out := out ++ seq_out_events cfg so in
      match term with
      | Some (v, sequence) =>
        '(k, l, o2) <- seq_terminate cfg k v sequence l ;;
        press_loop cfg k l cur rest (out ++ o2)
      | None => press_loop cfg k l cur rest out
      end
    else press_loop cfg k l cur rest (out ++ press_key cfg kc)
  end.

Definition set_mm (vertical : bool) (v : option mmove_state) (k : kstate) : kstate :=
  if vertical then set_k_mmv v k else set_k_mmh v k.

(* custom actions on press *)
Fixpoint custom_press (cfg : kcfg) (k : kstate) (l : layout) (cur : list N) (acs : list custom_action)
         (prev_btn : option N) (out : list os_ev) : outcome (kstate * layout * list N * list os_ev) :=
  match acs with
  | [] => Ok (k, l, cur, out)
  | a :: rest =>
    let continue k l cur pb out := custom_press cfg k l cur rest pb out in
    match a with
    | CaUnicode c => continue k l cur prev_btn (out ++ [Unicode c])
    | CaLiveReload => continue (set_k_live_reload_requested true k) l cur prev_btn out
    | CaMouse b =>
      continue k l cur (Some b) (out ++ (match prev_btn with Some pb => [BUp pb] | None => [] end) ++ [BDown b])
    | CaMouseTap b => continue k l cur prev_btn (out ++ [BDown b; BUp b])
    | CaMWheel dir interval distance =>
      let st := Some {| sc_dir := dir; sc_interval := interval; sc_distance := distance; sc_ticks_until := 0 |} in
      continue (if dir <? 2 then set_k_scroll st k else set_k_hscroll st k) l cur prev_btn out
    | CaMWheelNotch dir => continue k l cur prev_btn (out ++ [Scroll dir 120])
    | CaMoveMouse dir interval | CaMoveMouseAccel dir interval =>
      continue (set_mm (dir <? 2) (Some {| mm_dir := dir; mm_interval := interval; mm_ticks_until := 0 |}) k) l cur prev_btn out
    | CaMoveMouseSpeed _ => continue k l cur prev_btn out
    | CaFakeKey x y op =>
      l' <- fakekey_action cfg l op (x, y) ;; continue k l' cur prev_btn out
    | CaSequenceCancel =>
      if sq_active (k_seq k) then
        let '(s, so) := cancel_sequence (k_seq k) in continue (set_k_seq s k) l cur prev_btn (out ++ seq_out_events cfg so)
      else continue k l cur prev_btn out
    | CaSequenceLeader timeout mode =>
      if negb (sq_active (k_seq k)) || (mode =? 0)
      then continue (set_k_seq (sq_activate mode timeout) k) l cur prev_btn out
      else continue k l cur prev_btn out
    | CaSequenceNoerase n =>
      if sq_active (k_seq k) then
        let n' := sat_add16 (sq_noerase (k_seq k)) n in
        continue (set_k_seq (set_sq_noerase n' (k_seq k)) k) l cur prev_btn out
      else continue k l cur prev_btn out
    | CaRepeat =>
      let kc := k_last_pressed_key k in
      let '(k, cur, pre, post) :=
        if negb (mem_n 42 cur) then
          match k_caps_word k with
          | Some cw =>
            let cur1 := cur ++ [kc] in
            let '(cw', cur2) := caps_word_step cw cur1 in
            (* maybe_add_lsft mutates the state in place; End does not clear caps_word here *)
            let k := match cw' with Some c => set_k_caps_word (Some c) k | None => k end in
            if Nat.ltb (length cur1) (length cur2) then (k, cur2, press_key cfg 42, [KUp 42]) else (k, cur2, [], [])
          | None => (k, cur, [], [])
          end
        else (k, cur, [], []) in
      continue k l cur prev_btn (out ++ pre ++ release_key cfg kc ++ press_key cfg kc ++ release_key cfg kc ++ post)
    | CaDynRecord id =>
      '(r, saved) <- begin_record id (k_record k) ;;
      let k := set_k_record r k in
      continue (match saved with Some (i, m) => set_k_dyn_macros (dm_insert i m (k_dyn_macros k)) k | None => k end) l cur prev_btn out
    | CaDynRecordStop n =>
      '(r, saved) <- stop_macro (k_record k) n ;;
      let k := set_k_record r k in
      continue (match saved with Some (i, m) => set_k_dyn_macros (dm_insert i m (k_dyn_macros k)) k | None => k end) l cur prev_btn out
    | CaDynPlay id => continue (set_k_replay (play_macro id (k_replay k) (k_dyn_macros k)) k) l cur prev_btn out
    | CaCancelMacroOnNextPress dur => continue (set_k_macro_cancel_dur dur k) l cur prev_btn out
    | CaSendArbitraryCode code => continue k l cur prev_btn (out ++ [Code code true])
    | CaCapsWord caps nonterm timeout toggle =>
      let fresh := Some {| cw_caps := caps; cw_nonterm := nonterm; cw_timeout := timeout; cw_ticks := timeout |} in
      continue (set_k_caps_word (if toggle then (match k_caps_word k with Some _ => None | None => fresh end) else fresh) k)
               l cur prev_btn out
    | CaFakeKeyOnIdle x y op idle =>
      let k := set_k_ticks_since_idle 0 k in
      let e := (x, y, op, idle) in
      let present := existsb (fun p => match p, e with (a, b, c, d), (a', b', c', d') => (a =? a') && (b =? b') && (c =? c') && (d =? d') end)
                             (k_waiting_for_idle k) in
      continue (if present then k else set_k_waiting_for_idle (k_waiting_for_idle k ++ [e]) k) l cur prev_btn out
    | CaFakeKeyHoldFor x y dur =>
      if vk_find (x, y) (k_vkeys_pending k) then
        continue (set_k_vkeys_pending (map (fun p => if coord_eqb (fst p) (x, y) then (fst p, dur) else p) (k_vkeys_pending k)) k)
                 l cur prev_btn out
      else
        l' <- lay_event cfg l true (x, y) ;;
        continue (set_k_vkeys_pending (k_vkeys_pending k ++ [((x, y), dur)]) k) l' cur prev_btn out
    | CaFakeKeyOnRelease _ _ _ | CaUnmodded _ _ | CaUnshifted _ | CaReverseReleaseOrder
    | CaCancelMacroOnRelease | CaOpaque => continue k l cur prev_btn out
    end
  end.

(* custom actions on release: the fold returning the last mouse button to unclick *)
Fixpoint custom_release (cfg : kcfg) (k : kstate) (l : layout) (acs : list custom_action) (pbtn : option N)
         (out : list os_ev) : outcome (kstate * layout * option N * list os_ev) :=
  match acs with
  | [] => Ok (k, l, pbtn, out)
  | a :: rest =>
    match a with
    | CaMouse b => custom_release cfg k l rest (Some b) out
    | CaMWheel dir _ _ =>
      let k := if dir <? 2
               then (match k_scroll k with Some s => if sc_dir s =? dir then set_k_scroll None k else k | None => k end)
               else (match k_hscroll k with Some s => if sc_dir s =? dir then set_k_hscroll None k else k | None => k end) in
      custom_release cfg k l rest pbtn out
    | CaMoveMouse dir _ | CaMoveMouseAccel dir _ =>
      let k := if dir <? 2
               then (match k_mmv k with Some s => if mm_dir s =? dir then set_k_mmv None k else k | None => k end)
               else (match k_mmh k with Some s => if mm_dir s =? dir then set_k_mmh None k else k | None => k end) in
      let k := if kc_mm_smooth_diagonals cfg then set_k_mm_buffer None k else k in
      custom_release cfg k l rest pbtn out
    | CaFakeKeyOnRelease x y op =>
      l' <- fakekey_action cfg l op (x, y) ;; custom_release cfg k l' rest pbtn out
    | CaCancelMacroOnRelease =>
      custom_release cfg (set_k_macro_cancel_dur 0 k) (cancel_macros_l l) rest pbtn out
    | CaSendArbitraryCode code => custom_release cfg k l rest pbtn (out ++ [Code code false])
    | _ => custom_release cfg k l rest pbtn out
    end
  end.

Definition handle_keystate_changes (cfg : kcfg) (k : kstate) : outcome (kstate * list N * list os_ev) :=
  '(l, ce) <- layout_tick2 (kc_layout cfg) (k_layout k) ;;
  let cur := keycodes l in
  (* unmodded / unshifted come first *)
  let '(k, reverse_release) :=
    match ce with
    | CPress id =>
      (fold_left (fun k a => match a with
                             | CaUnmodded keys mods => set_k_unmod (k_unmodded_keys k ++ keys) mods k
                             | CaUnshifted keys => set_k_unshifted_keys (k_unshifted_keys k ++ keys) k
                             | _ => k end) (custom_list cfg id) k, false)
    | CRelease id =>
      fold_left (fun (acc : kstate * bool) a =>
                   let '(k, rr) := acc in
                   match a with
                   | CaUnmodded keys _ => (set_k_unmod (filter (fun x => negb (mem_n x keys)) (k_unmodded_keys k)) (k_unmodded_mods k) k, rr)
                   | CaUnshifted keys => (set_k_unshifted_keys (filter (fun x => negb (mem_n x keys)) (k_unshifted_keys k)) k, rr)
                   | CaReverseReleaseOrder => (k, true)
                   | _ => acc end) (custom_list cfg id) (k, false)
    | CNone => (k, false)
    end in
  let cur := match k_unmodded_keys k with
             | [] => cur
             | _ => filter (fun x => negb (mem_n x (unmod_mod_keys (k_unmodded_mods k)))) cur ++ k_unmodded_keys k
             end in
  let cur := match k_unshifted_keys k with
             | [] => cur
             | _ => filter (fun x => negb ((x =? 42) || (x =? 54))) cur ++ k_unshifted_keys k
             end in
  let '(cur, removed) := override_keys (kc_overrides cfg) cur in
  let l := set_states (mark_overridden removed (states l)) l in
  let l := if kc_override_release_on_activation cfg then
             set_states (filter (fun s => match s with
                                          | NormalKey kc _ _ | FakeKey kc => negb (mem_n kc (filter (fun x => negb (is_modifier x)) removed))
                                          | _ => true end) (states l)) l
           else l in
  let '(k, cur) := match k_caps_word k with
                   | Some cw => let '(cw', cur') := caps_word_step cw cur in (set_k_caps_word cw' k, cur')
                   | None => (k, cur) end in
  (* releases: previous keys not in the current list *)
  let rel := filter (fun x => negb (mem_n x cur)) (if reverse_release then rev (k_prev_keys k) else k_prev_keys k) in
  let out := flat_map (release_key cfg) rel in
  (* overlap termination of a sequence when everything has been released *)
  '(k, l, out) <-
    (match cur, k_prev_keys k with
     | [], _ :: _ =>
       if sq_active (k_seq k) then
         let s := set_sq_overlap (sq_overlap (k_seq k) ++ [KEY_OVERLAP_MARKER]) (k_seq k) in
         match get_or_descendant_exists (kc_sequences cfg) (sq_overlap s) with
         | HasValue v => '(k', l', o) <- seq_terminate cfg (set_k_seq s k) v (sq_overlap s) l ;; Ok (k', l', out ++ o)
         | NotInTrie => Ok (set_k_seq (set_sq_overlap (sq_seq s) s) k, l, out)
         | InTrie => Ok (set_k_seq s k, l, out)
         end
       else Ok (k, l, out)
     | _, _ => Ok (k, l, out)
     end) ;;
  '(k, l, out) <- press_loop cfg k l cur cur out ;;
  '(k, l, cur, out) <-
    (match ce with
     | CPress id => custom_press cfg k l cur (custom_list cfg id) None out
     | CRelease id =>
       '(k, l, pbtn, out) <- custom_release cfg k l (custom_list cfg id) None out ;;
       Ok (k, l, cur, out ++ match pbtn with Some b => [BUp b] | None => [] end)
     | CNone => Ok (k, l, cur, out)
     end) ;;
  Ok (set_k_layout l k, cur, out).

(* ------------------------------------------------------------------ tick_states *)
Definition scroll_tick (s : option scroll_state) : outcome (option scroll_state * list os_ev) :=
  match s with
  | None => Ok (None, [])
  | Some st =>
    if sc_ticks_until st =? 0 then
      t <- sub_chk (sc_interval st) 1 ;;
      Ok (Some {| sc_dir := sc_dir st; sc_interval := sc_interval st; sc_distance := sc_distance st; sc_ticks_until := t |},
          [Scroll (sc_dir st) (sc_distance st)])
    else Ok (Some {| sc_dir := sc_dir st; sc_interval := sc_interval st; sc_distance := sc_distance st;
                     sc_ticks_until := sc_ticks_until st - 1 |}, [])
  end.

Definition mm_tick (cfg : kcfg) (vertical : bool) (s : option mmove_state) (buf : option (bool * N))
  : outcome (option mmove_state * option (bool * N) * list os_ev) :=
  match s with
  | None => Ok (None, buf, [])
  | Some st =>
    if mm_ticks_until st =? 0 then
      t <- sub_chk (mm_interval st) 1 ;;
      let st' := Some {| mm_dir := mm_dir st; mm_interval := mm_interval st; mm_ticks_until := t |} in
      if kc_mm_smooth_diagonals cfg then
        match buf with
        | Some (axis, pdir) =>
          if Bool.eqb axis vertical then Ok (st', Some (vertical, mm_dir st), [MMove pdir])
          else Ok (st', None, [MMove pdir; MMove (mm_dir st)])
        | None => Ok (st', Some (vertical, mm_dir st), [])
        end
      else Ok (st', buf, [MMove (mm_dir st)])
    else Ok (Some {| mm_dir := mm_dir st; mm_interval := mm_interval st; mm_ticks_until := mm_ticks_until st - 1 |}, buf, [])
  end.

(* tick_idle_timeout: fire the on-idle vkeys whose idle time has been reached *)
Fixpoint idle_fire (cfg : kcfg) (l : layout) (tsi : N) (ws : list (N * N * N * N)) : outcome (layout * list (N * N * N * N)) :=
  match ws with
  | [] => Ok (l, [])
  | (x, y, op, idle) :: rest =>
    if idle <=? tsi then
      l' <- fakekey_action cfg l op (x, y) ;; idle_fire cfg l' tsi rest
    else ('(l', r) <- idle_fire cfg l tsi rest ;; Ok (l', (x, y, op, idle) :: r))
  end.

(* tick_held_vkeys *)
Fixpoint held_vkeys_tick (cfg : kcfg) (l : layout) (vs : list (coord * N)) : outcome (layout * list (coord * N)) :=
  match vs with
  | [] => Ok (l, [])
  | (c, d) :: rest =>
    let d' := sat_sub d 1 in
    if d' =? 0 then (l' <- lay_event cfg l false c ;; held_vkeys_tick cfg l' rest)
    else ('(l', r) <- held_vkeys_tick cfg l rest ;; Ok (l', (c, d') :: r))
  end.

Definition tick_states (cfg : kcfg) (k : kstate) : outcome (kstate * list os_ev) :=
  '(k, cur, out) <- handle_keystate_changes cfg k ;;
  '(s1, o1) <- scroll_tick (k_scroll k) ;;
  '(s2, o2) <- scroll_tick (k_hscroll k) ;;
  let k := set_k_hscroll s2 (set_k_scroll s1 k) in
  '(mv, buf, o3) <- mm_tick cfg true (k_mmv k) (k_mm_buffer k) ;;
  '(mh, buf, o4) <- mm_tick cfg false (k_mmh k) buf ;;
  let k := set_k_mm_buffer buf (set_k_mmh mh (set_k_mmv mv k)) in
  (* tick_sequence_state *)
  '(k, o5) <-
    (if sq_active (k_seq k) then
       t <- sub_chk (sq_ticks (k_seq k)) 1 ;;
       let s := set_sq_ticks t (k_seq k) in
       if t =? 0 then let '(s', so) := cancel_sequence s in Ok (set_k_seq s' k, seq_out_events cfg so)
       else Ok (set_k_seq s k, [])
     else Ok (k, [])) ;;
  (* tick_idle_timeout *)
  '(l, ws) <- idle_fire cfg (k_layout k) (k_ticks_since_idle k) (k_waiting_for_idle k) ;;
  let k := set_k_waiting_for_idle ws (set_k_layout l k) in
  let k := set_k_macro_cancel_dur (sat_sub (k_macro_cancel_dur k) 1) k in
  let k := set_k_record (tick_record (k_record k)) k in
  let k := set_k_prev_keys cur k in      (* prev_keys.clear(); prev_keys.append(&mut cur_keys) *)
  '(l, vs) <- held_vkeys_tick cfg (k_layout k) (k_vkeys_pending k) ;;
  Ok (set_k_vkeys_pending vs (set_k_layout l k), out ++ o1 ++ o2 ++ o3 ++ o4 ++ o5).

(* ------------------------------------------------------------------ tick_ms(1) *)
Fixpoint extra_ticks (cfg : kcfg) (n : nat) (k : kstate) (out : list os_ev) : outcome (kstate * list os_ev) :=
  match n with
  | O => Ok (k, out)
  | S m =>
    '(k, o) <- tick_states cfg k ;;
    let '(rp, ev) := tick_replay (k_replay k) (kc_dyn_replay_recorded cfg) in
    let k := set_k_replay rp k in
    match ev with
    | Some _ => Ok (k, out ++ o)            (* "overshot to next event": logged, loop broken, event dropped *)
    | None => extra_ticks cfg m k (out ++ o)
    end
  end.

Definition k_tick (cfg : kcfg) (k : kstate) : outcome (kstate * list os_ev) :=
  '(k, out) <- tick_states cfg k ;;
  let '(rp, ev) := tick_replay (k_replay k) (kc_dyn_replay_recorded cfg) in
  let k := set_k_replay rp k in
  match ev with
  | Some (press, key, delay) =>
    l <- lay_event cfg (k_layout k) press (0, key) ;;
    extra_ticks cfg (N.to_nat (sat_sub delay 1)) (set_k_layout l k) out
  | None => Ok (k, out)
  end.

(* tick_ms(n) for a loop iteration that covers n milliseconds: n rounds of tick_states + replay (the delays of the replayed events
   add up), then the catch-up rounds beyond n; k_tick is the case n = 1 (Proofs/C19Proofs: k_tick_ms_one) *)
Fixpoint tick_ms_loop (cfg : kcfg) (n : nat) (k : kstate) (out : list os_ev) (extra : N) : outcome (kstate * list os_ev * N) :=
  match n with
  | O => Ok (k, out, extra)
  | S m =>
    '(k, o) <- tick_states cfg k ;;
    let '(rp, ev) := tick_replay (k_replay k) (kc_dyn_replay_recorded cfg) in
    let k := set_k_replay rp k in
    match ev with
    | Some (press, key, delay) =>
      l <- lay_event cfg (k_layout k) press (0, key) ;;
      tick_ms_loop cfg m (set_k_layout l k) (out ++ o) (sat_add16 extra delay)
    | None => tick_ms_loop cfg m k (out ++ o) extra
    end
  end.
Definition k_tick_ms (cfg : kcfg) (n : N) (k : kstate) : outcome (kstate * list os_ev) :=
  '(k, out, extra) <- tick_ms_loop cfg (N.to_nat n) k [] 0 ;;
  extra_ticks cfg (N.to_nat (sat_sub extra n)) k out.

(* ------------------------------------------------------------------ idle predicates *)
Definition k_is_idle (k : kstate) : bool :=
  let l := k_layout k in
  let pressed_keys_means_not_idle := negb (match k_waiting_for_idle k with [] => true | _ => false end) || k_live_reload_requested k in
  (match queue l with [] => true | _ => false end)
  && (match waiting_ l with None => true | _ => false end)
  && (match extra_waiting l with [] => true | _ => false end)
  && (os_pause_ticks (oneshot l) =? 0)
  && (lpt_timeout l =? 0)
  && (match os_keys (oneshot l) with [] => true | _ => false end)
  && (match active_sequences l with [] => true | _ => false end)
  && (match tap_dance_eager l with None => true | _ => false end)
  && (match action_queue l with [] => true | _ => false end)
  && negb (sq_active (k_seq k))
  && (match k_scroll k with None => true | _ => false end)
  && (match k_hscroll k with None => true | _ => false end)
  && (match k_mmv k with None => true | _ => false end)
  && (k_macro_cancel_dur k =? 0)
  && (match k_mmh k with None => true | _ => false end)
  && (match k_replay k with None => true | _ => false end)
  && (match k_caps_word k with None => true | _ => false end)
  && (match k_vkeys_pending k with [] => true | _ => false end)
  && forallb (fun pk => mem_n pk (keycodes l)) (k_prev_keys k)     (* no key release pending for the next tick *)
  && negb (existsb (fun s => match s with
                             | SeqCustomPending _ | SeqCustomActive _ => true
                             | NormalKey _ _ _ => pressed_keys_means_not_idle
                             | _ => false end) (states l))
  && (match chords2 l with Some ch => chv2_is_idle ch | None => true end).

(* is_idle() with the conjunct that depends on the configuration: an open recording keeps kanata awake when the
   recorded delays are used *)
Definition k_is_idle_cfg (cfg : kcfg) (k : kstate) : bool :=
  k_is_idle k && ((match k_record k with None => true | _ => false end) || negb (kc_dyn_replay_recorded cfg)).

(* can_block_update_idle_waiting(ms_elapsed): (new state, may block) *)
Definition k_can_block (cfg : kcfg) (k : kstate) (ms : N) : kstate * bool :=
  let idle := k_is_idle_cfg cfg k in
  let counting := negb (match k_waiting_for_idle k with [] => true | _ => false end) || k_live_reload_requested k in
  let k := if negb idle then set_k_ticks_since_idle 0 k
           else if counting then set_k_ticks_since_idle (sat_add16 (k_ticks_since_idle k) ms) k else k in
  let passed := match hist_keys (k_layout k) with
                | (_, since) :: _ => kc_switch_max_key_timing cfg <=? since
                | [] => true end in
  let accepts := match chords2 (k_layout k) with Some ch => chv2_accepts ch | None => true end in
  (k, idle && negb counting && passed && accepts).
