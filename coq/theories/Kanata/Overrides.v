(* Model of parser/src/cfg/key_override.rs (global overrides as a pure key-list transformation)
   and of mark_overridden_nonmodkeys_for_eager_erasure.  No proofs. *)
From KV Require Export Keyberon.Layout.

Record override := { ov_in_nm : N; ov_out_nm : N; ov_in_mods : list N; ov_out_mods : list N }.

(* mask_for_key: lctl lsft lalt lmet rctl rsft ralt rmet *)
Definition mask_for_key (k : N) : option N :=
  if k =? 29 then Some 1 else if k =? 42 then Some 2 else if k =? 56 then Some 4 else if k =? 125 then Some 8
  else if k =? 97 then Some 16 else if k =? 54 then Some 32 else if k =? 100 then Some 64 else if k =? 126 then Some 128
  else None.
Definition is_modifier (k : N) : bool := match mask_for_key k with Some _ => true | None => false end.

Definition ov_mod_mask (o : override) : N :=
  fold_left (fun m k => match mask_for_key k with Some b => N.lor m b | None => m end) (ov_in_mods o) 0.

(* the `filter(..).last()` with its size-tracking side effect: the first matching override of maximal size *)
Fixpoint ov_pick (ovds : list override) (mask : N) (cur : nat) (best : option override) : option override :=
  match ovds with
  | [] => best
  | o :: t =>
    let m := ov_mod_mask o in
    if N.land m mask =? m then
      let sz := S (length (ov_in_mods o)) in
      if Nat.leb sz cur then ov_pick t mask cur best else ov_pick t mask sz (Some o)
    else ov_pick t mask cur best
  end.

Definition push_new (x : N) (l : list N) : list N := if mem_n x l then l else l ++ [x].

Definition ov_update_keys (ovs : list override) (active mask : N) (add rem : list N) : list N * list N :=
  let ovds := filter (fun o => ov_in_nm o =? active) ovs in
  match ov_pick ovds mask 0 None with
  | Some o =>
    (push_new (ov_out_nm o) (fold_left (fun a k => push_new k a) (ov_out_mods o) add),
     push_new (ov_in_nm o) (fold_left (fun a k => push_new k a) (ov_in_mods o) rem))
  | None => (add, rem)
  end.

(* OverrideStates::update folded over the key list, in order *)
Fixpoint ov_scan (ovs : list override) (kcs : list N) (mods : N) (add rem : list N) : list N * list N :=
  match kcs with
  | [] => (add, rem)
  | k :: t =>
    match mask_for_key k with
    | Some m => ov_scan ovs t (N.lor mods m) add rem
    | None => let '(a, r) := ov_update_keys ovs k mods add rem in ov_scan ovs t mods a r
    end
  end.

(* Overrides::override_keys: returns the new key list and the removed keys *)
Definition override_keys (ovs : list override) (kcs : list N) : list N * list N :=
  match ovs with
  | [] => (kcs, [])
  | _ =>
    let '(add, rem) := ov_scan ovs kcs 0 [] [] in
    (filter (fun k => negb (mem_n k rem)) kcs ++ add, rem)
  end.

(* mark_overridden_nonmodkeys_for_eager_erasure *)
Definition mark_overridden (rem : list N) (sts : list kstate) : list kstate :=
  let nm := filter (fun k => negb (is_modifier k)) rem in
  map (fun s => match s with
                | NormalKey k c f => if mem_n k nm then NormalKey k c (N.lor f 3) else s
                | _ => s end) sts.
