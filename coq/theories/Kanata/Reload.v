(* Model of live reload (src/kanata/mod.rs: do_live_reload, the deferral at the end of handle_time_ticks, the file
   index selection of lrld / lrld-next / lrld-prev / lrld-num).  The configuration is not part of the model's
   kanata state (it is a parameter of every step), so a reload is: the state is replaced, then steps use the new
   configuration.  [parsed] is the outcome of parsing the file: None = rejected / unreadable, Some pause = accepted
   (pause: the layout option stored in the initial layout).  No proofs. *)
From KV Require Export Kanata.Glue.
Local Open Scope N_scope.

Inductive rl_action := RlSame | RlNext | RlPrev | RlNum (m : N).    (* m: 0-based file number *)

(* cur_cfg_idx after the request (n files, n >= 1) *)
Definition next_index (a : rl_action) (i n : N) : N :=
  match a with
  | RlSame => i
  | RlNext => if i =? n - 1 then 0 else i + 1
  | RlPrev => if i =? 0 then n - 1 else i - 1
  | RlNum m => if m <? n then m else i
  end.

(* the condition at the end of handle_time_ticks *)
Definition reload_due (requested keys_up : bool) (ticks_since_idle : N) : bool :=
  requested && (keys_up || (1000 <? ticks_since_idle)).

(* do_live_reload: parse first; on success every field is that of a fresh instance except the idle counter, and the
   keys still pressed by the old configuration are released *)
Definition do_reload (parsed : option N) (k : kstate) : kstate * list os_ev :=
  match parsed with
  | None => (k, [])
  | Some pause =>
      (set_k_ticks_since_idle (k_ticks_since_idle k) (k_init (init_layout pause)), map KUp (k_prev_keys k))
  end.

Definition keys_up (k : kstate) : bool := match k_prev_keys k with [] => true | _ => false end.

(* the reload part of handle_time_ticks, after the ticks *)
Definition after_tick (parsed : option N) (k : kstate) : kstate * list os_ev :=
  if reload_due (k_live_reload_requested k) (keys_up k) (k_ticks_since_idle k)
  then do_reload parsed (set_k_live_reload_requested false k)
  else (k, []).
