(* Model of src/kanata/sequences.rs (sequence mode) over an abstract prefix map standing for
   parser/src/trie.rs.  No proofs. *)
From KV Require Export Keyberon.Layout.

Definition MASK_KEYCODES : N := 1023.        (* 0x03FF *)
Definition KEY_OVERLAP_MARKER : N := 1024.   (* 0x0400 *)

Definition mod_mask_for_keycode (k : N) : N :=
  if (k =? 42) || (k =? 54) then 32768
  else if (k =? 29) || (k =? 97) then 16384
  else if k =? 56 then 8192
  else if k =? 100 then 4096
  else if (k =? 125) || (k =? 126) then 2048
  else if k =? 251 then KEY_OVERLAP_MARKER
  else 0.
Definition mod_mask_for_keys (ks : list N) : N := fold_left (fun a k => N.lor a (mod_mask_for_keycode k)) ks 0.

(* ---- the trie, abstractly: a list of (key sequence, value) ---- *)
Definition trie := list (list N * coord).
Inductive trie_res := NotInTrie | InTrie | HasValue (v : coord).

Fixpoint list_eqb (a b : list N) : bool :=
  match a, b with
  | [], [] => true
  | x :: s, y :: t => (x =? y) && list_eqb s t
  | _, _ => false
  end.
Fixpoint is_prefix (a b : list N) : bool :=   (* a is a prefix of b (possibly equal) *)
  match a, b with
  | [], _ => true
  | x :: s, y :: t => (x =? y) && is_prefix s t
  | _ :: _, [] => false
  end.

Definition get_or_descendant_exists (t : trie) (k : list N) : trie_res :=
  match find (fun e => list_eqb (fst e) k) t with
  | Some e => HasValue (snd e)
  | None => if existsb (fun e => is_prefix k (fst e)) t then InTrie else NotInTrie
  end.
Definition ancestor_exists (t : trie) (k : list N) : bool := existsb (fun e => is_prefix (fst e) k) t.
Definition descendant_exists (t : trie) (k : list N) : bool := existsb (fun e => is_prefix k (fst e)) t.

Definition res_is_not (r : trie_res) : bool := match r with NotInTrie => true | _ => false end.

(* ---- sequence state ---- *)
Record seq_kstate := {
  sq_raw : list N; sq_seq : list N; sq_overlap : list N; sq_mode : N (* 0 hidden-suppressed 1 hidden-delay-type 2 visible-backspaced *);
  sq_ticks : N; sq_timeout : N; sq_active : bool; sq_noerase : N }.
Definition sq_init : seq_kstate :=
  {| sq_raw := []; sq_seq := []; sq_overlap := []; sq_mode := 0; sq_ticks := 0; sq_timeout := 0; sq_active := false; sq_noerase := 0 |}.
Definition sq_activate (mode timeout : N) : seq_kstate :=
  {| sq_raw := []; sq_seq := []; sq_overlap := []; sq_mode := mode; sq_ticks := timeout; sq_timeout := timeout;
     sq_active := true; sq_noerase := 0 |}.

Definition set_sq_seq v s := {| sq_raw := sq_raw s; sq_seq := v; sq_overlap := sq_overlap s; sq_mode := sq_mode s; sq_ticks := sq_ticks s; sq_timeout := sq_timeout s; sq_active := sq_active s; sq_noerase := sq_noerase s |}.
Definition set_sq_overlap v s := {| sq_raw := sq_raw s; sq_seq := sq_seq s; sq_overlap := v; sq_mode := sq_mode s; sq_ticks := sq_ticks s; sq_timeout := sq_timeout s; sq_active := sq_active s; sq_noerase := sq_noerase s |}.
Definition set_sq_active v s := {| sq_raw := sq_raw s; sq_seq := sq_seq s; sq_overlap := sq_overlap s; sq_mode := sq_mode s; sq_ticks := sq_ticks s; sq_timeout := sq_timeout s; sq_active := v; sq_noerase := sq_noerase s |}.
Definition set_sq_ticks v s := {| sq_raw := sq_raw s; sq_seq := sq_seq s; sq_overlap := sq_overlap s; sq_mode := sq_mode s; sq_ticks := v; sq_timeout := sq_timeout s; sq_active := sq_active s; sq_noerase := sq_noerase s |}.
Definition set_sq_raw v s := {| sq_raw := v; sq_seq := sq_seq s; sq_overlap := sq_overlap s; sq_mode := sq_mode s; sq_ticks := sq_ticks s; sq_timeout := sq_timeout s; sq_active := sq_active s; sq_noerase := sq_noerase s |}.
Definition set_sq_noerase v s := {| sq_raw := sq_raw s; sq_seq := sq_seq s; sq_overlap := sq_overlap s; sq_mode := sq_mode s; sq_ticks := sq_ticks s; sq_timeout := sq_timeout s; sq_active := sq_active s; sq_noerase := v |}.

(* output of the sequence machinery: presses/releases written straight to the OS *)
Inductive seq_out := SOPress (k : N) | SORelease (k : N) | SORawPress (k : N) | SORawRelease (k : N).
(* SOPress/SORelease go through press_key/release_key (ignore range, mouse codes);
   SORaw* are kbd_out.press_key/release_key called directly (the backspaces) *)

Definition cancel_sequence (s : seq_kstate) : seq_kstate * list seq_out :=
  (set_sq_active false s,
   if sq_mode s =? 1 then flat_map (fun k => [SOPress k; SORelease k]) (sq_raw s) else []).

Fixpoint set_nth {A} (n : nat) (v : A) (l : list A) : list A :=
  match n, l with
  | _, [] => []
  | O, _ :: t => v :: t
  | S k, h :: t => h :: set_nth k v t
  end.

(* backtracking loop of the standard sequence: `for i in (0..len).rev()`; returns the sequence, the
   last lookup result and no_valid_seqs *)
Definition bt_step (modcancel : bool) (seq : list N) (idx : nat) : list N :=
  match nth_error seq idx with
  | None => seq
  | Some v =>
    if v =? KEY_OVERLAP_MARKER then remove_nth idx seq
    else if modcancel then set_nth idx (N.land v MASK_KEYCODES) seq
    else set_nth idx (N.land v 64511 (* !0x0400 as u16 *)) seq
  end.
Fixpoint backtrack (t : trie) (modcancel : bool) (seq : list N) (i : nat) : list N * trie_res * bool :=
  match i with
  | O => (seq, NotInTrie, true)
  | S k =>
    let seq' := bt_step modcancel seq k in
    let r := get_or_descendant_exists t seq' in
    if res_is_not r then backtrack t modcancel seq' k else (seq', r, false)
  end.

(* `while res == NotInTrie && !seq.is_empty() { seq.remove(0); res = lookup }` *)
Fixpoint strip_front (t : trie) (fuel : nat) (seq : list N) (r : trie_res) : list N * trie_res :=
  match fuel with
  | O => (seq, r)
  | S f =>
    if res_is_not r then
      match seq with
      | [] => (seq, r)
      | _ :: tl => strip_front t f tl (get_or_descendant_exists t tl)
      end
    else (seq, r)
  end.

Definition last_or0 (l : list N) : N := last l 0.

(* do_sequence_press_logic: returns the state, OS output, and on successful termination the
   virtual key to tap together with the sequence that completed *)
Definition seq_press_logic (t : trie) (modcancel : bool) (s : seq_kstate) (k mod_mask : N)
  : outcome (seq_kstate * list seq_out * option (coord * list N)) :=
  let s := set_sq_raw (sq_raw s ++ [k]) (set_sq_ticks (sq_timeout s) s) in
  let base := if k =? 54 then 42 else if k =? 126 then 125 else if k =? 97 then 29 else k in
  let pushed := N.lor base mod_mask in
  let out := if sq_mode s =? 2 then [SOPress k] else [] in
  let seq := sq_seq s ++ [pushed] in
  let pushed_ov := N.lor (N.land pushed MASK_KEYCODES) KEY_OVERLAP_MARKER in
  let ov := sq_overlap s ++ [pushed_ov] in
  let res0 := get_or_descendant_exists t seq in
  let '(seq, res, inv_std) :=
    if res_is_not res0 then backtrack t modcancel seq (length seq) else (seq, res0, false) in
  let res_ov0 := get_or_descendant_exists t ov in
  '(ov, res_ov, inv_ov) <-
    (if res_is_not res_ov0 then
       match length ov with
       | O => Panic "sequences: overlapped_sequence.len() - 1 on empty vector"
       | S idx =>
         let ov1 := set_nth idx KEY_OVERLAP_MARKER ov ++ [pushed_ov] in
         let r1 := get_or_descendant_exists t ov1 in
         if res_is_not r1 then
           let ov2 := set_nth (S idx) pushed ov1 in
           let r2 := get_or_descendant_exists t ov2 in
           if res_is_not r2 then
             if N.land pushed MASK_KEYCODES =? pushed then Ok (ov2, r2, true)
             else
               let ov3 := set_nth (S idx) (N.land pushed MASK_KEYCODES) ov2 in
               let r3 := get_or_descendant_exists t ov3 in
               Ok (ov3, r3, res_is_not r3)
           else Ok (ov2, r2, false)
         else Ok (ov1, r1, false)
       end
     else Ok (ov, res_ov0, false)) ;;
  let s := set_sq_overlap ov (set_sq_seq seq s) in
  let '(s, res, res_ov, out) :=
    match inv_std, inv_ov with
    | false, false => (s, res, res_ov, out)
    | false, true =>
      let s := set_sq_overlap (sq_seq s) s in
      (s, res, get_or_descendant_exists t (sq_overlap s), out)
    | true, false =>
      let sq := sq_overlap s in
      let sq := if negb (last_or0 sq =? KEY_OVERLAP_MARKER) && (KEY_OVERLAP_MARKER <=? last_or0 (sq_overlap s))
                then sq ++ [KEY_OVERLAP_MARKER] else sq in
      let s := set_sq_seq sq s in
      (s, get_or_descendant_exists t sq, res_ov, out)
    | true, true =>
      let '(sq, r) := strip_front t (S (length (sq_seq s))) (sq_seq s) res in
      let s := set_sq_seq sq s in
      if res_is_not r || (match sq with [] => true | _ => false end) then
        let '(s', o) := cancel_sequence s in (s', r, res_ov, out ++ o)
      else (s, r, res_ov, out)
    end in
  match res_ov with
  | HasValue v => Ok (s, out, Some (v, sq_overlap s))
  | _ =>
    match res with
    | HasValue v =>
      let s := set_sq_overlap (sq_overlap s ++ [KEY_OVERLAP_MARKER]) s in
      match get_or_descendant_exists t (sq_overlap s) with
      | HasValue ov_v => Ok (s, out, Some (ov_v, sq_overlap s))
      | _ => Ok (s, out, Some (v, sq_seq s))
      end
    | _ => Ok (s, out, None)
    end
  end.

Definition is_modifier_seq (c : N) : bool :=
  (c =? 42) || (c =? 54) || (c =? 125) || (c =? 126) || (c =? 29) || (c =? 97) || (c =? 56) || (c =? 100).
(* keys released (state dropped + OS release) before the backspaces in visible-backspaced mode *)
Definition is_seq_mod_release_key (k : N) : bool :=
  (k =? 29) || (k =? 97) || (k =? 56) || (k =? 100) || (k =? 125) || (k =? 126).

(* one backspace per typed non-modifier, non-ignored key, minus the noerase budget *)
Definition seq_backspaces (ignore_lo ignore_hi : N) (sequence : list N) (noerase : N) : list seq_out * N :=
  fold_left (fun (acc : list seq_out * N) k =>
    let '(out, ne) := acc in
    if k =? KEY_OVERLAP_MARKER then acc
    else let c := N.land k MASK_KEYCODES in
      if is_modifier_seq c then acc
      else if (ignore_lo <=? c) && (c <=? ignore_hi) then acc
      else if 0 <? ne then (out, ne - 1)
      else (out ++ [SORawPress 14; SORawRelease 14], ne)) sequence ([], noerase).
