(* Model of src/kanata/output_logic/zippychord.rs (with parser/src/subset.rs lookup): the zippychord output
   filter between kanata's key presses/releases and the OS.  Counters are i16 in the Rust; Z here (no overflow
   modelled).  Events are the OS-level presses and releases written by the filter.  No proofs. *)
From KV Require Export Base.Prelude.
Local Open Scope N_scope.

Inductive zout := ZO (kind : N) (noerase : bool) (osc : N).   (* kind: 0 lower, 1 upper, 2 altgr, 3 shift+altgr *)
Definition zo_osc (o : zout) : N := match o with ZO _ _ c => c end.
Definition zout_eqb (a b : zout) : bool :=
  match a, b with ZO k1 n1 c1, ZO k2 n2 c2 => (k1 =? k2) && Bool.eqb n1 n2 && (c1 =? c2) end.

Inductive zchords := ZChords (entries : list (list N * (list zout * option zchords))).
Definition zentries (c : zchords) := match c with ZChords es => es end.

Inductive zev := ZP (osc : N) | ZR (osc : N).

Record zcfg := { zc_wait : N; zc_deadline : N; zc_ss : N; zc_punct : list zout; zc_chords : zchords }.

Inductive zen := ZEnabled | ZWaitEnable | ZDisabled.
Definition zen_eqb (a b : zen) : bool :=
  match a, b with ZEnabled, ZEnabled | ZWaitEnable, ZWaitEnable | ZDisabled, ZDisabled => true | _, _ => false end.

Record zstate := mkz {
  z_keys : list N;                   (* zchd_input_keys, sorted *)
  z_en : zen;
  z_prio : option zchords;           (* zchd_prioritized_chords *)
  z_prior_count : Z;                 (* zchd_prior_activation_output_count *)
  z_to_delete : Z;                   (* zchd_characters_to_delete_on_next_activation *)
  z_prior : option (list zout);      (* output of zchd_prior_activation *)
  z_since : N;                       (* zchd_ticks_since_state_change *)
  z_until_en : N;
  z_until_dis : N;
  z_same_hold : N;
  z_caps : bool; z_lsft : bool; z_rsft : bool; z_altgr : bool;
  z_last_chord : bool;               (* zchd_last_press = IsChord *)
  z_ss_sent : bool }.

Definition z_init : zstate := mkz [] ZEnabled None 0 0 None 0 0 0 0 false false false false true false.

(* ---- SubsetMap lookup on a sorted key ---- *)
Fixpoint nlist_eqb (a b : list N) : bool :=
  match a, b with
  | [], [] => true
  | x :: a', y :: b' => (x =? y) && nlist_eqb a' b'
  | _, _ => false
  end.
Inductive zres := ZHas (out : list zout) (fol : option zchords) | ZSubset | ZNeither.
Definition zlookup (c : zchords) (keys : list N) : zres :=
  let es := zentries c in
  match keys with
  | [] => match es with [] => ZNeither | _ => ZSubset end
  | _ =>
      match find (fun e => nlist_eqb (fst e) keys) es with
      | Some e => ZHas (fst (snd e)) (snd (snd e))
      | None => if existsb (fun e => forallb (fun k => mem_n k (fst e)) keys) es then ZSubset else ZNeither
      end
  end.

(* ZchSortedChord::zch_insert *)
Fixpoint sorted_insert (k : N) (l : list N) : list N :=
  match l with
  | [] => [k]
  | x :: r => if k =? x then l else if k <? x then k :: l else x :: sorted_insert k r
  end.
Definition remove_key (k : N) (l : list N) : list N := filter (fun x => negb (x =? k)) l.

Definition is_zippy_ignored (osc : N) : bool :=
  existsb (N.eqb osc) [42; 54; 125; 126; 29; 97; 56; 100; 1; 14; 111].

Definition char_count (o : zout) : Z :=
  match o with ZO _ ne c => if c =? 14 then (-1)%Z else if ne then 0%Z else 1%Z end.
Definition display_len (l : list zout) : Z := fold_left (fun acc o => (acc + char_count o)%Z) l 0%Z.

(* ---- state transitions ---- *)
Definition z_clear_history (z : zstate) : zstate :=
  mkz (z_keys z) (z_en z) None 0 0 None (z_since z) (z_until_en z) (z_until_dis z) (z_same_hold z)
      (z_caps z) (z_lsft z) (z_rsft z) (z_altgr z) (z_last_chord z) (z_ss_sent z).
Definition z_soft_reset (z : zstate) : zstate :=
  mkz [] ZDisabled None 0 0 None 0 0 0 (z_same_hold z) (z_caps z) (z_lsft z) (z_rsft z) (z_altgr z) false false.
Definition z_reset (z : zstate) : zstate :=
  mkz [] ZEnabled None 0 0 None 0 0 0 (z_same_hold z) false false false false true false.

Definition z_tick (caps : bool) (z : zstate) : zstate :=
  let z1 := mkz (z_keys z) (z_en z) (z_prio z) (z_prior_count z) (z_to_delete z) (z_prior z) (z_since z + 1)
                (z_until_en z) (z_until_dis z) (z_same_hold z) caps (z_lsft z) (z_rsft z) (z_altgr z)
                (z_last_chord z) (z_ss_sent z) in
  let z2 :=
    match z_en z1 with
    | ZWaitEnable =>
        let ue := z_until_en z1 - 1 in
        if ue =? 0 then
          mkz (z_keys z1) ZEnabled (z_prio z1) (z_prior_count z1) (z_to_delete z1) (z_prior z1) (z_since z1)
              ue 0 (z_same_hold z1) (z_caps z1) (z_lsft z1) (z_rsft z1) (z_altgr z1) (z_last_chord z1) (z_ss_sent z1)
        else
          mkz (z_keys z1) (z_en z1) (z_prio z1) (z_prior_count z1) (z_to_delete z1) (z_prior z1) (z_since z1)
              ue (z_until_dis z1) (z_same_hold z1) (z_caps z1) (z_lsft z1) (z_rsft z1) (z_altgr z1) (z_last_chord z1) (z_ss_sent z1)
    | ZEnabled =>
        if 0 <? z_until_dis z1 then
          let ud := z_until_dis z1 - 1 in
          let z' := mkz (z_keys z1) (z_en z1) (z_prio z1) (z_prior_count z1) (z_to_delete z1) (z_prior z1) (z_since z1)
                        (z_until_en z1) ud (z_same_hold z1) (z_caps z1) (z_lsft z1) (z_rsft z1) (z_altgr z1)
                        (z_last_chord z1) (z_ss_sent z1) in
          if ud =? 0 then z_soft_reset z' else z'
        else z1
    | ZDisabled => z1
    end in
  if 10000 <? z_since z2 then z_reset z2 else z2.

Definition z_is_idle (z : zstate) : bool :=
  zen_eqb (z_en z) ZEnabled && match z_keys z with [] => true | _ => false end.

Fixpoint common_prefix (past cur : list zout) : Z :=
  match past, cur with
  | p :: ps, c :: cs =>
      if (zo_osc p =? 14) || (zo_osc c =? 14) || negb (zout_eqb p c) then 0%Z
      else (1 + common_prefix ps cs)%Z
  | _, _ => 0%Z
  end.

Definition bs_events (n : Z) : list zev := flat_map (fun _ => [ZP 14; ZR 14]) (seq 0 (Z.to_nat n)).

Definition type_osc (keys : list N) (osc : N) : list zev :=
  if mem_n osc keys then [ZR osc; ZP osc] else [ZP osc; ZR osc].

(* the typing loop of an activation: state = (released_sft, characters to delete, events so far) *)
Definition type_step (z : zstate) (keys : list N) (st : bool * Z * list zev) (o : zout) : bool * Z * list zev :=
  let '(released, td, evs) := st in
  let maybe := negb (z_caps z) && (released || (negb (z_lsft z) && negb (z_rsft z))) in
  let sp := if maybe then [ZP 42] else [] in
  let sr := if maybe then [ZR 42] else [] in
  let osc := zo_osc o in
  let kind := match o with ZO k _ _ => k end in
  let typed :=
    if kind =? 0 then type_osc keys osc
    else if kind =? 1 then sp ++ type_osc keys osc ++ sr
    else if kind =? 2 then [ZP 100] ++ type_osc keys osc ++ [ZR 100]
    else [ZP 100] ++ sp ++ type_osc keys osc ++ sr ++ [ZR 100] in
  let td' := (td + char_count o)%Z in
  if negb released && negb (z_caps z) then
    (true, td', evs ++ typed ++ (if z_lsft z then [ZR 42] else []) ++ (if z_rsft z then [ZR 54] else []))
  else (released, td', evs ++ typed).

Definition punct_of (z : zstate) (osc : N) : zout :=
  let sh := z_lsft z || z_rsft z in
  ZO (match sh, z_altgr z with false, false => 0 | true, false => 1 | false, true => 2 | true, true => 3 end) false osc.

Definition last_osc (l : list zout) : option N :=
  match rev l with [] => None | o :: _ => Some (zo_osc o) end.

Definition z_press (c : zcfg) (z : zstate) (osc : N) : zstate * list zev :=
  match zentries (zc_chords c) with
  | [] => (z, [ZP osc])
  | _ =>
    let setmods l r a := mkz (z_keys z) (z_en z) (z_prio z) (z_prior_count z) (z_to_delete z) (z_prior z) (z_since z)
                             (z_until_en z) (z_until_dis z) (z_same_hold z) (z_caps z) l r a (z_last_chord z) (z_ss_sent z) in
    if osc =? 42 then (setmods true (z_rsft z) (z_altgr z), [ZP osc])
    else if osc =? 54 then (setmods (z_lsft z) true (z_altgr z), [ZP osc])
    else if osc =? 100 then (setmods (z_lsft z) (z_rsft z) true, [ZP osc])
    else if is_zippy_ignored osc then (z, [ZP osc])
    else
      let erase_space := z_ss_sent z && existsb (zout_eqb (punct_of z osc)) (zc_punct c) in
      let td0 := if erase_space then (z_to_delete z - 1)%Z else z_to_delete z in
      let ev0 := if erase_space then [ZP 14; ZR 14] else [] in
      if negb (zen_eqb (z_en z) ZEnabled) then
        (mkz (z_keys z) (z_en z) (z_prio z) (z_prior_count z) td0 (z_prior z) (z_since z) (z_until_en z) (z_until_dis z)
             (z_same_hold z) (z_caps z) (z_lsft z) (z_rsft z) (z_altgr z) (z_last_chord z) false,
         ev0 ++ [ZP osc])
      else
        let ud := if z_until_dis z =? 0 then zc_deadline c else z_until_dis z in
        let keys := sorted_insert osc (z_keys z) in
        (* state after deadline activation, state change and key insertion *)
        let act0 := match z_prio z with Some p => zlookup p keys | None => ZNeither end in
        let is_prio := match act0 with ZHas _ _ => true | _ => false end in
        let act :=
          if is_prio then act0
          else
            let g := zlookup (zc_chords c) keys in
            match act0, g with
            | ZSubset, ZNeither => ZSubset      (* a partial followup chord stays a partial chord *)
            | _, _ => g
            end in
        match act with
        | ZHas outp fol =>
            let cp :=
              if negb is_prio && (z_same_hold z =? 0) then 0%Z
              else match z_prior z with Some po => common_prefix po outp | None => 0%Z end in
            let nonempty := match outp with [] => false | _ => true end in
            let nbs := (td0 + (if is_prio then z_prior_count z else 0) - cp)%Z in
            let ev1 := if nonempty then bs_events nbs else [ZP osc] in
            let td1 := if nonempty then display_len (firstn (Z.to_nat cp) outp) else (td0 + 1)%Z in
            let pc1 := if nonempty then display_len outp else (z_prior_count z + Z.of_nat (length keys))%Z in
            let ev2 := if z_altgr z && nonempty then [ZR 100] else [] in
            let zk := mkz keys (z_en z) fol pc1 td1 (Some outp) 0 (zc_wait c) (zc_deadline c) (z_same_hold z + 1)
                          (z_caps z) (z_lsft z) (z_rsft z) (z_altgr z) true false in
            (* the first character is already on screen: a held shift must not capitalize a later one *)
            let pre_release := (0 <? cp)%Z && negb (z_caps z) && (Z.to_nat cp <? length outp)%nat in
            let ev2b := if pre_release then (if z_lsft z then [ZR 42] else []) ++ (if z_rsft z then [ZR 54] else []) else [] in
            let '(released, td2, ev3) := fold_left (type_step zk keys) (skipn (Z.to_nat cp) outp) (pre_release, td1, ev2b) in
            let smart :=
              negb (zc_ss c =? 0) &&
              match last_osc outp with Some o => negb ((o =? 57) || (o =? 14)) | None => false end in
            let ev4 := if smart then [ZP 57; ZR 57] else [] in
            let td3 := if smart then (td2 + 1)%Z else td2 in
            let pc2 := if smart then (pc1 + 1)%Z else pc1 in
            let sent := smart && (zc_ss c =? 2) in
            let ev5 := if negb (z_caps z) then (if z_lsft z then [ZP 42] else []) ++ (if z_rsft z then [ZP 54] else []) else [] in
            let ev6 := if z_altgr z && nonempty then [ZP 100] else [] in
            (mkz keys (z_en z) fol pc2 td3 (Some outp) 0 (zc_wait c) (zc_deadline c) (z_same_hold z + 1)
                 (z_caps z) (z_lsft z) (z_rsft z) (z_altgr z) true sent,
             ev0 ++ ev1 ++ ev2 ++ ev3 ++ ev4 ++ ev5 ++ ev6)
        | ZSubset =>
            (mkz keys (z_en z) (z_prio z) (z_prior_count z) (td0 + 1)%Z (z_prior z) 0 (zc_wait c) ud (z_same_hold z)
                 (z_caps z) (z_lsft z) (z_rsft z) (z_altgr z) false false,
             ev0 ++ [ZP osc])
        | ZNeither =>
            (z_soft_reset (mkz keys (z_en z) (z_prio z) (z_prior_count z) td0 (z_prior z) 0 (zc_wait c) ud (z_same_hold z)
                               (z_caps z) (z_lsft z) (z_rsft z) (z_altgr z) (z_last_chord z) false),
             ev0 ++ [ZP osc])
        end
  end.

Definition z_release (c : zcfg) (z : zstate) (osc : N) : zstate * list zev :=
  match zentries (zc_chords c) with
  | [] => (z, [ZR osc])
  | _ =>
    let l := if osc =? 42 then false else z_lsft z in
    let r := if osc =? 54 then false else z_rsft z in
    let a := if osc =? 100 then false else z_altgr z in
    let z0 := mkz (z_keys z) (z_en z) (z_prio z) (z_prior_count z) (z_to_delete z) (z_prior z) (z_since z)
                  (z_until_en z) (z_until_dis z) (z_same_hold z) (z_caps z) l r a (z_last_chord z) (z_ss_sent z) in
    if is_zippy_ignored osc then (z0, [ZR osc])
    else
      let keys := remove_key osc (z_keys z0) in
      let empty := match keys with [] => true | _ => false end in
      (* zchd_state_change, then zchd_release_key *)
      let z1 := mkz keys (z_en z0) (z_prio z0) (z_prior_count z0) (z_to_delete z0) (z_prior z0) 0 (zc_wait c)
                    (z_until_dis z0) (z_same_hold z0) (z_caps z0) l r a (z_last_chord z0) (z_ss_sent z0) in
      let z2 :=
        match z_last_chord z1, empty with
        | false, true =>
            z_clear_history (mkz keys ZWaitEnable (z_prio z1) (z_prior_count z1) (z_to_delete z1) (z_prior z1) (z_since z1)
                                 (z_until_en z1) (z_until_dis z1) (z_same_hold z1) (z_caps z1) l r a (z_last_chord z1) (z_ss_sent z1))
        | false, false => z_soft_reset z1
        | true, true =>
            let zc := match z_prio z1 with None => z_clear_history z1 | Some _ => z1 end in
            mkz (z_keys zc) ZEnabled (z_prio zc) (z_prior_count zc) 0 (z_prior zc) (z_since zc) (z_until_en zc) 0 0
                (z_caps zc) l r a (z_last_chord zc) (z_ss_sent zc)
        | true, false =>
            mkz keys (z_en z1) (z_prio z1) (z_prior_count z1) (z_to_delete z1) (z_prior z1) (z_since z1) (z_until_en z1) 0
                (z_same_hold z1) (z_caps z1) l r a (z_last_chord z1) (z_ss_sent z1)
        end in
      (z2, [ZR osc])
  end.
