(* Model of keyberon/src/chord.rs (chords v2).  Bounded containers: the chord queue is the layout Queue (32,
   wrapping), the drain queue SmolQueue (16, wrapping), presses / candidates heapless vectors of 16 (push fails when
   full: where the Rust debug-asserts or expects, the model panics; where it ignores the overflow, so does the model).
   No proofs. *)
From KV Require Export Keyberon.Types.
Local Open Scope N_scope.

Definition SMOL_Q_LEN : nat := 16.
Definition KEY_MAX_C : N := 850.

Definition chv2_init (chords : list chordv2) (ignore : N) : chv2 :=
  mkchv2 chords [] [] 0 ignore 0 65535 255 (KEY_MAX_C + 1).

Definition chv2_is_idle (c : chv2) : bool :=
  match cv_queue c, cv_active c with [], [] => true | _, _ => false end.
Definition chv2_accepts (c : chv2) : bool := (cv_ignore c =? 0) && (cv_until_change c =? 0).

Definition set_cv_queue q c := mkchv2 (cv_chords c) q (cv_active c) (cv_ignore c) (cv_cfg_ignore c) (cv_until_change c) (cv_prev_layer c) (cv_prev_qlen c) (cv_next_coord c).
Definition set_cv_active a c := mkchv2 (cv_chords c) (cv_queue c) a (cv_ignore c) (cv_cfg_ignore c) (cv_until_change c) (cv_prev_layer c) (cv_prev_qlen c) (cv_next_coord c).
Definition set_cv_ignore v c := mkchv2 (cv_chords c) (cv_queue c) (cv_active c) v (cv_cfg_ignore c) (cv_until_change c) (cv_prev_layer c) (cv_prev_qlen c) (cv_next_coord c).
Definition set_cv_until v c := mkchv2 (cv_chords c) (cv_queue c) (cv_active c) (cv_ignore c) (cv_cfg_ignore c) v (cv_prev_layer c) (cv_prev_qlen c) (cv_next_coord c).
Definition no_chord_activations (c : chv2) : chv2 := set_cv_ignore (cv_cfg_ignore c) c.

(* get_action_chv2 *)
Fixpoint get_action_go (l : list active_chord) : list active_chord * option (coord * N * action) :=
  match l with
  | [] => ([], None)
  | a :: r =>
      match ac_status a with
      | AUnread => (mkach (ac_coord a) (ac_remaining a) (ac_keys a) (ac_action a) AReleasable (ac_delay a) :: r,
                    Some ((0, ac_coord a), ac_delay a, ac_action a))
      | AUnreadReleased => (mkach (ac_coord a) (ac_remaining a) (ac_keys a) (ac_action a) AReleased (ac_delay a) :: r,
                            Some ((0, ac_coord a), ac_delay a, ac_action a))
      | _ => let '(r', res) := get_action_go r in (a :: r', res)
      end
  end.
Definition get_action_chv2 (c : chv2) : chv2 * option (coord * N * action) :=
  let '(a, res) := get_action_go (cv_active c) in (set_cv_active a c, res).

Definition next_coord (c : chv2) : chv2 * N :=
  let ret := cv_next_coord c in
  let new := if KEY_MAX_C + 50 <? ret + 1 then KEY_MAX_C + 1 else ret + 1 in
  (mkchv2 (cv_chords c) (cv_queue c) (cv_active c) (cv_ignore c) (cv_cfg_ignore c) (cv_until_change c) (cv_prev_layer c) (cv_prev_qlen c) new, ret).

Definition smol_push (x : queued) (q : list queued) : list queued := fst (wdeque_push_back SMOL_Q_LEN x q).

(* drain_virtual_keys: only row 0 stays; the rest goes to the drain queue (assert on overflow) *)
Fixpoint drain_virtual (q : list queued) (drainq : list queued) : outcome (list queued * list queued) :=
  match q with
  | [] => Ok ([], drainq)
  | qd :: r =>
      if fst (q_coord qd) =? 0 then
        '(keep, dq) <- drain_virtual r drainq ;; Ok (qd :: keep, dq)
      else if Nat.ltb (length drainq) SMOL_Q_LEN then drain_virtual r (drainq ++ [qd])
      else Panic "chords v2: overflowed drain queue"
  end.

Definition release_in_ach (j : N) (a : active_chord) : active_chord :=
  if negb (mem_n j (ac_keys a)) then a
  else
    let rem := filter (fun pk => negb (pk =? j)) (ac_remaining a) in
    let st := match rem with
              | [] => match ac_status a with AUnread | AUnreadReleased => AUnreadReleased | _ => AReleased end
              | _ => ac_status a
              end in
    mkach (ac_coord a) rem (ac_keys a) (ac_action a) st (ac_delay a).

(* drain_releases: walks the queue; [npress] = presses seen so far (a heapless Vec of 16 in the Rust: debug-assert) *)
Fixpoint drain_releases (q : list queued) (npress : nat) (achs : list active_chord) (drainq : list queued)
  : outcome (list queued * list active_chord * list queued) :=
  match q with
  | [] => Ok ([], achs, drainq)
  | qd :: r =>
      if q_press qd then
        if Nat.ltb npress SMOL_Q_LEN then
          '(keep, achs', dq) <- drain_releases r (S npress) achs drainq ;; Ok (qd :: keep, achs', dq)
        else Panic "chords v2: too many presses in queue"
      else
        let achs1 := map (release_in_ach (snd (q_coord qd))) achs in
        match npress with
        | O => drain_releases r npress achs1 (smol_push qd drainq)
        | _ => '(keep, achs', dq) <- drain_releases r npress achs1 drainq ;; Ok (qd :: keep, achs', dq)
        end
  end.

Definition subset_n (a b : list N) : bool := forallb (fun x => mem_n x b) a.
Definition same_keys (ch : chordv2) (acc : list N) : bool := subset_n acc (c2_keys ch) && subset_n (c2_keys ch) acc.
Definition enabled_on (layer : N) (ch : chordv2) : bool := negb (mem_n layer (c2_disabled ch)).

Definition get_active_chord (ch : chordv2) (since coord : N) (release_found : bool) : active_chord :=
  mkach coord (if c2_first_release ch then [] else c2_keys ch) (c2_keys ch) (c2_action ch)
        (if release_found && c2_first_release ch then AUnreadReleased else AUnread) since.

(* no room for another active chord (heapless Vec of 10): nothing is activated, the keys are left to the layout *)
Definition push_active (a : active_chord) (c : chv2) : outcome chv2 :=
  if Nat.ltb (length (cv_active c)) 10 then Ok (set_cv_active (cv_active c ++ [a]) c)
  else Ok (no_chord_activations c).

Definition min_pending (l : list chordv2) (m : N) : N := fold_left (fun acc ch => N.min acc (c2_pending ch)) l m.
Definition push16 {A} (x : A) (l : list A) : list A := if Nat.ltb (length l) SMOL_Q_LEN then l ++ [x] else l.

(* presses of the queue up to the first release of one of them; whether such a release exists *)
Fixpoint scan_presses (q : list queued) (presses : list N) : outcome (list N * bool) :=
  match q with
  | [] => Ok (presses, false)
  | qd :: r =>
      if q_press qd then
        if Nat.ltb (length presses) SMOL_Q_LEN then scan_presses r (presses ++ [snd (q_coord qd)])
        else Panic "chords v2: too many presses in queue"
      else if mem_n (snd (q_coord qd)) presses then Ok (presses, true)
      else scan_presses r presses
  end.

Record pp_state := mkpp {
  pp_c : chv2; pp_acc : list N; pp_cands : list chordv2; pp_prev_count : option nat; pp_done : bool }.

(* one iteration of the `for press in presses` loop of process_presses *)
Definition pp_step (possible : list chordv2) (active_layer since : N) (release_found : bool)
           (st : pp_state) (press : N) : outcome pp_state :=
  if pp_done st then Ok st else
  let acc := pp_acc st ++ [press] in
  let reuse := match pp_prev_count st with Some n => Nat.eqb n (length (pp_cands st)) | None => false end in
  let '(cands, count, min_timeout) :=
    if reuse then
      let cs := filter (fun chc => mem_n press (c2_keys chc)) (pp_cands st) in
      (cs, length cs, min_pending cs 65535)
    else
      let matching := filter (fun pch => enabled_on active_layer pch && subset_n acc (c2_keys pch)) possible in
      (fold_left (fun l ch => push16 ch l) matching [], length matching, min_pending matching 65535) in
  match count with
  | 1%nat =>
      let '(c1, coord) := next_coord (pp_c st) in
      match cands with
      | cch :: _ =>
          if subset_n (c2_keys cch) acc then
            c2 <- push_active (get_active_chord cch since coord release_found) c1 ;;
            Ok (mkpp c2 acc cands (pp_prev_count st) true)
          else Ok (mkpp (set_cv_until (min_timeout - since) c1) acc cands (Some count) false)
      | [] => Panic "chords v2: candidate index"
      end
  | O =>
      let acc' := removelast acc in
      match find (fun pch => enabled_on active_layer pch && same_keys pch acc') possible with
      | Some cch =>
          let '(c1, coord) := next_coord (pp_c st) in
          c2 <- push_active (get_active_chord cch since coord release_found) c1 ;;
          Ok (mkpp c2 acc' [] (pp_prev_count st) true)
      | None => Ok (mkpp (no_chord_activations (pp_c st)) acc' [] (pp_prev_count st) true)
      end
  | _ => Ok (mkpp (set_cv_until (min_timeout - since) (pp_c st)) acc cands (Some count) false)
  end.

Fixpoint pp_loop (possible : list chordv2) (active_layer since : N) (release_found : bool)
         (st : pp_state) (presses : list N) : outcome pp_state :=
  match presses with
  | [] => Ok st
  | p :: r => st' <- pp_step possible active_layer since release_found st p ;; pp_loop possible active_layer since release_found st' r
  end.

Definition process_presses (c : chv2) (active_layer : N) : outcome chv2 :=
  '(presses, release_found) <- scan_presses (cv_queue c) [] ;;
  let prev_len := length (cv_active c) in
  match presses with
  | [] => Ok c
  | start :: _ =>
      let possible := filter (fun ch => mem_n start (c2_keys ch)) (cv_chords c) in
      match possible with
      | [] => Ok (no_chord_activations c)
      | _ =>
          let since := match cv_queue c with qd :: _ => q_since qd | [] => 0 end in
          st <- pp_loop possible active_layer since release_found (mkpp c [] [] None false) presses ;;
          let c1 := pp_c st in
          c2 <-
            (if (cv_until_change c1 =? 0) || release_found then
               let pool := if Nat.eqb (length (pp_cands st)) SMOL_Q_LEN then possible else pp_cands st in
               match find (fun pch => enabled_on active_layer pch && same_keys pch (pp_acc st)) pool with
               | Some cch =>
                   if Nat.ltb prev_len (length (cv_active c1)) then Ok c1      (* already activated by the loop *)
                   else
                     let '(c1', coord) := next_coord c1 in
                     push_active (get_active_chord cch since coord release_found) c1'
               | None => Ok (no_chord_activations c1)
               end
             else Ok c1) ;;
          if Nat.ltb prev_len (length (cv_active c2)) then
            (* the countdown belonged to the consumed presses *)
            Ok (set_cv_queue (filter (fun qd => negb (q_press qd && mem_n (snd (q_coord qd)) (pp_acc st))) (cv_queue c2)) (set_cv_until 0 c2))
          else Ok c2
      end
  end.

Definition drain_inputs (c : chv2) (drainq : list queued) (active_layer : N) : outcome (chv2 * list queued) :=
  if 0 <? cv_ignore c then
    (* releases still reach the active chords while chords are being ignored *)
    let achs := fold_left (fun achs qd =>
                             if negb (q_press qd) && (fst (q_coord qd) =? 0)
                             then map (release_in_ach (snd (q_coord qd))) achs else achs)
                          (cv_queue c) (cv_active c) in
    Ok (set_cv_active achs (set_cv_queue [] c), wdeque_extend SMOL_Q_LEN (cv_queue c) drainq)
  else if (0 <? cv_until_change c) && (cv_prev_layer c =? active_layer) && (cv_prev_qlen c =? N.of_nat (length (cv_queue c))) then
    Ok (set_cv_until (cv_until_change c - 1) c, drainq)
  else
    '(q1, dq1) <- drain_virtual (cv_queue c) drainq ;;
    (* the remembered queue length does not count the virtual-key events, which never stay queued *)
    let c := mkchv2 (cv_chords c) (cv_queue c) (cv_active c) (cv_ignore c) (cv_cfg_ignore c) 0 active_layer
                    (N.of_nat (length q1)) (cv_next_coord c) in
    '(q2, achs, dq2) <- drain_releases q1 O (cv_active c) dq1 ;;
    c' <- process_presses (set_cv_active achs (set_cv_queue q2 c)) active_layer ;;
    Ok (c', dq2).

(* tick_chv2: the events that leave the chord machinery this tick *)
Definition tick_chv2 (c : chv2) (active_layer : N) : outcome (chv2 * list queued) :=
  let q := map (fun qd => {| q_press := q_press qd; q_coord := q_coord qd; q_since := sat_add16 (q_since qd) 1 |}) (cv_queue c) in
  let prev_len := length (cv_active c) in
  let achs := map (fun a => mkach (ac_coord a) (ac_remaining a) (ac_keys a) (ac_action a) (ac_status a) (sat_add16 (ac_delay a) 1)) (cv_active c) in
  '(c1, dq) <- drain_inputs (set_cv_active achs (set_cv_queue q c)) [] active_layer ;;
  let dq := if negb (Nat.eqb (length (cv_active c1)) prev_len)
            then smol_push {| q_press := true; q_coord := (0, 0); q_since := 0 |} dq else dq in
  let dq := if existsb (fun a => match ac_status a with AUnreadReleased | AReleased => true | _ => false end) (cv_active c1)
            then smol_push {| q_press := false; q_coord := (0, 0); q_since := 0 |} dq else dq in
  (* clear_released_chords *)
  dq' <- fold_left (fun acc a =>
                      dq0 <- acc ;;
                      match ac_status a with
                      | AReleased =>
                          if Nat.ltb (length dq0) SMOL_Q_LEN
                          then Ok (dq0 ++ [{| q_press := false; q_coord := (0, ac_coord a); q_since := 0 |}])
                          else Panic "chords v2: overflowed drain queue"
                      | _ => Ok dq0
                      end) (cv_active c1) (Ok dq) ;;
  let achs' := filter (fun a => match ac_status a with AReleased => false | _ => true end) (cv_active c1) in
  Ok (set_cv_ignore (cv_ignore c1 - 1) (set_cv_active achs' c1), dq').
