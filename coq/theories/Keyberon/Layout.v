(* Executable model of keyberon/src/layout.rs (Layout::event, Layout::tick, do_action and everything
   they call), without chords v2 (see ChordsV2.v).  Written to follow the Rust statement by
   statement; every ignored push result and every panic site is explicit.  No proofs here. *)
From KV Require Export Keyberon.Setters Keyberon.Switch Keyberon.ChordsV2.

(* ------------------------------------------------------------------ helpers on rows / states *)
Fixpoint assoc_cell (y : N) (l : list (N * action)) : option action :=
  match l with
  | [] => None
  | (k, a) :: t => if k =? y then Some a else assoc_cell y t
  end.

Definition row_get (r : row) (y : N) : outcome action :=
  if y <? r_len r then
    Ok (match assoc_cell y (r_cells r) with
        | Some a => a
        | None => match r_default r with RDConst a => a | RDIdentKey => KeyCode y end
        end)
  else Panic "index out of bounds: layer row".

Definition st_keycode (s : kstate) : option N :=
  match s with NormalKey k _ _ => Some k | FakeKey k => Some k | _ => None end.
Definition st_coord (s : kstate) : option coord :=
  match s with
  | NormalKey _ c _ | LayerModifier _ c | CustomSt _ c | RepeatingSequence _ c => Some c
  | _ => None
  end.
Definition st_layer (s : kstate) : option N :=
  match s with LayerModifier l _ => Some l | _ => None end.
Definition st_clear_on_next_release (s : kstate) : bool :=
  match s with NormalKey _ _ f => N.land f NKF_CLEAR_ON_NEXT_RELEASE =? NKF_CLEAR_ON_NEXT_RELEASE | _ => false end.
Definition st_clear_on_next_action (s : kstate) : bool :=
  match s with NormalKey _ _ f => N.land f NKF_CLEAR_ON_NEXT_ACTION =? NKF_CLEAR_ON_NEXT_ACTION | _ => false end.

Fixpoint filter_map {A B} (f : A -> option B) (l : list A) : list B :=
  match l with
  | [] => []
  | x :: t => match f x with Some y => y :: filter_map f t | None => filter_map f t end
  end.

Definition keycodes (l : layout) : list N := filter_map st_keycode (states l).

(* State::release over the whole vector, threading the custom event; [skip_cnr] = the
   `!s.clear_on_next_release() &&` conjunct of dequeue *)
Fixpoint release_states (c : coord) (skip_cnr : bool) (sts : list kstate) (cu : cev) : list kstate * cev :=
  match sts with
  | [] => ([], cu)
  | s :: t =>
    if skip_cnr && st_clear_on_next_release s then release_states c skip_cnr t cu
    else
      match s with
      | NormalKey _ c' _ | LayerModifier _ c' | RepeatingSequence _ c' =>
          if coord_eqb c' c then release_states c skip_cnr t cu
          else let '(r, cu') := release_states c skip_cnr t cu in (s :: r, cu')
      | CustomSt v c' =>
          if coord_eqb c' c then release_states c skip_cnr t (cev_update cu (CRelease v))
          else let '(r, cu') := release_states c skip_cnr t cu in (s :: r, cu')
      | _ => let '(r, cu') := release_states c skip_cnr t cu in (s :: r, cu')
      end
  end.

Definition seq_release (kc : N) (sts : list kstate) : list kstate :=
  filter (fun s => match s with FakeKey k => negb (k =? kc) | _ => true end) sts.

Definition states_push (s : kstate) (sts : list kstate) : list kstate * bool := sat_push_back STATES_CAP s sts.

Definition hist_push_front {A} (x : A) (h : list (A * N)) : list (A * N) :=
  wdeque_push_front HISTORICAL_EVENT_LEN (x, 0) h.
Definition hist_tick {A} (h : list (A * N)) : list (A * N) :=
  map (fun p => (fst p, sat_add16 (snd p) 1)) h.

(* ------------------------------------------------------------------ layers *)
Definition current_layer (l : layout) : N :=
  match filter_map st_layer (rev (states l)) with
  | x :: _ => x
  | [] => default_layer l
  end.

Definition active_held_layers (l : layout) : list N := filter_map st_layer (rev (states l)).

(* trans_resolution_layer_order *)
Definition trans_order (cfg : lcfg) (l : layout) : outcome (list N) :=
  let cur := current_layer l in
  if trans_v2 cfg then
    let held := firstn MAX_ACTIVE_LAYERS (active_held_layers l) in    (* .take(MAX_ACTIVE_LAYERS) *)
    let v := fst (sat_push_back MAX_ACTIVE_LAYERS (default_layer l) held) in
    if delegate_first cfg && negb (cur =? 0) && negb (default_layer l =? 0)
    then Ok (fst (sat_push_back MAX_ACTIVE_LAYERS 0 v)) else Ok v
  else
    if delegate_first cfg && negb (cur =? 0) then Ok [cur; 0] else Ok [cur].

(* resolve_coord: returns the action and what is left of the layer iterator *)
Fixpoint resolve_loop (cfg : lcfg) (x y : N) (ls : list N) : outcome (option action * list N) :=
  match ls with
  | [] => Ok (None, [])
  | ly :: rest =>
    if N.of_nat (length (layers cfg)) <? ly then Panic "resolve_coord: assert layer <= layers.len()"
    else match nth_error (layers cfg) (N.to_nat ly) with
         | None => Panic "index out of bounds: layers"
         | Some (r0, r1) =>
           a <- (if x =? 0 then row_get r0 y else if x =? 1 then row_get r1 y
                 else Panic "index out of bounds: layer rows") ;;
           match a with
           | Trans => resolve_loop cfg x y rest
           | _ => Ok (Some a, rest)
           end
         end
  end.

Definition resolve_coord (cfg : lcfg) (c : coord) (ls : list N) : outcome (action * list N) :=
  let '(x, y) := c in
  match layers cfg with
  | [] => Panic "index out of bounds: layers[0]"
  | (r0, _) :: _ =>
    if 2 <? x then Panic "resolve_coord: assert x" else
    if r_len r0 <? y then Panic "resolve_coord: assert y" else
    '(oa, rest) <- resolve_loop cfg x y ls ;;
    match oa with
    | Some a => Ok (a, rest)
    | None => if x =? 0 then (a <- row_get (src_keys cfg) y ;; Ok (a, rest)) else Ok (NoOp, rest)
    end
  end.

(* ------------------------------------------------------------------ one-shot *)
Inductive os_press := OSKey (c : coord) | OSOther (c : coord).

Definition os_tick (o : oneshot_state) : oneshot_state * option (list coord) :=
  match os_keys o with
  | [] => (o, None)
  | _ =>
    let o := set_os_ignore_ticks (sat_sub (os_ignore_ticks o) 1) o in
    let o := set_os_timeout (sat_sub (os_timeout o) 1) o in
    if os_release_next o || (os_timeout o =? 0) then
      let rel := os_released o in
      ({| os_keys := []; os_released := []; os_other := []; os_timeout := 0;
          os_end_config := os_end_config o; os_release_next := false;
          os_pause_delay := os_pause_delay o; os_pause_ticks := 0; os_ignore_ticks := 0 |}, Some rel)
    else (o, None)
  end.

Definition is_repress_cfg (e : os_end) : bool :=
  match e with EndOnFirstReleaseOrRepress | EndOnFirstPressOrRepress => true | _ => false end.
Definition is_press_cfg (e : os_end) : bool :=
  match e with EndOnFirstPress | EndOnFirstPressOrRepress => true | _ => false end.
Definition is_release_cfg (e : os_end) : bool :=
  match e with EndOnFirstRelease | EndOnFirstReleaseOrRepress => true | _ => false end.

(* returns the coordinates of the active one-shot keys that apply to this press *)
Definition os_handle_press (o : oneshot_state) (k : os_press) : oneshot_state * list coord :=
  match os_keys o with
  | [] => (o, [])
  | _ =>
    if 0 <? os_ignore_ticks o then (o, []) else
    match k with
    | OSKey pc =>
      let '(o1, cs) :=
        if is_repress_cfg (os_end_config o) && mem_coord pc (os_keys o)
        then (set_os_release_next true o, os_keys o) else (o, []) in
      (set_os_released (filter (fun c => negb (coord_eqb c pc)) (os_released o1)) o1, cs)
    | OSOther pc =>
      let o1 :=
        if is_press_cfg (os_end_config o)
        then set_os_pause_ticks (os_pause_delay o)
               (set_os_timeout (N.min (os_pause_delay o) (os_timeout o)) o)
        else set_os_other (fst (wdeque_push_back ONE_SHOT_MAX_ACTIVE pc (os_other o))) o in
      (o1, os_keys o)
    end
  end.

(* (handle release normally?, overflowed released one-shot key) *)
Definition os_handle_release (o : oneshot_state) (c : coord) : oneshot_state * bool * option coord :=
  match os_keys o with
  | [] => (o, true, None)
  | _ =>
    if negb (mem_coord c (os_keys o)) then
      if is_release_cfg (os_end_config o) && mem_coord c (os_other o)
      then (set_os_release_next true o, true, None) else (o, true, None)
    else
      let '(r, ov) := wdeque_push_back ONE_SHOT_MAX_ACTIVE c (os_released o) in
      (set_os_released r o, false, ov)
  end.

(* ------------------------------------------------------------------ waiting states *)
Definition q_is_release_at (c : coord) (q : queued) : bool := negb (q_press q) && coord_eqb (q_coord q) c.
Definition q_is_press_at (c : coord) (q : queued) : bool := q_press q && coord_eqb (q_coord q) c.
Definition qlen (q : list queued) : N := N.of_nat (length q).

(* PermissiveHold scan: for each press, is there a later release of the same coordinate *)
Fixpoint permissive_scan (q : list queued) : bool :=
  match q with
  | [] => false
  | x :: t => (q_press x && existsb (q_is_release_at (q_coord x)) t) || permissive_scan t
  end.

(* custom_tap_hold_release closure *)
Fixpoint release_keys_scan (ks : list N) (q : list queued) : option waction :=
  match q with
  | [] => None
  | x :: t =>
    if q_press x then
      if mem_n (snd (q_coord x)) ks then Some WATap
      else if existsb (q_is_release_at (q_coord x)) t then Some WAHold
      else release_keys_scan ks t
    else release_keys_scan ks t
  end.

(* custom_tap_hold_except closure: (result, skip_timeout) *)
Fixpoint except_keys_scan (ks : list N) (q : list queued) : option waction * bool :=
  match q with
  | [] => (None, true)
  | x :: t =>
    if q_press x then (if mem_n (snd (q_coord x)) ks then (Some WATap, false) else (None, false))
    else except_keys_scan ks t
  end.

Definition handle_hold_tap (w : waiting) (cfg : ht_cfg) (q : list queued) : waiting * option waction :=
  if (qlen q =? w_prev_queue_len w) && (0 <? w_timeout w) then (w, None) else
  let w := set_w_prev_queue_len (qlen q) w in
  let '(early, skip_timeout) :=
    match cfg with
    | HTDefault => (None, false)
    | HTHoldOnOtherKeyPress => (if existsb q_press q then Some WAHold else None, false)
    | HTPermissiveHold => (if permissive_scan q then Some WAHold else None, false)
    | HTReleaseKeys ks => (release_keys_scan ks q, false)
    | HTExceptKeys ks => except_keys_scan ks q
    end in
  match early with
  | Some a => (w, Some a)
  | None =>
    match find (q_is_release_at (w_coord w)) q with
    | Some qd =>
      if sat_sub (w_delay w) (q_since qd) <? w_timeout w then (w, Some WATap) else (w, Some WATimeout)
    | None =>
      if (w_timeout w =? 0) && negb skip_timeout then (w, Some WATimeout) else (w, None)
    end
  end.

(* evict_same_coord_events *)
Fixpoint td_evict (c : coord) (rtr : N) (q : list queued) : list queued :=
  match q with
  | [] => []
  | x :: t =>
    if q_is_release_at c x then
      if 0 <? rtr then td_evict c (rtr - 1) t else x :: td_evict c rtr t
    else if q_is_press_at c x then td_evict c rtr t
    else x :: td_evict c rtr t
  end.

(* the try_fold counting sequential taps: inl = Ok count, inr = Err count *)
Fixpoint td_count (c : coord) (acc : N) (q : list queued) : N + N :=
  match q with
  | [] => inl acc
  | x :: t =>
    if q_is_press_at c x then td_count c (acc + 1) t
    else if q_press x then inr acc
    else td_count c acc t
  end.

Definition handle_tap_dance (w : waiting) (num_taps : N) (max_taps : nat) (q : list queued)
  : option waction * N * list queued :=
  if (qlen q =? w_prev_queue_len w) && (0 <? w_timeout w) then (None, num_taps, q) else
  let evict n := td_evict (w_coord w) (sat_sub n 1) q in
  if w_timeout w =? 0 then (Some WATap, num_taps, evict num_taps) else
  match td_count (w_coord w) 1 q with
  | inl n => if N.of_nat max_taps <=? n then (Some WATap, n, evict n) else (None, n, q)
  | inr n => (Some WATap, n, evict n)
  end.

(* ---- chords v1 ---- *)
Definition cg_get_keys (g : chord_group) (c : coord) : option N :=
  match find (fun p => coord_eqb (fst p) c) (cg_coords g) with Some p => Some (snd p) | None => None end.
Definition cg_get_chord (g : chord_group) (keys : N) : option action :=
  match find (fun p => fst p =? keys) (cg_chords g) with Some p => Some (snd p) | None => None end.
(* get_chord_if_unambiguous: try_fold; Err on a strict superset *)
Fixpoint cg_unambiguous_loop (chs : list (N * action)) (keys : N) (res : option action) : option (option action) :=
  match chs with
  | [] => Some res
  | (ck, a) :: t =>
    if ck =? keys then cg_unambiguous_loop t keys (Some a)
    else if N.lor ck keys =? ck then None
    else cg_unambiguous_loop t keys res
  end.
Definition cg_get_chord_if_unambiguous (g : chord_group) (keys : N) : option action :=
  match cg_unambiguous_loop (cg_chords g) keys None with Some r => r | None => None end.

Definition opt_mask (o : option N) : N := match o with Some m => m | None => 0 end.

(* the try_fold of handle_chord: (result: inl = Ok active | inr = Err active, handled presses, released coord) *)
Fixpoint chord_active_fold (g : chord_group) (w : waiting) (q : list queued) (active handled : N)
         (rel : option coord) : (N + N) * N * option coord :=
  match q with
  | [] => (inl active, handled, rel)
  | s :: t =>
    if w_timeout w <? sat_sub (w_delay w) (q_since s) then chord_active_fold g w t active handled rel
    else match cg_get_keys g (q_coord s) with
         | Some ck =>
           if q_press s then chord_active_fold g w t (N.lor active ck) (handled + 1) rel
           else (inr active, handled, Some (q_coord s))
         | None =>
           if q_press s then (inr active, handled, rel)
           else chord_active_fold g w t active handled rel
         end
  end.

(* retain of handle_chord: drops the first [handled] chord-key presses (within the window) into pq *)
Fixpoint chord_retain (g : chord_group) (w : waiting) (q : list queued) (handled : N) (pq : list coord)
  : list queued * list coord :=
  match q with
  | [] => ([], pq)
  | s :: t =>
    if w_timeout w <? sat_sub (w_delay w) (q_since s) then
      let '(r, pq') := chord_retain g w t handled pq in (s :: r, pq')
    else if q_press s && (match cg_get_keys g (q_coord s) with Some _ => true | None => false end)
            && (0 <? handled) then
      chord_retain g w t (handled - 1) (fst (sat_push_back QUEUE_SIZE (q_coord s) pq))
    else let '(r, pq') := chord_retain g w t handled pq in (s :: r, pq')
  end.

(* decompose: chord_key_order and default_associated_coord *)
Fixpoint decomp_fold (g : chord_group) (w : waiting) (q : list queued) (active : N)
         (order : list N) (dflt : coord) : list N * coord :=
  match q with
  | [] => (order, dflt)
  | s :: t =>
    if w_timeout w <? sat_sub (w_delay w) (q_since s) then decomp_fold g w t active order dflt
    else match cg_get_keys g (q_coord s) with
         | Some ck =>
           if q_press s then
             let order' := if N.lor active ck =? active then order else order ++ [ck] in
             decomp_fold g w t (N.lor active ck) order' dflt
           else (order, q_coord s)
         | None =>
           if q_press s then (order, dflt) else decomp_fold g w t active order dflt
         end
  end.

Definition mask_of (l : list N) : N := fold_left N.lor l 0.
Definition slice {A} (s e : nat) (l : list A) : list A := firstn (e - s) (skipn s l).

Definition coord_for_chord (g : chord_group) (w : waiting) (q : list queued) (dflt : coord) (mask : N) : coord :=
  if 0 <? N.land (opt_mask (cg_get_keys g dflt)) mask then dflt
  else if negb (coord_eqb (w_coord w) dflt) && (0 <? N.land (opt_mask (cg_get_keys g (w_coord w))) mask)
  then w_coord w
  else match find (fun s => negb (N.land (opt_mask (cg_get_keys g (q_coord s))) mask =? 0)) q with
       | Some s => q_coord s
       | None => dflt
       end.

(* inner `while end > start` shrink loop; returns the new [end] and the action found *)
Fixpoint decomp_shrink (fuel : nat) (g : chord_group) (order : list N) (st en : nat) : nat * option (N * action) :=
  match fuel with
  | O => (en, None)
  | S f =>
    if Nat.ltb st en then
      let m := mask_of (slice st en order) in
      match cg_get_chord g m with
      | Some a => (en, Some (m, a))
      | None => decomp_shrink f g order st (en - 1)
      end
    else (en, None)
  end.

Fixpoint decomp_loop (fuel : nat) (g : chord_group) (w : waiting) (q : list queued) (dflt : coord)
         (order : list N) (delay : N) (st en : nat) (aq : list (coord * N * action)) : list (coord * N * action) :=
  match fuel with
  | O => aq
  | S f =>
    let len := length order in
    if Nat.ltb st len then
      let m := mask_of (slice st en order) in
      let '(en', aq') :=
        match cg_get_chord g m with
        | Some a => (en, fst (wdeque_push_back ACTION_QUEUE_LEN (coord_for_chord g w q dflt m, delay, a) aq))
        | None =>
          let '(en2, found) := decomp_shrink (S len) g order st (en - 1) in
          match found with
          | Some (m2, a) => (en2, fst (wdeque_push_back ACTION_QUEUE_LEN (coord_for_chord g w q dflt m2, delay, a) aq))
          | None => (en2, aq)
          end
        end in
      let st' := if Nat.leb en' st then S st else en' in
      decomp_loop f g w q dflt order delay st' len aq'
    else aq
  end.

Definition decompose_chord (g : chord_group) (w : waiting) (q : list queued) (aq : list (coord * N * action))
  : outcome (list (coord * N * action)) :=
  let start_mask := opt_mask (cg_get_keys g (w_coord w)) in
  let '(order, dflt) := decomp_fold g w q start_mask [start_mask] (w_coord w) in
  let delay := sat_add16 (w_delay w) (w_ticks w) in
  Ok (decomp_loop (S (length order)) g w q dflt order delay 0 (length order) aq).

(* handle_chord: Some (waction, tap action, pq) *)
Definition handle_chord (w : waiting) (g : chord_group) (q : list queued) (aq : list (coord * N * action))
  : outcome (waiting * list queued * list (coord * N * action) * option (waction * action * list coord)) :=
  if (qlen q =? w_prev_queue_len w) && (0 <? sat_sub (w_timeout w) (w_delay w))
  then Ok (w, q, aq, None) else
  let w := set_w_prev_queue_len (qlen q) w in
  let start_coord := w_coord w in
  let '(act0, handled, rel) := chord_active_fold g w q (opt_mask (cg_get_keys g (w_coord w))) 0 None in
  let act := match act0 with
             | inl a => if sat_sub (w_timeout w) (w_delay w) =? 0 then inr a else inl a
             | inr a => inr a
             end in
  let set_rel w := match rel with Some c => set_w_coord c w | None => w end in
  let finish (w : waiting) (res : waction * action) (aq : list (coord * N * action)) :=
    (* note: the retain closure reads self.delay/self.timeout and [handled]; coord is not used *)
    let '(q', pq) := chord_retain g w q handled [start_coord] in
    Ok (w, q', aq, Some (fst res, snd res, pq)) in
  match act with
  | inl a =>
    match cg_get_chord_if_unambiguous g a with
    | Some ac => finish (set_rel w) (WATap, ac) aq
    | None => Ok (w, q, aq, None)
    end
  | inr a =>
    match cg_get_chord g a with
    | Some ac => finish (set_rel w) (WATap, ac) aq
    | None =>
      aq' <- decompose_chord g w q aq ;;
      finish w (WANoOp, NoOp) aq'
    end
  end.

(* WaitingState::tick_wt *)
Definition tick_wt (w : waiting) (q : list queued) (aq : list (coord * N * action))
  : outcome (waiting * list queued * list (coord * N * action) * option (waction * option (list coord))) :=
  let w := set_w_ticks (sat_add16 (w_ticks w) 1) (set_w_timeout (sat_sub (w_timeout w) 1) w) in
  match w_cfg w with
  | WHoldTap htc =>
    let '(w', r) := handle_hold_tap w htc q in
    Ok (w', q, aq, option_map (fun a => (a, None)) r)
  | WTapDance acs td_timeout num_taps =>
    let '(r, nt, q') := handle_tap_dance w num_taps (length acs) q in
    let w := set_w_prev_queue_len (qlen q') w in
    w <- match r with
         | Some _ =>
           let idx := N.to_nat (sat_sub (N.min nt (N.of_nat (length acs))) 1) in
           match nth_error acs idx with
           | Some a => Ok (set_w_tap a w)
           | None => Panic "index out of bounds: tap-dance actions"
           end
         | None => Ok w
         end ;;
    let w := if num_taps <? nt then set_w_timeout td_timeout w else w in
    let w := set_w_cfg (WTapDance acs td_timeout nt) w in
    Ok (w, q', aq, option_map (fun a => (a, None)) r)
  | WChord g =>
    '(w', q', aq', r) <- handle_chord w g q aq ;;
    match r with
    | Some (wa, ac, pq) => Ok (set_w_tap ac w', q', aq', Some (wa, Some pq))
    | None => Ok (w', q', aq', None)
    end
  end.

(* ------------------------------------------------------------------ do_action & friends *)
Inductive call :=
| CDoAction (a : action) (c : coord) (delay : N) (is_oneshot : bool) (ls : list N)
| CEvent (press : bool) (c : coord)
| COverflow (ov : queued).     (* the overflow path of Layout::event alone (the chords-v2 queue overflowed) *)

Definition TRIGGER_TAPHOLD_COORD : coord := (0, 0).

Definition lpt_update_coord (c : coord) (l : layout) : layout :=
  if fst c =? 0 then set_lpt_coord c l else l.

Definition os_press_l (k : os_press) (l : layout) : layout * list coord :=
  let '(o, cs) := os_handle_press (oneshot l) k in (set_oneshot o l, cs).
Definition os_other_unless (is_oneshot : bool) (c : coord) (l : layout) : layout :=
  if is_oneshot then l else fst (os_press_l (OSOther c) l).

Definition keycode_in_coords (cs : list coord) (s : kstate) : option N :=
  match s with NormalKey k c _ => if mem_coord c cs then Some k else None | _ => None end.

Definition mk_waiting (c : coord) (timeout delay : N) (hold tap tac : action) (cf : wcfg) (ls : list N) : waiting :=
  {| w_coord := c; w_timeout := timeout; w_delay := delay; w_ticks := 0; w_hold := hold; w_tap := tap;
     w_timeout_ac := tac; w_cfg := cf; w_layer_stack := ls; w_prev_queue_len := QUEUE_LEN_MAX |}.

Definition new_seq (evs : list seq_ev) : seq_state :=
  {| ss_cur := None; ss_delay := 0; ss_tapped := None; ss_remaining := evs |}.

(* release_evicted_sequence: a sequence pushed out of the full ring releases what it still had to release *)
Definition release_evicted (s : seq_state) (l : layout) : layout :=
  let l := match ss_tapped s with Some kc => set_states (seq_release kc (states l)) l | None => l end in
  fold_left (fun l ev => match ev with SRelease kc => set_states (seq_release kc (states l)) l | _ => l end)
            (ss_remaining s) l.
Definition push_sequence (s : seq_state) (l : layout) : layout :=
  let '(q, ev) := wdeque_push_back ACTIVE_SEQ_CAP s (active_sequences l) in
  let l := set_active_sequences q l in
  match ev with Some old => release_evicted old l | None => l end.

Definition get_waiting (l : layout) (idx : Z) : option waiting :=
  if (idx <? 0)%Z then waiting_ l else nth_error (extra_waiting l) (Z.to_nat idx).
Definition remove_waiting (l : layout) (idx : Z) : layout :=
  if (idx <? 0)%Z then set_waiting_ None l
  else set_extra_waiting (remove_nth (Z.to_nat idx) (extra_waiting l)) l.

Definition waiting_delay (w : waiting) : outcome N :=
  match w_cfg w with
  | WTapDance _ _ _ => Ok 0
  | _ => Ok (sat_add16 (w_delay w) (w_ticks w))
  end.

Definition is_simple_tap (a : action) : bool :=
  match a with KeyCode _ | MultipleKeyCodes _ | OneShot _ _ _ | Layer _ => true | _ => false end.

Section Body.
  Variable cfg : lcfg.
  (* the recursive knot: every (mutually) recursive call goes through [rec] *)
  Variable rec : layout -> call -> outcome (layout * cev).

  Definition doact (l : layout) (a : action) (c : coord) (delay : N) (os : bool) (ls : list N) :=
    rec l (CDoAction a c delay os ls).

  (* runs do_action for each element, custom.update of the results *)
  Fixpoint doact_list (l : layout) (acs : list action) (c : coord) (delay : N) (os : bool) (ls : list N)
           (cu : cev) : outcome (layout * cev) :=
    match acs with
    | [] => Ok (l, cu)
    | a :: t =>
      '(l', e) <- doact l a c delay os ls ;;
      doact_list l' t c delay os ls (cev_update cu e)
    end.

  (* results ignored (for loops whose return value is dropped) *)
  Fixpoint doact_coords (l : layout) (a : action) (cs : list coord) (delay : N) (ls : list N) : outcome layout :=
    match cs with
    | [] => Ok l
    | c :: t => '(l', _) <- doact l a c delay false ls ;; doact_coords l' a t delay ls
    end.

  Definition waiting_into_hold (l : layout) (idx : Z) : outcome (layout * cev) :=
    match get_waiting l idx with
    | None => Ok (l, CNone)
    | Some w =>
      delay <- waiting_delay w ;;
      let l := remove_waiting l idx in
      let l := if coord_eqb (w_coord w) (lpt_coord l) then set_lpt_timeout 0 l else l in
      let l := set_oneshot (set_os_pause_ticks (os_pause_delay (oneshot l)) (oneshot l)) l in
      doact l (w_hold w) (w_coord w) delay false (w_layer_stack w)
    end.

  Definition waiting_into_tap (l : layout) (pq : option (list coord)) (idx : Z) : outcome (layout * cev) :=
    match get_waiting l idx with
    | None => Ok (l, CNone)
    | Some w =>
      delay <- waiting_delay w ;;
      let l := remove_waiting l idx in
      let tap := w_tap w in
      '(l, ret) <- doact l tap (w_coord w) delay false (w_layer_stack w) ;;
      l <- match pq with
           | None => Ok l
           | Some pq =>
             if is_simple_tap tap then doact_coords l tap pq delay (w_layer_stack w)
             else match tap with
                  | MultipleActions acs =>
                    (fix go (l : layout) (acs : list action) : outcome layout :=
                       match acs with
                       | [] => Ok l
                       | ac :: t =>
                         if is_simple_tap ac
                         then (l' <- doact_coords l ac pq delay (w_layer_stack w) ;; go l' t)
                         else go l t
                       end) l acs
                  | _ => Ok l
                  end
           end ;;
      let l := set_oneshot (set_os_pause_ticks (os_pause_delay (oneshot l)) (oneshot l)) l in
      Ok (l, ret)
    end.

  Definition waiting_into_timeout (l : layout) (idx : Z) : outcome (layout * cev) :=
    match get_waiting l idx with
    | None => Ok (l, CNone)
    | Some w =>
      delay <- waiting_delay w ;;
      let l := remove_waiting l idx in
      let l := if coord_eqb (w_coord w) (lpt_coord l) then set_lpt_timeout 0 l else l in
      doact l (w_timeout_ac w) (w_coord w) delay false (w_layer_stack w)
    end.

  Definition drop_waiting (l : layout) : outcome (layout * cev) := Ok (set_waiting_ None l, CNone).

  Definition do_waction (l : layout) (r : waction * option (list coord)) (idx : Z) : outcome (layout * cev) :=
    match fst r with
    | WAHold => waiting_into_hold l idx
    | WATap => waiting_into_tap l (snd r) idx
    | WATimeout => waiting_into_timeout l idx
    | WANoOp => drop_waiting l
    end.

  Definition dequeue (l : layout) (q : queued) : outcome (layout * cev) :=
    let c := q_coord q in
    if negb (q_press q) then
      let '(o, do_release, overflow) := os_handle_release (oneshot l) c in
      let l := set_oneshot o l in
      let '(sts, cu) := if do_release then release_states c true (states l) CNone else (states l, CNone) in
      let '(sts, cu) := match overflow with
                        | Some c2 => release_states c2 false sts cu
                        | None => (sts, cu)
                        end in
      Ok (set_states sts l, cu)
    else
      ls <- trans_order cfg l ;;
      match tap_dance_eager l with
      | Some tde =>
        let expired := (tde_timeout tde =? 0) || (N.of_nat (length (tde_actions tde)) <=? tde_num_taps tde) in
        if coord_eqb c (lpt_coord l) && negb expired then
          match nth_error (tde_actions tde) (N.to_nat (tde_num_taps tde)) with
          | None => Panic "index out of bounds: tap-dance-eager actions"
          | Some a =>
            '(l', cu) <- doact l a c (q_since q) false (tl ls) ;;
            (* `self.tap_dance_eager.as_mut().expect("some").incr_taps()` *)
            match tap_dance_eager l' with
            | None => Panic "expect: tap_dance_eager some"
            | Some t2 =>
              nt <- add16 (tde_num_taps t2) 1 ;;
              Ok (set_tap_dance_eager (Some (set_tde_timeout (tde_orig_timeout t2) (set_tde_num_taps nt t2))) l', cu)
            end
          end
        else
          let l := if fst c =? 0 then set_tap_dance_eager (Some (set_tde_timeout 0 tde)) l else l in
          doact l Trans c (q_since q) false ls
      | None => doact l Trans c (q_since q) false ls
      end.

  (* Layout::event *)
  Definition event_body (l : layout) (press : bool) (c : coord) : outcome (layout * cev) :=
    let l := if press then set_hist_inputs (hist_push_front c (hist_inputs l)) l else l in
    let '(q, ov) := wdeque_push_back QUEUE_SIZE {| q_press := press; q_coord := c; q_since := 0 |} (queue l) in
    let l := set_queue q l in
    match ov with
    | None => Ok (l, CNone)
    | Some overflow =>
      (* for i in -1..EXTRA_WAITING_LEN: waiting_into_hold(i), results dropped *)
      l <- (fix go (n : nat) (idx : Z) (l : layout) : outcome layout :=
              match n with
              | O => Ok l
              | S n' => '(l', _) <- waiting_into_hold l idx ;; go n' (idx + 1)%Z l'
              end) (S EXTRA_WAITING_LEN) (-1)%Z l ;;
      '(l, _) <- dequeue l overflow ;;
      Ok (l, CNone)
    end.

  (* the `Some(overflow)` branch of Layout::event, for an element pushed out of the chords-v2 queue *)
  Definition overflow_body (l : layout) (overflow : queued) : outcome (layout * cev) :=
    l <- (fix go (n : nat) (idx : Z) (l : layout) : outcome layout :=
            match n with
            | O => Ok l
            | S n' => '(l', _) <- waiting_into_hold l idx ;; go n' (idx + 1)%Z l'
            end) (S EXTRA_WAITING_LEN) (-1)%Z l ;;
    '(l, _) <- dequeue l overflow ;;
    Ok (l, CNone).

  Definition set_rpt (a : action) (l : layout) : layout := set_rpt_action (Some a) l.

  (* the rpt_multikey_key_buffer dance shared by KeyCode and MultipleKeyCodes *)
  Definition key_rpt_update (action : action) (new_keys : list N) (is_oneshot : bool) (c : coord) (l : layout) : layout :=
    let '(l, oneshot_coords) := if is_oneshot then (l, []) else os_press_l (OSOther c) l in
    match oneshot_coords with
    | [] => set_rpt action l
    | _ =>
      let buf := firstn RPT_BUFCAP (filter_map (keycode_in_coords oneshot_coords) (states l) ++ new_keys) in
      set_rpt (MultipleKeyCodes buf) l
    end.

  Definition do_action_body (l : layout) (action0 : action) (c : coord) (delay : N) (is_oneshot : bool)
             (ls0 : list N) : outcome (layout * cev) :=
    '(action, ls) <- match action0 with
                     | Trans => resolve_coord cfg c ls0
                     | _ => Ok (action0, ls0)
                     end ;;
    let l := if coord_eqb (lpt_coord l) c then l else set_lpt_timeout 0 l in
    let l := set_states (filter (fun s => negb (st_clear_on_next_action s)) (states l)) l in
    match action with
    | NoOp =>
      let l := if negb is_oneshot && negb (coord_eqb c TRIGGER_TAPHOLD_COORD)
               then fst (os_press_l (OSOther c) l) else l in
      Ok (set_rpt action l, CNone)
    | Src =>
      a <- row_get (src_keys cfg) (snd c) ;;
      '(l, _) <- doact l a c delay is_oneshot [] ;;
      Ok (l, CNone)
    | Trans => Panic "unreachable: Trans action should have been resolved earlier"
    | Repeat =>
      (* `self.rpt_action.take()`, restored afterwards unless the repeated action set a new one *)
      match rpt_action l with
      | Some ac =>
        '(l, _) <- doact (set_rpt_action None l) ac c delay is_oneshot [] ;;
        Ok (match rpt_action l with None => set_rpt_action (Some ac) l | Some _ => l end, CNone)
      | None => Ok (l, CNone)
      end
    | HoldTap timeout hold tap timeout_ac htc interval =>
      if (interval =? 0) || negb (coord_eqb c (lpt_coord l)) || (lpt_timeout l =? 0) then
        let w := mk_waiting c (if quick_tap_hold cfg then sat_sub timeout delay else timeout)
                            (if quick_tap_hold cfg then 0 else delay) hold tap timeout_ac (WHoldTap htc) ls in
        let l := match waiting_ l with
                 | Some _ => set_extra_waiting (fst (wdeque_push_back EXTRA_WAITING_LEN w (extra_waiting l))) l
                 | None => set_waiting_ (Some w) l
                 end in
        let l := set_lpt_timeout interval l in
        Ok (lpt_update_coord c l, CNone)
      else
        let l := set_lpt_timeout 0 l in
        '(l, cu) <- doact l tap c delay is_oneshot ls ;;
        Ok (lpt_update_coord c l, cev_update CNone cu)
    | OneShot inner timeout e =>
      let l := lpt_update_coord c l in
      '(l, cu) <- doact l inner c delay true [] ;;
      let l := set_rpt action l in
      let l := fst (os_press_l (OSKey c) l) in
      let o := set_os_end_config e (set_os_timeout timeout (oneshot l)) in
      let '(ks, ov) := wdeque_push_back ONE_SHOT_MAX_ACTIVE c (os_keys o) in
      let l := set_oneshot (set_os_keys ks o) l in
      match ov with
      | Some oc => '(l, _) <- rec l (CEvent false oc) ;; Ok (l, cu)
      | None => Ok (l, cu)
      end
    | OneShotIgnoreEventsTicks t =>
      let l := set_rpt action (lpt_update_coord c l) in
      Ok (set_oneshot (set_os_ignore_ticks t (oneshot l)) l, CNone)
    | TapDance acs timeout eager =>
      let l := lpt_update_coord c l in
      if negb eager then
        Ok (set_waiting_ (Some (mk_waiting c timeout delay NoOp NoOp NoOp (WTapDance acs timeout 1) ls)) l, CNone)
      else
        let fresh := {| tde_coord := c; tde_actions := acs; tde_timeout := timeout;
                        tde_orig_timeout := timeout; tde_num_taps := 1 |} in
        let l := match tap_dance_eager l with
                 | None => set_tap_dance_eager (Some fresh) l
                 | Some t => if coord_eqb (tde_coord t) c then l else set_tap_dance_eager (Some fresh) l
                 end in
        match acs with
        | [] => Panic "index out of bounds: tap-dance actions[0]"
        | a0 :: _ => '(l, _) <- doact l a0 c delay false ls ;; Ok (l, CNone)
        end
    | Chords coords chords timeout =>
      let l := lpt_update_coord c l in
      let g := {| cg_coords := coords; cg_chords := chords; cg_timeout := timeout |} in
      Ok (set_waiting_ (Some (mk_waiting c timeout delay NoOp NoOp NoOp (WChord g) ls)) l, CNone)
    | KeyCode k =>
      let l := lpt_update_coord c l in
      let l := set_hist_keys (hist_push_front k (hist_keys l)) l in
      let l := set_states (fst (states_push (NormalKey k c 0) (states l))) l in
      Ok (key_rpt_update action [k] is_oneshot c l, CNone)
    | MultipleKeyCodes ks =>
      let l := lpt_update_coord c l in
      let fl := if is_oneshot then 0 else NKF_CLEAR_ON_NEXT_ACTION in
      let l := fold_left (fun l k =>
                 set_states (fst (states_push (NormalKey k c fl) (states l)))
                            (set_hist_keys (hist_push_front k (hist_keys l)) l)) ks l in
      Ok (key_rpt_update action ks is_oneshot c l, CNone)
    | MultipleActions acs =>
      let l := lpt_update_coord c l in
      '(l, cu) <- doact_list l acs c delay is_oneshot ls CNone ;;
      Ok (set_rpt action l, cu)
    | Sequence evs =>
      let l := push_sequence (new_seq evs) l in
      Ok (set_rpt action (os_other_unless is_oneshot c l), CNone)
    | RepeatableSequence evs =>
      let l := push_sequence (new_seq evs) l in
      let l := set_states (fst (states_push (RepeatingSequence evs c) (states l))) l in
      Ok (set_rpt action (os_other_unless is_oneshot c l), CNone)
    | CancelSequences =>
      let l := set_active_sequences [] l in
      let l := set_states (filter (fun s => match s with FakeKey _ => false | _ => true end) (states l)) l in
      Ok (set_rpt action (os_other_unless is_oneshot c l), CNone)
    | Layer v =>
      let l := lpt_update_coord c l in
      let l := set_states (fst (states_push (LayerModifier v c) (states l))) l in
      Ok (os_other_unless is_oneshot c l, CNone)
    | DefaultLayer v =>
      let l := lpt_update_coord c l in
      let l := if v <? N.of_nat (length (layers cfg)) then set_default_layer v l else l in
      Ok (os_other_unless is_oneshot c l, CNone)
    | Custom v =>
      let l := lpt_update_coord c l in
      let l := set_rpt action (os_other_unless is_oneshot c l) in
      let '(sts, ok) := states_push (CustomSt v c) (states l) in
      if ok then Ok (set_states sts l, CPress v) else Ok (l, CNone)
    | ReleaseKey k =>
      let l := set_states (filter (fun s => match s with
                                            | NormalKey k1 _ _ | FakeKey k1 => negb (k1 =? k)
                                            | _ => true end) (states l)) l in
      Ok (set_rpt action (os_other_unless is_oneshot c l), CNone)
    | ReleaseLayer ly =>
      let l := set_states (filter (fun s => match s with
                                            | LayerModifier l1 _ => negb (l1 =? ly)
                                            | _ => true end) (states l)) l in
      Ok (set_rpt action (os_other_unless is_oneshot c l), CNone)
    | Fork fleft fright triggers =>
      let trig := existsb (fun s => match s with
                                    | NormalKey k _ _ | FakeKey k => mem_n k triggers
                                    | _ => false end) (states l) in
      '(l, cu) <- doact l (if trig then fright else fleft) c delay false ls ;;
      Ok (set_rpt action l, cu)
    | Switch cases =>
      lo <- trans_order cfg l ;;
      let env := {| e_keys := keycodes l; e_coords := filter_map st_coord (states l);
                    e_hkeys := hist_keys l; e_hinputs := hist_inputs l; e_layers := lo;
                    e_default := default_layer l |} in
      acs <- switch_actions cases env ;;
      let aq := fold_left (fun aq a => fst (wdeque_push_back ACTION_QUEUE_LEN (c, 0, a) aq)) acs (action_queue l) in
      Ok (set_action_queue aq l, CNone)
    end.

  Definition body (l : layout) (k : call) : outcome (layout * cev) :=
    match k with
    | CDoAction a c d os ls => do_action_body l a c d os ls
    | CEvent p c => event_body l p c
    | COverflow ov => overflow_body l ov
    end.
End Body.

Fixpoint exec (cfg : lcfg) (fuel : nat) (l : layout) (k : call) : outcome (layout * cev) :=
  match fuel with
  | O => OutOfFuel
  | S f => body cfg (exec cfg f) l k
  end.

(* recursion budget of one external call; the Rust stack overflows long before this depth *)
Definition FUEL : nat := 400.

Definition layout_event (cfg : lcfg) (l : layout) (press : bool) (c : coord) : outcome layout :=
  '(l', _) <- exec cfg FUEL l (CEvent press c) ;; Ok l'.

(* ------------------------------------------------------------------ tick *)
Section Tick.
  Variable cfg : lcfg.
  Let rec_ := exec cfg FUEL.

  (* process_sequences: one step of one sequence, effects on the layout *)
  Definition seq_step (l : layout) (s : seq_state) : layout * seq_state :=
    if 0 <? ss_delay s then (l, set_ss_delay (ss_delay s - 1) s)
    else match ss_tapped s with
    | Some kc => (set_states (seq_release kc (states l)) l, set_ss_tapped None s)
    | None =>
      let s := match ss_remaining s with
               | e :: t => set_ss_remaining t (set_ss_cur (Some e) s)
               | [] => s
               end in
      match ss_cur s with
      | Some SComplete => (l, set_ss_remaining [] s)
      | Some (SPress kc) =>
        let l := set_states (fst (states_push (FakeKey kc) (states l))) l in
        let l := set_hist_keys (hist_push_front kc (hist_keys l)) l in
        (fst (os_press_l (OSOther (0, 0)) l), s)
      | Some (STap kc) =>
        let l := set_states (fst (states_push (FakeKey kc) (states l))) l in
        let l := set_hist_keys (hist_push_front kc (hist_keys l)) l in
        (fst (os_press_l (OSOther (0, 0)) l), set_ss_tapped (Some kc) s)
      | Some (SRelease kc) =>
        let '(o, _, _) := os_handle_release (oneshot l) (0, 0) in
        let l := set_oneshot o l in
        (set_states (seq_release kc (states l)) l, s)
      | Some (SDelay d) => (l, if 0 <? d then set_ss_delay (d - 1) s else s)
      | Some (SCustom cu) => (set_states (fst (states_push (SeqCustomPending cu) (states l))) l, s)
      | _ => (l, s)
      end
    end.

  Definition process_sequences (l : layout) : layout :=
    let '(l, kept) :=
      fold_left (fun (acc : layout * list seq_state) s =>
                   let '(l, kept) := acc in
                   let '(l', s') := seq_step l s in
                   (l', match ss_remaining s' with [] => kept | _ => kept ++ [s'] end))
                (active_sequences l) (l, []) in
    let l := set_active_sequences kept l in
    match kept with
    | _ :: _ => l
    | [] =>
      match find (fun s => match s with RepeatingSequence _ _ => true | _ => false end) (rev (states l)) with
      | Some (RepeatingSequence evs _) => set_active_sequences [new_seq evs] l
      | _ => l
      end
    end.

  (* process_extra_waitings *)
  Fixpoint extra_tick_loop (ws : list waiting) (idx : Z) (q : list queued) (aq : list (coord * N * action))
    : outcome (list waiting * list queued * list (coord * N * action) * option (Z * (waction * option (list coord)))) :=
    match ws with
    | [] => Ok ([], q, aq, None)
    | w :: t =>
      '(w', q', aq', r) <- tick_wt w q aq ;;
      match r with
      | Some wa => Ok (w' :: t, q', aq', Some (idx, wa))
      | None =>
        '(t', q2, aq2, r2) <- extra_tick_loop t (idx + 1)%Z q' aq' ;;
        Ok (w' :: t', q2, aq2, r2)
      end
    end.

  Definition process_extra_waitings (l : layout) (cu : cev) : outcome (layout * cev) :=
    match cu with
    | CNone =>
      '(ws, q, aq, r) <- extra_tick_loop (extra_waiting l) 0%Z (queue l) (action_queue l) ;;
      let l := set_action_queue aq (set_queue q (set_extra_waiting ws l)) in
      match r with
      | Some (i, wa) => do_waction rec_ l wa i
      | None => Ok (l, cu)
      end
    | _ => Ok (l, cu)
    end.

  Fixpoint seq_custom_scan (sts : list kstate) : list kstate * option cev :=
    match sts with
    | [] => ([], None)
    | SeqCustomPending cu :: t => (SeqCustomActive cu :: t, Some (CPress cu))
    | SeqCustomActive cu :: t => (Tombstone :: t, Some (CRelease cu))
    | s :: t => let '(r, e) := seq_custom_scan t in (s :: r, e)
    end.

  Definition process_sequence_custom (l : layout) (cu : cev) : layout * cev :=
    match states l, cu with
    | [], _ => (l, cu)
    | _, CNone =>
      let sts := filter (fun s => match s with Tombstone => false | _ => true end) (states l) in
      let '(sts', e) := seq_custom_scan sts in
      (set_states sts' l, match e with Some e => cev_update cu e | None => cu end)
    | _, _ => (l, cu)
    end.

  Fixpoint dequeue_releases (l : layout) (ks : list coord) (cu : cev) : outcome (layout * cev) :=
    match ks with
    | [] => Ok (l, cu)
    | k :: t =>
      '(l', e) <- dequeue cfg rec_ l {| q_press := false; q_coord := k; q_since := 0 |} ;;
      dequeue_releases l' t (cev_update cu e)
    end.

  (* Layout::tick (chords v2 absent) *)
  Definition layout_tick (l : layout) : outcome (layout * cev) :=
    match action_queue l with
    | (c, delay, a) :: rest =>
      lo <- trans_order cfg l ;;
      rec_ (set_action_queue rest l) (CDoAction a c delay false (tl lo))
    | [] =>
      let l := set_queue (map (fun q => {| q_press := q_press q; q_coord := q_coord q;
                                           q_since := sat_add16 (q_since q) 1 |}) (queue l)) l in
      let l := set_lpt_timeout (sat_sub (lpt_timeout l) 1) l in
      let l := match tap_dance_eager l with
               | Some t =>
                 let t := set_tde_timeout (sat_sub (tde_timeout t) 1) t in
                 if (tde_timeout t =? 0) || (N.of_nat (length (tde_actions t)) <=? tde_num_taps t)
                 then set_tap_dance_eager None l else set_tap_dance_eager (Some t) l
               | None => l
               end in
      let l := process_sequences l in
      let l := set_hist_inputs (hist_tick (hist_inputs l)) (set_hist_keys (hist_tick (hist_keys l)) l) in
      let '(o, released) := os_tick (oneshot l) in
      let l := set_oneshot o l in
      '(l, cu) <- match released with
                  | Some ks => dequeue_releases l ks CNone
                  | None => Ok (l, CNone)
                  end ;;
      '(l, e) <- match waiting_ l with
                 | Some w =>
                   '(w', q', aq', r) <- tick_wt w (queue l) (action_queue l) ;;
                   let l := set_action_queue aq' (set_queue q' (set_waiting_ (Some w') l)) in
                   match r with
                   | Some wa => do_waction rec_ l wa (-1)%Z
                   | None => Ok (l, CNone)
                   end
                 | None =>
                   match extra_waiting l with
                   | [] =>
                     if 0 <? os_pause_ticks (oneshot l) then
                       Ok (set_oneshot (set_os_pause_ticks (sat_sub (os_pause_ticks (oneshot l)) 1) (oneshot l)) l, CNone)
                     else match queue l with
                          | s :: t => dequeue cfg rec_ (set_queue t l) s
                          | [] => Ok (l, CNone)
                          end
                   | _ => Ok (l, CNone)
                   end
                 end ;;
      let cu := cev_update cu e in
      '(l, cu) <- process_extra_waitings l cu ;;
      Ok (process_sequence_custom l cu)
    end.
End Tick.

(* ------------------------------------------------------------------ chords v2 in front of the layout *)
(* Layout::event with chords_v2 configured: the event goes to the chord queue first *)
Definition layout_event2 (cfg : lcfg) (l : layout) (press : bool) (c : coord) : outcome layout :=
  match chords2 l with
  | None => layout_event cfg l press c
  | Some ch =>
      let l := if press then set_hist_inputs (hist_push_front c (hist_inputs l)) l else l in
      let '(q, ov) := wdeque_push_back QUEUE_SIZE {| q_press := press; q_coord := c; q_since := 0 |} (cv_queue ch) in
      let l := set_chords2 (Some (set_cv_queue q ch)) l in
      match ov with
      | None => Ok l
      | Some overflow => '(l', _) <- exec cfg FUEL l (COverflow overflow) ;; Ok l'
      end
  end.

(* the first lines of Layout::tick: drain the chord machinery into the queue, queue a completed chord's action *)
Definition chv2_pre (l : layout) : outcome layout :=
  match chords2 l with
  | None => Ok l
  | Some ch =>
      '(ch1, drained) <- tick_chv2 ch (current_layer l) ;;
      let l := set_queue (wdeque_extend QUEUE_SIZE drained (queue l)) l in
      let '(ch2, act) := get_action_chv2 ch1 in
      let l := set_chords2 (Some ch2) l in
      match act with
      | Some qa =>
          let o := oneshot l in
          Ok (set_oneshot (set_os_pause_ticks (os_pause_delay o) o)
                (set_action_queue (fst (wdeque_push_back ACTION_QUEUE_LEN qa (action_queue l))) l))
      | None => Ok l
      end
  end.
Definition layout_tick2 (cfg : lcfg) (l : layout) : outcome (layout * cev) :=
  l' <- chv2_pre l ;; layout_tick cfg l'.

Definition init_oneshot (pause_delay : N) : oneshot_state :=
  {| os_keys := []; os_released := []; os_other := []; os_timeout := 0; os_end_config := EndOnFirstPress;
     os_release_next := false; os_pause_delay := pause_delay; os_pause_ticks := 0; os_ignore_ticks := 0 |}.

Definition init_layout (pause_delay : N) : layout :=
  {| states := []; waiting_ := None; extra_waiting := []; tap_dance_eager := None; queue := [];
     oneshot := init_oneshot pause_delay; lpt_coord := (0, 0); lpt_timeout := 0; active_sequences := [];
     action_queue := []; rpt_action := None; hist_keys := []; hist_inputs := []; default_layer := 0; chords2 := None |}.
