(* Model of keyberon/src/action/switch.rs: opcode decoding, evaluate_boolean (explicit frame stack,
   short-circuit jumps, final unwinding), the SwitchActions iterator.  No proofs. *)
From KV Require Export Keyberon.Types.

Definition KEY_MAX_KB : N := 850.          (* keyberon::key_code::KEY_MAX; cross-checked in Gen *)
Definition MAX_OPCODE_LEN : N := 4095.     (* 0x0FFF *)
Definition MAX_BOOL_EXPR_DEPTH : nat := 8.
Definition OR_VAL : N := 4096.             (* 0x1000 *)
Definition AND_VAL : N := 8192.            (* 0x2000 *)
Definition NOT_VAL : N := 12288.           (* 0x3000 *)
Definition INPUT_VAL : N := 851.
Definition HISTORICAL_INPUT_VAL : N := 852.
Definition LAYER_VAL : N := 853.
Definition BASE_LAYER_VAL : N := 854.
Definition TICKS_SINCE_VAL_GT : N := 16384.   (* 0x4000 *)
Definition TICKS_SINCE_VAL_LT : N := 24576.   (* 0x6000 *)
Definition HISTORICAL_KEYCODE_VAL : N := 32768. (* 0x8000 *)

Inductive bop := BOr | BAnd | BNot.
Definition bop_eqb (a b : bop) : bool :=
  match a, b with BOr, BOr | BAnd, BAnd | BNot, BNot => true | _, _ => false end.

Inductive optype :=
| OTBool (op : bop) (idx : N)
| OTKey (kc : N)
| OTHistKey (kc back : N)
| OTInput (c : coord)
| OTHistInput (c : coord) (back : N)
| OTLt (nth t : N)
| OTGt (nth t : N)
| OTLayer (l : N)
| OTBaseLayer (l : N).

Definition lossy_compress_ticks (t : N) : N :=
  if t <=? 255 then t
  else if t <=? 2303 then (t - 255) / 8 + 255
  else (t - 2303) / 128 + 511.

Definition lossy_decompress_ticks (t : N) : N :=
  if t <=? 255 then t
  else if t <=? 511 then (t - 255) * 8 + 255
  else (t - 511) * 128 + 2303.

(* OpCode::opcode_type *)
Definition opcode_type (v : N) (next : option N) : outcome optype :=
  if v <? KEY_MAX_KB then Ok (OTKey v)
  else if v <=? MAX_OPCODE_LEN then
    match next with
    | None => Panic "switch: 2-word opcode without operand"
    | Some op2 =>
      let c := (N.land (N.shiftr op2 14) 3, N.land op2 1023) in
      if v =? INPUT_VAL then Ok (OTInput c)
      else if v =? HISTORICAL_INPUT_VAL then Ok (OTHistInput c (N.land (N.shiftr op2 11) 7))
      else if v =? LAYER_VAL then Ok (OTLayer op2)
      else if v =? BASE_LAYER_VAL then Ok (OTBaseLayer op2)
      else Panic "switch: unexpected opcode"
    end
  else
    let hi := N.land v 57344 (* 0xE000 *) in
    if hi =? TICKS_SINCE_VAL_LT then
      Ok (OTLt (N.shiftr (N.land v 7168) 10) (lossy_decompress_ticks (N.land v 1023)))
    else if hi =? TICKS_SINCE_VAL_GT then
      Ok (OTGt (N.shiftr (N.land v 7168) 10) (lossy_decompress_ticks (N.land v 1023)))
    else if 32768 <=? hi then
      Ok (OTHistKey (N.land v 4095) (N.shiftr (N.land v 28672) 12))
    else
      let opm := N.land v 61440 (* OP_MASK 0xF000 *) in
      let idx := N.land v MAX_OPCODE_LEN in
      if opm =? OR_VAL then Ok (OTBool BOr idx)
      else if opm =? AND_VAL then Ok (OTBool BAnd idx)
      else if opm =? NOT_VAL then Ok (OTBool BNot idx)
      else Panic "switch: bad boolean operator".

Record sw_env := {
  e_keys : list N;               (* active key codes *)
  e_coords : list coord;         (* active input coordinates *)
  e_hkeys : list (N * N);        (* historical keys (code, ticks since), most recent first *)
  e_hinputs : list (coord * N);
  e_layers : list N;             (* trans-resolution layer order; head = active layer *)
  e_default : N }.

Definition eval_leaf (env : sw_env) (t : optype) : bool :=
  match t with
  | OTKey kc => mem_n kc (e_keys env)
  | OTHistKey kc back =>
      match nth_error (e_hkeys env) (N.to_nat back) with
      | Some (k, _) => k =? kc | None => false end
  | OTLt nth t =>
      match nth_error (e_hkeys env) (N.to_nat nth) with
      | Some (_, since) => since <=? t | None => false end
  | OTGt nth t =>
      match nth_error (e_hkeys env) (N.to_nat nth) with
      | Some (_, since) => t <? since | None => false end
  | OTInput c => mem_coord c (e_coords env)
  | OTHistInput c back =>
      match nth_error (e_hinputs env) (N.to_nat back) with
      | Some (c', _) => coord_eqb c' c | None => false end
  | OTLayer l => match e_layers env with l' :: _ => l' =? l | [] => false end
  | OTBaseLayer l => e_default env =? l
  | OTBool _ _ => false
  end.

Definition leaf_width (t : optype) : nat :=
  match t with
  | OTInput _ | OTHistInput _ _ | OTLayer _ | OTBaseLayer _ => 2
  | _ => 1
  end.

Definition neg_if_not (o : bop) (b : bool) : bool := match o with BNot => negb b | _ => b end.
(* short-circuit test after a leaf (ret already negated for Not): (true, Or) | (false, And | Not) *)
Definition sc_leaf (r : bool) (o : bop) : bool := match o with BOr => r | _ => negb r end.
(* short-circuit test when a finished nested list is popped: (true, Or | Not) | (false, And) *)
Definition sc_pop (r : bool) (o : bop) : bool := match o with BAnd => negb r | _ => r end.
(* final unwinding: one flip per pending Not *)
Definition unwind (st : list (bop * nat)) (r : bool) : bool :=
  fold_left (fun r fr => neg_if_not (fst fr) r) st r.

(* evaluate_boolean.  [st] head = top of the stack.  One loop iteration per fuel unit.
   Indices are usize in the Rust; nat here (they are bounded by the opcode length <= 4095). *)
Fixpoint eval_loop (fuel : nat) (code : list N) (env : sw_env)
         (ret : bool) (i endi : nat) (op : bop) (st : list (bop * nat)) : outcome bool :=
  if Nat.ltb i (length code) then
    match fuel with
    | O => OutOfFuel
    | S f =>
      if Nat.leb endi i then
        match st with
        | [] => Ok ret                                        (* `None => break` *)
        | (o, e) :: st' =>
          if sc_pop ret o || Nat.leb e i
          then eval_loop f code env (neg_if_not o ret) e e o st'
          else eval_loop f code env ret i e o st'
        end
      else
        match nth_error code i with
        | None => Panic "switch: index out of bounds"
        | Some v =>
          ot <- opcode_type v (nth_error code (S i)) ;;
          match ot with
          | OTBool o2 e2 =>
              if Nat.ltb (length st) MAX_BOOL_EXPR_DEPTH
              then eval_loop f code env ret (S i) (N.to_nat e2) o2 ((op, endi) :: st)
              else Panic "exceeded boolean op depth"
          | leaf =>
              let r := neg_if_not op (eval_leaf env leaf) in
              if sc_leaf r op then eval_loop f code env r endi endi op st
              else eval_loop f code env r (i + leaf_width leaf) endi op st
          end
        end
    end
  else Ok (unwind st ret).

Definition evaluate_boolean (code : list N) (env : sw_env) : outcome bool :=
  eval_loop (2 * length code + 16) code env true 0 (length code) BOr [].

(* SwitchActions iterator, collected: the actions of the firing cases up to the first firing break *)
Fixpoint switch_actions (cases : list (list N * action * bool)) (env : sw_env) : outcome (list action) :=
  match cases with
  | [] => Ok []
  | (code, ac, brk) :: rest =>
      b <- evaluate_boolean code env ;;
      if b then
        if brk then Ok [ac]
        else (acs <- switch_actions rest env ;; Ok (ac :: acs))
      else switch_actions rest env
  end.
