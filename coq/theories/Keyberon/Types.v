(* Data types of the keyberon layout model: one constructor per Rust variant
   (keyberon/src/action.rs, keyberon/src/layout.rs).  No proofs. *)
From KV Require Export Base.Prelude.

Inductive seq_ev :=
| SNoOp | SPress (k : N) | SRelease (k : N) | STap (k : N) | SDelay (d : N) | SCustom (c : N) | SComplete.

(* HoldTapConfig; Custom(closure) only ever holds one of the two closures of
   parser/src/cfg/custom_tap_hold.rs, written out as data *)
Inductive ht_cfg :=
| HTDefault | HTHoldOnOtherKeyPress | HTPermissiveHold
| HTReleaseKeys (ks : list N)    (* custom_tap_hold_release *)
| HTExceptKeys (ks : list N).    (* custom_tap_hold_except *)

Inductive os_end := EndOnFirstPress | EndOnFirstPressOrRepress | EndOnFirstRelease | EndOnFirstReleaseOrRepress.

Inductive action :=
| NoOp | Trans
| KeyCode (k : N)
| MultipleKeyCodes (ks : list N)
| MultipleActions (acs : list action)
| Layer (l : N) | DefaultLayer (l : N)
| Sequence (evs : list seq_ev) | RepeatableSequence (evs : list seq_ev)
| CancelSequences
| ReleaseKey (k : N) | ReleaseLayer (l : N)                       (* ReleaseState(KeyCode|Layer) *)
| HoldTap (timeout : N) (hold tap timeout_ac : action) (cfg : ht_cfg) (tap_hold_interval : N)
| Custom (id : N)                                                (* index into the custom-action table *)
| OneShot (ac : action) (timeout : N) (e : os_end)
| OneShotIgnoreEventsTicks (t : N)
| TapDance (acs : list action) (timeout : N) (eager : bool)
| Chords (coords : list (coord * N)) (chords : list (N * action)) (timeout : N)   (* ChordsGroup inlined *)
| Repeat
| Fork (left right : action) (triggers : list N)
| Switch (cases : list (list N * action * bool))                 (* raw u16 opcodes, action, break? *)
| Src.

Inductive cev := CNone | CPress (id : N) | CRelease (id : N).     (* CustomEvent *)
(* CustomEvent::update: NoEvent < Press < Release, first Release wins *)
Definition cev_update (self e : cev) : cev :=
  match e, self with
  | CRelease _, CNone | CRelease _, CPress _ => e
  | CPress _, CNone => e
  | _, _ => self
  end.

Definition NKF_CLEAR_ON_NEXT_ACTION : N := 1.
Definition NKF_CLEAR_ON_NEXT_RELEASE : N := 2.

Inductive kstate :=
| NormalKey (k : N) (c : coord) (flags : N)
| LayerModifier (l : N) (c : coord)
| CustomSt (id : N) (c : coord)
| FakeKey (k : N)
| RepeatingSequence (evs : list seq_ev) (c : coord)
| SeqCustomPending (id : N)
| SeqCustomActive (id : N)
| Tombstone.

Record queued := { q_press : bool; q_coord : coord; q_since : N }.

Record chord_group := { cg_coords : list (coord * N); cg_chords : list (N * action); cg_timeout : N }.

Inductive wcfg :=
| WHoldTap (c : ht_cfg)
| WTapDance (acs : list action) (td_timeout num_taps : N)
| WChord (g : chord_group).

Record waiting := {
  w_coord : coord; w_timeout : N; w_delay : N; w_ticks : N;
  w_hold : action; w_tap : action; w_timeout_ac : action;
  w_cfg : wcfg; w_layer_stack : list N; w_prev_queue_len : N }.

Inductive waction := WAHold | WATap | WATimeout | WANoOp.

Record tde_state := { tde_coord : coord; tde_actions : list action; tde_timeout : N;
                      tde_orig_timeout : N; tde_num_taps : N }.

Record oneshot_state := {
  os_keys : list coord; os_released : list coord; os_other : list coord;
  os_timeout : N; os_end_config : os_end; os_release_next : bool;
  os_pause_delay : N; os_pause_ticks : N; os_ignore_ticks : N }.

Record seq_state := { ss_cur : option seq_ev; ss_delay : N; ss_tapped : option N; ss_remaining : list seq_ev }.

(* chords v2 (keyberon/src/chord.rs): configuration and state; the functions are in Keyberon/ChordsV2.v *)
Record chordv2 := mkchord2 {
  c2_action : action;
  c2_keys : list N;
  c2_pending : N;
  c2_disabled : list N;
  c2_first_release : bool }.     (* ReleaseBehaviour::OnFirstRelease *)

Inductive ach_status := AUnread | AUnreadReleased | AReleasable | AReleased.
Record active_chord := mkach {
  ac_coord : N; ac_remaining : list N; ac_keys : list N; ac_action : action; ac_status : ach_status; ac_delay : N }.

Record chv2 := mkchv2 {
  cv_chords : list chordv2;            (* configuration: every chord; a key's candidates are those containing it *)
  cv_queue : list queued;
  cv_active : list active_chord;       (* heapless Vec, capacity 10 *)
  cv_ignore : N;                       (* ticks_to_ignore_chord *)
  cv_cfg_ignore : N;
  cv_until_change : N;
  cv_prev_layer : N;
  cv_prev_qlen : N;
  cv_next_coord : N }.

Record layout := {
  states : list kstate;
  waiting_ : option waiting;
  extra_waiting : list waiting;
  tap_dance_eager : option tde_state;
  queue : list queued;
  oneshot : oneshot_state;
  lpt_coord : coord; lpt_timeout : N;                 (* LastPressTracker *)
  active_sequences : list seq_state;
  action_queue : list (coord * N * action);
  rpt_action : option action;
  hist_keys : list (N * N);                           (* (keycode, ticks since), most recent first *)
  hist_inputs : list (coord * N);
  default_layer : N;
  chords2 : option chv2 }.

(* one layer = two rows (real keys, virtual keys); a row is sparse: explicit cells over a default *)
Inductive rdefault := RDConst (a : action) | RDIdentKey.   (* RDIdentKey: cell y defaults to KeyCode y *)
Record row := { r_len : N; r_default : rdefault; r_cells : list (N * action) }.
Record lcfg := {
  layers : list (row * row);
  src_keys : row;
  trans_v2 : bool; delegate_first : bool; quick_tap_hold : bool }.

(* capacities (checked against the source by Gen/Consts.v) *)
Definition QUEUE_SIZE : nat := 32.
Definition ACTION_QUEUE_LEN : nat := 8.
Definition HISTORICAL_EVENT_LEN : nat := 8.
Definition EXTRA_WAITING_LEN : nat := 8.
Definition STATES_CAP : nat := 64.
Definition ACTIVE_SEQ_CAP : nat := 4.
Definition ONE_SHOT_MAX_ACTIVE : nat := 16.
Definition MAX_ACTIVE_LAYERS : nat := 12.
Definition RPT_BUFCAP : nat := 20.
Definition QUEUE_LEN_MAX : N := 255.   (* QueueLen::MAX *)
