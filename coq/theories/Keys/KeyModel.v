(* Model of kanata's key-identity functions over the regenerated tables (Gen/KeyTables.v).
   Every function is first written over arbitrary tables (suffix _g), then instantiated.
   No proofs here. *)
From Coq Require Import List NArith String Bool.
From KV Require Import Gen.KeyTables.
Import ListNotations.
Open Scope N_scope.

Fixpoint assoc_s {B} (k : string) (l : list (string * B)) : option B :=
  match l with
  | [] => None
  | (k', v) :: tl => if String.eqb k k' then Some v else assoc_s k tl
  end.

Fixpoint assoc_n {B} (k : N) (l : list (N * B)) : option B :=
  match l with
  | [] => None
  | (k', v) :: tl => if N.eqb k k' then Some v else assoc_n k tl
  end.

(* first variant carrying discriminant d *)
Fixpoint variant_of {A} (d : N) (l : list (A * N)) : option A :=
  match l with
  | [] => None
  | (v, d') :: tl => if N.eqb d d' then Some v else variant_of d tl
  end.

(* a transmute between two repr(u16) enums: defined iff the discriminant exists on the other
   side, and then it is the variant with the same discriminant *)
Definition transmute_g (from to : list (string * N)) (v : string) : option string :=
  match assoc_s v from with Some d => variant_of d to | None => None end.

(* str_to_oscode with the default custom map: DEFAULT_MAPPINGS first, then the match arms in order *)
Definition str_to_oscode_g (defaults arms : list (string * string)) (s : string) : option string :=
  match assoc_s s defaults with
  | Some v => Some v
  | None => assoc_s s arms
  end.

Definition out_filter_g (lo hi code : N) : list N :=
  if (lo <=? code) && (code <=? hi) then [] else [code].

Fixpoint nodup_n (l : list N) : bool :=
  match l with
  | [] => true
  | x :: tl => negb (existsb (N.eqb x) tl) && nodup_n tl
  end.
Fixpoint nodup_s (l : list string) : bool :=
  match l with
  | [] => true
  | x :: tl => negb (existsb (String.eqb x) tl) && nodup_s tl
  end.
Definition subset_n (a b : list N) : bool := forallb (fun x => existsb (N.eqb x) b) a.

(* ---- boolean checkers (run by vm_compute on the regenerated tables) ---- *)
Definition chk_conv (from to : list (string * N)) : bool :=
  forallb (fun p => match transmute_g from to (fst p) with
                    | Some k => match assoc_s k to with Some d => N.eqb d (snd p) | None => false end
                    | None => false end) from.
Definition chk_from_as (tbl : list (N * string)) (discr : list (string * N)) : bool :=
  forallb (fun p => match assoc_s (snd p) discr with Some d => N.eqb d (fst p) | None => false end) tbl.
Definition chk_as_from (tbl : list (N * string)) (discr : list (string * N)) : bool :=
  forallb (fun p => match assoc_s (snd p) discr with
                    | Some d => match assoc_n d tbl with Some v' => String.eqb v' (snd p) | None => false end
                    | None => false end) tbl.
Definition chk_names (defaults arms : list (string * string)) (discr : list (string * N)) : bool :=
  forallb (fun p => match str_to_oscode_g defaults arms (fst p) with
                    | Some v => String.eqb v (snd p) | None => false end) (defaults ++ arms)
  && forallb (fun p => match assoc_s (snd p) discr with Some _ => true | None => false end)
             (defaults ++ arms).

(* ---- instances on the real tables ---- *)
Definition os_as_u16 (v : string) : option N := assoc_s v oscode_discr.     (* `self as u16` *)
Definition os_from_u16 (c : N) : option string := assoc_n c from_u16_linux_tbl.
Definition kc_as_u16 (v : string) : option N := assoc_s v keycode_discr.
Definition osc_to_kc : string -> option string := transmute_g oscode_discr keycode_discr.
Definition kc_to_osc : string -> option string := transmute_g keycode_discr oscode_discr.
Definition str_to_oscode : string -> option string := str_to_oscode_g default_key_names match_key_names.
Definition out_filter : N -> list N := out_filter_g KEY_IGNORE_MIN KEY_IGNORE_MAX.
