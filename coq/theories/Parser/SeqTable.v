(* Model of parser/src/cfg/mod.rs::parse_sequences after key-list encoding: expansion of O-(...)
   groups into all orderings and conflict-checked insertion into the prefix map.  No proofs. *)
From KV Require Export Kanata.SeqMode.

Inductive seq_err := ErrOverlapTooShort | ErrOverlapTooLong | ErrContainsEarlier | ErrContainedInEarlier.

(* all orderings of a list (n! lists, with multiplicity); the real parser uses Heap's algorithm,
   which enumerates the same multiset of lists *)
Fixpoint insert_everywhere {A} (x : A) (l : list A) : list (list A) :=
  match l with
  | [] => [[x]]
  | y :: t => (x :: y :: t) :: map (cons y) (insert_everywhere x t)
  end.
Fixpoint all_perms {A} (l : list A) : list (list A) :=
  match l with
  | [] => [[]]
  | x :: t => flat_map (insert_everywhere x) (all_perms t)
  end.

Definition is_marked (v : N) : bool := negb (N.land v KEY_OVERLAP_MARKER =? 0).

(* split off the values of one O-(...) group: up to (not including) the closing bare marker *)
Fixpoint take_group (vals : list N) : list N * list N :=
  match vals with
  | [] => ([], [])
  | v :: t => if v =? KEY_OVERLAP_MARKER then ([], t) else let '(g, r) := take_group t in (v :: g, r)
  end.

(* the `while let Some(val) = vals.next()` loop building the permutations *)
Fixpoint expand_groups (fuel : nat) (vals : list N) (perms : list (list N)) : (seq_err + list (list N))%type :=
  match fuel with
  | O => inr perms
  | S f =>
    match vals with
    | [] => inr perms
    | v :: t =>
      if negb (is_marked v) then expand_groups f t (map (fun p => p ++ [v]) perms)
      else if v =? KEY_OVERLAP_MARKER then inl ErrOverlapTooShort
      else
        let '(g, rest) := take_group t in
        let grp := v :: g in
        if Nat.ltb (length grp) 2 then inl ErrOverlapTooShort
        else if Nat.ltb 6 (length grp) then inl ErrOverlapTooLong
        else
          let ps := all_perms grp in
          expand_groups f rest (flat_map (fun p => map (fun p2 => p ++ p2 ++ [KEY_OVERLAP_MARKER]) ps) perms)
    end
  end.

Fixpoint insert_perms (t : trie) (v : coord) (ps : list (list N)) : (seq_err + trie)%type :=
  match ps with
  | [] => inr t
  | p :: rest =>
    if ancestor_exists t p then inl ErrContainsEarlier
    else if descendant_exists t p then inl ErrContainedInEarlier
    else insert_perms (t ++ [(p, v)]) v rest
  end.

(* one (virtual key, encoded key list) pair after the other *)
Fixpoint parse_sequences (defs : list (coord * list N)) (t : trie) : (seq_err + trie)%type :=
  match defs with
  | [] => inr t
  | (v, vals) :: rest =>
    match expand_groups (S (length vals)) vals [[]] with
    | inl e => inl e
    | inr ps =>
      match insert_perms t v ps with
      | inl e => inl e
      | inr t' => parse_sequences rest t'
      end
    end
  end.
