(* Model of parser/src/cfg/sexpr.rs: byte-level lexer with position counting, the explicit-stack list
   builder (parse_with / parse_), the Position / Span assertions, slicing at spans, lazy variable
   resolution (SExpr::atom / list), the self-reference rejection of parse_vars (parser/src/cfg/mod.rs)
   and Debug rendering of s-expressions.  Bytes are N < 256.  No proofs. *)
From KV Require Export Base.Prelude.

(* ---------- positions, spans (with the assertions of Position::new / Span::new / Span::cover) ---------- *)
Record pos := mkpos { p_abs : N; p_line : N; p_lb : N }.
Definition pos0 : pos := mkpos 0 0 0.
Definition pos_new (a ln lb : N) : outcome pos :=
  if negb (ln <=? a) then Panic "Position::new: line <= absolute"
  else if negb (lb <=? a) then Panic "Position::new: line_beginning <= absolute"
  else Ok (mkpos a ln lb).

(* file: 0 = the placeholder Span::default() (file name ""), 1 = the file being parsed *)
Record span := mkspan { s_start : pos; s_end : pos; s_file : N }.
Definition span_default : span := mkspan pos0 pos0 0.
Definition span_new (s e : pos) (f : N) : outcome span :=
  if negb (p_abs s <=? p_abs e) then Panic "Span::new: start.absolute <= end.absolute"
  else if negb (p_line s <=? p_line e) then Panic "Span::new: start.line <= end.line"
  else Ok (mkspan s e f).
Definition span_cover (a b : span) : outcome span :=
  if negb (s_file a =? s_file b) then Panic "Span::cover: same file"
  else
    let st := if p_abs (s_start a) <=? p_abs (s_start b) then s_start a else s_start b in
    let en := if p_abs (s_end b) <=? p_abs (s_end a) then s_end a else s_end b in
    span_new st en (s_file a).

(* ---------- PositionCountingBytesIterator ---------- *)
Record iter := mkit { i_rest : list N; i_abs : N; i_line : N; i_lb : N }.
Definition it_pos (it : iter) : outcome pos := pos_new (i_abs it) (i_line it) (i_lb it).
Definition it_step (b : N) (r : list N) (a ln lb : N) : iter :=
  if b =? 10 then mkit r (a + 1) (ln + 1) (a + 1) else mkit r (a + 1) ln lb.
Definition it_next (it : iter) : option (N * iter) :=
  match i_rest it with
  | [] => None
  | b :: r => Some (b, it_step b r (i_abs it) (i_line it) (i_lb it))
  end.

Fixpoint next_while_l (f : N -> bool) (r : list N) (a ln lb : N) : iter :=
  match r with
  | b :: r' =>
      if f b then
        (if b =? 10 then next_while_l f r' (a + 1) (ln + 1) (a + 1) else next_while_l f r' (a + 1) ln lb)
      else mkit r a ln lb
  | [] => mkit [] a ln lb
  end.
Definition next_while (f : N -> bool) (it : iter) : iter :=
  next_while_l f (i_rest it) (i_abs it) (i_line it) (i_lb it).

(* read_until_multiline_{string,comment}_end: looks for c1 c2; the loop consumes one byte per
   iteration while at least two remain.  [last]: consume the final byte when not found (the string
   variant since the fix; the comment variant does not). *)
Fixpoint read_until_l (c1 c2 : N) (last : bool) (r : list N) (a ln lb : N) : bool * iter :=
  match r with
  | b1 :: ((b2 :: r2) as tl) =>
      let i1 := it_step b1 tl a ln lb in
      if (b1 =? c1) && (b2 =? c2) then (true, it_step b2 r2 (i_abs i1) (i_line i1) (i_lb i1))
      else read_until_l c1 c2 last tl (i_abs i1) (i_line i1) (i_lb i1)
  | [b] => (false, if last then it_step b [] a ln lb else mkit r a ln lb)
  | [] => (false, mkit [] a ln lb)
  end.
Definition read_until (c1 c2 : N) (last : bool) (it : iter) : bool * iter :=
  read_until_l c1 c2 last (i_rest it) (i_abs it) (i_line it) (i_lb it).

(* ---------- lexer ---------- *)
Inductive tok := TOpen | TClose | TString | TBlockComment | TLineComment | TWhitespace.
Inductive lexerr := EUntermString | EUntermMultiString | EUntermComment.
Inductive rawres := RTok (t : tok) | RErr (e : lexerr).

Definition is_ws (b : N) : bool := (b =? 32) || (b =? 9) || (b =? 10) || (b =? 12) || (b =? 13).
Definition is_start (b : N) : bool := (b =? 40) || (b =? 41) || (b =? 34) || is_ws b.
Definition next_string (it : iter) : iter := next_while (fun b => negb (is_start b)) it.

(* one token, without the skipping of whitespace and comments *)
Definition next_raw (it : iter) : option (rawres * iter) :=
  match it_next it with
  | None => None
  | Some (b, it1) =>
    Some (
      if b =? 40 then (RTok TOpen, it1)
      else if b =? 41 then (RTok TClose, it1)
      else if b =? 34 then
        let it2 := next_while (fun b => negb (b =? 34) && negb (b =? 10)) it1 in
        match it_next it2 with
        | Some (b2, it3) => if b2 =? 34 then (RTok TString, it3) else (RErr EUntermString, it3)
        | None => (RErr EUntermString, it2)
        end
      else if b =? 59 then
        match i_rest it1 with
        | b2 :: _ =>
            if b2 =? 59 then
              let it2 := next_while (fun b => negb (b =? 10)) it1 in
              (RTok TLineComment, match it_next it2 with Some (_, it3) => it3 | None => it2 end)
            else (RTok TString, next_string it1)
        | [] => (RTok TString, next_string it1)
        end
      else if b =? 114 then
        match i_rest it1 with
        | b2 :: b3 :: _ =>
            if (b2 =? 35) && (b3 =? 34) then
              match it_next it1 with
              | Some (_, ita) =>
                match it_next ita with
                | Some (_, itb) =>
                    let '(found, itc) := read_until 34 35 true itb in
                    (if found then RTok TString else RErr EUntermMultiString, itc)
                | None => (RTok TString, ita)   (* unreachable: two bytes were seen *)
                end
              | None => (RTok TString, it1)
              end
            else (RTok TString, next_string it1)
        | _ => (RTok TString, next_string it1)
        end
      else if b =? 35 then
        match i_rest it1 with
        | b2 :: _ =>
            if b2 =? 124 then
              match it_next it1 with
              | Some (_, ita) =>
                  let '(found, itc) := read_until 124 35 false ita in
                  (if found then RTok TBlockComment else RErr EUntermComment, itc)
              | None => (RTok TString, it1)
              end
            else (RTok TString, next_string it1)
        | [] => (RTok TString, next_string it1)
        end
      else if is_ws b then (RTok TWhitespace, next_while is_ws it1)
      else (RTok TString, next_string it1))
  end.

Definition skipped (ignore : bool) (t : tok) : bool :=
  ignore && match t with TBlockComment | TLineComment | TWhitespace => true | _ => false end.

Record stok := mkstok { st_res : rawres; st_span : span }.

(* the token stream up to and including the first lexer error (parse_with stops there).
   Fuel: one unit per raw token. *)
Fixpoint lex_all (fuel : nat) (ignore : bool) (it : iter) : outcome (list stok) :=
  match fuel with
  | O => OutOfFuel
  | S f =>
    match next_raw it with
    | None => Ok []
    | Some (r, it') =>
        s <- it_pos it ;;
        match r with
        | RTok t =>
            if skipped ignore t then lex_all f ignore it'
            else
              e <- it_pos it' ;;
              sp <- span_new s e 1 ;;
              rest <- lex_all f ignore it' ;;
              Ok (mkstok r sp :: rest)
        | RErr _ =>
            e <- it_pos it' ;;
            sp <- span_new s e 1 ;;
            Ok [mkstok r sp]
        end
    end
  end.

(* ---------- s-expressions, slicing ---------- *)
Inductive sexpr :=
| Atom (txt : list N) (sp : span)
| SList (l : list sexpr) (sp : span).
Definition sexpr_span (e : sexpr) : span := match e with Atom _ sp => sp | SList _ sp => sp end.

Definition is_cont (b : N) : bool := (128 <=? b) && (b <=? 191).
(* str::is_char_boundary expressed on the suffix that starts at the index *)
Definition bnd (r : list N) : bool := match r with [] => true | b :: _ => negb (is_cont b) end.
(* &s[start..end] *)
Definition slice (bs : list N) (s e : N) : outcome (list N) :=
  if negb (s <=? e) then Panic "slice: start > end"
  else if negb (e <=? N.of_nat (length bs)) then Panic "slice: end out of range"
  else if negb (bnd (skipn (N.to_nat s) bs)) then Panic "slice: start not on a char boundary"
  else if negb (bnd (skipn (N.to_nat e) bs)) then Panic "slice: end not on a char boundary"
  else Ok (firstn (N.to_nat (e - s)) (skipn (N.to_nat s) bs)).

Inductive meta := MLine (txt : list N) (sp : span) | MBlock (txt : list N) (sp : span) | MWs (txt : list N) (sp : span).

Inductive pmsg := MUnexpectedClose | MUnclosedOpen | MNotInList | MLex (e : lexerr).
Record perr := mkperr { pe_msg : pmsg; pe_span : span }.

(* ---------- parse_with ---------- *)
Definition frame := (list sexpr * span)%type.

Definition push_top (x : sexpr) (st : list frame) : outcome (list frame) :=
  match st with
  | (items, sp) :: rest => Ok ((items ++ [x], sp) :: rest)
  | [] => Panic "parse_with: not empty"
  end.

Fixpoint build (bs : list N) (toks : list stok) (st : list frame) (ms : list meta)
  : outcome (perr + (list frame * list meta)) :=
  match toks with
  | [] => Ok (inr (st, ms))
  | mkstok r sp :: rest =>
    match r with
    | RErr e => Ok (inl (mkperr (MLex e) sp))
    | RTok TOpen => build bs rest (([], sp) :: st) ms
    | RTok TClose =>
        match st with
        | [] => Panic "parse_with: placeholder unpopped"
        | (items, osp) :: st' =>
            match st' with
            | [] => Ok (inl (mkperr MUnexpectedClose sp))
            | _ =>
                csp <- span_cover osp sp ;;
                st'' <- push_top (SList items csp) st' ;;
                build bs rest st'' ms
            end
        end
    | RTok TString =>
        txt <- slice bs (p_abs (s_start sp)) (p_abs (s_end sp)) ;;
        st' <- push_top (Atom txt sp) st ;;
        build bs rest st' ms
    | RTok TBlockComment =>
        txt <- slice bs (p_abs (s_start sp)) (p_abs (s_end sp)) ;;
        build bs rest st (ms ++ [MBlock txt sp])
    | RTok TLineComment =>
        txt <- slice bs (p_abs (s_start sp)) (p_abs (s_end sp)) ;;
        build bs rest st (ms ++ [MLine txt sp])
    | RTok TWhitespace =>
        txt <- slice bs (p_abs (s_start sp)) (p_abs (s_end sp)) ;;
        build bs rest st (ms ++ [MWs txt sp])
    end
  end.

Fixpoint top_lists (l : list sexpr) : perr + list (list sexpr * span) :=
  match l with
  | [] => inr []
  | SList es sp :: r => match top_lists r with inl e => inl e | inr ls => inr ((es, sp) :: ls) end
  | Atom _ sp :: _ => inl (mkperr MNotInList sp)
  end.
Definition parse_with (bs : list N) (toks : list stok)
  : outcome (perr + (list (list sexpr * span) * list meta)) :=
  r <- build bs toks [([], span_default)] [] ;;
  match r with
  | inl e => Ok (inl e)
  | inr (st, ms) =>
      match st with
      | [] => Panic "parse_with: placeholder unpopped"
      | (items, sp) :: st' =>
          match st' with
          | _ :: _ => Ok (inl (mkperr MUnclosedOpen sp))
          | [] =>
              (* collect::<Result<_>>: the first atom in order is the error *)
              match top_lists items with
              | inl e => Ok (inl e)
              | inr ls => Ok (inr (ls, ms))
              end
          end
      end
  end.

Definition strip_bom (bs : list N) : list N :=
  match bs with
  | 239 :: 187 :: 191 :: r => r
  | _ => bs
  end.

(* parse_: BOM stripping, lexing, building, and the span rewrite of the unterminated-comment error
   (span.end = span.start; span.end.absolute += 2, done on the fields: no assertion runs) *)
Definition parse_ (ignore : bool) (text : list N) : outcome (perr + (list (list sexpr * span) * list meta)) :=
  let bs := strip_bom text in
  toks <- lex_all (S (length bs)) ignore (mkit bs 0 0 0) ;;
  r <- parse_with bs toks ;;
  match r with
  | inl (mkperr (MLex EUntermComment) sp) =>
      let s := s_start sp in
      Ok (inl (mkperr (MLex EUntermComment) (mkspan s (mkpos (p_abs s + 2) (p_line s) (p_lb s)) (s_file sp))))
  | _ => Ok r
  end.

(* ---------- variables: SExpr::atom / SExpr::list, parse_vars' self-reference rejection ---------- *)
Fixpoint bytes_eqb (a b : list N) : bool :=
  match a, b with
  | [], [] => true
  | x :: a', y :: b' => (x =? y) && bytes_eqb a' b'
  | _, _ => false
  end.
Definition vars := list (list N * sexpr).
Fixpoint lookup (n : list N) (vs : vars) : option sexpr :=
  match vs with
  | [] => None
  | (k, v) :: r => if bytes_eqb n k then Some v else lookup n r
  end.
Definition strip_dollar (t : list N) : option (list N) :=
  match t with 36 :: r => Some r | _ => None end.

(* SExpr::atom(Some(vars)): one fuel unit per variable hop *)
Fixpoint atom_res (fuel : nat) (vs : vars) (e : sexpr) : outcome (option (list N)) :=
  match e with
  | SList _ _ => Ok None
  | Atom t _ =>
      match strip_dollar t with
      | None => Ok (Some t)
      | Some n =>
          match lookup n vs with
          | None => Ok (Some t)
          | Some v => match fuel with O => OutOfFuel | S f => atom_res f vs v end
          end
      end
  end.
(* SExpr::list(Some(vars)) *)
Fixpoint list_res (fuel : nat) (vs : vars) (e : sexpr) : outcome (option (list sexpr)) :=
  match e with
  | SList l _ => Ok (Some l)
  | Atom t _ =>
      match strip_dollar t with
      | None => Ok None
      | Some n =>
          match lookup n vs with
          | None => Ok None
          | Some v => match fuel with O => OutOfFuel | S f => list_res f vs v end
          end
      end
  end.

(* var_refers_to: fuel per variable hop, structural descent into lists *)
Fixpoint refers_to (fuel : nat) (vs : vars) (name : list N) (e : sexpr) {struct fuel} : outcome bool :=
  match fuel with
  | O => OutOfFuel
  | S f =>
    (fix go (e : sexpr) : outcome bool :=
       match e with
       | Atom t _ =>
           match strip_dollar t with
           | None => Ok false
           | Some n =>
               if bytes_eqb n name then Ok true
               else match lookup n vs with
                    | None => Ok false
                    | Some v => refers_to f vs name v
                    end
           end
       | SList l _ =>
           (fix any (l : list sexpr) : outcome bool :=
              match l with
              | [] => Ok false
              | x :: r => b <- go x ;; if b then Ok true else any r
              end) l
       end) e
  end.

Inductive varerr := VDuplicate | VSelfRef.
(* the insertion step of parse_vars (value already computed) *)
Definition insert_var (vs : vars) (name : list N) (v : sexpr) : outcome (varerr + vars) :=
  match lookup name vs with
  | Some _ => Ok (inl VDuplicate)
  | None =>
      b <- refers_to (S (length vs)) vs name v ;;
      if b then Ok (inl VSelfRef) else Ok (inr ((name, v) :: vs))
  end.
Fixpoint insert_vars (vs : vars) (defs : list (list N * sexpr)) : outcome (varerr + vars) :=
  match defs with
  | [] => Ok (inr vs)
  | (n, v) :: r =>
      x <- insert_var vs n v ;;
      match x with inl e => Ok (inl e) | inr vs' => insert_vars vs' r end
  end.

(* ---------- Debug for SExpr ---------- *)
Fixpoint fmt_sexpr (e : sexpr) : list N :=
  match e with
  | Atom t _ => t
  | SList l _ =>
      [40] ++
      (fix go (l : list sexpr) : list N :=
         match l with
         | [] => []
         | [x] => fmt_sexpr x
         | x :: r => fmt_sexpr x ++ [32] ++ go r
         end) l
      ++ [41]
  end.

(* ---------- parse_vars over the items of one (defvar ...) list, head already removed ---------- *)
Definition concat_name : list N := [99; 111; 110; 99; 97; 116].   (* "concat" *)
Definition is_concat_list (v : sexpr) : bool :=
  match v with
  | SList (Atom t _ :: _) _ => bytes_eqb t concat_name
  | _ => false
  end.
Inductive varres := VOk (vs : vars) | VErr (e : varerr) | VOther.
(* VOther: an error or a feature outside this model (list as name, missing value, concat) *)
Fixpoint parse_vars_items (vs : vars) (items : list sexpr) : outcome varres :=
  match items with
  | [] => Ok (VOk vs)
  | SList _ _ :: _ => Ok VOther
  | [Atom _ _] => Ok VOther
  | Atom n _ :: v :: r =>
      if is_concat_list v then Ok VOther
      else
        x <- insert_var vs n v ;;
        match x with
        | inl e => Ok (VErr e)
        | inr vs' => parse_vars_items vs' r
        end
  end.
