(* Model of parser/src/cfg/switch.rs::parse_switch_case_bool (compilation of a written boolean
   condition into opcodes: an operator stores the index one past its last operand, children are
   contiguous) and of the OpCode constructors in keyberon/src/action/switch.rs.  No proofs. *)
From KV Require Export Keyberon.Switch.

Inductive leaf :=
| LKey (k : N)                      (* a                     *)
| LHistKey (k recency : N)          (* (key-history a n), recency already n-1 *)
| LLt (nth t : N)                   (* (key-timing n lt ms), nth already n-1  *)
| LGt (nth t : N)
| LInput (row y : N)                (* (input real|virtual k) *)
| LHistInput (row y recency : N)
| LLayer (l : N)
| LBaseLayer (l : N).

Inductive bexpr := BLeaf (lf : leaf) | BOp (o : bop) (es : list bexpr).

(* OpCode::new_key / new_key_history / new_ticks_since_* / new_active_input / ... *)
Definition enc_leaf (lf : leaf) : list N :=
  match lf with
  | LKey k => [N.land k MAX_OPCODE_LEN]
  | LHistKey k r => [N.lor (N.lor (N.land k MAX_OPCODE_LEN) HISTORICAL_KEYCODE_VAL) (N.shiftl r 12)]
  | LLt nth t => [N.lor (N.lor TICKS_SINCE_VAL_LT (lossy_compress_ticks t)) (N.shiftl nth 10)]
  | LGt nth t => [N.lor (N.lor TICKS_SINCE_VAL_GT (lossy_compress_ticks t)) (N.shiftl nth 10)]
  | LInput row y => [INPUT_VAL; N.shiftl (N.land row 3) 14 + y]
  | LHistInput row y r => [HISTORICAL_INPUT_VAL; N.shiftl (N.land row 3) 14 + N.shiftl r 11 + y]
  | LLayer l => [LAYER_VAL; l]
  | LBaseLayer l => [BASE_LAYER_VAL; l]
  end.

Definition op_val (o : bop) : N := match o with BOr => OR_VAL | BAnd => AND_VAL | BNot => NOT_VAL end.
(* OpCode::new_bool(op, end_idx) *)
Definition enc_bool (o : bop) (end_idx : nat) : N := N.land (N.of_nat end_idx) MAX_OPCODE_LEN + op_val o.

Fixpoint size (e : bexpr) : nat :=
  match e with
  | BLeaf lf => length (enc_leaf lf)
  | BOp _ es => S ((fix go l := match l with [] => O | x :: r => (size x + go r)%nat end) es)
  end.
Fixpoint sizes (l : list bexpr) : nat := match l with [] => O | x :: r => (size x + sizes r)%nat end.

(* [off] = ops.len() when the expression starts *)
Fixpoint compile (off : nat) (e : bexpr) : list N :=
  match e with
  | BLeaf lf => enc_leaf lf
  | BOp o es => enc_bool o (off + size e) ::
      (fix go off l := match l with [] => [] | x :: r => compile off x ++ go (off + size x)%nat r end) (S off) es
  end.
Fixpoint compiles (off : nat) (l : list bexpr) : list N :=
  match l with [] => [] | x :: r => compile off x ++ compiles (off + size x)%nat r end.

(* nesting depth as the parser counts it: top-level items are at depth 1 *)
Fixpoint depth (e : bexpr) : nat :=
  match e with
  | BLeaf _ => 1
  | BOp _ es => S ((fix go l := match l with [] => O | x :: r => Nat.max (depth x) (go r) end) es)
  end.
Fixpoint depths (l : list bexpr) : nat := match l with [] => O | x :: r => Nat.max (depth x) (depths r) end.

(* one switch case: the top-level items of its condition are compiled one after the other *)
Definition compile_case (c : list bexpr * action * bool) : list N * action * bool :=
  let '(cond, a, brk) := c in (compiles 0 cond, a, brk).
