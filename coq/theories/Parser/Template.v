(* Model of parser/src/cfg/deftemplate.rs: collecting deftemplates (with their validation), expanding
   template-expand / t! calls (argument substitution, concat evaluation, if-equal / if-not-equal /
   if-in-list / if-not-in-list), splicing, repeated to a fixpoint.  Spans of produced nodes are those of the
   nodes they were copied from.  No proofs. *)
From Coq Require Import Ascii.
From KV Require Export Parser.Sexpr.

Definition bytes_of_string (s : string) : list N :=
  (fix go (s : string) : list N :=
     match s with
     | EmptyString => []
     | String c r => N_of_ascii c :: go r
     end) s.

Definition A_deftemplate := bytes_of_string "deftemplate".
Definition A_expand := bytes_of_string "template-expand".
Definition A_expand_short := bytes_of_string "t!".
Definition A_if_equal := bytes_of_string "if-equal".
Definition A_if_not_equal := bytes_of_string "if-not-equal".
Definition A_if_in_list := bytes_of_string "if-in-list".
Definition A_if_not_in_list := bytes_of_string "if-not-in-list".

Inductive terr :=
| TENoName | TENameNotString | TEDuplicate | TENoVars | TEVarsNotList | TEVarNotString
| TENested | TEUnknownInBody
| TECallNoName | TECallNameNotString | TECallUnknown | TECallArity
| TECondArg1 | TECondArg1Type | TECondArg2 | TECondArg2Type
| TETopAtom.

Record template := mktemplate { t_name : list N; t_vars : list (list N); t_content : list sexpr }.

Definition atom_text (e : sexpr) : option (list N) := match e with Atom t _ => Some t | SList _ _ => None end.
Definition head_is (l : list sexpr) (name : list N) : bool :=
  match l with Atom t _ :: _ => bytes_eqb t name | _ => false end.
Definition is_expand_head (l : list sexpr) : bool := head_is l A_expand || head_is l A_expand_short.
Definition find_template (ts : list template) (name : list N) : option template :=
  find (fun t => bytes_eqb (t_name t) name) ts.

(* visit_validate_all_atoms_peek_next with the closure of expand_templates *)
Definition validate_atom (ts : list template) (t : list N) (next : option sexpr) : option terr :=
  if bytes_eqb t A_deftemplate then Some TENested
  else if bytes_eqb t A_expand || bytes_eqb t A_expand_short then
    match next with
    | Some (Atom n _) => match find_template ts n with Some _ => None | None => Some TEUnknownInBody end
    | _ => None
    end
  else None.
Fixpoint validate_expr (ts : list template) (e : sexpr) (next : option sexpr) : option terr :=
  match e with
  | Atom t _ => validate_atom ts t next
  | SList l _ =>
      (fix vlist (l : list sexpr) : option terr :=
         match l with
         | [] => None
         | x :: r => match validate_expr ts x (hd_error r) with Some er => Some er | None => vlist r end
         end) l
  end.
Fixpoint validate_body (ts : list template) (exprs : list sexpr) : option terr :=
  match exprs with
  | [] => None
  | x :: r => match validate_expr ts x (hd_error r) with Some er => Some er | None => validate_body ts r end
  end.

Fixpoint all_atoms (l : list sexpr) : option (list (list N)) :=
  match l with
  | [] => Some []
  | Atom t _ :: r => match all_atoms r with Some ts => Some (t :: ts) | None => None end
  | SList _ _ :: _ => None
  end.

(* the first loop of expand_templates *)
Fixpoint collect_templates (tops : list (list sexpr * span)) (ts : list template) : terr + list template :=
  match tops with
  | [] => inr ts
  | (l, _) :: rest =>
      if negb (head_is l A_deftemplate) then collect_templates rest ts
      else
        match nth_error l 1 with
        | None => inl TENoName
        | Some ne =>
          match atom_text ne with
          | None => inl TENameNotString
          | Some name =>
            match find_template ts name with
            | Some _ => inl TEDuplicate
            | None =>
              match nth_error l 2 with
              | None => inl TENoVars
              | Some ve =>
                match ve with
                | Atom _ _ => inl TEVarsNotList
                | SList vl _ =>
                  match all_atoms vl with
                  | None => inl TEVarNotString
                  | Some vars =>
                    let content := skipn 3 l in
                    match validate_body ts content with
                    | Some er => inl er
                    | None => collect_templates rest (ts ++ [mktemplate name vars content])
                    end
                  end
                end
              end
            end
          end
        end
  end.

(* ---- substitution of template variables: visit_mut_all_atoms ---- *)
Fixpoint index_of (x : list N) (l : list (list N)) : option nat :=
  match l with
  | [] => None
  | y :: r => if bytes_eqb y x then Some O else option_map S (index_of x r)
  end.
Definition dollar (v : list N) : list N := 36 :: v.

Fixpoint subst (vars : list (list N)) (args : list sexpr) (e : sexpr) : sexpr :=
  match e with
  | Atom t sp =>
      match index_of t (map dollar vars) with
      | Some i => match nth_error args i with Some a => a | None => e end
      | None => e
      end
  | SList l sp => SList (map (subst vars args) l) sp
  end.

(* ---- concat: parse_list_var with no variables, applied to every list (visit_mut_all_lists) ---- *)
Definition A_concat := bytes_of_string "concat".
Definition strip_prefix_b (p t : list N) : option (list N) :=
  (fix go (p t : list N) : option (list N) :=
     match p, t with
     | [], _ => Some t
     | x :: p', y :: t' => if x =? y then go p' t' else None
     | _ :: _, [] => None
     end) p t.
Definition strip_suffix_b (s t : list N) : option (list N) :=
  match strip_prefix_b (rev s) (rev t) with Some r => Some (rev r) | None => None end.
Definition trim_atom_quotes (t : list N) : list N :=
  match strip_prefix_b [114; 35; 34] t with
  | Some a => match strip_suffix_b [34; 35] a with Some x => x | None => a end
  | None =>
      let a := match strip_prefix_b [34] t with Some x => x | None => t end in
      match strip_suffix_b [34] a with Some x => x | None => t end
  end.

(* push_all_atoms with an empty variable table *)
Fixpoint push_all (e : sexpr) : list N :=
  match e with
  | Atom t _ => trim_atom_quotes t
  | SList l _ => flat_map push_all l
  end.

Fixpoint concat_pass (e : sexpr) : sexpr :=
  match e with
  | Atom _ _ => e
  | SList l sp =>
      match l with
      | Atom h _ :: rest =>
          if bytes_eqb h A_concat then Atom (flat_map push_all rest) sp
          else SList (map concat_pass l) sp
      | _ => SList (map concat_pass l) sp
      end
  end.

(* ---- conditionals ---- *)
Fixpoint contains_atom (first : list N) (e : sexpr) : bool :=
  match e with
  | Atom t _ => bytes_eqb t first
  | SList l _ => (fix any (l : list sexpr) : bool := match l with [] => false | x :: r => contains_atom first x || any r end) l
  end.
Definition atoms_contain (first : list N) (l : list sexpr) : bool := existsb (contains_atom first) l.

(* the replacement of one conditional list, None when the list is not a conditional *)
Definition cond_strings (neg : bool) (l : list sexpr) : terr + list sexpr :=
  match nth_error l 1 with
  | None => inl TECondArg1
  | Some a =>
    match atom_text a with
    | None => inl TECondArg1Type
    | Some first =>
      match nth_error l 2 with
      | None => inl TECondArg2
      | Some b =>
        match atom_text b with
        | None => inl TECondArg2Type
        | Some second => if xorb neg (bytes_eqb first second) then inr (skipn 3 l) else inr []
        end
      end
    end
  end.
Definition cond_inlist (neg : bool) (l : list sexpr) : terr + list sexpr :=
  match nth_error l 1 with
  | None => inl TECondArg1
  | Some a =>
    match atom_text a with
    | None => inl TECondArg1Type
    | Some first =>
      match nth_error l 2 with
      | None => inl TECondArg2
      | Some (Atom _ _) => inl TECondArg2Type
      | Some (SList second _) => if xorb neg (atoms_contain first second) then inr (skipn 3 l) else inr []
      end
    end
  end.
Definition cond_replacement (l : list sexpr) : option (terr + list sexpr) :=
  if head_is l A_if_equal then Some (cond_strings false l)
  else if head_is l A_if_not_equal then Some (cond_strings true l)
  else if head_is l A_if_in_list then Some (cond_inlist false l)
  else if head_is l A_if_not_in_list then Some (cond_inlist true l)
  else None.

Definition cres := (terr + (list sexpr * bool))%type.
Definition cres_app (a : cres) (b : cres) : cres :=
  match a with
  | inl er => inl er
  | inr (xs, c1) => match b with inl er => inl er | inr (rs, c2) => inr (xs ++ rs, c1 || c2) end
  end.

(* evaluate_conditionals, for one element: what the element is replaced by in its parent vector *)
Fixpoint ec_expr (e : sexpr) : cres :=
  match e with
  | Atom _ _ => inr ([e], false)
  | SList l sp =>
      match cond_replacement l with
      | Some (inl er) => inl er
      | Some (inr rep) => inr (rep, true)
      | None =>
          match (fix ec_list (l : list sexpr) : cres :=
                   match l with
                   | [] => inr ([], false)
                   | x :: r => match ec_expr x with inl er => inl er | a => cres_app a (ec_list r) end
                   end) l with
          | inl er => inl er
          | inr (l', c) => inr ([SList l' sp], c)
          end
      end
  end.
(* evaluate_conditionals: one pass over a vector *)
Fixpoint eval_conds (exprs : list sexpr) : cres :=
  match exprs with
  | [] => inr ([], false)
  | x :: r => match ec_expr x with inl er => inl er | a => cres_app a (eval_conds r) end
  end.

(* while evaluate_conditionals(..)? {} *)
Fixpoint eval_conds_fix (fuel : nat) (exprs : list sexpr) : outcome (terr + list sexpr) :=
  match fuel with
  | O => OutOfFuel
  | S f =>
      match eval_conds exprs with
      | inl er => Ok (inl er)
      | inr (exprs', true) => eval_conds_fix f exprs'
      | inr (exprs', false) => Ok (inr exprs')
      end
  end.

(* the body of the `found expand` branch: the replacement for one call *)
Definition expand_call (fuel : nat) (ts : list template) (l : list sexpr) : outcome (terr + list sexpr) :=
  match nth_error l 1 with
  | None => Ok (inl TECallNoName)
  | Some ne =>
    match atom_text ne with
    | None => Ok (inl TECallNameNotString)
    | Some name =>
      match find_template ts name with
      | None => Ok (inl TECallUnknown)
      | Some t =>
          if negb (Nat.eqb (length l - 2) (length (t_vars t))) then Ok (inl TECallArity)
          else eval_conds_fix fuel (map concat_pass (map (subst (t_vars t) (skipn 2 l)) (t_content t)))
      end
    end
  end.

Definition xres := (terr + (list sexpr * bool))%type.

(* expand: passes over a vector until a pass replaces nothing; non-call lists are expanded in place *)
Fixpoint expand (fuel : nat) (ts : list template) (exprs : list sexpr) {struct fuel} : outcome (terr + list sexpr) :=
  match fuel with
  | O => OutOfFuel
  | S f =>
      r <- (fix pass (l : list sexpr) : outcome xres :=
              match l with
              | [] => Ok (inr ([], false))
              | e :: rest =>
                  here <- match e with
                          | Atom _ _ => Ok (inr ([e], false))
                          | SList l2 sp =>
                              if is_expand_head l2 then
                                c <- expand_call f ts l2 ;;
                                match c with inl er => Ok (inl er) | inr rep => Ok (inr (rep, true)) end
                              else
                                c <- expand f ts l2 ;;
                                match c with inl er => Ok (inl er) | inr l2' => Ok (inr ([SList l2' sp], false)) end
                          end ;;
                  match here with
                  | inl er => Ok (inl er)
                  | inr (xs, c1) =>
                      rr <- pass rest ;;
                      match rr with
                      | inl er => Ok (inl er)
                      | inr (rs, c2) => Ok (inr (xs ++ rs, c1 || c2))
                      end
                  end
              end) exprs ;;
      match r with
      | inl er => Ok (inl er)
      | inr (exprs', true) => expand f ts exprs'
      | inr (exprs', false) => Ok (inr exprs')
      end
  end.

Fixpoint to_toplevel (l : list sexpr) : terr + list (list sexpr * span) :=
  match l with
  | [] => inr []
  | Atom _ _ :: _ => inl TETopAtom
  | SList x sp :: r => match to_toplevel r with inl er => inl er | inr ls => inr ((x, sp) :: ls) end
  end.

Definition expand_templates (fuel : nat) (tops : list (list sexpr * span)) : outcome (terr + list (list sexpr * span)) :=
  match collect_templates tops [] with
  | inl er => Ok (inl er)
  | inr ts =>
      r <- expand fuel ts (map (fun t => SList (fst t) (snd t)) tops) ;;
      match r with
      | inl er => Ok (inl er)
      | inr exprs => Ok (to_toplevel exprs)
      end
  end.
