(* C01 on the fragment of C04: no stuck output as a whole-run theorem.  On the layered-keymap spec everything held is
   tagged with a coordinate that is currently pressed; once every pressed coordinate has been released and the pending
   events have been applied nothing is held.  With the refinement theorem (C04Refine.v) the same holds for the keyberon
   layout model: its key list is empty and it is quiet. *)
From Coq Require Import Lia.
From KV Require Import Spec.Keymap Keyberon.Layout Proofs.LayoutBasics Proofs.C07Proofs Proofs.C04Refine.

Lemma coord_eqb_refl c : coord_eqb c c = true.
Proof. unfold coord_eqb. rewrite !N.eqb_refl. reflexivity. Qed.
Lemma coord_eqb_eq a b : coord_eqb a b = true -> a = b.
Proof.
  unfold coord_eqb. intros H. apply andb_prop in H. destruct H as [H1 H2].
  apply N.eqb_eq in H1. apply N.eqb_eq in H2. destruct a, b; cbn in *; subst; reflexivity.
Qed.

(* the coordinates that are down according to the events applied so far *)
Definition pset_step (P : list coord) (e : bool * coord) : list coord :=
  if fst e then snd e :: P else filter (fun c => negb (coord_eqb c (snd e))) P.
Definition pset (evs : list (bool * coord)) : list coord := fold_left pset_step evs [].

Definition held_within (P : list coord) (s : kmst) : Prop :=
  forall h, In h (held s) -> mem_coord (h_coord h) P = true.

Lemma within_filter P p s : held_within P s -> held_within P (km_filter p s).
Proof. intros H h Hin. cbn [km_filter held] in Hin. apply filter_In in Hin. exact (H h (proj1 Hin)). Qed.
Lemma within_drop P s : held_within P s -> held_within P (km_drop_chords s).
Proof. apply within_filter. Qed.
Lemma within_push P h s : mem_coord (h_coord h) P = true -> held_within P s -> held_within P (km_push h s).
Proof.
  intros Hh H x Hin. cbn [km_push held] in Hin. apply sat_push_in in Hin. destruct Hin as [->|Hin]; [exact Hh|exact (H x Hin)].
Qed.

Section Press.
  Variable cfg : lcfg.
  Variable c : coord.
  Variable P : list coord.
  Hypothesis HcP : mem_coord c P = true.

  Lemma within_simple a s : held_within P s -> held_within P (km_simple c a s).
  Proof.
    intros H. unfold km_simple. destruct a; try (apply within_drop; exact H).
    apply within_push; [exact HcP|apply within_drop; exact H].
  Qed.

  Lemma within_perform below :
    (forall s, held_within P s -> held_within P (below s)) ->
    forall n a, (depth a <= n)%nat -> forall s, held_within P s -> held_within P (km_perform cfg c below a s).
  Proof.
    intros Hb. induction n as [|n IH]; intros a Hd s Hs.
    - destruct a; cbn [depth] in Hd; try lia. cbn [km_perform]. exact (Hb _ Hs).
    - destruct a; cbn [km_perform]; try (apply within_drop; exact Hs).
      + exact (Hb _ Hs).
      + apply within_push; [exact HcP|apply within_drop; exact Hs].
      + clear Hd. generalize (within_drop _ _ Hs). generalize (km_drop_chords s).
        induction ks as [|k t IHk]; intros s0 H0; [exact H0|]. cbn [fold_left]. apply IHk. apply within_push; [exact HcP|exact H0].
      + change ((fix go (acs0 : list action) (s0 : kmst) {struct acs0} : kmst :=
                   match acs0 with [] => s0 | a1 :: t => go t (km_perform cfg c below a1 s0) end) acs (km_drop_chords s))
          with (km_perform cfg c below (MultipleActions acs) s).
        rewrite perform_multi. rewrite depth_multi in Hd.
        assert (Hd' : (depth_list acs <= n)%nat) by lia. clear Hd.
        generalize (within_drop _ _ Hs). generalize (km_drop_chords s).
        induction acs as [|a1 t IHt]; intros s0 H0; [exact H0|].
        cbn [km_perform_list]. cbn [depth_list] in Hd'. apply IHt; [lia|]. apply (IH a1); [lia|exact H0].
      + apply within_push; [exact HcP|apply within_drop; exact Hs].
      + cbv zeta. destruct (l <? N.of_nat (length (layers cfg))); [|apply within_drop; exact Hs].
        intros h Hin. cbn [held] in Hin. exact (within_drop _ _ Hs h Hin).
      + apply within_filter. apply within_drop. exact Hs.
      + apply within_filter. apply within_drop. exact Hs.
      + apply within_simple. exact Hs.
  Qed.

  Lemma depth_total a : exists n, (depth a <= n)%nat.
  Proof. exists (depth a). lia. Qed.

  Lemma within_press_from order : forall s, held_within P s -> held_within P (km_press_from cfg c order s).
  Proof.
    induction order as [|ly rest IH]; intros s Hs.
    - cbn [km_press_from]. apply within_simple. exact Hs.
    - rewrite press_from_cons. exact (within_perform _ IH (depth (km_cell cfg ly c)) _ (le_n _) s Hs).
  Qed.
End Press.

Lemma mem_coord_weaken c P x : mem_coord x P = true -> mem_coord x (c :: P) = true.
Proof. intros H. cbn [mem_coord existsb]. unfold mem_coord in H. rewrite H. apply orb_true_r. Qed.

Lemma within_press cfg c P s : held_within P s -> held_within (c :: P) (km_press cfg c s).
Proof.
  intros H. unfold km_press. apply within_press_from.
  - cbn [mem_coord existsb]. rewrite coord_eqb_refl. reflexivity.
  - intros h Hin. apply mem_coord_weaken. exact (H h Hin).
Qed.

Lemma within_release c P s :
  held_within P s -> held_within (filter (fun x => negb (coord_eqb x c)) P) (km_release c s).
Proof.
  intros H h Hin. cbn [km_release km_filter held] in Hin. apply filter_In in Hin. destruct Hin as [Hin Hne].
  specialize (H h Hin). unfold mem_coord in *. apply existsb_exists in H. destruct H as [x [Hx Hex]].
  apply existsb_exists. exists x. split; [|exact Hex].
  apply filter_In. split; [exact Hx|]. apply coord_eqb_eq in Hex. subst x. exact Hne.
Qed.

(* ---- the system ---- *)
Definition km_final (cfg : lcfg) (m : kmsys) (is : list km_input) : kmsys := fold_left (km_step cfg) is m.

Fixpoint arrivals (is : list km_input) : list (bool * coord) :=
  match is with
  | [] => []
  | KmEvent p c :: t => (p, c) :: arrivals t
  | KmTick :: t => arrivals t
  end.

Definition Inv (m : kmsys) (arrived : list (bool * coord)) : Prop :=
  exists processed, arrived = processed ++ km_pending m /\ held_within (pset processed) (km_st m).

Lemma pset_snoc evs e : pset (evs ++ [e]) = pset_step (pset evs) e.
Proof. unfold pset. rewrite fold_left_app. reflexivity. Qed.

Lemma inv_step cfg m arrived i :
  Inv m arrived ->
  Inv (km_step cfg m i) (arrived ++ match i with KmEvent p c => [(p, c)] | KmTick => [] end).
Proof.
  intros [pr [Ha Hw]]. destruct i as [p c|]; cbn [km_step].
  - exists pr. cbn [km_pending km_st]. split; [rewrite Ha, app_assoc; reflexivity|exact Hw].
  - rewrite app_nil_r. destruct (km_pending m) as [|[p c] t] eqn:E.
    + exists pr. rewrite E. split; [exact Ha|exact Hw].
    + exists (pr ++ [(p, c)]). cbn [km_pending km_st]. split; [rewrite Ha, <- app_assoc; reflexivity|].
      rewrite pset_snoc. unfold pset_step. cbn [fst snd]. destruct p; [apply within_press|apply within_release]; exact Hw.
Qed.

Lemma arrivals_app a b : arrivals (a ++ b) = arrivals a ++ arrivals b.
Proof. induction a as [|[p c|] t IH]; cbn [app arrivals]; [reflexivity| |exact IH]. rewrite IH. reflexivity. Qed.

Lemma inv_run cfg is : forall m arrived, Inv m arrived -> Inv (km_final cfg m is) (arrived ++ arrivals is).
Proof.
  induction is as [|i t IH]; intros m arrived H; [cbn; rewrite app_nil_r; exact H|].
  cbn [km_final fold_left]. pose proof (IH _ _ (inv_step cfg m arrived i H)) as H2.
  unfold km_final in *. destruct i as [p c|]; cbn [arrivals]; [rewrite <- app_assoc in H2|rewrite app_nil_r in H2]; exact H2.
Qed.

(* nothing is held once every pressed coordinate has been released and every event has been applied *)
Theorem spec_no_stuck_keys cfg is :
  km_pending (km_final cfg km_init is) = [] -> pset (arrivals is) = [] ->
  held (km_st (km_final cfg km_init is)) = [].
Proof.
  intros Hp HP.
  assert (H0 : Inv km_init []) by (exists []; split; [reflexivity|intros h []]).
  destruct (inv_run cfg is _ _ H0) as [pr [Ha Hw]]. cbn [app] in Ha. rewrite Hp, app_nil_r in Ha. subst pr.
  rewrite HP in Hw. destruct (held (km_st (km_final cfg km_init is))) as [|h t] eqn:E; [reflexivity|].
  specialize (Hw h). rewrite E in Hw. specialize (Hw (or_introl eq_refl)). discriminate Hw.
Qed.

(* ------------------------------------------------------------------ the same for the keyberon layout model *)
Fixpoint l_final (cfg : lcfg) (l : layout) (is : list km_input) : outcome layout :=
  match is with
  | [] => Ok l
  | i :: t => l' <- l_step cfg l i ;; l_final cfg l' t
  end.

Lemma final_refines cfg : frag_cfg cfg = true ->
  forall is l m, SysRel cfg l m -> hist_ok cfg (length (km_pending m)) is = true ->
  exists l', l_final cfg l is = Ok l' /\ SysRel cfg l' (km_final cfg m is).
Proof.
  intros Hcfg. induction is as [|i t IH]; intros l m HS Hh.
  - exists l. split; [reflexivity|exact HS].
  - assert (H1 : hist_ok cfg (length (km_pending m)) [i] = true).
    { destruct i as [p c|]; cbn [hist_ok] in *; [|reflexivity].
      apply andb_prop in Hh. destruct Hh as [Hh _]. rewrite Hh. reflexivity. }
    destruct (step_refines cfg l m i Hcfg HS H1) as [l1 [E HS1]].
    assert (H2 : hist_ok cfg (length (km_pending (km_step cfg m i))) t = true).
    { rewrite pending_step. destruct i as [p c|]; cbn [hist_ok] in Hh; [|exact Hh]. apply andb_prop in Hh. tauto. }
    destruct (IH l1 _ HS1 H2) as [l' [E' HS']].
    exists l'. split; [|exact HS']. cbn [l_final]. rewrite E. cbn [bind]. exact E'.
Qed.

(* events still pending after the inputs: arrivals minus ticks (a tick with nothing pending changes nothing) *)
Fixpoint pending_after (n : nat) (is : list km_input) : nat :=
  match is with
  | [] => n
  | KmEvent _ _ :: t => pending_after (S n) t
  | KmTick :: t => pending_after (Nat.pred n) t
  end.

Lemma pending_after_spec cfg is : forall m,
  length (km_pending (km_final cfg m is)) = pending_after (length (km_pending m)) is.
Proof.
  induction is as [|i t IH]; intros m; [reflexivity|].
  cbn [km_final fold_left]. fold (km_final cfg (km_step cfg m i) t). rewrite IH, pending_step.
  destruct i; reflexivity.
Qed.

(* C01 for the fragment: after a history in which every pressed coordinate is released again, followed by enough ticks
   to apply every event, the layout holds no key, no state, no queued event, and is quiet (so kanata's idle predicate's
   layout conjuncts hold and further ticks do nothing, C07_quiet_ticks_are_noops) *)
Theorem fragment_no_stuck_keys cfg pause is :
  frag_cfg cfg = true -> hist_ok cfg 0 is = true ->
  pending_after 0 is = 0%nat -> pset (arrivals is) = [] ->
  exists l', l_final cfg (init_layout pause) is = Ok l' /\ keycodes l' = [] /\ states l' = [] /\ quiet l'.
Proof.
  intros Hcfg Hh Hdr HP.
  destruct (final_refines cfg Hcfg is _ _ (init_rel cfg pause Hcfg) Hh) as [l' [E HS]].
  exists l'. split; [exact E|].
  assert (Hp : km_pending (km_final cfg km_init is) = []).
  { apply length_zero_iff_nil. rewrite pending_after_spec. exact Hdr. }
  pose proof (spec_no_stuck_keys cfg is Hp HP) as Hheld.
  destruct HS as [HR Hpend _ _].
  assert (Hst : states l' = []) by (rewrite (r_states _ _ _ HR), Hheld; reflexivity).
  assert (Hq : queue l' = []).
  { rewrite Hp in Hpend. destruct (queue l'); [reflexivity|discriminate Hpend]. }
  split; [unfold keycodes; rewrite Hst; reflexivity|]. split; [exact Hst|].
  constructor.
  - exact Hq.
  - exact (r_waiting _ _ _ HR).
  - exact (r_extra _ _ _ HR).
  - exact (r_lpt _ _ _ HR).
  - exact (r_os _ _ _ HR).
  - exact (r_pause _ _ _ HR).
  - exact (r_seqs _ _ _ HR).
  - exact (r_tde _ _ _ HR).
  - exact (r_aq _ _ _ HR).
  - rewrite Hst. reflexivity.
Qed.

(* the hypotheses hold for a concrete history with layers, a chord and nested transparent items *)
Example fragment_no_stuck_keys_not_vacuous :
  frag_cfg ex_cfg = true /\ hist_ok ex_cfg 0 (ex_hist ++ [KmEvent false (0, 1); KmEvent false (0, 2); KmEvent false (0, 4); KmTick; KmTick; KmTick]) = true /\
  pending_after 0 (ex_hist ++ [KmEvent false (0, 1); KmEvent false (0, 2); KmEvent false (0, 4); KmTick; KmTick; KmTick]) = 0%nat /\
  pset (arrivals (ex_hist ++ [KmEvent false (0, 1); KmEvent false (0, 2); KmEvent false (0, 4); KmTick; KmTick; KmTick])) = [].
Proof. vm_compute. repeat split; reflexivity. Qed.
