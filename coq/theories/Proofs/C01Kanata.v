(* C01 at the kanata level, on the fragment of C04: what the OS has been told.  An observer replays the emitted OS events
   per key code (a code is down after its press event -- a key-down, or a button-down for the five mouse-button codes --
   and up after its release event); after any covered history it says "down" exactly for the visible codes in the
   layered-keymap model's held key list; so after a history in which every pressed coordinate is released again and every
   event has been applied, no code is down at the OS. *)
From Coq Require Import Lia.
From KV Require Import Spec.Keymap Kanata.Glue Proofs.LayoutBasics Proofs.C07Proofs Proofs.C04Refine Proofs.C04Kanata
                       Proofs.C01Fragment.

Definition opt_is (o : option N) (b : N) : bool := match o with Some b' => b' =? b | None => false end.
Definition is_none (o : option N) : bool := match o with Some _ => false | None => true end.

(* the event that puts code x down / lets it go at the OS *)
Definition ev_down (x : N) (e : os_ev) : bool :=
  match e with KDown k => (k =? x) && is_none (btn_of_code x) | BDown b => opt_is (btn_of_code x) b | _ => false end.
Definition ev_up (x : N) (e : os_ev) : bool :=
  match e with KUp k => (k =? x) && is_none (btn_of_code x) | BUp b => opt_is (btn_of_code x) b | _ => false end.
Definition code_obs (x : N) (st : bool) (e : os_ev) : bool :=
  if ev_down x e then true else if ev_up x e then false else st.
Definition os_code_down (x : N) (evs : list os_ev) (st : bool) : bool := fold_left (code_obs x) evs st.

(* codes whose press and release reach the OS as a pair: not in the ignored range, not a wheel code *)
Definition vis (cfg : kcfg) (x : N) : bool := negb (in_ignore cfg x) && is_none (wheel_of_code x).

Lemma btn_inj a b n : btn_of_code a = Some n -> btn_of_code b = Some n -> a = b.
Proof.
  unfold btn_of_code.
  repeat match goal with |- context [?u =? ?v] => destruct (N.eqb_spec u v) end; intros H1 H2; try congruence.
Qed.
Lemma btn_wheel_disjoint a n : btn_of_code a = Some n -> wheel_of_code a = None.
Proof.
  unfold btn_of_code, wheel_of_code.
  repeat match goal with |- context [?u =? ?v] => destruct (N.eqb_spec u v) end; intros H1; try congruence; try reflexivity; lia.
Qed.

Lemma obs_press cfg x k st :
  os_code_down x (press_key cfg k) st = if vis cfg x && (k =? x) then true else st.
Proof.
  unfold os_code_down, press_key, vis. destruct (N.eqb_spec k x) as [->|Hne].
  - destruct (in_ignore cfg x); [reflexivity|]. cbn [negb andb].
    destruct (btn_of_code x) as [b|] eqn:Eb.
    + rewrite (btn_wheel_disjoint x b Eb). cbn [fold_left code_obs ev_down is_none andb]. unfold code_obs, ev_down. rewrite Eb.
      cbn [opt_is]. rewrite N.eqb_refl. reflexivity.
    + destruct (wheel_of_code x) as [d|]; cbn [fold_left is_none andb]; [reflexivity|].
      unfold code_obs, ev_down. rewrite Eb, N.eqb_refl. reflexivity.
  - rewrite andb_false_r. destruct (in_ignore cfg k); [reflexivity|].
    destruct (btn_of_code k) as [b|] eqn:Eb.
    + cbn [fold_left]. unfold code_obs, ev_down, ev_up. destruct (btn_of_code x) as [b'|] eqn:Ex; cbn [opt_is]; [|reflexivity].
      destruct (N.eqb_spec b' b) as [->|_]; [exfalso; apply Hne; exact (btn_inj _ _ _ Eb Ex)|reflexivity].
    + destruct (wheel_of_code k); cbn [fold_left]; [reflexivity|]. unfold code_obs, ev_down, ev_up.
      destruct (N.eqb_spec k x); [contradiction|reflexivity].
Qed.

Lemma obs_release cfg x k st :
  os_code_down x (release_key cfg k) st = if vis cfg x && (k =? x) then false else st.
Proof.
  unfold os_code_down, release_key, vis. destruct (N.eqb_spec k x) as [->|Hne].
  - destruct (in_ignore cfg x); [reflexivity|]. cbn [negb andb].
    destruct (btn_of_code x) as [b|] eqn:Eb.
    + rewrite (btn_wheel_disjoint x b Eb). cbn [fold_left is_none andb]. unfold code_obs, ev_down, ev_up. rewrite Eb.
      cbn [opt_is]. rewrite N.eqb_refl. reflexivity.
    + destruct (wheel_of_code x) as [d|]; cbn [fold_left is_none andb]; [reflexivity|].
      unfold code_obs, ev_down, ev_up. rewrite Eb, N.eqb_refl. reflexivity.
  - rewrite andb_false_r. destruct (in_ignore cfg k); [reflexivity|].
    destruct (btn_of_code k) as [b|] eqn:Eb.
    + cbn [fold_left]. unfold code_obs, ev_down, ev_up. destruct (btn_of_code x) as [b'|] eqn:Ex; cbn [opt_is]; [|reflexivity].
      destruct (N.eqb_spec b' b) as [->|_]; [exfalso; apply Hne; exact (btn_inj _ _ _ Eb Ex)|reflexivity].
    + destruct (wheel_of_code k); cbn [fold_left]; [reflexivity|]. unfold code_obs, ev_down, ev_up.
      destruct (N.eqb_spec k x); [contradiction|reflexivity].
Qed.

Lemma obs_app x a b st : os_code_down x (a ++ b) st = os_code_down x b (os_code_down x a st).
Proof. unfold os_code_down. apply fold_left_app. Qed.

Lemma mem_n_app x a b : mem_n x (a ++ b) = mem_n x a || mem_n x b.
Proof. unfold mem_n. apply existsb_app. Qed.
Lemma mem_n_cons x y l : mem_n x (y :: l) = (x =? y) || mem_n x l.
Proof. reflexivity. Qed.

(* the releases of the difference: every visible code of prev that is not in cur goes up *)
Lemma obs_releases cfg x cur : forall prev st,
  os_code_down x (flat_map (release_key cfg) (filter (fun y => negb (mem_n y cur)) prev)) st =
  if vis cfg x && mem_n x prev && negb (mem_n x cur) then false else st.
Proof.
  induction prev as [|p t IH]; intros st; [cbn; rewrite andb_false_r; reflexivity|].
  cbn [filter]. rewrite mem_n_cons. destruct (mem_n p cur) eqn:Ep; cbn [negb].
  - rewrite IH. destruct (N.eqb_spec x p) as [->|Hne]; [|reflexivity]. rewrite Ep. cbn [orb negb]. rewrite !andb_false_r. reflexivity.
  - cbn [flat_map]. rewrite obs_app, obs_release, IH. rewrite (N.eqb_sym p x).
    destruct (vis cfg x); cbn [andb]; [|reflexivity].
    destruct (N.eqb_spec x p) as [->|Hne]; cbn [orb]; [|reflexivity].
    rewrite Ep. cbn [negb]. destruct (mem_n p t); reflexivity.
Qed.

(* the presses of the difference: every visible code of cur that is not in prev goes down *)
Lemma obs_presses cfg x : forall cur prev st,
  os_code_down x (press_new cfg prev cur) st =
  if vis cfg x && mem_n x cur && negb (mem_n x prev) then true else st.
Proof.
  induction cur as [|c t IH]; intros prev st; [cbn; rewrite andb_false_r; reflexivity|].
  cbn [press_new]. rewrite mem_n_cons. destruct (mem_n c prev) eqn:Ec.
  - rewrite IH. destruct (N.eqb_spec x c) as [->|Hne]; [|reflexivity]. rewrite Ec. cbn [orb negb]. rewrite !andb_false_r.
    destruct (vis cfg c && mem_n c t); reflexivity.
  - rewrite obs_app, obs_press, IH, mem_n_app, mem_n_cons. rewrite (N.eqb_sym c x). cbn [mem_n existsb]. rewrite orb_false_r.
    destruct (vis cfg x); cbn [andb]; [|reflexivity].
    destruct (N.eqb_spec x c) as [->|Hne]; cbn [orb].
    + rewrite Ec. cbn [negb orb]. rewrite andb_false_r. reflexivity.
    + rewrite orb_false_r. reflexivity.
Qed.

(* one difference: from "down = visible codes of prev" to "down = visible codes of cur" *)
Lemma obs_diff cfg x prev cur st :
  st = vis cfg x && mem_n x prev ->
  os_code_down x (os_diff cfg prev cur) st = vis cfg x && mem_n x cur.
Proof.
  intros ->. unfold os_diff. rewrite obs_app, obs_releases, obs_presses.
  destruct (vis cfg x), (mem_n x prev), (mem_n x cur); reflexivity.
Qed.

(* the whole run of the keymap model with the OS seeing the differences *)
Lemma obs_run cfg x : forall is m prev st,
  prev = km_keys (held (km_st m)) -> st = vis cfg x && mem_n x prev ->
  os_code_down x (concat (km_os_run cfg m prev is)) st =
  vis cfg x && mem_n x (km_keys (held (km_st (km_final (kc_layout cfg) m is)))).
Proof.
  induction is as [|i t IH]; intros m prev st Hp Hs; [cbn; rewrite Hs, Hp; reflexivity|].
  destruct i as [p c|]; cbn [km_os_run concat km_final fold_left].
  - cbn [app]. fold (km_final (kc_layout cfg) (km_step (kc_layout cfg) m (KmEvent p c)) t).
    apply IH; [exact Hp|exact Hs].
  - rewrite obs_app. fold (km_final (kc_layout cfg) (km_step (kc_layout cfg) m KmTick) t).
    apply IH; [reflexivity|]. apply obs_diff. exact Hs.
Qed.

(* C01 on the fragment, at the OS: every pressed coordinate released again, every event applied => the run does not fail and,
   replaying everything the OS was told from "nothing down", no visible code is down (keys and mouse buttons alike) *)
Theorem kanata_fragment_nothing_down_at_os cfg pause is :
  kfrag cfg -> hist_ok (kc_layout cfg) 0 is = true -> physical is = true ->
  pending_after 0 is = 0%nat -> pset (arrivals is) = [] ->
  exists outs, k_run cfg (k_init (init_layout pause)) is = Ok outs /\
               forall x, os_code_down x (concat outs) false = false.
Proof.
  intros Hk Hh Hph Hdr HP. exists (km_os_run cfg km_init [] is). split; [apply fresh_k_run_refines; assumption|].
  intros x. rewrite (obs_run cfg x is km_init [] false eq_refl); [|cbn; rewrite andb_false_r; reflexivity].
  assert (Hp : km_pending (km_final (kc_layout cfg) km_init is) = []).
  { apply length_zero_iff_nil. rewrite pending_after_spec. exact Hdr. }
  rewrite (spec_no_stuck_keys (kc_layout cfg) is Hp HP). cbn. apply andb_false_r.
Qed.

(* and at every moment of any covered history the OS view is the model's held key list (no key the model does not hold is
   down, every visible key it holds is down) *)
Theorem kanata_fragment_os_view_is_held_list cfg pause is x :
  kfrag cfg -> hist_ok (kc_layout cfg) 0 is = true -> physical is = true ->
  exists outs, k_run cfg (k_init (init_layout pause)) is = Ok outs /\
               os_code_down x (concat outs) false =
               vis cfg x && mem_n x (km_keys (held (km_st (km_final (kc_layout cfg) km_init is)))).
Proof.
  intros Hk Hh Hph. exists (km_os_run cfg km_init [] is). split; [apply fresh_k_run_refines; assumption|].
  apply (obs_run cfg x is km_init [] false eq_refl). cbn. rewrite andb_false_r. reflexivity.
Qed.

Corollary kanata_fragment_never_panics cfg pause is :
  kfrag cfg -> hist_ok (kc_layout cfg) 0 is = true -> physical is = true ->
  exists outs, k_run cfg (k_init (init_layout pause)) is = Ok outs.
Proof. intros Hk Hh Hp. exists (km_os_run cfg km_init [] is). apply fresh_k_run_refines; assumption. Qed.

(* not vacuous: the configuration and history of C01Fragment's example at the kanata level; along the way keys were down *)
Definition ex_khist : list km_input :=
  ex_hist ++ [KmEvent false (0, 1); KmEvent false (0, 2); KmEvent false (0, 4); KmTick; KmTick; KmTick].
Example kanata_nothing_down_not_vacuous :
  frag_cfg (kc_layout ex_kcfg) = true /\ kc_overrides ex_kcfg = [] /\ kc_seq_always_on ex_kcfg = false /\
  hist_ok (kc_layout ex_kcfg) 0 ex_khist = true /\ physical ex_khist = true /\
  pending_after 0 ex_khist = 0%nat /\ pset (arrivals ex_khist) = [] /\
  os_code_down 31 (concat (km_os_run ex_kcfg km_init [] ex_hist)) false = false /\
  os_code_down 4 (concat (km_os_run ex_kcfg km_init [] ex_hist)) false = true /\
  os_code_down 4 (concat (km_os_run ex_kcfg km_init [] ex_khist)) false = false.
Proof. vm_compute. repeat split; reflexivity. Qed.
