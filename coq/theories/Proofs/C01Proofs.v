(* C01: ownership facts: what removes a held state, and that nothing is left behind by the paths
   that end a mechanism. *)
From Coq Require Import Lia.
From KV Require Import Kanata.Glue Proofs.LayoutBasics Proofs.C07Proofs Proofs.C08Proofs.

(* after the release of a coordinate no state created at it survives *)
Lemma release_leaves_nothing_at_coord c sts cu s :
  In s (fst (release_states c true sts cu)) -> at_coord c s = false.
Proof.
  rewrite release_states_filter. intros H. apply filter_In in H. destruct H as [_ Hs].
  unfold survives_release in Hs. apply andb_prop in Hs. destruct Hs as [_ Hs].
  apply negb_true_iff in Hs. exact Hs.
Qed.

(* an evicted macro releases every key it still had to release (the repaired ring overflow) *)
Lemma seq_release_removes kc sts : ~ In (FakeKey kc) (seq_release kc sts).
Proof.
  unfold seq_release. intros H. apply filter_In in H. destruct H as [_ H]. rewrite N.eqb_refl in H. discriminate.
Qed.

Lemma seq_release_incl kc sts s : In s (seq_release kc sts) -> In s sts.
Proof. unfold seq_release. intros H. apply filter_In in H. exact (proj1 H). Qed.

Lemma fold_release_monotone evs : forall l s,
  In s (states (fold_left (fun l ev => match ev with SRelease kc => set_states (seq_release kc (states l)) l | _ => l end) evs l)) ->
  In s (states l).
Proof.
  induction evs as [|e t IH]; intros l s H; cbn [fold_left] in H; [exact H|].
  apply IH in H. destruct e; try exact H. cbn [states set_states] in H. eapply seq_release_incl. exact H.
Qed.

Theorem evicted_macro_releases_its_keys old l kc :
  In (SRelease kc) (ss_remaining old) -> ~ In (FakeKey kc) (states (release_evicted old l)).
Proof.
  unfold release_evicted. intros Hin.
  set (l0 := match ss_tapped old with Some k => set_states (seq_release k (states l)) l | None => l end). clearbody l0.
  revert l0. induction (ss_remaining old) as [|e t IH]; intros l0; [contradiction|].
  cbn [fold_left]. destruct Hin as [->|Hin].
  - intros H. apply fold_release_monotone in H. cbn [states set_states] in H. exact (seq_release_removes kc _ H).
  - apply IH. exact Hin.
Qed.

(* quiet is absorbing and silent: once nothing is pending, nothing is ever emitted again *)
Theorem quiet_forever cfg (n : nat) l : quiet l ->
  forall k, (k < n)%nat -> layout_tick cfg (aged_n k l) = Ok (aged_n (S k) l, CNone).
Proof. exact (quiet_ticks_are_noops cfg n l). Qed.

(* ageing does not touch the key states: the key list stays what it was *)
Lemma aged_n_keycodes n : forall l, keycodes (aged_n n l) = keycodes l.
Proof. induction n as [|n IH]; intros l; [reflexivity|]. cbn [aged_n]. rewrite IH. reflexivity. Qed.
