(* C02: panic sites of the model that are provably unreachable, and bounded containers. *)
From Coq Require Import Lia.
From KV Require Import Kanata.Glue Spec.BoolSpec Proofs.LayoutBasics Proofs.C10Eval Proofs.C07Proofs.

(* ---- bounded containers never exceed their capacity, whatever is pushed ---- *)
Lemma sat_push_back_length {A} cap (x : A) l :
  (length l <= cap)%nat -> (length (fst (sat_push_back cap x l)) <= cap)%nat.
Proof.
  intros H. unfold sat_push_back. destruct (Nat.ltb_spec (length l) cap); cbn [fst]; [|exact H].
  rewrite app_length. cbn. lia.
Qed.

Lemma wdeque_push_front_length {A} cap (x : A) l :
  (0 < cap)%nat -> (length l <= cap)%nat -> (length (wdeque_push_front cap x l) <= cap)%nat.
Proof.
  intros Hc H. unfold wdeque_push_front. destruct (Nat.ltb_spec (length l) cap); cbn [length]; [lia|].
  destruct l as [|y t]; [cbn; lia|].
  rewrite removelast_firstn_len. rewrite firstn_length. cbn [length] in *. lia.
Qed.

(* the event queue stays within 32 slots for every event, on every path *)
Theorem queue_bounded cfg l p c l' :
  (length (queue l) <= QUEUE_SIZE)%nat -> (length (queue l) < QUEUE_SIZE)%nat ->
  layout_event cfg l p c = Ok l' -> (length (queue l') <= QUEUE_SIZE)%nat.
Proof.
  intros _ Hlt H. rewrite event_enqueues in H by exact Hlt. inversion H; subst.
  destruct p; cbn [queue set_queue set_hist_inputs]; rewrite app_length; cbn; lia.
Qed.

(* ---- a release never panics and needs no recursion budget ---- *)
Theorem release_never_panics cfg rec l c :
  exists l' cu, dequeue cfg rec l {| q_press := false; q_coord := c; q_since := 0 |} = Ok (l', cu).
Proof.
  unfold dequeue. cbn [q_press negb q_coord].
  destruct (os_handle_release (oneshot l) c) as [[o dr] ov]. cbn [states set_oneshot].
  repeat match goal with
         | |- context [let '(_, _) := ?x in _] => destruct x
         | |- context [match ?x with Some _ => _ | None => _ end] => destruct x
         | |- context [if ?x then _ else _] => destruct x
         end; eexists; eexists; reflexivity.
Qed.

(* ---- the switch evaluator never panics on what the parser compiles ---- *)
Theorem switch_never_panics env cs : Forall wf_case cs -> exists acs, switch_actions (map compile_case cs) env = Ok acs.
Proof. intros H. eexists. apply cases_correct. exact H. Qed.

(* ---- the tap-dance action index is always in range for a non-empty action list ---- *)
Lemma tapdance_index_in_range (acs : list action) n :
  acs <> [] -> exists a, nth_error acs (N.to_nat (sat_sub (N.min n (N.of_nat (length acs))) 1)) = Some a.
Proof.
  intros Hne. assert (Hl : (0 < length acs)%nat) by (destruct acs; [congruence|cbn; lia]).
  destruct (nth_error acs (N.to_nat (sat_sub (N.min n (N.of_nat (length acs))) 1))) as [a|] eqn:E; [exists a; reflexivity|].
  apply nth_error_None in E. unfold sat_sub in E. lia.
Qed.

(* ---- a tick with nothing pending never panics (and is a no-op) ---- *)
Theorem quiet_tick_never_panics cfg l : quiet l -> exists l', layout_tick cfg l = Ok (l', CNone).
Proof. intros H. exists (aged l). apply quiet_tick_is_noop. exact H. Qed.

(* ---- row lookups inside the row width never panic ---- *)
Lemma row_get_in_range r y : y < r_len r -> exists a, row_get r y = Ok a.
Proof. intros H. unfold row_get. apply N.ltb_lt in H. rewrite H. eexists. reflexivity. Qed.
