(* C03: the s-expression layer is total; spans are inside the text and on character boundaries. *)
From Coq Require Import Lia.
From KV Require Import Parser.Sexpr.
Local Open Scope N_scope.

(* ---------- UTF-8 well-formedness (a superset of what Rust's str guarantees) ---------- *)
Fixpoint utf8_ok (bs : list N) : bool :=
  match bs with
  | [] => true
  | b :: r =>
      if b <? 128 then utf8_ok r
      else if (194 <=? b) && (b <=? 223) then
        match r with c1 :: r' => is_cont c1 && utf8_ok r' | _ => false end
      else if (224 <=? b) && (b <=? 239) then
        match r with c1 :: c2 :: r' => is_cont c1 && is_cont c2 && utf8_ok r' | _ => false end
      else if (240 <=? b) && (b <=? 244) then
        match r with c1 :: c2 :: c3 :: r' => is_cont c1 && is_cont c2 && is_cont c3 && utf8_ok r' | _ => false end
      else false
  end.

(* what the lexer needs: the byte after an ASCII byte starts a character *)
Definition asc_ok (bs : list N) : Prop :=
  forall pre b post, bs = pre ++ b :: post -> b < 128 -> bnd post = true.

Lemma is_cont_spec b : is_cont b = true <-> 128 <= b <= 191.
Proof. unfold is_cont. rewrite andb_true_iff, !N.leb_le. reflexivity. Qed.

Lemma utf8_head_bnd bs : utf8_ok bs = true -> bnd bs = true.
Proof.
  destruct bs as [|b r]; [reflexivity|]. cbn [utf8_ok bnd]. intros H.
  destruct (is_cont b) eqn:E; [|reflexivity]. exfalso. apply is_cont_spec in E.
  destruct (N.ltb_spec b 128); [lia|].
  destruct (N.leb_spec 194 b), (N.leb_spec b 223), (N.leb_spec 224 b), (N.leb_spec b 239),
    (N.leb_spec 240 b), (N.leb_spec b 244); cbn [andb] in H; try discriminate; lia.
Qed.

Lemma utf8_asc_aux n : forall bs, (length bs <= n)%nat -> utf8_ok bs = true -> asc_ok bs.
Proof.
  induction n as [|n IH]; intros bs Hn H pre b post E Hb.
  - destruct bs; [destruct pre; discriminate|cbn in Hn; lia].
  - destruct bs as [|b0 r]; [destruct pre; discriminate|].
    cbn [utf8_ok] in H. cbn [length] in Hn.
    destruct (N.ltb_spec b0 128) as [Hlt|Hge].
    + destruct pre as [|p pre'].
      * cbn in E. injection E as <- <-. apply utf8_head_bnd. exact H.
      * cbn in E. injection E as <- E. apply (IH r ltac:(lia) H pre' b post E Hb).
    + destruct ((194 <=? b0) && (b0 <=? 223)) eqn:E2.
      { destruct r as [|c1 r']; [discriminate|]. apply andb_prop in H. destruct H as [Hc1 H].
        apply is_cont_spec in Hc1. cbn [length] in Hn.
        destruct pre as [|p [|q pre']]; cbn in E.
        - injection E as <- _. lia.
        - injection E as _ <- _. lia.
        - injection E as _ _ E. apply (IH r' ltac:(lia) H pre' b post E Hb). }
      destruct ((224 <=? b0) && (b0 <=? 239)) eqn:E3.
      { destruct r as [|c1 [|c2 r']]; try discriminate. apply andb_prop in H. destruct H as [Hc H].
        apply andb_prop in Hc. destruct Hc as [Hc1 Hc2].
        apply is_cont_spec in Hc1. apply is_cont_spec in Hc2. cbn [length] in Hn.
        destruct pre as [|p [|q [|q2 pre']]]; cbn in E.
        - injection E as <- _. lia.
        - injection E as _ <- _. lia.
        - injection E as _ _ <- _. lia.
        - injection E as _ _ _ E. apply (IH r' ltac:(lia) H pre' b post E Hb). }
      destruct ((240 <=? b0) && (b0 <=? 244)) eqn:E4; [|discriminate].
      destruct r as [|c1 [|c2 [|c3 r']]]; try discriminate. apply andb_prop in H. destruct H as [Hc H].
      apply andb_prop in Hc. destruct Hc as [Hc Hc3]. apply andb_prop in Hc. destruct Hc as [Hc1 Hc2].
      apply is_cont_spec in Hc1. apply is_cont_spec in Hc2. apply is_cont_spec in Hc3. cbn [length] in Hn.
      destruct pre as [|p [|q [|q2 [|q3 pre']]]]; cbn in E.
      * injection E as <- _. lia.
      * injection E as _ <- _. lia.
      * injection E as _ _ <- _. lia.
      * injection E as _ _ _ <- _. lia.
      * injection E as _ _ _ _ E. apply (IH r' ltac:(lia) H pre' b post E Hb).
Qed.

Lemma utf8_asc bs : utf8_ok bs = true -> asc_ok bs.
Proof. apply (utf8_asc_aux (length bs)). lia. Qed.

Lemma strip_bom_cases bs : strip_bom bs = bs \/ bs = 239 :: 187 :: 191 :: strip_bom bs.
Proof.
  unfold strip_bom.
  repeat match goal with
  | |- (match ?x with _ => _ end) = _ \/ _ => destruct x; try (left; reflexivity)
  end.
  right; reflexivity.
Qed.

Lemma utf8_strip_bom bs : utf8_ok bs = true -> utf8_ok (strip_bom bs) = true.
Proof.
  intros H. destruct (strip_bom_cases bs) as [->|E]; [exact H|].
  rewrite E in H. cbn in H. exact H.
Qed.

(* ---------- newline counting, splits ---------- *)
Fixpoint nlcount (l : list N) : N :=
  match l with [] => 0 | b :: r => (if b =? 10 then 1 else 0) + nlcount r end.
Lemma nlcount_app l1 l2 : nlcount (l1 ++ l2) = nlcount l1 + nlcount l2.
Proof. induction l1 as [|b r IH]; cbn [app nlcount]; [reflexivity|rewrite IH; lia]. Qed.
Lemma nlcount_le l : nlcount l <= N.of_nat (length l).
Proof. induction l as [|b r IH]; cbn [nlcount length]; [lia|destruct (b =? 10); lia]. Qed.

(* the iterator (or a position) sits after [pre], before [post] *)
Definition at_split (bs pre post : list N) (a ln lb : N) : Prop :=
  bs = pre ++ post /\ a = N.of_nat (length pre) /\ ln = nlcount pre /\ lb <= a.
Definition wfit (bs : list N) (it : iter) : Prop :=
  exists pre, at_split bs pre (i_rest it) (i_abs it) (i_line it) (i_lb it).
Definition pos_at (bs : list N) (p : pos) (post : list N) : Prop :=
  exists pre, at_split bs pre post (p_abs p) (p_line p) (p_lb p).

Lemma at_split_step bs pre b r a ln lb :
  at_split bs pre (b :: r) a ln lb ->
  let it' := it_step b r a ln lb in
  at_split bs (pre ++ [b]) r (i_abs it') (i_line it') (i_lb it') /\ i_rest it' = r.
Proof.
  intros (E & Ea & El & Hlb). unfold it_step.
  destruct (b =? 10) eqn:Eb; cbn [i_abs i_line i_lb i_rest]; (split; [|reflexivity]); unfold at_split;
    rewrite <- app_assoc, app_length, nlcount_app; cbn [app length nlcount]; rewrite Eb;
    repeat split; try exact E; try lia.
Qed.

Lemma it_pos_ok bs it : wfit bs it -> exists p, it_pos it = Ok p /\ pos_at bs p (i_rest it).
Proof.
  intros (pre & E & Ea & El & Hlb). unfold it_pos, pos_new.
  pose proof (nlcount_le pre) as Hn.
  destruct (N.leb_spec (i_line it) (i_abs it)); [|lia].
  destruct (N.leb_spec (i_lb it) (i_abs it)); [|lia].
  cbn [negb]. eexists. split; [reflexivity|]. exists pre. cbn [p_abs p_line p_lb]. repeat split; assumption.
Qed.

(* ---------- primitives advance along the text ---------- *)
(* [adv bs it mid it']: it' is well-formed and is [mid] further than it *)
Definition adv (bs : list N) (pre mid : list N) (it' : iter) : Prop :=
  at_split bs (pre ++ mid) (i_rest it') (i_abs it') (i_line it') (i_lb it').

Lemma next_while_l_spec f bs : forall r pre a ln lb,
  at_split bs pre r a ln lb ->
  exists mid, r = mid ++ i_rest (next_while_l f r a ln lb) /\
    adv bs pre mid (next_while_l f r a ln lb) /\
    Forall (fun b => f b = true) mid /\
    (match i_rest (next_while_l f r a ln lb) with [] => True | b :: _ => f b = false end).
Proof.
  induction r as [|b r IH]; intros pre a ln lb H.
  - exists []. cbn [next_while_l i_rest app]. unfold adv. rewrite app_nil_r. cbn [i_abs i_line i_lb i_rest].
    repeat split; try exact H; try constructor; apply H.
  - cbn [next_while_l]. destruct (f b) eqn:Ef.
    + pose proof (at_split_step _ _ _ _ _ _ _ H) as [Hs _]. unfold it_step in Hs.
      destruct (b =? 10) eqn:Eb; cbn [i_abs i_line i_lb] in Hs;
        (destruct (IH _ _ _ _ Hs) as (mid & E & Ha & Hf & Hl); exists (b :: mid);
         split; [cbn [app]; f_equal; exact E|];
         split; [unfold adv in *; rewrite <- app_assoc in Ha; exact Ha|];
         split; [constructor; assumption|exact Hl]).
    + exists []. cbn [i_rest app]. unfold adv. rewrite app_nil_r. cbn [i_abs i_line i_lb i_rest].
      repeat split; try exact H; try constructor; try apply H. exact Ef.
Qed.

Lemma adv_nil bs it : wfit bs it -> exists pre, adv bs pre [] it.
Proof. intros (pre & H). exists pre. unfold adv. rewrite app_nil_r. exact H. Qed.

Lemma nw_spec f bs pre m1 it1 :
  adv bs pre m1 it1 ->
  exists m2, i_rest it1 = m2 ++ i_rest (next_while f it1) /\
    adv bs pre (m1 ++ m2) (next_while f it1) /\
    Forall (fun b => f b = true) m2 /\
    (match i_rest (next_while f it1) with [] => True | b :: _ => f b = false end).
Proof.
  intros H. unfold next_while.
  destruct (next_while_l_spec f bs _ _ _ _ _ H) as (m2 & E & Ha & Hf & Hl).
  exists m2. unfold adv in *. rewrite app_assoc. auto.
Qed.

Lemma itn_spec bs pre m1 it1 b it2 :
  adv bs pre m1 it1 -> it_next it1 = Some (b, it2) ->
  i_rest it1 = b :: i_rest it2 /\ adv bs pre (m1 ++ [b]) it2.
Proof.
  unfold it_next. intros H E. destruct (i_rest it1) as [|b0 r] eqn:Er; [discriminate|].
  injection E as <- <-. unfold adv in H. rewrite Er in H.
  destruct (at_split_step _ _ _ _ _ _ _ H) as [Hs Hr]. rewrite Hr. split; [reflexivity|].
  unfold adv. rewrite Hr, app_assoc. exact Hs.
Qed.

Lemma itn_none it1 : it_next it1 = None -> i_rest it1 = [].
Proof. unfold it_next. destruct (i_rest it1); [reflexivity|discriminate]. Qed.

Lemma read_until_l_spec c1 c2 last bs : forall r pre a ln lb,
  at_split bs pre r a ln lb ->
  exists m2, r = m2 ++ i_rest (snd (read_until_l c1 c2 last r a ln lb)) /\
    adv bs pre m2 (snd (read_until_l c1 c2 last r a ln lb)) /\
    (fst (read_until_l c1 c2 last r a ln lb) = true -> exists m', m2 = m' ++ [c2]) /\
    (fst (read_until_l c1 c2 last r a ln lb) = false -> last = true ->
       i_rest (snd (read_until_l c1 c2 last r a ln lb)) = []).
Proof.
  induction r as [|b1 r IH]; intros pre a ln lb H.
  - exists []. cbn [read_until_l fst snd i_rest app]. unfold adv. rewrite app_nil_r. cbn [i_rest i_abs i_line i_lb].
    repeat split; try exact H; try apply H; try discriminate.
  - destruct r as [|b2 r2].
    + cbn [read_until_l fst snd]. destruct last.
      * destruct (at_split_step _ _ _ _ _ _ _ H) as [Hs Hr]. exists [b1].
        split; [rewrite Hr; reflexivity|]. split; [unfold adv; rewrite Hr; exact Hs|].
        split; [discriminate|intros _ _; exact Hr].
      * exists []. cbn [i_rest app]. unfold adv. rewrite app_nil_r. cbn [i_rest i_abs i_line i_lb].
        repeat split; try exact H; try apply H; discriminate.
    + cbn [read_until_l]. destruct (at_split_step _ _ _ _ _ _ _ H) as [Hs Hr].
      destruct ((b1 =? c1) && (b2 =? c2)) eqn:Em.
      * cbn [fst snd]. destruct (at_split_step _ _ _ _ _ _ _ Hs) as [Hs2 Hr2].
        exists [b1; b2]. rewrite Hr2. split; [reflexivity|]. split.
        { unfold adv. rewrite Hr2. rewrite <- app_assoc in Hs2. exact Hs2. }
        split; [|discriminate]. intros _. exists [b1]. apply andb_prop in Em. destruct Em as [_ Em].
        apply N.eqb_eq in Em. subst. reflexivity.
      * destruct (IH _ _ _ _ Hs) as (m2 & E & Ha & Hf & Hl).
        exists (b1 :: m2). split; [cbn [app]; f_equal; exact E|]. split.
        { unfold adv in *. rewrite <- app_assoc in Ha. exact Ha. }
        split; [|exact Hl]. intros Hfound. destruct (Hf Hfound) as (m' & ->). exists (b1 :: m'). reflexivity.
Qed.

Lemma ru_spec c1 c2 last bs pre m1 it1 found it2 :
  adv bs pre m1 it1 -> read_until c1 c2 last it1 = (found, it2) ->
  exists m2, i_rest it1 = m2 ++ i_rest it2 /\ adv bs pre (m1 ++ m2) it2 /\
    (found = true -> exists m', m2 = m' ++ [c2]) /\ (found = false -> last = true -> i_rest it2 = []).
Proof.
  unfold read_until. intros H E.
  destruct (read_until_l_spec c1 c2 last bs _ _ _ _ _ H) as (m2 & E2 & Ha & Hf & Hl).
  rewrite E in *. cbn [fst snd] in *. exists m2. unfold adv in *. rewrite app_assoc. auto.
Qed.

Lemma bnd_last bs pre mid x rest :
  asc_ok bs -> bs = (pre ++ (mid ++ [x])) ++ rest -> x < 128 -> bnd rest = true.
Proof.
  intros Ha E Hx. apply (Ha (pre ++ mid) x rest); [|exact Hx].
  rewrite E, <- !app_assoc. reflexivity.
Qed.

Lemma bnd_ascii_head b r : b < 128 -> bnd (b :: r) = true.
Proof. intros H. cbn [bnd]. destruct (is_cont b) eqn:E; [apply is_cont_spec in E; lia|reflexivity]. Qed.

Lemma is_ws_ascii b : is_ws b = true -> b < 128.
Proof. unfold is_ws. rewrite !orb_true_iff, !N.eqb_eq. lia. Qed.
Lemma is_start_ascii b : is_start b = true -> b < 128.
Proof. unfold is_start. rewrite !orb_true_iff, !N.eqb_eq. intros [[[H|H]|H]|H]; try lia. apply is_ws_ascii, H. Qed.

Lemma bnd_all_ascii bs pre mid rest :
  asc_ok bs -> bs = (pre ++ mid) ++ rest -> mid <> [] -> Forall (fun b => b < 128) mid -> bnd rest = true.
Proof.
  intros Ha E Hne Hf. destruct (exists_last Hne) as (m' & x & ->).
  apply Forall_app in Hf. destruct Hf as [_ Hx]. apply Forall_inv in Hx. rename Hx into Hx1.
  apply (bnd_last bs pre m' x rest Ha E Hx1).
Qed.

(* what holds at the end of one raw token *)
Definition tok_end_ok (bs pre mid : list N) (r : rawres) (it' : iter) : Prop :=
  mid <> [] /\ adv bs pre mid it' /\
  (r <> RErr EUntermComment -> bnd (i_rest it') = true) /\
  (r = RErr EUntermComment -> exists m2, mid = 35 :: 124 :: m2).

Lemma next_string_end bs pre b it1 :
  asc_ok bs -> adv bs pre [b] it1 ->
  exists m2, i_rest it1 = m2 ++ i_rest (next_string it1) /\
    tok_end_ok bs pre ([b] ++ m2) (RTok TString) (next_string it1).
Proof.
  intros Ha H1. unfold next_string.
  destruct (nw_spec (fun b => negb (is_start b)) bs pre [b] it1 H1) as (m2 & E & Ha2 & _ & Hl).
  exists m2. split; [exact E|]. split; [discriminate|]. split; [exact Ha2|]. split; [|discriminate].
  intros _. destruct (i_rest (next_while (fun b0 => negb (is_start b0)) it1)) as [|h t]; [reflexivity|].
  apply bnd_ascii_head, is_start_ascii. destruct (is_start h); [reflexivity|discriminate].
Qed.

Lemma next_raw_spec bs pre it r it' :
  asc_ok bs -> adv bs pre [] it -> next_raw it = Some (r, it') ->
  exists mid, i_rest it = mid ++ i_rest it' /\ tok_end_ok bs pre mid r it'.
Proof.
  intros Ha H0. unfold next_raw.
  destruct (it_next it) as [[b it1]|] eqn:E1; [|discriminate].
  destruct (itn_spec _ _ _ _ _ _ H0 E1) as [Hi H1]. cbn [app] in H1.
  assert (Hstr : forall r0 it0, (RTok TString, next_string it1) = (r0, it0) ->
            exists mid, i_rest it = mid ++ i_rest it0 /\ tok_end_ok bs pre mid r0 it0).
  { intros r0 it0 E. injection E as <- <-. destruct (next_string_end bs pre b it1 Ha H1) as (m2 & E & Hok).
    exists ([b] ++ m2). split; [rewrite Hi, E; reflexivity|exact Hok]. }
  assert (Hone : b < 128 -> forall t, exists mid, i_rest it = mid ++ i_rest it1 /\ tok_end_ok bs pre mid (RTok t) it1).
  { intros Hb t. exists [b]. split; [rewrite Hi; reflexivity|]. split; [discriminate|]. split; [exact H1|].
    split; [|discriminate]. intros _. destruct H1 as (EE & _). apply (bnd_last bs pre [] b _ Ha EE Hb). }
  intros E. injection E as E.
  destruct (b =? 40) eqn:B40.
  { injection E as <- <-. apply N.eqb_eq in B40. apply Hone. lia. }
  destruct (b =? 41) eqn:B41.
  { injection E as <- <-. apply N.eqb_eq in B41. apply Hone. lia. }
  destruct (b =? 34) eqn:B34.
  { destruct (nw_spec (fun b => negb (b =? 34) && negb (b =? 10)) bs pre [b] it1 H1) as (m2 & E2 & Ha2 & _ & Hl).
    set (it2 := next_while (fun b => negb (b =? 34) && negb (b =? 10)) it1) in *.
    destruct (it_next it2) as [[b2 it3]|] eqn:E3.
    - destruct (itn_spec _ _ _ _ _ _ Ha2 E3) as [Hi2 H3].
      rewrite Hi2 in Hl.
      assert (Hb2 : b2 < 128).
      { destruct (b2 =? 34) eqn:X; [apply N.eqb_eq in X; lia|]. destruct (b2 =? 10) eqn:Y; [apply N.eqb_eq in Y; lia|discriminate]. }
      assert (Hend : forall r0, r0 <> RErr EUntermComment ->
                exists mid, i_rest it = mid ++ i_rest it3 /\ tok_end_ok bs pre mid r0 it3).
      { intros r0 Hr0. exists (([b] ++ m2) ++ [b2]). split; [rewrite Hi, E2, Hi2, <- !app_assoc; reflexivity|].
        split; [intros X; apply app_eq_nil in X; destruct X; discriminate|]. split; [exact H3|].
        split; [|intros X; contradiction]. intros _. destruct H3 as (EE & _). apply (bnd_last bs pre ([b] ++ m2) b2 _ Ha EE Hb2). }
      destruct (b2 =? 34); injection E as <- <-; apply Hend; discriminate.
    - injection E as <- <-. apply itn_none in E3. exists ([b] ++ m2). split; [rewrite Hi, E2, E3, !app_nil_r; reflexivity|].
      split; [discriminate|]. split; [exact Ha2|]. split; [|discriminate]. intros _. rewrite E3. reflexivity. }
  destruct (b =? 59) eqn:B59.
  { destruct (i_rest it1) as [|b2 r1] eqn:Er1; [apply Hstr; exact E|].
    destruct (b2 =? 59); [|apply Hstr; exact E].
    destruct (nw_spec (fun b => negb (b =? 10)) bs pre [b] it1 H1) as (m2 & E2 & Ha2 & _ & Hl).
    set (it2 := next_while (fun b => negb (b =? 10)) it1) in *.
    destruct (it_next it2) as [[x it3]|] eqn:E3.
    - destruct (itn_spec _ _ _ _ _ _ Ha2 E3) as [Hi2 H3]. rewrite Hi2 in Hl.
      assert (Hx : x < 128) by (destruct (x =? 10) eqn:X; [apply N.eqb_eq in X; lia|discriminate]).
      injection E as <- <-. exists (([b] ++ m2) ++ [x]). split; [rewrite Hi, <- Er1, E2, Hi2, <- !app_assoc; reflexivity|].
      split; [intros X; apply app_eq_nil in X; destruct X; discriminate|]. split; [exact H3|].
      split; [|discriminate]. intros _. destruct H3 as (EE & _). apply (bnd_last bs pre ([b] ++ m2) x _ Ha EE Hx).
    - injection E as <- <-. apply itn_none in E3. exists ([b] ++ m2). split; [rewrite Hi, <- Er1, E2, E3, !app_nil_r; reflexivity|].
      split; [discriminate|]. split; [exact Ha2|]. split; [|discriminate]. intros _. rewrite E3. reflexivity. }
  destruct (b =? 114) eqn:B114.
  { destruct (i_rest it1) as [|b2 [|b3 r1]] eqn:Er1; try (apply Hstr; exact E).
    destruct ((b2 =? 35) && (b3 =? 34)); [|apply Hstr; exact E].
    destruct (it_next it1) as [[x ita]|] eqn:Ea; [|apply itn_none in Ea; rewrite Ea in Er1; discriminate].
    destruct (itn_spec _ _ _ _ _ _ H1 Ea) as [Hia H2].
    destruct (it_next ita) as [[y itb]|] eqn:Eb;
      [|apply itn_none in Eb; rewrite Hia, Eb in Er1; discriminate].
    destruct (itn_spec _ _ _ _ _ _ H2 Eb) as [Hib H3].
    destruct (read_until 34 35 true itb) as [found itc] eqn:Eru.
    destruct (ru_spec _ _ _ _ _ _ _ _ _ H3 Eru) as (m2 & E2 & Ha4 & Hf & Hn).
    injection E as <- <-.
    exists ((([b] ++ [x]) ++ [y]) ++ m2). split; [rewrite Hi, <- Er1, Hia, Hib, E2, <- !app_assoc; reflexivity|].
    split; [cbn [app]; discriminate|]. split; [exact Ha4|].
    split; [|destruct found; discriminate]. intros _.
    destruct found.
    - destruct (Hf eq_refl) as (m' & ->). destruct Ha4 as (EE & _).
      apply (bnd_last bs pre ((([b] ++ [x]) ++ [y]) ++ m') 35 _ Ha); [|lia].
      rewrite EE, <- !app_assoc. reflexivity.
    - rewrite (Hn eq_refl eq_refl). reflexivity. }
  destruct (b =? 35) eqn:B35.
  { destruct (i_rest it1) as [|b2 r1] eqn:Er1; [apply Hstr; exact E|].
    destruct (b2 =? 124) eqn:B124; [|apply Hstr; exact E].
    destruct (it_next it1) as [[x ita]|] eqn:Ea; [|apply itn_none in Ea; rewrite Ea in Er1; discriminate].
    destruct (itn_spec _ _ _ _ _ _ H1 Ea) as [Hia H2].
    assert (x = 124) as -> by (rewrite Hia in Er1; injection Er1 as -> _; apply N.eqb_eq; exact B124).
    apply N.eqb_eq in B35. subst b.
    destruct (read_until 124 35 false ita) as [found itc] eqn:Eru.
    destruct (ru_spec _ _ _ _ _ _ _ _ _ H2 Eru) as (m2 & E2 & Ha4 & Hf & Hn).
    injection E as <- <-.
    exists (([35] ++ [124]) ++ m2). split; [rewrite Hi, <- Er1, Hia, E2, <- !app_assoc; reflexivity|].
    split; [cbn [app]; discriminate|]. split; [exact Ha4|].
    destruct found.
    - split; [|discriminate]. intros _. destruct (Hf eq_refl) as (m' & ->). destruct Ha4 as (EE & _).
      apply (bnd_last bs pre (([35] ++ [124]) ++ m') 35 _ Ha); [|lia].
      rewrite EE, <- !app_assoc. reflexivity.
    - split; [intros X; contradiction|]. intros _. exists m2. reflexivity. }
  destruct (is_ws b) eqn:Bws; [|apply Hstr; exact E].
  injection E as <- <-.
  destruct (nw_spec is_ws bs pre [b] it1 H1) as (m2 & E2 & Ha2 & Hf & _).
  exists ([b] ++ m2). split; [rewrite Hi, E2; reflexivity|].
  split; [discriminate|]. split; [exact Ha2|]. split; [|discriminate]. intros _.
  destruct Ha2 as (EE & _). apply (bnd_all_ascii bs pre ([b] ++ m2) _ Ha EE); [discriminate|].
  apply Forall_app. split; [constructor; [apply is_ws_ascii, Bws|constructor]|].
  eapply Forall_impl; [|exact Hf]. intros a Hfa. apply is_ws_ascii, Hfa.
Qed.

(* ---------- positions and spans that lie in the text ---------- *)
Definition pos_ok (bs : list N) (p : pos) : Prop := exists post, pos_at bs p post.
Definition pos_bnd (bs : list N) (p : pos) : Prop := exists post, pos_at bs p post /\ bnd post = true.
Definition span_ok (bs : list N) (sp : span) : Prop :=
  pos_ok bs (s_start sp) /\ pos_ok bs (s_end sp) /\ p_abs (s_start sp) <= p_abs (s_end sp) /\ s_file sp = 1.
Definition span_al (bs : list N) (sp : span) : Prop :=
  span_ok bs sp /\ pos_bnd bs (s_start sp) /\ pos_bnd bs (s_end sp).

(* the readable form: what &s[span] and miette need *)
Definition span_in_text (bs : list N) (sp : span) : Prop :=
  p_abs (s_start sp) <= p_abs (s_end sp) /\ p_abs (s_end sp) <= N.of_nat (length bs) /\
  bnd (skipn (N.to_nat (p_abs (s_start sp))) bs) = true /\
  bnd (skipn (N.to_nat (p_abs (s_end sp))) bs) = true.

Lemma skipn_length_app {A} (pre post : list A) : skipn (length pre) (pre ++ post) = post.
Proof. induction pre as [|x pre IH]; [reflexivity|exact IH]. Qed.

Lemma pos_at_skipn bs p post : pos_at bs p post ->
  skipn (N.to_nat (p_abs p)) bs = post /\ p_abs p <= N.of_nat (length bs).
Proof.
  intros (pre & E & Ea & _). rewrite Ea, Nat2N.id, E. split; [apply skipn_length_app|].
  rewrite app_length. lia.
Qed.

Lemma span_al_in_text bs sp : span_al bs sp -> span_in_text bs sp.
Proof.
  intros ((_ & _ & Hle & _) & (p1 & H1 & B1) & (p2 & H2 & B2)).
  destruct (pos_at_skipn _ _ _ H1) as [E1 _]. destruct (pos_at_skipn _ _ _ H2) as [E2 L2].
  unfold span_in_text. rewrite E1, E2. auto.
Qed.

Lemma app_prefix {A} : forall (l1 l2 r1 r2 : list A),
  l1 ++ r1 = l2 ++ r2 -> (length l1 <= length l2)%nat -> exists m, l2 = l1 ++ m.
Proof.
  induction l1 as [|x l1 IH]; intros l2 r1 r2 E H.
  - exists l2. reflexivity.
  - destruct l2 as [|y l2]; [cbn in H; lia|]. cbn in E. injection E as -> E. cbn in H.
    destruct (IH l2 r1 r2 E ltac:(lia)) as (m & ->). exists m. reflexivity.
Qed.

Lemma pos_mono bs p q : pos_ok bs p -> pos_ok bs q -> p_abs p <= p_abs q -> p_line p <= p_line q.
Proof.
  intros (po1 & pre1 & E1 & A1 & L1 & _) (po2 & pre2 & E2 & A2 & L2 & _) H.
  rewrite E1 in E2. destruct (app_prefix _ _ _ _ E2 ltac:(lia)) as (m & ->).
  rewrite L1, L2, nlcount_app. lia.
Qed.

Lemma span_new_ok bs s e : pos_ok bs s -> pos_ok bs e -> p_abs s <= p_abs e ->
  span_new s e 1 = Ok (mkspan s e 1).
Proof.
  intros Hs He H. unfold span_new. pose proof (pos_mono _ _ _ Hs He H) as Hl.
  destruct (N.leb_spec (p_abs s) (p_abs e)); [|lia]. destruct (N.leb_spec (p_line s) (p_line e)); [|lia].
  reflexivity.
Qed.

Lemma it_pos_adv bs pre mid it : adv bs pre mid it ->
  exists p, it_pos it = Ok p /\ at_split bs (pre ++ mid) (i_rest it) (p_abs p) (p_line p) (p_lb p).
Proof.
  intros H. pose proof H as (E & Ea & El & Hlb). unfold it_pos, pos_new.
  pose proof (nlcount_le (pre ++ mid)) as Hn.
  destruct (N.leb_spec (i_line it) (i_abs it)); [|lia].
  destruct (N.leb_spec (i_lb it) (i_abs it)); [|lia].
  cbn [negb]. eexists. split; [reflexivity|]. exact H.
Qed.

(* ---------- the token stream ---------- *)
Definition tok_ok (bs : list N) (t : stok) : Prop :=
  span_ok bs (st_span t) /\ pos_bnd bs (s_start (st_span t)) /\
  match st_res t with
  | RErr EUntermComment => exists rest1, pos_at bs (s_start (st_span t)) (35 :: 124 :: rest1)
  | _ => pos_bnd bs (s_end (st_span t))
  end.

Lemma lex_all_spec bs ignore : asc_ok bs -> forall fuel it,
  wfit bs it -> bnd (i_rest it) = true -> (length (i_rest it) < fuel)%nat ->
  exists toks, lex_all fuel ignore it = Ok toks /\ Forall (tok_ok bs) toks.
Proof.
  intros Ha. induction fuel as [|f IH]; intros it Hw Hb Hlen; [lia|].
  cbn [lex_all]. destruct (next_raw it) as [[r it']|] eqn:En; [|exists []; split; [reflexivity|constructor]].
  destruct (adv_nil _ _ Hw) as (pre & H0).
  destruct (next_raw_spec _ _ _ _ _ Ha H0 En) as (mid & Ei & Hne & Ha' & Hbnd & Hcm).
  destruct (it_pos_adv _ _ _ _ H0) as (s & Es & Hs). rewrite app_nil_r in Hs.
  destruct (it_pos_adv _ _ _ _ Ha') as (e & Ee & He).
  rewrite Es. cbn [bind].
  assert (Hlen' : (length (i_rest it') < f)%nat).
  { rewrite Ei, app_length in Hlen. destruct mid; [contradiction|cbn [length] in Hlen; lia]. }
  assert (Hw' : wfit bs it') by (exists (pre ++ mid); exact Ha').
  assert (Hps : pos_ok bs s) by (exists (i_rest it), pre; exact Hs).
  assert (Hpe : pos_ok bs e) by (exists (i_rest it'), (pre ++ mid); exact He).
  assert (Hle : p_abs s <= p_abs e).
  { destruct Hs as (_ & -> & _). destruct He as (_ & -> & _). rewrite app_length. lia. }
  assert (Hsb : pos_bnd bs s) by (exists (i_rest it); split; [exists pre; exact Hs|exact Hb]).
  assert (Hsp : span_ok bs (mkspan s e 1)) by (repeat split; assumption).
  destruct r as [t|er].
  - destruct (skipped ignore t).
    + apply IH; try assumption. apply Hbnd. discriminate.
    + rewrite Ee. cbn [bind]. rewrite (span_new_ok bs s e Hps Hpe Hle). cbn [bind].
      destruct (IH it' Hw' (Hbnd ltac:(discriminate)) Hlen') as (toks & -> & Hf). cbn [bind].
      eexists. split; [reflexivity|]. constructor; [|exact Hf].
      split; [exact Hsp|]. split; [exact Hsb|]. cbn [st_res st_span s_end].
      exists (i_rest it'). split; [exists (pre ++ mid); exact He|apply Hbnd; discriminate].
  - rewrite Ee. cbn [bind]. rewrite (span_new_ok bs s e Hps Hpe Hle). cbn [bind].
    eexists. split; [reflexivity|]. constructor; [|constructor].
    split; [exact Hsp|]. split; [exact Hsb|]. cbn [st_res st_span s_end s_start].
    destruct er.
    + exists (i_rest it'). split; [exists (pre ++ mid); exact He|apply Hbnd; discriminate].
    + exists (i_rest it'). split; [exists (pre ++ mid); exact He|apply Hbnd; discriminate].
    + destruct (Hcm eq_refl) as (m2 & ->). exists (m2 ++ i_rest it'). exists pre.
      rewrite Ei in Hs. exact Hs.
Qed.

(* ---------- the list builder ---------- *)
Inductive sx_ok (bs : list N) : sexpr -> Prop :=
| ok_atom t sp : span_al bs sp -> sx_ok bs (Atom t sp)
| ok_list l sp : span_al bs sp -> Forall (sx_ok bs) l -> sx_ok bs (SList l sp).

Lemma sx_ok_span bs e : sx_ok bs e -> span_al bs (sexpr_span e).
Proof. intros H. destruct H; assumption. Qed.

Definition frame_ok (bs : list N) (fr : frame) : Prop := span_al bs (snd fr) /\ Forall (sx_ok bs) (fst fr).
Definition stack_ok (bs : list N) (st : list frame) : Prop :=
  exists frames items0, st = frames ++ [(items0, span_default)] /\
    Forall (frame_ok bs) frames /\ Forall (sx_ok bs) items0.

Definition err_ok (bs : list N) (e : perr) : Prop :=
  span_ok bs (pe_span e) /\ pos_bnd bs (s_start (pe_span e)) /\
  match pe_msg e with
  | MLex EUntermComment => exists rest1, pos_at bs (s_start (pe_span e)) (35 :: 124 :: rest1)
  | _ => pos_bnd bs (s_end (pe_span e))
  end.

Lemma slice_ok bs sp : span_al bs sp ->
  exists txt, slice bs (p_abs (s_start sp)) (p_abs (s_end sp)) = Ok txt.
Proof.
  intros H. destruct (span_al_in_text _ _ H) as (H1 & H2 & H3 & H4). unfold slice.
  destruct (N.leb_spec (p_abs (s_start sp)) (p_abs (s_end sp))); [|lia].
  destruct (N.leb_spec (p_abs (s_end sp)) (N.of_nat (length bs))); [|lia].
  rewrite H3, H4. cbn [negb]. eexists. reflexivity.
Qed.

Lemma push_top_ok bs x st : stack_ok bs st -> sx_ok bs x ->
  exists st', push_top x st = Ok st' /\ stack_ok bs st'.
Proof.
  intros (frames & items0 & -> & Hf & H0) Hx. destruct frames as [|[items sp] fr].
  - cbn [app push_top]. eexists. split; [reflexivity|]. exists [], (items0 ++ [x]).
    split; [reflexivity|]. split; [constructor|]. apply Forall_app. split; [exact H0|constructor; [exact Hx|constructor]].
  - cbn [app push_top]. eexists. split; [reflexivity|]. exists ((items ++ [x], sp) :: fr), items0.
    split; [reflexivity|]. split; [|exact H0]. inversion Hf as [|? ? [Hsp Hit] Hfr]; subst.
    constructor; [|exact Hfr]. split; [exact Hsp|]. cbn [fst]. apply Forall_app.
    split; [exact Hit|constructor; [exact Hx|constructor]].
Qed.

Lemma span_cover_ok bs a b : span_al bs a -> span_al bs b ->
  exists c, span_cover a b = Ok c /\ span_al bs c.
Proof.
  intros ((As & Ae & Ale & Af) & Asb & Aeb) ((Bs & Be & Ble & Bf) & Bsb & Beb).
  unfold span_cover. rewrite Af, Bf. cbn [N.eqb Pos.eqb negb].
  set (st := if p_abs (s_start a) <=? p_abs (s_start b) then s_start a else s_start b).
  set (en := if p_abs (s_end b) <=? p_abs (s_end a) then s_end a else s_end b).
  assert (Hst : pos_ok bs st /\ pos_bnd bs st /\ p_abs st <= p_abs (s_start a))
    by (unfold st; destruct (N.leb_spec (p_abs (s_start a)) (p_abs (s_start b))); repeat split; try assumption; lia).
  assert (Hen : pos_ok bs en /\ pos_bnd bs en /\ p_abs (s_end a) <= p_abs en)
    by (unfold en; destruct (N.leb_spec (p_abs (s_end b)) (p_abs (s_end a))); repeat split; try assumption; lia).
  destruct Hst as (S1 & S2 & S3). destruct Hen as (E1 & E2 & E3).
  rewrite (span_new_ok bs st en S1 E1 ltac:(lia)). eexists. split; [reflexivity|].
  split; [|split; assumption]. repeat split; try assumption. cbn [s_start s_end]. lia.
Qed.

Lemma tok_al bs t k : tok_ok bs t -> st_res t = RTok k -> span_al bs (st_span t).
Proof. intros (H1 & H2 & H3) E. rewrite E in H3. repeat split; try assumption; apply H1. Qed.

Lemma build_total bs : forall toks st ms,
  Forall (tok_ok bs) toks -> stack_ok bs st ->
  exists r, build bs toks st ms = Ok r /\
    match r with inl e => err_ok bs e | inr (st', _) => stack_ok bs st' end.
Proof.
  induction toks as [|[r sp] toks IH]; intros st ms Hf Hst.
  - eexists. split; [reflexivity|exact Hst].
  - inversion Hf as [|? ? Ht Hf']; subst. cbn [build].
    destruct r as [k|er].
    + pose proof (tok_al _ _ k Ht eq_refl) as Hal. cbn [st_span] in Hal.
      destruct (slice_ok _ _ Hal) as (txt & Etxt).
      destruct k.
      * (* Open *)
        apply IH; [exact Hf'|]. destruct Hst as (frames & items0 & -> & Hfr & H0).
        exists (([], sp) :: frames), items0. split; [reflexivity|]. split; [|exact H0].
        constructor; [split; [exact Hal|constructor]|exact Hfr].
      * (* Close *)
        destruct Hst as (frames & items0 & -> & Hfr & H0).
        destruct frames as [|[items osp] fr].
        { cbn [app]. eexists. split; [reflexivity|]. cbn [pe_span pe_msg].
          destruct Hal as (X & Y & Z). repeat split; try assumption; apply X. }
        cbn [app]. inversion Hfr as [|? ? [Hosp Hit] Hfr']; subst. cbn [snd fst] in *.
        destruct (span_cover_ok _ _ _ Hosp Hal) as (c & Ec & Hc).
        assert (Hst' : stack_ok bs (fr ++ [(items0, span_default)])) by (exists fr, items0; auto).
        destruct (fr ++ [(items0, span_default)]) as [|f1 rest] eqn:Efr; [destruct fr; discriminate|].
        rewrite Ec. cbn [bind].
        destruct (push_top_ok bs (SList items c) _ Hst' (ok_list _ _ _ Hc Hit)) as (st'' & -> & Hst'').
        cbn [bind]. apply IH; assumption.
      * (* String *)
        rewrite Etxt. cbn [bind].
        destruct (push_top_ok bs (Atom txt sp) _ Hst (ok_atom _ _ _ Hal)) as (st'' & -> & Hst'').
        cbn [bind]. apply IH; assumption.
      * rewrite Etxt. cbn [bind]. apply IH; assumption.
      * rewrite Etxt. cbn [bind]. apply IH; assumption.
      * rewrite Etxt. cbn [bind]. apply IH; assumption.
    + eexists. split; [reflexivity|]. destruct Ht as (H1 & H2 & H3). cbn [st_span st_res] in *.
      split; [exact H1|]. split; [exact H2|]. cbn [pe_msg pe_span]. destruct er; exact H3.
Qed.

Lemma top_lists_ok bs : forall items, Forall (sx_ok bs) items ->
  match top_lists items with
  | inl e => err_ok bs e
  | inr ls => Forall (fun t => span_al bs (snd t) /\ Forall (sx_ok bs) (fst t)) ls
  end.
Proof.
  induction items as [|x items IH]; intros H; [constructor|].
  inversion H as [|? ? Hx Hr]; subst. cbn [top_lists]. destruct x as [t sp|l sp].
  - inversion Hx as [? ? Hal|]; subst. cbn [pe_span pe_msg]. destruct Hal as (X & Y & Z).
    repeat split; try assumption; apply X.
  - specialize (IH Hr). destruct (top_lists items); [exact IH|].
    inversion Hx as [|? ? Hal Hl]; subst. constructor; [split; assumption|exact IH].
Qed.

Definition result_ok (bs : list N) (r : perr + (list (list sexpr * span) * list meta)) : Prop :=
  match r with
  | inl e => span_in_text bs (pe_span e)
  | inr (tops, _) => Forall (fun t => span_al bs (snd t) /\ Forall (sx_ok bs) (fst t)) tops
  end.

Lemma err_ok_not_comment bs e : err_ok bs e -> pe_msg e <> MLex EUntermComment -> span_in_text bs (pe_span e).
Proof.
  intros (H1 & H2 & H3) Hne. apply span_al_in_text. split; [exact H1|]. split; [exact H2|].
  destruct (pe_msg e) as [| | |[]]; try exact H3. contradiction.
Qed.

Lemma parse_with_total bs toks : Forall (tok_ok bs) toks ->
  exists r, parse_with bs toks = Ok r /\
    match r with
    | inl e => err_ok bs e
    | inr (tops, _) => Forall (fun t => span_al bs (snd t) /\ Forall (sx_ok bs) (fst t)) tops
    end.
Proof.
  intros Hf. unfold parse_with.
  assert (H0 : stack_ok bs [([], span_default)]) by (exists [], []; split; [reflexivity|split; constructor]).
  destruct (build_total bs toks _ [] Hf H0) as (r & -> & Hr). cbn [bind].
  destruct r as [e|[st ms]]; [eexists; split; [reflexivity|exact Hr]|].
  destruct Hr as (frames & items0 & -> & Hfr & Hi0).
  destruct frames as [|[items sp] fr].
  - cbn [app]. pose proof (top_lists_ok bs items0 Hi0) as Ht.
    destruct (top_lists items0); eexists; (split; [reflexivity|exact Ht]).
  - cbn [app]. destruct (fr ++ [(items0, span_default)]) eqn:Efr; [destruct fr; discriminate|].
    eexists. split; [reflexivity|]. inversion Hfr as [|? ? [Hsp _] _]; subst. cbn [snd] in Hsp.
    cbn [pe_span pe_msg]. destruct Hsp as (X & Y & Z). repeat split; try assumption; apply X.
Qed.

Theorem parse_total ignore text : utf8_ok text = true ->
  exists r, parse_ ignore text = Ok r /\ result_ok (strip_bom text) r.
Proof.
  intros Hu. unfold parse_. set (bs := strip_bom text).
  assert (Hu' : utf8_ok bs = true) by (apply utf8_strip_bom; exact Hu).
  pose proof (utf8_asc _ Hu') as Ha.
  assert (Hw : wfit bs (mkit bs 0 0 0)) by (exists []; repeat split; cbn; lia).
  destruct (lex_all_spec bs ignore Ha (S (length bs)) (mkit bs 0 0 0) Hw (utf8_head_bnd _ Hu') ltac:(cbn; lia))
    as (toks & -> & Hf).
  cbn [bind]. destruct (parse_with_total bs toks Hf) as (r & -> & Hr). cbn [bind].
  destruct r as [e|[tops ms]].
  - destruct e as [msg sp]. destruct msg as [| | |[]];
      try (eexists; split; [reflexivity|]; apply (err_ok_not_comment bs _ Hr); discriminate).
    eexists. split; [reflexivity|]. cbn [result_ok pe_span].
    destruct Hr as (H1 & H2 & (rest1 & pre & E & Ea & El & Hlb)). cbn [pe_span pe_msg] in *.
    unfold span_in_text. cbn [s_start s_end p_abs].
    assert (E2 : bs = (pre ++ [35; 124]) ++ rest1) by (rewrite E, <- app_assoc; reflexivity).
    assert (Hb1 : bnd rest1 = true) by (apply (bnd_last bs pre [35] 124 rest1 Ha E2); lia).
    assert (Hb0 : bnd (35 :: 124 :: rest1) = true) by (apply bnd_ascii_head; lia).
    assert (S1 : skipn (N.to_nat (p_abs (s_start sp))) bs = 35 :: 124 :: rest1)
      by (rewrite Ea, Nat2N.id, E; apply skipn_length_app).
    assert (S2 : skipn (N.to_nat (p_abs (s_start sp) + 2)) bs = rest1).
    { replace (N.to_nat (p_abs (s_start sp) + 2)) with (length (pre ++ [35; 124]))
        by (rewrite Ea, app_length; cbn [length]; lia).
      rewrite E2. apply skipn_length_app. }
    assert (L : (length bs = length pre + 2 + length rest1)%nat)
      by (rewrite E2, !app_length; cbn [length]; lia).
    rewrite S1, S2. repeat split; try assumption; lia.
  - eexists. split; [reflexivity|exact Hr].
Qed.

(* ---------- variables: accepted tables are acyclic, resolution is bounded ---------- *)
Lemma bytes_eqb_eq a : forall b, bytes_eqb a b = true <-> a = b.
Proof.
  induction a as [|x a IH]; intros [|y b]; cbn [bytes_eqb]; split; try discriminate; try reflexivity.
  - intros H. apply andb_prop in H. destruct H as [H1 H2]. apply N.eqb_eq in H1. apply IH in H2. subst. reflexivity.
  - intros H. injection H as -> ->. rewrite N.eqb_refl. apply IH. reflexivity.
Qed.
Lemma bytes_eqb_refl a : bytes_eqb a a = true.
Proof. apply bytes_eqb_eq. reflexivity. Qed.
Lemma bytes_eqb_neq a b : a <> b -> bytes_eqb a b = false.
Proof. intros H. destruct (bytes_eqb a b) eqn:E; [apply bytes_eqb_eq in E; contradiction|reflexivity]. Qed.

Inductive mentions : sexpr -> list N -> Prop :=
| m_atom t sp n : strip_dollar t = Some n -> mentions (Atom t sp) n
| m_list l sp x n : In x l -> mentions x n -> mentions (SList l sp) n.

(* [reaches vs e n]: resolving e can arrive at the name n *)
Inductive reaches (vs : vars) : sexpr -> list N -> Prop :=
| r_here e n : mentions e n -> reaches vs e n
| r_hop e m v n : mentions e m -> lookup m vs = Some v -> reaches vs v n -> reaches vs e n.

Definition acyclic (vs : vars) : Prop := forall n v, lookup n vs = Some v -> ~ reaches vs v n.

Lemma reaches_trans vs e n v m : reaches vs e n -> lookup n vs = Some v -> reaches vs v m -> reaches vs e m.
Proof.
  intros H. induction H as [e n Hm|e k w n Hm Hl Hr IH]; intros Hn Hv.
  - eapply r_hop; eassumption.
  - eapply r_hop; [exact Hm|exact Hl|]. apply IH; assumption.
Qed.

Fixpoint any_ref (fuel : nat) (vs : vars) (name : list N) (l : list sexpr) : outcome bool :=
  match l with
  | [] => Ok false
  | x :: r => b <- refers_to fuel vs name x ;; if b then Ok true else any_ref fuel vs name r
  end.

Lemma refers_list f vs name l sp : refers_to (S f) vs name (SList l sp) = any_ref (S f) vs name l.
Proof.
  cbn [refers_to]. induction l as [|x r IH]; [reflexivity|].
  cbn [any_ref]. rewrite <- IH. reflexivity.
Qed.

Lemma refers_atom f vs name t sp :
  refers_to (S f) vs name (Atom t sp) =
  match strip_dollar t with
  | None => Ok false
  | Some n => if bytes_eqb n name then Ok true
              else match lookup n vs with None => Ok false | Some v => refers_to f vs name v end
  end.
Proof. reflexivity. Qed.

(* induction principle for the rose tree *)
Lemma sexpr_ind' (P : sexpr -> Prop) :
  (forall t sp, P (Atom t sp)) ->
  (forall l sp, Forall P l -> P (SList l sp)) ->
  forall e, P e.
Proof.
  intros Ha Hl. fix IH 1. intros [t sp|l sp]; [apply Ha|]. apply Hl.
  induction l as [|x r IHr]; constructor; [apply IH|exact IHr].
Qed.

(* Ok false means: the name is not reachable *)
Lemma refers_false_sound vs name : forall f e, refers_to f vs name e = Ok false -> ~ reaches vs e name.
Proof.
  assert (Hm : forall f e, refers_to (S f) vs name e = Ok false ->
            forall n, mentions e n -> n <> name /\ forall v, lookup n vs = Some v -> refers_to f vs name v = Ok false).
  { intros f e. induction e as [t sp|l sp IHl] using sexpr_ind'; intros H n Hmn.
    - inversion Hmn as [? ? ? Hs|]; subst. rewrite refers_atom, Hs in H.
      destruct (bytes_eqb n name) eqn:Eb; [discriminate|]. split; [intros ->; rewrite bytes_eqb_refl in Eb; discriminate|].
      intros v Hv. rewrite Hv in H. exact H.
    - inversion Hmn as [|? ? x ? Hin Hx]; subst. rewrite refers_list in H. clear Hmn.
      induction l as [|y r IHr]; [contradiction|]. inversion IHl as [|? ? Hy Hr]; subst.
      cbn [any_ref] in H. destruct (refers_to (S f) vs name y) as [[|]| |] eqn:Ey; cbn [bind] in H; try discriminate.
      destruct Hin as [->|Hin]; [apply Hy; [reflexivity|exact Hx]|apply IHr; assumption]. }
  intros f e H Hr. revert f H. induction Hr as [e n Hmn|e m v n Hmn Hl Hr IH]; intros f H.
  - destruct f; [discriminate|]. destruct (Hm f e H n Hmn) as [Hne _]. contradiction.
  - destruct f; [discriminate|]. destruct (Hm f e H m Hmn) as [_ Hv]. apply (IH Hm f). apply Hv. exact Hl.
Qed.

Definition hop_reaches (vs : vars) (p n : list N) : Prop := exists v, lookup p vs = Some v /\ reaches vs v n.

Lemma lookup_in n : forall vs v, lookup n vs = Some v -> In n (map fst vs).
Proof.
  induction vs as [|[k w] vs IH]; intros v H; [discriminate|]. cbn [lookup] in H. cbn [map fst].
  destruct (bytes_eqb n k) eqn:E; [left; symmetry; apply bytes_eqb_eq; exact E|right; eapply IH; exact H].
Qed.

Lemma path_extend vs path n v :
  acyclic vs -> NoDup path -> (forall p, In p path -> hop_reaches vs p n) -> lookup n vs = Some v ->
  NoDup (n :: path) /\ (length (n :: path) <= length vs)%nat.
Proof.
  intros Hac Hnd Hp Hn.
  assert (Hnotin : ~ In n path).
  { intros Hin. destruct (Hp n Hin) as (w & Hw & Hr). apply (Hac n w Hw Hr). }
  split; [constructor; assumption|].
  rewrite <- (map_length fst vs). apply NoDup_incl_length; [constructor; assumption|].
  intros x [<-|Hx]; [eapply lookup_in; exact Hn|]. destruct (Hp x Hx) as (w & Hw & _). eapply lookup_in; exact Hw.
Qed.

(* enough fuel: the search never runs out on an acyclic table *)
Lemma refers_total vs name : acyclic vs -> forall f path e,
  NoDup path -> (forall p, In p path -> forall m, mentions e m -> hop_reaches vs p m) ->
  (forall p, In p path -> lookup p vs <> None) ->
  (length vs < f + length path)%nat ->
  exists b, refers_to f vs name e = Ok b.
Proof.
  intros Hac. induction f as [|f IHf]; intros path e Hnd Hcov Hkeys Hlen.
  - exfalso. assert (length path <= length vs)%nat; [|lia].
    rewrite <- (map_length fst vs). apply NoDup_incl_length; [exact Hnd|].
    intros x Hx. destruct (lookup x vs) eqn:E; [eapply lookup_in; exact E|destruct (Hkeys x Hx E)].
  - revert Hcov. induction e as [t sp|l sp IHl] using sexpr_ind'; intros Hcov.
    + rewrite refers_atom. destruct (strip_dollar t) as [n|] eqn:Es; [|eexists; reflexivity].
      destruct (bytes_eqb n name); [eexists; reflexivity|].
      destruct (lookup n vs) as [v|] eqn:El; [|eexists; reflexivity].
      assert (Hpn : forall p, In p path -> hop_reaches vs p n) by (intros p Hp; apply (Hcov p Hp); constructor; exact Es).
      destruct (path_extend vs path n v Hac Hnd Hpn El) as [Hnd' Hlen'].
      apply (IHf (n :: path)); try assumption.
      * intros p [<-|Hp] m Hm.
        { exists v. split; [exact El|apply r_here; exact Hm]. }
        destruct (Hpn p Hp) as (w & Hw & Hr). exists w. split; [exact Hw|].
        eapply reaches_trans; [exact Hr|exact El|apply r_here; exact Hm].
      * intros p [<-|Hp]; [rewrite El; discriminate|apply Hkeys; exact Hp].
      * cbn [length] in *. lia.
    + rewrite refers_list. induction l as [|x r IHr]; [eexists; reflexivity|].
      inversion IHl as [|? ? Hx Hr]; subst. cbn [any_ref].
      destruct Hx as (b & ->).
      { intros p Hp m Hm. apply (Hcov p Hp). eapply m_list; [left; reflexivity|exact Hm]. }
      cbn [bind]. destruct b; [eexists; reflexivity|]. apply IHr; [exact Hr|].
      intros p Hp m Hm. apply (Hcov p Hp). inversion Hm as [|? ? y ? Hin Hy]; subst.
      eapply m_list; [right; exact Hin|exact Hy].
Qed.

Lemma acyclic_nil : acyclic [].
Proof. intros n v H. discriminate. Qed.

Lemma lookup_cons_other name v vs m : m <> name -> lookup m ((name, v) :: vs) = lookup m vs.
Proof. intros H. cbn [lookup]. rewrite (bytes_eqb_neq _ _ H). reflexivity. Qed.
Lemma lookup_cons_same name v vs : lookup name ((name, v) :: vs) = Some v.
Proof. cbn [lookup]. rewrite bytes_eqb_refl. reflexivity. Qed.

(* a path in the extended table either stays in the old table or goes through the new name *)
Lemma reaches_split vs name v e n :
  reaches ((name, v) :: vs) e n ->
  reaches vs e n \/ (reaches vs e name /\ reaches ((name, v) :: vs) v n).
Proof.
  intros H. induction H as [e n Hm|e m w n Hm Hl Hr IH]; [left; apply r_here; exact Hm|].
  destruct (list_eq_dec N.eq_dec m name) as [->|Hne].
  - rewrite lookup_cons_same in Hl. injection Hl as <-. right. split; [apply r_here; exact Hm|exact Hr].
  - rewrite (lookup_cons_other _ _ _ _ Hne) in Hl. destruct IH as [IH|[IH1 IH2]].
    + left. eapply r_hop; eassumption.
    + right. split; [eapply r_hop; eassumption|exact IH2].
Qed.

Lemma reaches_lift vs name v e n : lookup name vs = None -> reaches vs e n -> reaches ((name, v) :: vs) e n.
Proof.
  intros Hfresh H. induction H as [e n Hm|e m w n Hm Hl Hr IH]; [apply r_here; exact Hm|].
  eapply r_hop; [exact Hm| |exact IH]. rewrite lookup_cons_other; [exact Hl|]. intros ->. rewrite Hfresh in Hl. discriminate.
Qed.

Lemma reaches_new_name vs name v e : reaches ((name, v) :: vs) e name -> reaches vs e name.
Proof.
  intros H. remember name as n eqn:En in H at 2. revert En.
  induction H as [e n Hm|e m w n Hm Hl Hr IH]; intros ->; [apply r_here; exact Hm|].
  destruct (list_eq_dec N.eq_dec m name) as [->|Hne]; [apply r_here; exact Hm|].
  rewrite (lookup_cons_other _ _ _ _ Hne) in Hl. eapply r_hop; [exact Hm|exact Hl|apply IH; reflexivity].
Qed.

Lemma acyclic_insert vs name v :
  acyclic vs -> lookup name vs = None -> ~ reaches vs v name -> acyclic ((name, v) :: vs).
Proof.
  intros Hac Hfresh Hnr n w Hl Hr.
  destruct (list_eq_dec N.eq_dec n name) as [->|Hne].
  - rewrite lookup_cons_same in Hl. injection Hl as <-. apply Hnr, (reaches_new_name vs name v). exact Hr.
  - rewrite (lookup_cons_other _ _ _ _ Hne) in Hl.
    destruct (reaches_split _ _ _ _ _ Hr) as [H|[H1 H2]]; [apply (Hac n w Hl H)|].
    apply Hnr, (reaches_new_name vs name v).
    eapply reaches_trans; [exact H2| |apply reaches_lift; [exact Hfresh|exact H1]].
    rewrite lookup_cons_other; assumption.
Qed.

Lemma insert_var_total vs name v : acyclic vs ->
  exists r, insert_var vs name v = Ok r /\ match r with inl _ => True | inr vs' => acyclic vs' end.
Proof.
  intros Hac. unfold insert_var. destruct (lookup name vs) eqn:El; [eexists; split; [reflexivity|exact I]|].
  destruct (refers_total vs name Hac (S (length vs)) [] v (NoDup_nil _)) as (b & Hb).
  - intros p [].
  - intros p [].
  - cbn [length]. lia.
  - rewrite Hb. cbn [bind]. destruct b; eexists; (split; [reflexivity|]); [exact I|].
    apply acyclic_insert; [exact Hac|exact El|]. eapply refers_false_sound. exact Hb.
Qed.

Lemma insert_vars_total : forall defs vs, acyclic vs ->
  exists r, insert_vars vs defs = Ok r /\ match r with inl _ => True | inr vs' => acyclic vs' end.
Proof.
  induction defs as [|[n v] defs IH]; intros vs Hac; [eexists; split; [reflexivity|exact Hac]|].
  cbn [insert_vars]. destruct (insert_var_total vs n v Hac) as (r & -> & Hr). cbn [bind].
  destruct r as [e|vs']; [eexists; split; [reflexivity|exact I]|apply IH; exact Hr].
Qed.

Lemma parse_vars_items_total : forall n items vs, (length items <= n)%nat -> acyclic vs ->
  exists r, parse_vars_items vs items = Ok r /\ match r with VOk vs' => acyclic vs' | _ => True end.
Proof.
  induction n as [|n IH]; intros items vs Hn Hac.
  - destruct items; [eexists; split; [reflexivity|exact Hac]|cbn in Hn; lia].
  - destruct items as [|[t sp|l sp] [|v r]]; try (eexists; split; [reflexivity|]; (exact Hac || exact I)).
    cbn [parse_vars_items]. destruct (is_concat_list v); [eexists; split; [reflexivity|exact I]|].
    destruct (insert_var_total vs t v Hac) as (x & -> & Hx). cbn [bind].
    destruct x as [e|vs']; [eexists; split; [reflexivity|exact I]|]. apply IH; [cbn [length] in Hn; lia|exact Hx].
Qed.

(* resolution of one use: bounded by the number of variables *)
Lemma resolve_bound vs : acyclic vs -> forall f path e,
  NoDup path -> (forall p, In p path -> forall m, mentions e m -> hop_reaches vs p m) ->
  (forall p, In p path -> lookup p vs <> None) ->
  (length vs < S f + length path)%nat ->
  (exists r, atom_res f vs e = Ok r) /\ (exists r, list_res f vs e = Ok r).
Proof.
  intros Hac. induction f as [|f IHf]; intros path e Hnd Hcov Hkeys Hlen.
  - destruct e as [t sp|l sp]; [|split; eexists; reflexivity].
    cbn [atom_res list_res]. destruct (strip_dollar t) as [n|] eqn:Es; [|split; eexists; reflexivity].
    destruct (lookup n vs) as [v|] eqn:El; [|split; eexists; reflexivity]. exfalso.
    assert (Hpn : forall p, In p path -> hop_reaches vs p n) by (intros p Hp; apply (Hcov p Hp); constructor; exact Es).
    destruct (path_extend vs path n v Hac Hnd Hpn El) as [_ Hl]. cbn [length] in *. lia.
  - destruct e as [t sp|l sp]; [|split; eexists; reflexivity].
    cbn [atom_res list_res]. destruct (strip_dollar t) as [n|] eqn:Es; [|split; eexists; reflexivity].
    destruct (lookup n vs) as [v|] eqn:El; [|split; eexists; reflexivity].
    assert (Hpn : forall p, In p path -> hop_reaches vs p n) by (intros p Hp; apply (Hcov p Hp); constructor; exact Es).
    destruct (path_extend vs path n v Hac Hnd Hpn El) as [Hnd' Hlen'].
    apply (IHf (n :: path)); try assumption.
    + intros p [<-|Hp] m Hm.
      { exists v. split; [exact El|apply r_here; exact Hm]. }
      destruct (Hpn p Hp) as (w & Hw & Hr). exists w. split; [exact Hw|].
      eapply reaches_trans; [exact Hr|exact El|apply r_here; exact Hm].
    + intros p [<-|Hp]; [rewrite El; discriminate|apply Hkeys; exact Hp].
    + cbn [length] in *. lia.
Qed.

Theorem vars_resolution_bounded defs vs e :
  insert_vars [] defs = Ok (inr vs) ->
  (exists r, atom_res (length vs) vs e = Ok r) /\ (exists r, list_res (length vs) vs e = Ok r).
Proof.
  intros H. destruct (insert_vars_total defs [] acyclic_nil) as (r & Hr & Hac). rewrite H in Hr. injection Hr as <-.
  apply (resolve_bound vs Hac (length vs) [] e (NoDup_nil _)).
  - intros p [].
  - intros p [].
  - cbn [length]. lia.
Qed.

Theorem vars_insertion_total defs :
  exists r, insert_vars [] defs = Ok r /\ match r with inl _ => True | inr vs => acyclic vs end.
Proof. apply insert_vars_total, acyclic_nil. Qed.

(* the rejection is exact: a self-reference is what gets rejected *)
Lemma refers_true_complete vs name : forall f e, refers_to f vs name e = Ok true -> reaches vs e name.
Proof.
  induction f as [|f IHf]; intros e H; [discriminate|].
  induction e as [t sp|l sp IHl] using sexpr_ind'.
  - rewrite refers_atom in H. destruct (strip_dollar t) as [n|] eqn:Es; [|discriminate].
    destruct (bytes_eqb n name) eqn:Eb.
    + apply bytes_eqb_eq in Eb. subst. apply r_here. constructor. exact Es.
    + destruct (lookup n vs) as [v|] eqn:El; [|discriminate].
      eapply r_hop; [constructor; exact Es|exact El|apply IHf; exact H].
  - rewrite refers_list in H. induction l as [|x r IHr]; [discriminate|].
    inversion IHl as [|? ? Hx Hr]; subst. cbn [any_ref] in H.
    destruct (refers_to (S f) vs name x) as [[|]| |] eqn:Ex; cbn [bind] in H; try discriminate.
    + specialize (Hx eq_refl). inversion Hx as [? ? Hm|? m v ? Hm Hl Hre]; subst.
      * apply r_here. eapply m_list; [left; reflexivity|exact Hm].
      * eapply r_hop; [eapply m_list; [left; reflexivity|exact Hm]|exact Hl|exact Hre].
    + specialize (IHr Hr H). inversion IHr as [? ? Hm|? m v ? Hm Hl Hre]; subst.
      * apply r_here. inversion Hm as [|? ? y ? Hin Hy]; subst. eapply m_list; [right; exact Hin|exact Hy].
      * eapply r_hop; [|exact Hl|exact Hre]. inversion Hm as [|? ? y ? Hin Hy]; subst. eapply m_list; [right; exact Hin|exact Hy].
Qed.

Theorem self_reference_rejected_exactly vs name v : acyclic vs -> lookup name vs = None ->
  (insert_var vs name v = Ok (inl VSelfRef) <-> reaches vs v name).
Proof.
  intros Hac El. unfold insert_var. rewrite El.
  destruct (refers_total vs name Hac (S (length vs)) [] v (NoDup_nil _)) as (b & Hb);
    [intros p []|intros p []|cbn [length]; lia|].
  rewrite Hb. cbn [bind]. destruct b; split; intros H; try reflexivity; try discriminate.
  - eapply refers_true_complete. exact Hb.
  - exfalso. eapply refers_false_sound; eassumption.
Qed.

(* Debug rendering is a total structural function: nothing to run out of, nothing to index *)
Theorem fmt_total e : exists out, fmt_sexpr e = out.
Proof. eexists. reflexivity. Qed.

(* non-vacuity *)
Example parse_total_example :
  exists r, parse_ true [40; 100; 32; 195; 169; 41; 32; 114; 35; 34; 195; 169] = Ok r
            /\ utf8_ok [40; 100; 32; 195; 169; 41; 32; 114; 35; 34; 195; 169] = true.
Proof. eexists. split; vm_compute; reflexivity. Qed.
