(* C04 at the kanata level: on the fragment, one millisecond of the kanata model (tick_ms(1): handle_keystate_changes,
   tick_states, ...) emits exactly the ordered, de-duplicated difference between the key list before and after the
   layered-keymap step: first the releases of keys that are no longer held (in the order they were held), then the
   presses of keys that are new (in the order the keymap holds them). *)
From Coq Require Import Lia.
From KV Require Import Spec.Keymap Kanata.Glue Proofs.LayoutBasics Proofs.C07Proofs Proofs.C04Refine.

(* what the OS is told when the held key list changes from prev to cur *)
Fixpoint press_new (cfg : kcfg) (prev todo : list N) : list os_ev :=
  match todo with
  | [] => []
  | kc :: r => if mem_n kc prev then press_new cfg prev r else press_key cfg kc ++ press_new cfg (prev ++ [kc]) r
  end.
Definition os_diff (cfg : kcfg) (prev cur : list N) : list os_ev :=
  flat_map (release_key cfg) (filter (fun x => negb (mem_n x cur)) prev) ++ press_new cfg prev cur.

Record KRel (qq : list queued) (k : kstate) (s : kmst) : Prop := {
  kr_lay : Rel qq (k_layout k) s;
  kr_scroll : k_scroll k = None; kr_hscroll : k_hscroll k = None;
  kr_mmv : k_mmv k = None; kr_mmh : k_mmh k = None;
  kr_seq : sq_active (k_seq k) = false;
  kr_replay : k_replay k = None;
  kr_caps : k_caps_word k = None;
  kr_wfi : k_waiting_for_idle k = [];
  kr_vk : k_vkeys_pending k = [];
  kr_unmod : k_unmodded_keys k = [];
  kr_unsh : k_unshifted_keys k = [];
  kr_cancel : k_macro_cancel_dur k = 0;
  kr_record : k_record k = None }.

(* configurations: the layout tables are in the fragment, no defoverrides, sequences not always on *)
Definition kfrag (cfg : kcfg) : Prop :=
  frag_cfg (kc_layout cfg) = true /\ kc_overrides cfg = [] /\ kc_seq_always_on cfg = false.

Lemma press_loop_plain cfg todo : forall k l cur out,
  kc_seq_always_on cfg = false -> sq_active (k_seq k) = false ->
  exists k', press_loop cfg k l cur todo out = Ok (k', l, out ++ press_new cfg (k_prev_keys k) todo) /\
             k_seq k' = k_seq k /\ k_layout k' = k_layout k /\ k_scroll k' = k_scroll k /\ k_hscroll k' = k_hscroll k /\
             k_mmv k' = k_mmv k /\ k_mmh k' = k_mmh k /\ k_mm_buffer k' = k_mm_buffer k /\ k_replay k' = k_replay k /\
             k_caps_word k' = k_caps_word k /\ k_waiting_for_idle k' = k_waiting_for_idle k /\
             k_vkeys_pending k' = k_vkeys_pending k /\ k_unmodded_keys k' = k_unmodded_keys k /\
             k_unshifted_keys k' = k_unshifted_keys k /\ k_macro_cancel_dur k' = k_macro_cancel_dur k /\
             k_ticks_since_idle k' = k_ticks_since_idle k /\ k_record k' = k_record k.
Proof.
  induction todo as [|kc r IH]; intros k l cur out Ha Hs.
  - exists k. cbn [press_loop press_new]. rewrite app_nil_r. repeat split; reflexivity.
  - cbn [press_loop press_new]. destruct (mem_n kc (k_prev_keys k)) eqn:Em.
    + exact (IH k l cur out Ha Hs).
    + rewrite Ha. cbn [andb].
      set (k1 := set_k_last_pressed_key kc (set_k_prev_keys (k_prev_keys k ++ [kc]) k)).
      change (sq_active (k_seq k1)) with (sq_active (k_seq k)). rewrite Hs.
      destruct (IH k1 l cur (out ++ press_key cfg kc) Ha Hs) as [k' [E R]].
      exists k'. split; [|exact R].
      rewrite E. change (k_prev_keys k1) with (k_prev_keys k ++ [kc]). rewrite <- app_assoc. reflexivity.
Qed.

Lemma mark_overridden_nil sts : mark_overridden [] sts = sts.
Proof.
  unfold mark_overridden. cbn [filter]. induction sts as [|s t IH]; [reflexivity|]. cbn [map]. rewrite IH.
  destruct s; reflexivity.
Qed.

Lemma filter_all_true {A} (p : A -> bool) l : (forall x, p x = true) -> filter p l = l.
Proof. intros H. induction l as [|x t IH]; [reflexivity|]. cbn [filter]. rewrite H, IH. reflexivity. Qed.

Lemma chv2_pre_none l : chords2 l = None -> chv2_pre l = Ok l.
Proof. intros H. unfold chv2_pre. rewrite H. reflexivity. Qed.

Lemma tick_kanata_refines cfg qq k s :
  kfrag cfg -> KRel qq k s -> st_ok (kc_layout cfg) s ->
  Forall (fun q => coord_ok (kc_layout cfg) (q_coord q) = true) qq ->
  exists k' qq' s',
    k_tick cfg k = Ok (k', os_diff cfg (k_prev_keys k) (km_keys (held s'))) /\
    KRel qq' k' s' /\ k_prev_keys k' = km_keys (held s') /\
    match qq with
    | [] => qq' = [] /\ s' = s
    | e :: t => qq' = aged_q t /\ s' = (if q_press e then km_press (kc_layout cfg) (q_coord e) s else km_release (q_coord e) s)
    end.
Proof.
  intros [Hfr [Hov Hao]] HK Hok Hq.
  destruct HK as [HR Hsc Hhs Hmv Hmh Hseq Hrp Hcw Hwfi Hvk Hum Hus Hcd Hrec].
  destruct (tick_refines (kc_layout cfg) qq (k_layout k) s Hfr HR Hok Hq) as [l' [EL HL]].
  set (qq' := match qq with [] => [] | e :: t => aged_q t end).
  set (s' := match qq with [] => s | e :: t => if q_press e then km_press (kc_layout cfg) (q_coord e) s else km_release (q_coord e) s end).
  assert (HR' : Rel qq' l' s') by (unfold qq', s'; destruct qq; exact HL).
  (* handle_keystate_changes *)
  assert (EH : exists k1, handle_keystate_changes cfg k = Ok (k1, km_keys (held s'), os_diff cfg (k_prev_keys k) (km_keys (held s'))) /\
                          k_layout k1 = l' /\ k_seq k1 = k_seq k /\ k_scroll k1 = None /\ k_hscroll k1 = None /\ k_mmv k1 = None /\
                          k_mmh k1 = None /\ k_mm_buffer k1 = k_mm_buffer k /\ k_replay k1 = None /\ k_caps_word k1 = None /\
                          k_waiting_for_idle k1 = [] /\ k_vkeys_pending k1 = [] /\ k_unmodded_keys k1 = [] /\
                          k_unshifted_keys k1 = [] /\ k_macro_cancel_dur k1 = 0 /\ k_ticks_since_idle k1 = k_ticks_since_idle k /\
                          k_record k1 = k_record k).
  { unfold handle_keystate_changes, layout_tick2.
    rewrite (chv2_pre_none _ (r_ch2 _ _ _ HR)). cbn [bind]. rewrite EL. cbn [bind].
    rewrite Hum, Hus, Hov. cbn [override_keys]. rewrite mark_overridden_nil, set_states_id.
    assert (Eset : (if kc_override_release_on_activation cfg
                    then set_states (filter (fun s0 => match s0 with
                                                       | NormalKey kc _ _ | FakeKey kc => negb (mem_n kc (filter (fun x => negb (is_modifier x)) []))
                                                       | _ => true end) (states l')) l' else l') = l').
    { destruct (kc_override_release_on_activation cfg); [|reflexivity].
      assert (F : filter (fun s0 => match s0 with
                                    | NormalKey kc _ _ | FakeKey kc => negb (mem_n kc (filter (fun x => negb (is_modifier x)) []))
                                    | _ => true end) (states l') = states l').
      { apply filter_all_true. intros x. destruct x; reflexivity. }
      rewrite F. apply set_states_id. }
    rewrite Eset. rewrite Hcw.
    rewrite (Rel_keycodes _ _ _ HR').
    set (cur := km_keys (held s')).
    cbv beta iota zeta.
    set (rels := flat_map (release_key cfg) (filter (fun x => negb (mem_n x cur)) (k_prev_keys k))).
    match goal with |- exists k1, bind ?M _ = _ /\ _ => assert (Eov : M = Ok (k, l', rels)) end.
    { rewrite Hseq. destruct cur; [destruct (k_prev_keys k)|]; reflexivity. }
    rewrite Eov. cbn [bind].
    destruct (press_loop_plain cfg cur k l' cur rels Hao Hseq)
      as [k1 [EP [P1 [P2 [P3 [P4 [P5 [P6 [P7 [P8 [P9 [P10 [P11 [P12 [P13 [P14 [P15 P16]]]]]]]]]]]]]]]]].
    rewrite EP. cbn [bind].
    exists (set_k_layout l' k1). split; [reflexivity|].
    cbn [k_layout set_k_layout k_seq k_scroll k_hscroll k_mmv k_mmh k_mm_buffer k_replay k_caps_word k_waiting_for_idle
         k_vkeys_pending k_unmodded_keys k_unshifted_keys k_macro_cancel_dur k_ticks_since_idle k_record].
    repeat split; congruence. }
  destruct EH as [k1 [EH [H1 [H2 [H3 [H4 [H5 [H6 [H7 [H8 [H9 [H10 [H11 [H12 [H13 [H14 [H15 H16]]]]]]]]]]]]]]]]].
  exists (set_k_vkeys_pending [] (set_k_layout l' (set_k_prev_keys (km_keys (held s'))
            (set_k_record (tick_record (k_record k1))
              (set_k_macro_cancel_dur 0
                (set_k_waiting_for_idle [] (set_k_layout l'
                  (set_k_mm_buffer (k_mm_buffer k1) (set_k_mmh None (set_k_mmv None (set_k_hscroll None (set_k_scroll None k1)))))))))))),
         qq', s'.
  split.
  - unfold k_tick, tick_states. rewrite EH. cbn [bind]. rewrite H3, H4. cbn [scroll_tick bind].
    cbn [k_mmv k_mmh k_mm_buffer set_k_hscroll set_k_scroll]. rewrite H5, H6. cbn [mm_tick bind].
    cbn [k_seq set_k_mm_buffer set_k_mmh set_k_mmv set_k_hscroll set_k_scroll]. rewrite H2, Hseq. cbn [bind].
    cbn [k_layout k_ticks_since_idle k_waiting_for_idle set_k_mm_buffer set_k_mmh set_k_mmv set_k_hscroll set_k_scroll].
    rewrite H10, H1. cbn [idle_fire bind].
    cbn [k_macro_cancel_dur set_k_waiting_for_idle set_k_layout set_k_mm_buffer set_k_mmh set_k_mmv set_k_hscroll set_k_scroll].
    rewrite H14. change (sat_sub 0 1) with 0.
    cbn [k_vkeys_pending k_layout k_record set_k_prev_keys set_k_record set_k_macro_cancel_dur set_k_waiting_for_idle set_k_layout
         set_k_mm_buffer set_k_mmh set_k_mmv set_k_hscroll set_k_scroll].
    rewrite H11. cbn [held_vkeys_tick bind].
    match goal with |- context [tick_replay (k_replay ?kk) _] => change (k_replay kk) with (k_replay k1) end.
    rewrite H8. cbn [tick_replay].
    assert (Ek : forall kk : kstate, k_replay kk = None -> set_k_replay None kk = kk) by (intros [] E; cbn in *; subst; reflexivity).
    rewrite Ek by (cbn; exact H8).
    rewrite !app_nil_r. reflexivity.
  - split; [|split; [reflexivity|]].
    + constructor; cbn [k_layout k_scroll k_hscroll k_mmv k_mmh k_seq k_replay k_caps_word k_waiting_for_idle k_vkeys_pending
                       k_unmodded_keys k_unshifted_keys k_macro_cancel_dur set_k_vkeys_pending set_k_layout set_k_prev_keys
                       set_k_record set_k_macro_cancel_dur set_k_waiting_for_idle set_k_mm_buffer set_k_mmh set_k_mmv
                       set_k_hscroll set_k_scroll]; try reflexivity; try assumption.
      * rewrite H2. exact Hseq.
      * rewrite H16, Hrec. reflexivity.
    + unfold qq', s'. destruct qq; split; reflexivity.
Qed.

(* ------------------------------------------------------------------ input events *)
Lemma input_kanata_refines cfg qq k s (p : bool) code :
  kfrag cfg -> KRel qq k s -> (length qq < QUEUE_SIZE)%nat ->
  exists k', k_input cfg k (if p then IPress code else IRelease code) = Ok (k', []) /\
             KRel (qq ++ [mkq p (0, code)]) k' s /\ k_prev_keys k' = k_prev_keys k.
Proof.
  intros [Hfr [Hov Hao]] HK Hlen.
  destruct HK as [HR Hsc Hhs Hmv Hmh Hseq Hrp Hcw Hwfi Hvk Hum Hus Hcd Hrec].
  assert (Hq : (length (queue (k_layout k)) < QUEUE_SIZE)%nat) by (rewrite (r_queue _ _ _ HR); exact Hlen).
  assert (EL : lay_event cfg (k_layout k) p (0, code) =
               Ok (set_queue (queue (k_layout k) ++ [mkq p (0, code)])
                     (if p then set_hist_inputs (hist_push_front (0, code) (hist_inputs (k_layout k))) (k_layout k) else k_layout k))).
  { unfold lay_event, layout_event2. rewrite (r_ch2 _ _ _ HR). apply event_enqueues. exact Hq. }
  set (l0 := if p then set_hist_inputs (hist_push_front (0, code) (hist_inputs (k_layout k))) (k_layout k) else k_layout k) in *.
  assert (H0 : Rel qq l0 s) by (unfold l0; destruct p; [apply Rel_set_hist_inputs|]; exact HR).
  assert (H1 : Rel (qq ++ [mkq p (0, code)]) (set_queue (queue (k_layout k) ++ [mkq p (0, code)]) l0) s).
  { rewrite (r_queue _ _ _ HR). exact (Rel_requeue _ _ _ _ H0). }
  destruct p; unfold k_input.
  - cbn [k_record set_k_ticks_since_idle]. rewrite Hrec. cbn [record_press].
    change (k_macro_cancel_dur (set_k_record None (set_k_ticks_since_idle 0 k))) with (k_macro_cancel_dur k).
    rewrite Hcd. change (0 <? 0) with false. cbv iota.
    cbn [k_layout set_k_record set_k_ticks_since_idle]. rewrite EL. cbn [bind].
    eexists; split; [reflexivity|]. split; [|reflexivity].
    constructor; [exact H1| | | | | | | | | | | | |]; cbn; try assumption; reflexivity.
  - cbn [k_record set_k_ticks_since_idle]. rewrite Hrec. cbn [record_release option_map].
    cbn [k_layout set_k_record set_k_ticks_since_idle]. rewrite EL. cbn [bind].
    eexists; split; [reflexivity|]. split; [|reflexivity].
    constructor; [exact H1| | | | | | | | | | | | |]; cbn; try assumption; reflexivity.
Qed.

(* ------------------------------------------------------------------ whole runs: what the OS is told *)
Definition k_step (cfg : kcfg) (k : kstate) (i : km_input) : outcome (kstate * list os_ev) :=
  match i with
  | KmEvent p c => k_input cfg k (if p then IPress (snd c) else IRelease (snd c))
  | KmTick => k_tick cfg k
  end.
Fixpoint k_run (cfg : kcfg) (k : kstate) (is : list km_input) : outcome (list (list os_ev)) :=
  match is with
  | [] => Ok []
  | i :: t => '(k', o) <- k_step cfg k i ;; rest <- k_run cfg k' t ;; Ok (o :: rest)
  end.

(* the layered-keymap model with the OS seeing the ordered difference of the held key list at every tick *)
Fixpoint km_os_run (cfg : kcfg) (m : kmsys) (prev : list N) (is : list km_input) : list (list os_ev) :=
  match is with
  | [] => []
  | KmEvent p c :: t => [] :: km_os_run cfg (km_step (kc_layout cfg) m (KmEvent p c)) prev t
  | KmTick :: t =>
      let m' := km_step (kc_layout cfg) m KmTick in
      let cur := km_keys (held (km_st m')) in
      os_diff cfg prev cur :: km_os_run cfg m' cur t
  end.

Definition physical (is : list km_input) : bool :=
  forallb (fun i => match i with KmEvent _ c => fst c =? 0 | KmTick => true end) is.

Record KSys (cfg : kcfg) (k : kstate) (m : kmsys) : Prop := {
  ks_rel : KRel (queue (k_layout k)) k (km_st m);
  ks_pending : map q_view (queue (k_layout k)) = km_pending m;
  ks_ok : st_ok (kc_layout cfg) (km_st m);
  ks_coords : Forall (fun q => coord_ok (kc_layout cfg) (q_coord q) = true) (queue (k_layout k)) }.

Lemma k_step_refines cfg k m i :
  kfrag cfg -> KSys cfg k m -> hist_ok (kc_layout cfg) (length (km_pending m)) [i] = true -> physical [i] = true ->
  exists k', k_step cfg k i = Ok (k', match i with
                                      | KmEvent _ _ => []
                                      | KmTick => os_diff cfg (k_prev_keys k) (km_keys (held (km_st (km_step (kc_layout cfg) m KmTick))))
                                      end) /\
             KSys cfg k' (km_step (kc_layout cfg) m i) /\
             k_prev_keys k' = match i with KmEvent _ _ => k_prev_keys k | KmTick => km_keys (held (km_st (km_step (kc_layout cfg) m KmTick))) end.
Proof.
  intros Hk [HK Hp Hok Hco] Hh Hph. destruct i as [p c|].
  - cbn [hist_ok] in Hh. apply andb_prop in Hh. destruct Hh as [Hh _]. apply andb_prop in Hh. destruct Hh as [Hlen Hc].
    apply Nat.ltb_lt in Hlen. rewrite <- Hp, map_length in Hlen.
    cbn [physical forallb] in Hph. apply andb_prop in Hph. destruct Hph as [Hx _]. apply N.eqb_eq in Hx.
    assert (Ec : c = (0, snd c)) by (destruct c; cbn in *; subst; reflexivity).
    destruct (input_kanata_refines cfg _ k (km_st m) p (snd c) Hk HK Hlen) as [k' [E [HK' Hpk]]].
    exists k'. cbn [k_step]. split; [exact E|]. split; [|exact Hpk].
    pose proof (r_queue _ _ _ (kr_lay _ _ _ HK')) as Eq'.
    constructor; cbn [km_step km_st km_pending].
    + rewrite Eq'. exact HK'.
    + rewrite Eq', map_app, Hp. cbn [map q_view mkq q_press q_coord]. rewrite <- Ec. reflexivity.
    + exact Hok.
    + rewrite Eq'. apply Forall_app. split; [exact Hco|]. constructor; [|constructor]. cbn [mkq q_coord]. rewrite <- Ec. exact Hc.
  - cbn [k_step].
    destruct (tick_kanata_refines cfg _ k (km_st m) Hk HK Hok Hco) as [k' [qq' [s' [E [HK' [Hpk Hcase]]]]]].
    assert (Es : s' = km_st (km_step (kc_layout cfg) m KmTick) /\ map q_view qq' = km_pending (km_step (kc_layout cfg) m KmTick) /\
                 st_ok (kc_layout cfg) s' /\ Forall (fun q => coord_ok (kc_layout cfg) (q_coord q) = true) qq').
    { cbn [km_step]. rewrite <- Hp. destruct (queue (k_layout k)) as [|e t] eqn:Eq.
      - destruct Hcase as [-> ->]. cbn [map]. rewrite <- Hp. cbn [map].
        split; [reflexivity|]. split; [reflexivity|]. split; [exact Hok|constructor].
      - destruct Hcase as [-> ->]. cbn [map]. unfold q_view at 1. cbn [km_st km_pending].
        split; [reflexivity|]. split; [|split].
        + apply aged_q_view.
        + destruct Hk as [Hfr _]. destruct (q_press e); [apply ok_press; assumption|apply ok_release; assumption].
        + apply aged_q_coords. inversion Hco; assumption. }
    destruct Es as [Es [Ep [Eok Eco]]].
    exists k'. rewrite <- Es. split; [exact E|]. split; [|exact Hpk].
    pose proof (r_queue _ _ _ (kr_lay _ _ _ HK')) as Eq'.
    constructor; rewrite ?Eq', <- ?Es; assumption.
Qed.

Theorem k_run_refines cfg : kfrag cfg ->
  forall is k m, KSys cfg k m -> hist_ok (kc_layout cfg) (length (km_pending m)) is = true -> physical is = true ->
  k_run cfg k is = Ok (km_os_run cfg m (k_prev_keys k) is).
Proof.
  intros Hk. induction is as [|i t IH]; intros k m HS Hh Hph; [reflexivity|].
  assert (H1 : hist_ok (kc_layout cfg) (length (km_pending m)) [i] = true).
  { destruct i as [p c|]; cbn [hist_ok] in *; [|reflexivity].
    apply andb_prop in Hh. destruct Hh as [Hh _]. rewrite Hh. reflexivity. }
  cbn [physical forallb] in Hph. apply andb_prop in Hph. destruct Hph as [Hp1 Hpt].
  assert (P1 : physical [i] = true) by (cbn [physical forallb]; rewrite Hp1; reflexivity).
  destruct (k_step_refines cfg k m i Hk HS H1 P1) as [k' [E [HS' Hpk]]].
  assert (H2 : hist_ok (kc_layout cfg) (length (km_pending (km_step (kc_layout cfg) m i))) t = true).
  { rewrite pending_step. destruct i as [p c|]; cbn [hist_ok] in Hh; [|exact Hh]. apply andb_prop in Hh. tauto. }
  cbn [k_run]. rewrite E. cbn [bind]. rewrite (IH k' _ HS' H2 Hpt). cbn [bind].
  destruct i as [p c|]; cbn [km_os_run]; rewrite Hpk; reflexivity.
Qed.

Lemma kinit_sys cfg pause : kfrag cfg -> KSys cfg (k_init (init_layout pause)) km_init.
Proof.
  intros [Hfr _]. destruct (init_rel (kc_layout cfg) pause Hfr) as [HR Hp Hok Hco].
  constructor; try assumption. constructor; try reflexivity. exact HR.
Qed.

Theorem fresh_k_run_refines cfg pause is :
  kfrag cfg -> hist_ok (kc_layout cfg) 0 is = true -> physical is = true ->
  k_run cfg (k_init (init_layout pause)) is = Ok (km_os_run cfg km_init [] is).
Proof. intros Hk Hh Hp. exact (k_run_refines cfg Hk is _ _ (kinit_sys cfg pause Hk) Hh Hp). Qed.

(* ------------------------------------------------------------------ the hypotheses are satisfiable *)
Definition ex_kcfg : kcfg :=
  {| kc_layout := ex_cfg; kc_customs := []; kc_key_outputs := []; kc_overrides := [];
     kc_override_release_on_activation := false; kc_sequences := []; kc_seq_always_on := false; kc_seq_input_mode := 0;
     kc_seq_timeout := 1000; kc_seq_backtrack_modcancel := true; kc_dyn_max_presses := 128; kc_dyn_replay_recorded := false;
     kc_switch_max_key_timing := 0; kc_mm_smooth_diagonals := false; kc_ignore_min := 676; kc_ignore_max := 685 |}.

Example kanata_refinement_not_vacuous :
  frag_cfg (kc_layout ex_kcfg) = true /\ kc_overrides ex_kcfg = [] /\ kc_seq_always_on ex_kcfg = false /\
  hist_ok (kc_layout ex_kcfg) 0 ex_hist = true /\ physical ex_hist = true /\
  km_os_run ex_kcfg km_init [] ex_hist =
    [[]; []; []; [KDown 31]; []; []; []; [KDown 29; KDown 46]; []; []; [KUp 31]; [KUp 29; KUp 46];
     []; []; []; []; [KDown 5; KDown 29; KDown 46]; [KUp 29; KUp 46; KDown 4]].
Proof. vm_compute. repeat split; reflexivity. Qed.
