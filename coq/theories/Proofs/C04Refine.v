(* C04: the keyberon layout model refines the simple layered-keymap model (Spec/Keymap.v) on the
   fragment of the property.  *)
From Coq Require Import Lia.
From KV Require Import Spec.Keymap Keyberon.Layout Proofs.LayoutBasics Proofs.C07Proofs.

(* ------------------------------------------------------------------ the fragment *)
(* actions of the fragment: plain keys, output chords, multi, no-op, transparent, use-defsrc,
   layer-while-held, layer-switch, release-key / release-layer *)
Fixpoint frag (nl : N) (a : action) : bool :=
  match a with
  | NoOp | Trans | KeyCode _ | MultipleKeyCodes _ | DefaultLayer _ | ReleaseKey _ | ReleaseLayer _ | Src => true
  | Layer ly => ly <? nl
  | MultipleActions acs => (fix go (acs : list action) : bool :=
                              match acs with [] => true | a1 :: t => frag nl a1 && go t end) acs
  | _ => false
  end.
Fixpoint frag_list (nl : N) (acs : list action) : bool :=
  match acs with [] => true | a1 :: t => frag nl a1 && frag_list nl t end.
Lemma frag_multi nl acs : frag nl (MultipleActions acs) = frag_list nl acs.
Proof. induction acs as [|a t IH]; [reflexivity|]. cbn [frag_list]. rewrite <- IH. reflexivity. Qed.

(* nesting depth of multi *)
Fixpoint depth (a : action) : nat :=
  match a with
  | MultipleActions acs => S ((fix go (acs : list action) : nat :=
                                 match acs with [] => O | a1 :: t => Nat.max (depth a1) (go t) end) acs)
  | Trans => 0
  | Src => 2
  | _ => 1
  end.
Fixpoint depth_list (acs : list action) : nat :=
  match acs with [] => O | a1 :: t => Nat.max (depth a1) (depth_list t) end.
Lemma depth_multi acs : depth (MultipleActions acs) = S (depth_list acs).
Proof. reflexivity. Qed.

Definition simple_src (a : action) : bool := match a with KeyCode _ | NoOp => true | _ => false end.

Definition row_all (p : action -> bool) (r : row) : bool :=
  forallb (fun ya => p (snd ya)) (r_cells r) && match r_default r with RDConst a => p a | RDIdentKey => true end.

Definition MAXDEPTH : nat := 30.
Definition frag_cfg (cfg : lcfg) : bool :=
  let nl := N.of_nat (length (layers cfg)) in
  match layers cfg with [] => false | _ => true end &&
  forallb (fun rr => row_all (fun a => frag nl a && Nat.leb (depth a) MAXDEPTH) (fst rr) &&
                     row_all (fun a => frag nl a && Nat.leb (depth a) MAXDEPTH) (snd rr)) (layers cfg) &&
  row_all simple_src (src_keys cfg).

(* a coordinate the tables cover *)
Definition coord_ok (cfg : lcfg) (c : coord) : bool :=
  (fst c <? 2) && (snd c <? r_len (src_keys cfg)) &&
  forallb (fun rr => (snd c <? r_len (fst rr)) && ((fst c =? 0) || (snd c <? r_len (snd rr)))) (layers cfg).

(* ------------------------------------------------------------------ relation between the two states *)
Definition conc (h : hentry) : kstate :=
  match h with
  | HKey k c b => NormalKey k c (if b then NKF_CLEAR_ON_NEXT_ACTION else 0)
  | HLayer ly c => LayerModifier ly c
  end.

Record Rel (q : list queued) (l : layout) (s : kmst) : Prop := {
  r_queue : queue l = q;
  r_states : states l = map conc (held s);
  r_base : default_layer l = base s;
  r_waiting : waiting_ l = None;
  r_extra : extra_waiting l = [];
  r_tde : tap_dance_eager l = None;
  r_os : os_keys (oneshot l) = [];
  r_pause : os_pause_ticks (oneshot l) = 0;
  r_seqs : active_sequences l = [];
  r_aq : action_queue l = [];
  r_ch2 : chords2 l = None;
  r_lpt : lpt_timeout l = 0 }.

(* spec states whose layers exist *)
Definition h_ok (nl : N) (h : hentry) : bool := match h with HLayer ly _ => ly <? nl | _ => true end.
Definition st_ok (cfg : lcfg) (s : kmst) : Prop :=
  forallb (h_ok (N.of_nat (length (layers cfg)))) (held s) = true /\ base s < N.of_nat (length (layers cfg)).

(* ---- fields the relation does not read ---- *)
Section Q.
Variable qq : list queued.

Lemma Rel_set_rpt l s v : Rel qq l s -> Rel qq (set_rpt_action v l) s.
Proof. intros []; constructor; assumption. Qed.
Lemma Rel_set_lpt_coord l s v : Rel qq l s -> Rel qq (set_lpt_coord v l) s.
Proof. intros []; constructor; assumption. Qed.
Lemma Rel_set_lpt_timeout l s : Rel qq l s -> Rel qq (set_lpt_timeout 0 l) s.
Proof. intros []; constructor; try assumption; reflexivity. Qed.
Lemma Rel_set_hist_keys l s v : Rel qq l s -> Rel qq (set_hist_keys v l) s.
Proof. intros []; constructor; assumption. Qed.
Lemma Rel_set_hist_inputs l s v : Rel qq l s -> Rel qq (set_hist_inputs v l) s.
Proof. intros []; constructor; assumption. Qed.
Lemma Rel_lpt_update l s c : Rel qq l s -> Rel qq (lpt_update_coord c l) s.
Proof. intros H. unfold lpt_update_coord. destruct (fst c =? 0); [apply Rel_set_lpt_coord|]; exact H. Qed.
Lemma Rel_set_states l s hs :
  Rel qq l s -> Rel qq (set_states (map conc hs) l) {| held := hs; base := base s |}.
Proof. intros []; constructor; try assumption; reflexivity. Qed.
Lemma Rel_set_default l s v :
  Rel qq l s -> Rel qq (set_default_layer v l) {| held := held s; base := v |}.
Proof. intros []; constructor; try assumption; reflexivity. Qed.

Lemma os_press_inactive k l : os_keys (oneshot l) = [] -> os_press_l k l = (l, []).
Proof.
  intros H. unfold os_press_l, os_handle_press. rewrite H. rewrite set_oneshot_id. reflexivity.
Qed.
Lemma os_other_unless_inactive b c l : os_keys (oneshot l) = [] -> os_other_unless b c l = l.
Proof. intros H. unfold os_other_unless. destruct b; [reflexivity|]. rewrite (os_press_inactive _ _ H). reflexivity. Qed.
Lemma key_rpt_update_inactive a ks c l :
  os_keys (oneshot l) = [] -> key_rpt_update a ks false c l = set_rpt a l.
Proof. intros H. unfold key_rpt_update. rewrite (os_press_inactive _ _ H). reflexivity. Qed.

(* ---- lists ---- *)
Lemma sat_push_map {A B} (f : A -> B) cap x l :
  fst (sat_push_back cap (f x) (map f l)) = map f (fst (sat_push_back cap x l)).
Proof.
  unfold sat_push_back. rewrite map_length. destruct (Nat.ltb (length l) cap); cbn [fst]; [|reflexivity].
  rewrite map_app. reflexivity.
Qed.
Lemma filter_map_conc (p : kstate -> bool) hs :
  filter p (map conc hs) = map conc (filter (fun h => p (conc h)) hs).
Proof.
  induction hs as [|h t IH]; [reflexivity|]. cbn [map filter]. destruct (p (conc h)); cbn [map]; rewrite IH; reflexivity.
Qed.
Lemma filter_ext_in' {A} (p q : A -> bool) l : (forall x, p x = q x) -> filter p l = filter q l.
Proof. intros H. induction l as [|x t IH]; [reflexivity|]. cbn [filter]. rewrite H, IH. reflexivity. Qed.

Lemma keycodes_conc hs : filter_map st_keycode (map conc hs) = km_keys hs.
Proof. induction hs as [|h t IH]; [reflexivity|]. destruct h; cbn [map conc filter_map st_keycode km_keys]; rewrite IH; reflexivity. Qed.
Lemma layers_conc hs : filter_map st_layer (map conc hs) = km_layers_rev hs.
Proof. induction hs as [|h t IH]; [reflexivity|]. destruct h; cbn [map conc filter_map st_layer km_layers_rev]; rewrite IH; reflexivity. Qed.

Lemma Rel_keycodes l s : Rel qq l s -> keycodes l = km_keys (held s).
Proof. intros H. unfold keycodes. rewrite (r_states _ _ _ H). apply keycodes_conc. Qed.
Lemma Rel_layers l s : Rel qq l s -> active_held_layers l = km_layers s.
Proof. intros H. unfold active_held_layers, km_layers. rewrite (r_states _ _ _ H), <- map_rev. apply layers_conc. Qed.
Lemma Rel_current l s : Rel qq l s -> current_layer l = km_current s.
Proof.
  intros H. unfold current_layer, km_current. fold (active_held_layers l). rewrite (Rel_layers _ _ H), (r_base _ _ _ H). reflexivity.
Qed.
Lemma Rel_order cfg l s : Rel qq l s -> trans_order cfg l = Ok (km_order cfg s).
Proof.
  intros H. unfold trans_order, km_order. rewrite (Rel_current _ _ H), (Rel_layers _ _ H), (r_base _ _ _ H).
  destruct (trans_v2 cfg).
  - destruct (delegate_first cfg && negb (km_current s =? 0) && negb (base s =? 0)); reflexivity.
  - destruct (delegate_first cfg && negb (km_current s =? 0)); reflexivity.
Qed.

(* ------------------------------------------------------------------ configuration lookups *)
Lemma assoc_km y l : assoc_cell y l = km_assoc y l.
Proof. induction l as [|[k a] t IH]; [reflexivity|]. cbn [assoc_cell km_assoc]. rewrite IH. reflexivity. Qed.

Lemma row_get_ok r y : y <? r_len r = true -> row_get r y = Ok (km_row r y).
Proof. intros H. unfold row_get, km_row. rewrite H, assoc_km. reflexivity. Qed.

Lemma km_assoc_in y l a : km_assoc y l = Some a -> In (y, a) l.
Proof.
  induction l as [|[k b] t IH]; [discriminate|]. cbn [km_assoc]. destruct (N.eqb_spec k y).
  - intros E; inversion E; subst. left; reflexivity.
  - intros E. right. exact (IH E).
Qed.
Lemma row_all_km p r y : row_all p r = true -> (forall k, p (KeyCode k) = true) -> p (km_row r y) = true.
Proof.
  intros H Hk. unfold row_all in H. apply andb_prop in H. destruct H as [Hc Hd].
  unfold km_row. destruct (km_assoc y (r_cells r)) as [a|] eqn:E.
  - apply km_assoc_in in E. rewrite forallb_forall in Hc. exact (Hc _ E).
  - destruct (r_default r); [exact Hd|apply Hk].
Qed.

Section Cfg.
  Variable cfg : lcfg.
  Hypothesis Hcfg : frag_cfg cfg = true.
  Let nl := N.of_nat (length (layers cfg)).

  Lemma layers_nonempty : (0 < length (layers cfg))%nat.
  Proof.
    unfold frag_cfg in Hcfg. destruct (layers cfg); [discriminate|cbn; lia].
  Qed.

  Lemma cell_frag ly c : frag nl (km_cell cfg ly c) = true /\ (depth (km_cell cfg ly c) <= MAXDEPTH)%nat.
  Proof.
    unfold km_cell. destruct (nth_error (layers cfg) (N.to_nat ly)) as [[r0 r1]|] eqn:E.
    - apply nth_error_In in E.
      unfold frag_cfg in Hcfg. apply andb_prop in Hcfg. destruct Hcfg as [H1 _]. apply andb_prop in H1. destruct H1 as [_ H1].
      rewrite forallb_forall in H1. specialize (H1 _ E). cbn [fst snd] in H1. apply andb_prop in H1. destruct H1 as [Ha Hb].
      assert (X : frag nl (km_row (if fst c =? 0 then r0 else r1) (snd c)) && Nat.leb (depth (km_row (if fst c =? 0 then r0 else r1) (snd c))) MAXDEPTH = true).
      { destruct (fst c =? 0); [apply (row_all_km _ _ _ Ha)|apply (row_all_km _ _ _ Hb)]; intros k; reflexivity. }
      apply andb_prop in X. destruct X as [X1 X2]. split; [exact X1|]. apply Nat.leb_le. exact X2.
    - split; [reflexivity|cbn; unfold MAXDEPTH; lia].
  Qed.

  Lemma src_simple y : simple_src (km_row (src_keys cfg) y) = true.
  Proof.
    unfold frag_cfg in Hcfg. apply andb_prop in Hcfg. destruct Hcfg as [_ H]. apply (row_all_km _ _ _ H). intros k; reflexivity.
  Qed.

  Variable c : coord.
  Hypothesis Hc : coord_ok cfg c = true.

  Lemma coord_x : fst c <? 2 = true.
  Proof. unfold coord_ok in Hc. apply andb_prop in Hc. destruct Hc as [H _]. apply andb_prop in H. tauto. Qed.
  Lemma coord_src : snd c <? r_len (src_keys cfg) = true.
  Proof. unfold coord_ok in Hc. apply andb_prop in Hc. destruct Hc as [H _]. apply andb_prop in H. tauto. Qed.
  Lemma coord_rows rr : In rr (layers cfg) ->
    snd c <? r_len (fst rr) = true /\ snd c <? r_len (if fst c =? 0 then fst rr else snd rr) = true.
  Proof.
    intros Hin. unfold coord_ok in Hc. apply andb_prop in Hc. destruct Hc as [_ H]. rewrite forallb_forall in H.
    specialize (H _ Hin). apply andb_prop in H. destruct H as [H0 H1]. split; [exact H0|].
    destruct (fst c =? 0); [exact H0|exact H1].
  Qed.

  (* one step of the search *)
  Lemma resolve_loop_step ly rest :
    ly < nl ->
    resolve_loop cfg (fst c) (snd c) (ly :: rest) =
      match km_cell cfg ly c with
      | Trans => resolve_loop cfg (fst c) (snd c) rest
      | a => Ok (Some a, rest)
      end.
  Proof.
    intros Hly. cbn [resolve_loop]. fold nl.
    assert (E1 : nl <? ly = false) by (apply N.ltb_ge; lia). rewrite E1.
    unfold km_cell.
    destruct (nth_error (layers cfg) (N.to_nat ly)) as [[r0 r1]|] eqn:E.
    2:{ apply nth_error_None in E. unfold nl in Hly. lia. }
    pose proof (proj2 (coord_rows _ (nth_error_In _ _ E))) as Hr. cbn [fst snd] in Hr.
    pose proof coord_x as Hx.
    destruct (N.eqb_spec (fst c) 0) as [E0|E0].
    - rewrite (row_get_ok _ _ Hr). cbn [bind]. destruct (km_row r0 (snd c)); reflexivity.
    - assert (E2 : fst c =? 1 = true) by (apply N.eqb_eq; apply N.ltb_lt in Hx; lia). rewrite E2.
      rewrite (row_get_ok _ _ Hr). cbn [bind]. destruct (km_row r1 (snd c)); reflexivity.
  Qed.

  Lemma resolve_coord_unfold ls :
    resolve_coord cfg c ls =
      ('(oa, rest) <- resolve_loop cfg (fst c) (snd c) ls ;;
       match oa with
       | Some a => Ok (a, rest)
       | None => Ok (km_src cfg c, rest)
       end).
  Proof.
    unfold resolve_coord. rewrite (surjective_pairing c) at 1.
    pose proof layers_nonempty as Hn.
    destruct (layers cfg) as [|[r0 r1] t] eqn:El; [cbn in Hn; lia|].
    pose proof coord_x as Hx.
    assert (E1 : 2 <? fst c = false) by (apply N.ltb_ge; apply N.ltb_lt in Hx; lia). rewrite E1.
    assert (Hin : In (r0, r1) (layers cfg)) by (rewrite El; left; reflexivity).
    pose proof (proj1 (coord_rows _ Hin)) as Hr. cbn [fst snd] in Hr.
    assert (E2 : r_len r0 <? snd c = false) by (apply N.ltb_ge; apply N.ltb_lt in Hr; lia). rewrite E2.
    destruct (resolve_loop cfg (fst c) (snd c) ls) as [[oa rest]| |]; cbn [bind]; try reflexivity.
    destruct oa as [a|]; [reflexivity|].
    unfold km_src. destruct (fst c =? 0); [|reflexivity].
    rewrite (row_get_ok _ _ coord_src). reflexivity.
  Qed.
End Cfg.

(* ------------------------------------------------------------------ do_action on the fragment *)
Lemma cna_conc h : st_clear_on_next_action (conc h) = h_is_chord h.
Proof. destruct h as [k c0 [|]|]; reflexivity. Qed.

Section Act.
  Variable cfg : lcfg.
  Hypothesis Hcfg : frag_cfg cfg = true.
  Variable c : coord.
  Hypothesis Hc : coord_ok cfg c = true.
  Let nl := N.of_nat (length (layers cfg)).

  Definition pre (l : layout) : layout :=
    let l := if coord_eqb (lpt_coord l) c then l else set_lpt_timeout 0 l in
    set_states (filter (fun s => negb (st_clear_on_next_action s)) (states l)) l.

  Lemma Rel_pre l s : Rel qq l s -> Rel qq (pre l) (km_drop_chords s).
  Proof.
    intros H. unfold pre.
    assert (H1 : Rel qq (if coord_eqb (lpt_coord l) c then l else set_lpt_timeout 0 l) s).
    { destruct (coord_eqb (lpt_coord l) c); [exact H|apply Rel_set_lpt_timeout; exact H]. }
    set (l1 := if coord_eqb (lpt_coord l) c then l else set_lpt_timeout 0 l) in *.
    cbv zeta. rewrite (r_states _ _ _ H1), filter_map_conc.
    rewrite (filter_ext_in' _ (fun h => negb (h_is_chord h))) by (intros h; rewrite cna_conc; reflexivity).
    exact (Rel_set_states _ _ _ H1).
  Qed.

  Definition Realises (f : nat) (a : action) (ls : list N) (K : kmst -> kmst) : Prop :=
    forall l s d, Rel qq l s ->
      exists l', exec cfg f l (CDoAction a c d false ls) = Ok (l', CNone) /\ Rel qq l' (K s).

  Lemma Rel_push l s h : Rel qq l s -> Rel qq (set_states (fst (states_push (conc h) (states l))) l) (km_push h s).
  Proof.
    intros H. unfold states_push. rewrite (r_states _ _ _ H), sat_push_map. exact (Rel_set_states _ _ _ H).
  Qed.
  Lemma Rel_filter l s p : Rel qq l s -> Rel qq (set_states (filter p (states l)) l) (km_filter (fun h => p (conc h)) s).
  Proof. intros H. rewrite (r_states _ _ _ H), filter_map_conc. exact (Rel_set_states _ _ _ H). Qed.
  Lemma Rel_key_rpt l s a ks : Rel qq l s -> Rel qq (key_rpt_update a ks false c l) s.
  Proof. intros H. rewrite (key_rpt_update_inactive _ _ _ _ (r_os _ _ _ H)). apply Rel_set_rpt. exact H. Qed.
  Lemma Rel_other l s b : Rel qq l s -> Rel qq (os_other_unless b c l) s.
  Proof. intros H. rewrite (os_other_unless_inactive _ _ _ (r_os _ _ _ H)). exact H. Qed.

  Lemma act_keycode f k ls : Realises (S f) (KeyCode k) ls (fun s => km_push (HKey k c false) (km_drop_chords s)).
  Proof.
    intros l s d HR. rewrite exec_S. cbn [body]. unfold do_action_body. cbn [bind]. fold (pre l).
    eexists; split; [reflexivity|].
    apply Rel_key_rpt.
    change (NormalKey k c 0) with (conc (HKey k c false)).
    apply Rel_push. apply Rel_set_hist_keys. apply Rel_lpt_update. apply Rel_pre. exact HR.
  Qed.

  Lemma act_noop f ls : Realises (S f) NoOp ls km_drop_chords.
  Proof.
    intros l s d HR. rewrite exec_S. cbn [body]. unfold do_action_body. cbn [bind]. fold (pre l).
    eexists; split; [reflexivity|].
    apply Rel_set_rpt. pose proof (Rel_pre _ _ HR) as H1.
    destruct (negb false && negb (coord_eqb c TRIGGER_TAPHOLD_COORD)); [|exact H1].
    rewrite (os_press_inactive _ _ (r_os _ _ _ H1)). exact H1.
  Qed.

  Lemma act_layer f ly ls : Realises (S f) (Layer ly) ls (fun s => km_push (HLayer ly c) (km_drop_chords s)).
  Proof.
    intros l s d HR. rewrite exec_S. cbn [body]. unfold do_action_body. cbn [bind]. fold (pre l).
    eexists; split; [reflexivity|].
    apply Rel_other. change (LayerModifier ly c) with (conc (HLayer ly c)).
    apply Rel_push. apply Rel_lpt_update. apply Rel_pre. exact HR.
  Qed.

  Lemma act_default_layer f ly ls :
    Realises (S f) (DefaultLayer ly) ls
      (fun s => let s := km_drop_chords s in
                if ly <? N.of_nat (length (layers cfg)) then {| held := held s; base := ly |} else s).
  Proof.
    intros l s d HR. rewrite exec_S. cbn [body]. unfold do_action_body. cbn [bind]. fold (pre l).
    eexists; split; [reflexivity|].
    apply Rel_other. cbv zeta. pose proof (Rel_lpt_update _ _ c (Rel_pre _ _ HR)) as H1.
    destruct (ly <? N.of_nat (length (layers cfg))); [|exact H1].
    exact (Rel_set_default _ _ ly H1).
  Qed.

  Lemma act_release_key f k ls :
    Realises (S f) (ReleaseKey k) ls
      (fun s => km_filter (fun h => match h with HKey k1 _ _ => negb (k1 =? k) | _ => true end) (km_drop_chords s)).
  Proof.
    intros l s d HR. rewrite exec_S. cbn [body]. unfold do_action_body. cbn [bind]. fold (pre l).
    eexists; split; [reflexivity|].
    apply Rel_set_rpt. apply Rel_other.
    pose proof (Rel_filter _ _ (fun s0 => match s0 with NormalKey k1 _ _ | FakeKey k1 => negb (k1 =? k) | _ => true end) (Rel_pre _ _ HR)) as H1.
    assert (E : km_filter (fun h => match conc h with NormalKey k1 _ _ | FakeKey k1 => negb (k1 =? k) | _ => true end) (km_drop_chords s)
              = km_filter (fun h => match h with HKey k1 _ _ => negb (k1 =? k) | _ => true end) (km_drop_chords s)).
    { unfold km_filter. f_equal. apply filter_ext_in'. intros [k1 c1 b|ly c1]; reflexivity. }
    rewrite <- E. exact H1.
  Qed.

  Lemma act_release_layer f ly ls :
    Realises (S f) (ReleaseLayer ly) ls
      (fun s => km_filter (fun h => match h with HLayer l1 _ => negb (l1 =? ly) | _ => true end) (km_drop_chords s)).
  Proof.
    intros l s d HR. rewrite exec_S. cbn [body]. unfold do_action_body. cbn [bind]. fold (pre l).
    eexists; split; [reflexivity|].
    apply Rel_set_rpt. apply Rel_other.
    pose proof (Rel_filter _ _ (fun s0 => match s0 with LayerModifier l1 _ => negb (l1 =? ly) | _ => true end) (Rel_pre _ _ HR)) as H1.
    assert (E : km_filter (fun h => match conc h with LayerModifier l1 _ => negb (l1 =? ly) | _ => true end) (km_drop_chords s)
              = km_filter (fun h => match h with HLayer l1 _ => negb (l1 =? ly) | _ => true end) (km_drop_chords s)).
    { unfold km_filter. f_equal. apply filter_ext_in'. intros [k1 c1 b|l1 c1]; reflexivity. }
    rewrite <- E. exact H1.
  Qed.

  Lemma fold_keys_rel ks : forall l s, Rel qq l s ->
    Rel qq (fold_left (fun l k => set_states (fst (states_push (NormalKey k c NKF_CLEAR_ON_NEXT_ACTION) (states l)))
                                 (set_hist_keys (hist_push_front k (hist_keys l)) l)) ks l)
        (fold_left (fun s k => km_push (HKey k c true) s) ks s).
  Proof.
    induction ks as [|k t IH]; intros l s H; [exact H|]. cbn [fold_left]. apply IH.
    change (NormalKey k c NKF_CLEAR_ON_NEXT_ACTION) with (conc (HKey k c true)).
    exact (Rel_push _ _ (HKey k c true) (Rel_set_hist_keys _ _ (hist_push_front k (hist_keys l)) H)).
  Qed.

  Lemma act_multikey f ks ls :
    Realises (S f) (MultipleKeyCodes ks) ls (fun s => fold_left (fun s k => km_push (HKey k c true) s) ks (km_drop_chords s)).
  Proof.
    intros l s d HR. rewrite exec_S. cbn [body]. unfold do_action_body. cbn [bind]. fold (pre l).
    eexists; split; [reflexivity|].
    apply Rel_key_rpt. apply fold_keys_rel. apply Rel_lpt_update. apply Rel_pre. exact HR.
  Qed.

  (* a defsrc entry *)
  Lemma act_simple f a ls : simple_src a = true -> Realises (S f) a ls (km_simple c a).
  Proof.
    destruct a; try discriminate; intros _; [apply act_noop|apply act_keycode].
  Qed.

  Lemma drop_drop s : km_drop_chords (km_drop_chords s) = km_drop_chords s.
  Proof.
    unfold km_drop_chords, km_filter. cbn [held base]. f_equal.
    induction (held s) as [|h t IH]; [reflexivity|]. cbn [filter].
    destruct (negb (h_is_chord h)) eqn:E; cbn [filter]; [rewrite E|]; rewrite IH; reflexivity.
  Qed.
  Lemma simple_drop a s : km_simple c a (km_drop_chords s) = km_simple c a s.
  Proof. unfold km_simple. rewrite drop_drop. reflexivity. Qed.

  Lemma act_src f ls : Realises (S (S f)) Src ls (km_simple c (km_row (src_keys cfg) (snd c))).
  Proof.
    intros l s d HR. rewrite exec_S. cbn [body]. unfold do_action_body. cbn [bind]. fold (pre l).
    rewrite (row_get_ok _ _ (coord_src cfg c Hc)). cbn [bind]. unfold doact.
    destruct (act_simple f _ [] (src_simple cfg Hcfg (snd c)) (pre l) _ d (Rel_pre _ _ HR)) as [l' [E HR']].
    rewrite E. cbn [bind]. eexists; split; [reflexivity|]. rewrite simple_drop in HR'. exact HR'.
  Qed.

  (* recursion budget needed: one level per multi nesting, the transparent continuation costs what
     the rest of the search costs *)
  Fixpoint cost_with (cb : nat) (a : action) : nat :=
    match a with
    | Trans => cb
    | MultipleActions acs => S ((fix go (acs : list action) : nat :=
                                   match acs with [] => O | a1 :: t => Nat.max (cost_with cb a1) (go t) end) acs)
    | Src => 2
    | _ => 1
    end.
  Fixpoint cost_list (cb : nat) (acs : list action) : nat :=
    match acs with [] => O | a1 :: t => Nat.max (cost_with cb a1) (cost_list cb t) end.
  Lemma cost_multi cb acs : cost_with cb (MultipleActions acs) = S (cost_list cb acs).
  Proof. cbn [cost_with]. f_equal. induction acs as [|a t IH]; [reflexivity|]. cbn [cost_list]. rewrite <- IH. reflexivity. Qed.

  Fixpoint km_perform_list (below : kmst -> kmst) (acs : list action) (s : kmst) : kmst :=
    match acs with [] => s | a1 :: t => km_perform_list below t (km_perform cfg c below a1 s) end.
  Lemma perform_multi below acs s :
    km_perform cfg c below (MultipleActions acs) s = km_perform_list below acs (km_drop_chords s).
  Proof.
    cbn [km_perform]. generalize (km_drop_chords s). induction acs as [|a t IH]; intros s0; [reflexivity|].
    cbn [km_perform_list]. rewrite <- IH. reflexivity.
  Qed.

  Lemma doact_list_realised f below rest acs :
    Forall (fun a1 => Realises f a1 rest (km_perform cfg c below a1)) acs ->
    forall l s d, Rel qq l s ->
      exists l', doact_list (exec cfg f) l acs c d false rest CNone = Ok (l', CNone) /\
                 Rel qq l' (km_perform_list below acs s).
  Proof.
    induction 1 as [|a1 t H1 _ IH]; intros l s d HR.
    - cbn [doact_list km_perform_list]. eexists; split; [reflexivity|exact HR].
    - cbn [doact_list km_perform_list]. unfold doact.
      destruct (H1 l s d HR) as [l1 [E1 HR1]]. rewrite E1. cbn [bind cev_update].
      exact (IH l1 _ d HR1).
  Qed.

  Lemma perform_realised below cb rest :
    (forall f, (cb <= f)%nat -> Realises f Trans rest below) ->
    forall n a, (depth a <= n)%nat -> frag nl a = true ->
    forall f, (cost_with cb a <= f)%nat -> Realises f a rest (km_perform cfg c below a).
  Proof.
    intros Hbelow. induction n as [|n IH]; intros a Hd Hf f Hcost.
    - destruct a; try discriminate Hf; cbn [depth] in Hd; try lia.
      (* Trans *) cbn [cost_with] in Hcost. cbn [km_perform]. exact (Hbelow f Hcost).
    - destruct a; try discriminate Hf.
      + (* NoOp *) cbn [cost_with] in Hcost. destruct f as [|f]; [lia|]. apply act_noop.
      + (* Trans *) cbn [cost_with] in Hcost. exact (Hbelow f Hcost).
      + cbn [cost_with] in Hcost. destruct f as [|f]; [lia|]. apply act_keycode.
      + cbn [cost_with] in Hcost. destruct f as [|f]; [lia|]. apply act_multikey.
      + (* MultipleActions *)
        rewrite cost_multi in Hcost. destruct f as [|f]; [lia|].
        rewrite depth_multi in Hd. rewrite frag_multi in Hf.
        assert (HF : Forall (fun a1 => Realises f a1 rest (km_perform cfg c below a1)) acs).
        { assert (Hd' : (depth_list acs <= n)%nat) by lia.
          assert (Hc' : (cost_list cb acs <= f)%nat) by lia.
          clear Hd Hcost. induction acs as [|a1 t IHt]; [constructor|].
          cbn [depth_list cost_list frag_list] in *. apply andb_prop in Hf. destruct Hf as [Hf1 Hf2].
          constructor.
          - apply (IH a1); [lia|exact Hf1|lia].
          - apply IHt; [exact Hf2|lia|lia]. }
        intros l s d HR. rewrite exec_S. cbn [body]. unfold do_action_body. cbn [bind]. fold (pre l).
        destruct (doact_list_realised f below rest acs HF _ _ d (Rel_lpt_update _ _ c (Rel_pre _ _ HR))) as [l1 [E1 HR1]].
        rewrite E1. cbn [bind]. eexists; split; [reflexivity|].
        rewrite perform_multi. apply Rel_set_rpt. exact HR1.
      + (* Layer *) cbn [cost_with] in Hcost. destruct f as [|f]; [lia|]. apply act_layer.
      + cbn [cost_with] in Hcost. destruct f as [|f]; [lia|]. apply act_default_layer.
      + cbn [cost_with] in Hcost. destruct f as [|f]; [lia|]. apply act_release_key.
      + cbn [cost_with] in Hcost. destruct f as [|f]; [lia|]. apply act_release_layer.
      + (* Src *) cbn [cost_with] in Hcost. destruct f as [|[|f]]; [lia|lia|]. apply act_src.
  Qed.

  Fixpoint cost_from (order : list N) : nat :=
    match order with
    | [] => 1
    | ly :: rest => cost_with (cost_from rest) (km_cell cfg ly c)
    end.

  Lemma cost_with_pos cb a : (1 <= cb)%nat -> (1 <= cost_with cb a)%nat.
  Proof. intros H. destruct a; cbn [cost_with]; lia. Qed.
  Lemma cost_from_pos order : (1 <= cost_from order)%nat.
  Proof. induction order as [|ly rest IH]; cbn [cost_from]; [lia|apply cost_with_pos; exact IH]. Qed.

  Lemma press_from_cons ly rest s :
    km_press_from cfg c (ly :: rest) s = km_perform cfg c (km_press_from cfg c rest) (km_cell cfg ly c) s.
  Proof. cbn [km_press_from]. destruct (km_cell cfg ly c); reflexivity. Qed.

  Lemma exec_trans_resolved f l d ls a ls' :
    resolve_coord cfg c ls = Ok (a, ls') -> is_trans a = false ->
    exec cfg (S f) l (CDoAction Trans c d false ls) = exec cfg (S f) l (CDoAction a c d false ls').
  Proof.
    intros H Ha. rewrite !exec_S. cbn [body]. unfold do_action_body. rewrite H. cbn [bind].
    destruct a; try reflexivity. discriminate Ha.
  Qed.
  Lemma exec_trans_same f l d ls1 ls2 :
    resolve_coord cfg c ls1 = resolve_coord cfg c ls2 ->
    exec cfg (S f) l (CDoAction Trans c d false ls1) = exec cfg (S f) l (CDoAction Trans c d false ls2).
  Proof. intros H. rewrite !exec_S. cbn [body]. unfold do_action_body. rewrite H. reflexivity. Qed.

  Lemma km_src_simple : simple_src (km_src cfg c) = true.
  Proof. unfold km_src. destruct (fst c =? 0); [apply (src_simple cfg Hcfg)|reflexivity]. Qed.

  Lemma press_from_realised order :
    Forall (fun ly => ly < nl) order ->
    forall f, (cost_from order <= f)%nat -> Realises f Trans order (km_press_from cfg c order).
  Proof.
    induction 1 as [|ly rest Hly _ IH]; intros f Hcost.
    - cbn [cost_from] in Hcost. destruct f as [|f]; [lia|].
      intros l s d HR.
      assert (E : resolve_coord cfg c [] = Ok (km_src cfg c, [])).
      { rewrite (resolve_coord_unfold cfg Hcfg c Hc). reflexivity. }
      assert (Hnt : is_trans (km_src cfg c) = false).
      { pose proof km_src_simple as X. destruct (km_src cfg c); try discriminate X; reflexivity. }
      rewrite (exec_trans_resolved f l d _ _ _ E Hnt).
      exact (act_simple f _ [] km_src_simple l s d HR).
    - pose proof (cost_from_pos (ly :: rest)) as Hpos. destruct f as [|f]; [lia|].
      intros l s d HR. rewrite press_from_cons.
      pose proof (resolve_loop_step cfg c Hc ly rest Hly) as Estep.
      destruct (is_trans (km_cell cfg ly c)) eqn:Et.
      + (* transparent here: the search goes on below *)
        assert (Ecell : km_cell cfg ly c = Trans) by (destruct (km_cell cfg ly c); try discriminate Et; reflexivity).
        rewrite Ecell in *. cbn [km_perform]. cbn [cost_from] in Hcost. rewrite Ecell in Hcost. cbn [cost_with] in Hcost.
        assert (E : resolve_coord cfg c (ly :: rest) = resolve_coord cfg c rest).
        { rewrite !(resolve_coord_unfold cfg Hcfg c Hc). rewrite Estep. reflexivity. }
        rewrite (exec_trans_same f l d _ _ E).
        exact (IH (S f) Hcost l s d HR).
      + assert (E : resolve_coord cfg c (ly :: rest) = Ok (km_cell cfg ly c, rest)).
        { rewrite (resolve_coord_unfold cfg Hcfg c Hc). rewrite Estep.
          destruct (km_cell cfg ly c); try reflexivity. discriminate Et. }
        rewrite (exec_trans_resolved f l d _ _ _ E Et).
        destruct (cell_frag cfg Hcfg ly c) as [Hfr Hdp].
        cbn [cost_from] in Hcost.
        exact (perform_realised (km_press_from cfg c rest) (cost_from rest) rest IH MAXDEPTH _ Hdp Hfr (S f) Hcost l s d HR).
  Qed.

  (* ---- the budget is enough ---- *)
  Lemma cost_with_le cb n : forall a, (depth a <= n)%nat -> (cost_with cb a <= depth a + cb)%nat.
  Proof.
    induction n as [|n IH]; intros a Hd.
    - destruct a; cbn [depth] in Hd; try lia. cbn [cost_with depth]. lia.
    - destruct a; try (cbn [cost_with depth]; lia).
      rewrite cost_multi, depth_multi. rewrite depth_multi in Hd.
      assert (Hd' : (depth_list acs <= n)%nat) by lia. clear Hd.
      assert (X : (cost_list cb acs <= depth_list acs + cb)%nat).
      { induction acs as [|a1 t IHt]; cbn [cost_list depth_list] in *; [lia|].
        pose proof (IH a1 ltac:(lia)). pose proof (IHt ltac:(lia)). lia. }
      lia.
  Qed.

  Lemma cost_from_le order : (cost_from order <= length order * MAXDEPTH + 1)%nat.
  Proof.
    induction order as [|ly rest IH]; cbn [cost_from length]; [lia|].
    destruct (cell_frag cfg Hcfg ly c) as [_ Hdp].
    pose proof (cost_with_le (cost_from rest) MAXDEPTH _ Hdp). lia.
  Qed.
End Act.

Lemma sat_push_len {A} cap (x : A) l : (length l <= cap)%nat -> (length (fst (sat_push_back cap x l)) <= cap)%nat.
Proof.
  intros H. unfold sat_push_back. destruct (Nat.ltb_spec (length l) cap); cbn [fst]; [|exact H].
  rewrite app_length. cbn. lia.
Qed.
Lemma sat_push_in {A} cap (x y : A) l : In y (fst (sat_push_back cap x l)) -> y = x \/ In y l.
Proof.
  unfold sat_push_back. destruct (Nat.ltb (length l) cap); cbn [fst]; [|tauto].
  intros H. apply in_app_or in H. destruct H as [H|[H|[]]]; [right; exact H|left; symmetry; exact H].
Qed.

Lemma firstn_in {A} n (l : list A) x : In x (firstn n l) -> In x l.
Proof.
  revert l; induction n as [|n IH]; intros l H; [destruct l; destruct H|].
  destruct l as [|h t]; [destruct H|]. cbn [firstn] in H. destruct H as [E|H]; [left; exact E|right; exact (IH _ H)].
Qed.

Lemma km_order_len cfg s : (length (km_order cfg s) <= MAX_ACTIVE_LAYERS)%nat.
Proof.
  unfold km_order. destruct (trans_v2 cfg).
  - assert (H0 : (length (fst (sat_push_back MAX_ACTIVE_LAYERS (base s) (firstn MAX_ACTIVE_LAYERS (km_layers s)))) <= MAX_ACTIVE_LAYERS)%nat).
    { apply sat_push_len. apply firstn_le_length. }
    destruct (delegate_first cfg && negb (km_current s =? 0) && negb (base s =? 0)); [apply sat_push_len|]; exact H0.
  - destruct (delegate_first cfg && negb (km_current s =? 0)); cbn; unfold MAX_ACTIVE_LAYERS; lia.
Qed.

Lemma km_layers_rev_in ly hs : In ly (km_layers_rev hs) -> exists c0, In (HLayer ly c0) hs.
Proof.
  induction hs as [|h t IH]; [intros []|]. destruct h as [k c0 b|l0 c0]; cbn [km_layers_rev].
  - intros H. destruct (IH H) as [c1 H1]. exists c1. right. exact H1.
  - intros [E|H]; [subst; exists c0; left; reflexivity|]. destruct (IH H) as [c1 H1]. exists c1. right. exact H1.
Qed.

Lemma km_layers_ok cfg s ly : st_ok cfg s -> In ly (km_layers s) -> ly < N.of_nat (length (layers cfg)).
Proof.
  intros [H _] Hin. unfold km_layers in Hin. apply km_layers_rev_in in Hin. destruct Hin as [c0 Hin].
  apply in_rev in Hin. rewrite forallb_forall in H. specialize (H _ Hin). cbn [h_ok] in H. apply N.ltb_lt. exact H.
Qed.
Lemma km_current_ok cfg s : st_ok cfg s -> km_current s < N.of_nat (length (layers cfg)).
Proof.
  intros H. unfold km_current. destruct (km_layers s) as [|ly t] eqn:E; [exact (proj2 H)|].
  apply (km_layers_ok cfg s ly H). rewrite E. left. reflexivity.
Qed.

Lemma km_order_ok cfg s :
  (0 < length (layers cfg))%nat -> st_ok cfg s -> Forall (fun ly => ly < N.of_nat (length (layers cfg))) (km_order cfg s).
Proof.
  intros Hn H. apply Forall_forall. intros ly Hin. unfold km_order in Hin.
  assert (H0 : 0 < N.of_nat (length (layers cfg))) by lia.
  destruct (trans_v2 cfg).
  - assert (X : forall y, In y (fst (sat_push_back MAX_ACTIVE_LAYERS (base s) (firstn MAX_ACTIVE_LAYERS (km_layers s)))) ->
                     y < N.of_nat (length (layers cfg))).
    { intros y Hy. apply sat_push_in in Hy. destruct Hy as [->|Hy]; [exact (proj2 H)|].
      apply (km_layers_ok cfg s y H). exact (firstn_in _ _ _ Hy). }
    destruct (delegate_first cfg && negb (km_current s =? 0) && negb (base s =? 0)); [|exact (X _ Hin)].
    apply sat_push_in in Hin. destruct Hin as [->|Hin]; [exact H0|exact (X _ Hin)].
  - pose proof (km_current_ok cfg s H) as Hcur.
    destruct (delegate_first cfg && negb (km_current s =? 0)); cbn [In] in Hin.
    + destruct Hin as [<-|[<-|[]]]; assumption.
    + destruct Hin as [<-|[]]; assumption.
Qed.

End Q.

(* ------------------------------------------------------------------ one dequeued event *)
Lemma release_states_cev c skip hs : forall cu, snd (release_states c skip (map conc hs) cu) = cu.
Proof.
  induction hs as [|h t IH]; intros cu; [reflexivity|]. cbn [map release_states].
  destruct (skip && st_clear_on_next_release (conc h)); [apply IH|].
  destruct h as [k c0 b|ly c0]; cbn [conc].
  - destruct (coord_eqb c0 c); [apply IH|]. specialize (IH cu). destruct (release_states c skip (map conc t) cu). exact IH.
  - destruct (coord_eqb c0 c); [apply IH|]. specialize (IH cu). destruct (release_states c skip (map conc t) cu). exact IH.
Qed.

Lemma survives_conc c h : survives_release c true (conc h) = negb (coord_eqb (h_coord h) c).
Proof. destruct h as [k c0 [|]|ly c0]; reflexivity. Qed.

Lemma dequeue_release cfg rec qq l s q :
  Rel qq l s -> q_press q = false ->
  exists l', dequeue cfg rec l q = Ok (l', CNone) /\ Rel qq l' (km_release (q_coord q) s).
Proof.
  intros HR Hp. unfold dequeue. rewrite Hp. cbn [negb]. unfold os_handle_release. rewrite (r_os _ _ _ HR).
  cbv beta iota zeta. rewrite set_oneshot_id.
  pose proof (release_states_filter (q_coord q) true (states l) CNone) as E1.
  pose proof (release_states_cev (q_coord q) true (held s) CNone) as E2. rewrite <- (r_states _ _ _ HR) in E2.
  destruct (release_states (q_coord q) true (states l) CNone) as [sts cu]. cbn [fst snd] in E1, E2. subst sts cu.
  eexists; split; [reflexivity|].
  pose proof (Rel_filter qq l s (survives_release (q_coord q) true) HR) as H1.
  assert (E : km_filter (fun h => survives_release (q_coord q) true (conc h)) s = km_release (q_coord q) s).
  { unfold km_release, km_filter. f_equal. apply filter_ext_in'. intros h. apply survives_conc. }
  rewrite <- E. exact H1.
Qed.

Lemma dequeue_press cfg qq l s q :
  frag_cfg cfg = true -> Rel qq l s -> st_ok cfg s -> q_press q = true -> coord_ok cfg (q_coord q) = true ->
  exists l', dequeue cfg (exec cfg FUEL) l q = Ok (l', CNone) /\ Rel qq l' (km_press cfg (q_coord q) s).
Proof.
  intros Hcfg HR Hok Hp Hc. unfold dequeue. rewrite Hp. cbn [negb]. rewrite (Rel_order qq cfg _ _ HR). cbn [bind].
  rewrite (r_tde _ _ _ HR). unfold doact.
  apply (press_from_realised qq cfg Hcfg (q_coord q) Hc (km_order cfg s)
           (km_order_ok cfg s (layers_nonempty cfg Hcfg) Hok)); [|exact HR].
  pose proof (cost_from_le cfg Hcfg (q_coord q) (km_order cfg s)).
  pose proof (km_order_len cfg s). unfold MAX_ACTIVE_LAYERS, MAXDEPTH, FUEL in *. nia.
Qed.

(* ------------------------------------------------------------------ one tick *)
Definition aged_q (q : list queued) : list queued :=
  map (fun q => {| q_press := q_press q; q_coord := q_coord q; q_since := sat_add16 (q_since q) 1 |}) q.

Lemma Rel_requeue qq q' l s : Rel qq l s -> Rel q' (set_queue q' l) s.
Proof. intros []; constructor; try assumption; reflexivity. Qed.
Lemma Rel_aged qq l s : Rel qq l s -> Rel qq (aged l) s.
Proof. intros []; constructor; assumption. Qed.

Lemma conc_plain hs : forallb plain_state (map conc hs) = true.
Proof. induction hs as [|h t IH]; [reflexivity|]. cbn [map forallb]. rewrite IH. destruct h; reflexivity. Qed.
Lemma Rel_plain qq l s : Rel qq l s -> forallb plain_state (states l) = true.
Proof. intros H. rewrite (r_states _ _ _ H). apply conc_plain. Qed.

Lemma tick_refines cfg qq l s :
  frag_cfg cfg = true -> Rel qq l s -> st_ok cfg s ->
  Forall (fun q => coord_ok cfg (q_coord q) = true) qq ->
  exists l', layout_tick cfg l = Ok (l', CNone) /\
    match qq with
    | [] => Rel [] l' s
    | e :: t => Rel (aged_q t) l' (if q_press e then km_press cfg (q_coord e) s else km_release (q_coord e) s)
    end.
Proof.
  intros Hcfg HR Hok Hq.
  unfold layout_tick. rewrite (r_aq _ _ _ HR). cbv zeta. fold (aged_q (queue l)).
  set (l1 := set_queue (aged_q (queue l)) l).
  set (l2 := set_lpt_timeout (sat_sub (lpt_timeout l1) 1) l1).
  assert (HR2 : Rel (aged_q qq) l2 s).
  { unfold l2. change (lpt_timeout l1) with (lpt_timeout l). rewrite (r_lpt _ _ _ HR). change (sat_sub 0 1) with 0.
    apply Rel_set_lpt_timeout. unfold l1. rewrite (r_queue _ _ _ HR). exact (Rel_requeue _ _ _ _ HR). }
  rewrite (r_tde _ _ _ HR2).
  rewrite (process_sequences_quiet l2 (r_seqs _ _ _ HR2) (Rel_plain _ _ _ HR2)).
  fold (aged l2).
  pose proof (Rel_aged _ _ _ HR2) as HR3. set (l3 := aged l2) in *.
  assert (E3 : os_tick (oneshot l3) = (oneshot l3, None)).
  { unfold os_tick. rewrite (r_os _ _ _ HR3). reflexivity. }
  rewrite E3. rewrite set_oneshot_id. cbn [bind].
  rewrite (r_waiting _ _ _ HR3), (r_extra _ _ _ HR3), (r_pause _ _ _ HR3).
  change (0 <? 0) with false. cbv iota.
  rewrite (r_queue _ _ _ HR3).
  destruct qq as [|e t].
  - cbn [aged_q map bind cev_update].
    rewrite (process_extra_waitings_quiet cfg l3 (r_extra _ _ _ HR3)). cbn [bind].
    rewrite (process_sequence_custom_quiet l3 (Rel_plain _ _ _ HR3)).
    eexists; split; [reflexivity|exact HR3].
  - cbn [aged_q map]. fold (aged_q t).
    set (e' := {| q_press := q_press e; q_coord := q_coord e; q_since := sat_add16 (q_since e) 1 |}).
    pose proof (Rel_requeue _ (aged_q t) _ _ HR3) as HR4.
    assert (Hc : coord_ok cfg (q_coord e') = true) by (inversion Hq; assumption).
    assert (HD : exists l', dequeue cfg (exec cfg FUEL) (set_queue (aged_q t) l3) e' = Ok (l', CNone) /\
                            Rel (aged_q t) l' (if q_press e then km_press cfg (q_coord e) s else km_release (q_coord e) s)).
    { assert (Ep' : q_press e' = q_press e) by reflexivity.
      change (q_coord e) with (q_coord e').
      destruct (q_press e) eqn:Ep.
      - exact (dequeue_press cfg _ _ s e' Hcfg HR4 Hok Ep' Hc).
      - exact (dequeue_release cfg _ _ _ s e' HR4 Ep'). }
    destruct HD as [l' [ED HR']]. rewrite ED. cbn [bind cev_update].
    rewrite (process_extra_waitings_quiet cfg l' (r_extra _ _ _ HR')). cbn [bind].
    rewrite (process_sequence_custom_quiet l' (Rel_plain _ _ _ HR')).
    eexists; split; [reflexivity|exact HR'].
Qed.

(* ------------------------------------------------------------------ the spec keeps its layers valid *)
Lemma forallb_filter' {A} (p q : A -> bool) l : forallb p l = true -> forallb p (filter q l) = true.
Proof.
  induction l as [|x t IH]; [reflexivity|]. cbn [forallb filter]. intros H. apply andb_prop in H. destruct H as [Hx Ht].
  destruct (q x); cbn [forallb]; [rewrite Hx|]; exact (IH Ht).
Qed.

Section SpecOk.
  Variable cfg : lcfg.
  Hypothesis Hcfg : frag_cfg cfg = true.
  Variable c : coord.
  Let nl := N.of_nat (length (layers cfg)).

  Lemma ok_filter p s : st_ok cfg s -> st_ok cfg (km_filter p s).
  Proof. intros [H1 H2]. split; [apply forallb_filter'; exact H1|exact H2]. Qed.
  Lemma ok_drop s : st_ok cfg s -> st_ok cfg (km_drop_chords s).
  Proof. apply ok_filter. Qed.
  Lemma ok_push h s : h_ok nl h = true -> st_ok cfg s -> st_ok cfg (km_push h s).
  Proof.
    intros Hh [H1 H2]. split; [|exact H2]. cbn [km_push held]. apply forallb_forall. intros y Hy.
    apply sat_push_in in Hy. destruct Hy as [->|Hy]; [exact Hh|]. rewrite forallb_forall in H1. exact (H1 _ Hy).
  Qed.
  Lemma ok_simple a s : st_ok cfg s -> st_ok cfg (km_simple c a s).
  Proof. intros H. unfold km_simple. destruct a; try (apply ok_drop; exact H). apply ok_push; [reflexivity|apply ok_drop; exact H]. Qed.

  Lemma ok_perform below :
    (forall s, st_ok cfg s -> st_ok cfg (below s)) ->
    forall n a, (depth a <= n)%nat -> frag nl a = true -> forall s, st_ok cfg s -> st_ok cfg (km_perform cfg c below a s).
  Proof.
    intros Hb. induction n as [|n IH]; intros a Hd Hf s Hs.
    - destruct a; try discriminate Hf; cbn [depth] in Hd; try lia. cbn [km_perform]. exact (Hb _ Hs).
    - destruct a; try discriminate Hf; cbn [km_perform].
      + apply ok_drop; exact Hs.
      + exact (Hb _ Hs).
      + apply ok_push; [reflexivity|apply ok_drop; exact Hs].
      + clear Hd Hf. generalize (ok_drop _ Hs). generalize (km_drop_chords s). induction ks as [|k t IHk]; intros s0 H0; [exact H0|].
        cbn [fold_left]. apply IHk. apply ok_push; [reflexivity|exact H0].
      + (* multi *)
        change ((fix go (acs0 : list action) (s0 : kmst) {struct acs0} : kmst :=
                   match acs0 with [] => s0 | a1 :: t => go t (km_perform cfg c below a1 s0) end) acs (km_drop_chords s))
          with (km_perform cfg c below (MultipleActions acs) s).
        rewrite perform_multi. rewrite depth_multi in Hd. rewrite frag_multi in Hf.
        assert (Hd' : (depth_list acs <= n)%nat) by lia. clear Hd.
        generalize (ok_drop _ Hs). generalize (km_drop_chords s).
        induction acs as [|a1 t IHt]; intros s0 H0; [exact H0|].
        cbn [km_perform_list]. cbn [frag_list depth_list] in *. apply andb_prop in Hf. destruct Hf as [Hf1 Hf2].
        apply IHt; [exact Hf2|lia|]. apply (IH a1); [lia|exact Hf1|exact H0].
      + apply ok_push; [exact Hf|apply ok_drop; exact Hs].
      + cbv zeta. destruct (N.ltb_spec l (N.of_nat (length (layers cfg)))) as [Hl|Hl]; [|apply ok_drop; exact Hs].
        destruct (ok_drop _ Hs) as [H1 H2]. split; [exact H1|exact Hl].
      + apply ok_filter. apply ok_drop. exact Hs.
      + apply ok_filter. apply ok_drop. exact Hs.
      + apply ok_simple. exact Hs.
  Qed.

  Lemma ok_press_from order : forall s, st_ok cfg s -> st_ok cfg (km_press_from cfg c order s).
  Proof.
    induction order as [|ly rest IH]; intros s Hs.
    - cbn [km_press_from]. apply ok_simple. exact Hs.
    - rewrite press_from_cons. destruct (cell_frag cfg Hcfg ly c) as [Hfr Hdp].
      exact (ok_perform _ IH MAXDEPTH _ Hdp Hfr s Hs).
  Qed.
End SpecOk.

Lemma ok_press cfg c s : frag_cfg cfg = true -> st_ok cfg s -> st_ok cfg (km_press cfg c s).
Proof. intros Hcfg Hs. unfold km_press. apply ok_press_from; assumption. Qed.
Lemma ok_release cfg c s : st_ok cfg s -> st_ok cfg (km_release c s).
Proof. apply ok_filter. Qed.

(* ------------------------------------------------------------------ whole runs *)
Definition q_view (q : queued) : bool * coord := (q_press q, q_coord q).

Record SysRel (cfg : lcfg) (l : layout) (m : kmsys) : Prop := {
  sr_rel : Rel (queue l) l (km_st m);
  sr_pending : map q_view (queue l) = km_pending m;
  sr_ok : st_ok cfg (km_st m);
  sr_coords : Forall (fun q => coord_ok cfg (q_coord q) = true) (queue l) }.

(* the model driven by the same inputs; the observation is the key list of the layout *)
Definition l_step (cfg : lcfg) (l : layout) (i : km_input) : outcome layout :=
  match i with
  | KmEvent p c => layout_event cfg l p c
  | KmTick => '(l', _) <- layout_tick cfg l ;; Ok l'
  end.
Fixpoint l_run (cfg : lcfg) (l : layout) (is : list km_input) : outcome (list (list N)) :=
  match is with
  | [] => Ok []
  | i :: t => l' <- l_step cfg l i ;; rest <- l_run cfg l' t ;; Ok (keycodes l' :: rest)
  end.

(* histories the statement covers: every event is for a coordinate of the tables and arrives while
   fewer than 32 events are pending *)
Fixpoint hist_ok (cfg : lcfg) (pending : nat) (is : list km_input) : bool :=
  match is with
  | [] => true
  | KmEvent _ c :: t => Nat.ltb pending QUEUE_SIZE && coord_ok cfg c && hist_ok cfg (S pending) t
  | KmTick :: t => hist_ok cfg (Nat.pred pending) t
  end.

Lemma aged_q_view q : map q_view (aged_q q) = map q_view q.
Proof. unfold aged_q. rewrite map_map. reflexivity. Qed.
Lemma aged_q_coords cfg q :
  Forall (fun q => coord_ok cfg (q_coord q) = true) q -> Forall (fun q => coord_ok cfg (q_coord q) = true) (aged_q q).
Proof. intros H. unfold aged_q. apply Forall_map. exact H. Qed.

Lemma step_refines cfg l m i :
  frag_cfg cfg = true -> SysRel cfg l m ->
  hist_ok cfg (length (km_pending m)) [i] = true ->
  exists l', l_step cfg l i = Ok l' /\ SysRel cfg l' (km_step cfg m i).
Proof.
  intros Hcfg [HR Hp Hok Hco] Hh. destruct i as [p c|].
  - (* an input event: appended to the queue *)
    cbn [hist_ok] in Hh. apply andb_prop in Hh. destruct Hh as [Hh _]. apply andb_prop in Hh. destruct Hh as [Hlen Hc].
    apply Nat.ltb_lt in Hlen. rewrite <- Hp, map_length in Hlen.
    cbn [l_step]. rewrite (event_enqueues cfg l p c Hlen). eexists; split; [reflexivity|].
    set (l0 := if p then set_hist_inputs (hist_push_front c (hist_inputs l)) l else l).
    assert (H0 : Rel (queue l) l0 (km_st m)).
    { unfold l0. destruct p; [apply Rel_set_hist_inputs|]; exact HR. }
    constructor; cbn [km_step km_st km_pending].
    + exact (Rel_requeue _ (queue l ++ [mkq p c]) _ _ H0).
    + change (queue (set_queue (queue l ++ [mkq p c]) l0)) with (queue l ++ [mkq p c]).
      rewrite map_app, Hp. reflexivity.
    + exact Hok.
    + change (queue (set_queue (queue l ++ [mkq p c]) l0)) with (queue l ++ [mkq p c]).
      apply Forall_app. split; [exact Hco|]. constructor; [exact Hc|constructor].
  - (* a tick *)
    cbn [l_step].
    destruct (tick_refines cfg (queue l) l (km_st m) Hcfg HR Hok Hco) as [l' [E HR']].
    rewrite E. cbn [bind]. eexists; split; [reflexivity|].
    cbn [km_step]. rewrite <- Hp.
    destruct (queue l) as [|e t] eqn:Eq.
    + cbn [map]. pose proof (r_queue _ _ _ HR') as Eq'.
      constructor; cbn [km_st km_pending]; rewrite ?Eq'; [exact HR'|exact Hp|exact Hok|constructor].
    + cbn [map]. unfold q_view at 1. pose proof (r_queue _ _ _ HR') as Eq'.
      constructor; cbn [km_st km_pending]; rewrite ?Eq'.
      * exact HR'.
      * apply aged_q_view.
      * destruct (q_press e); [apply ok_press; assumption|apply ok_release; assumption].
      * apply aged_q_coords. inversion Hco; assumption.
Qed.

Lemma pending_step cfg m i :
  length (km_pending (km_step cfg m i)) =
    match i with KmEvent _ _ => S (length (km_pending m)) | KmTick => Nat.pred (length (km_pending m)) end.
Proof.
  destruct i as [p c|]; cbn [km_step].
  - cbn [km_pending]. rewrite app_length. cbn. lia.
  - destruct (km_pending m) as [|[p c] t] eqn:E; [rewrite E|]; reflexivity.
Qed.

Theorem run_refines cfg : frag_cfg cfg = true ->
  forall is l m, SysRel cfg l m -> hist_ok cfg (length (km_pending m)) is = true ->
  l_run cfg l is = Ok (km_run cfg m is).
Proof.
  intros Hcfg. induction is as [|i t IH]; intros l m HS Hh; [reflexivity|].
  assert (H1 : hist_ok cfg (length (km_pending m)) [i] = true).
  { destruct i as [p c|]; cbn [hist_ok] in *; [|reflexivity].
    apply andb_prop in Hh. destruct Hh as [Hh _]. rewrite Hh. reflexivity. }
  destruct (step_refines cfg l m i Hcfg HS H1) as [l' [E HS']].
  cbn [l_run km_run]. rewrite E. cbn [bind].
  assert (H2 : hist_ok cfg (length (km_pending (km_step cfg m i))) t = true).
  { rewrite pending_step. destruct i as [p c|]; cbn [hist_ok] in Hh; [|exact Hh].
    apply andb_prop in Hh. tauto. }
  rewrite (IH l' _ HS' H2). cbn [bind].
  rewrite (Rel_keycodes _ _ _ (sr_rel _ _ _ HS')). reflexivity.
Qed.

(* the start: a fresh layout and the empty keymap state *)
Definition km_init : kmsys := {| km_st := {| held := []; base := 0 |}; km_pending := [] |}.
Lemma init_rel cfg pause : frag_cfg cfg = true -> SysRel cfg (init_layout pause) km_init.
Proof.
  intros Hcfg. constructor.
  - constructor; reflexivity.
  - reflexivity.
  - split; [reflexivity|]. pose proof (layers_nonempty cfg Hcfg). cbn [km_init km_st base]. lia.
  - constructor.
Qed.

Theorem fresh_run_refines cfg pause is :
  frag_cfg cfg = true -> hist_ok cfg 0 is = true ->
  l_run cfg (init_layout pause) is = Ok (km_run cfg km_init is).
Proof. intros Hcfg Hh. exact (run_refines cfg Hcfg is _ _ (init_rel cfg pause Hcfg) Hh). Qed.

(* ------------------------------------------------------------------ the hypotheses are satisfiable *)
Definition ex_row (cells : list (N * action)) : row := {| r_len := 8; r_default := RDConst Trans; r_cells := cells |}.
Definition ex_cfg : lcfg :=
  {| layers := [ (ex_row [(0, KeyCode 30); (1, Layer 1); (2, MultipleKeyCodes [29; 46]); (3, DefaultLayer 1)], ex_row []);
                 (ex_row [(0, KeyCode 31); (2, MultipleActions [KeyCode 5; Trans]); (3, ReleaseKey 31)], ex_row []) ];
     src_keys := {| r_len := 8; r_default := RDIdentKey; r_cells := [] |};
     trans_v2 := true; delegate_first := false; quick_tap_hold := false |}.
Definition ex_hist : list km_input :=
  [KmEvent true (0, 1); KmTick; KmEvent true (0, 0); KmTick; KmEvent false (0, 1); KmTick;
   KmEvent true (0, 2); KmTick; KmEvent false (0, 0); KmEvent false (0, 2); KmTick; KmTick;
   KmEvent true (0, 1); KmEvent true (0, 2); KmEvent true (0, 4); KmTick; KmTick; KmTick].

Example refinement_not_vacuous :
  frag_cfg ex_cfg = true /\ hist_ok ex_cfg 0 ex_hist = true /\
  km_run ex_cfg km_init ex_hist =
    [[]; []; []; [31]; [31]; [31]; [31]; [31; 29; 46]; [31; 29; 46]; [31; 29; 46]; [29; 46]; [];
     []; []; []; []; [5; 29; 46]; [5; 4]].
Proof. vm_compute. repeat split; reflexivity. Qed.

(* corollary: no Panic and no OutOfFuel outcome on the fragment *)
Lemma fragment_never_panics cfg pause is :
  frag_cfg cfg = true -> hist_ok cfg 0 is = true -> exists outs, l_run cfg (init_layout pause) is = Ok outs.
Proof. intros H1 H2. exists (km_run cfg km_init is). exact (fresh_run_refines cfg pause is H1 H2). Qed.
