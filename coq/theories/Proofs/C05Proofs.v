(* C05: the tap-hold decision function.  Lemmas about tick_wt / handle_hold_tap on the model. *)
From Coq Require Import Lia.
From KV Require Import Keyberon.Layout Proofs.LayoutBasics.

Definition no_own_release (w : waiting) (q : list queued) : Prop :=
  find (q_is_release_at (w_coord w)) q = None.

(* one tick of a waiting tap-hold: the bookkeeping part *)
Definition ticked (w : waiting) : waiting :=
  set_w_ticks (sat_add16 (w_ticks w) 1) (set_w_timeout (sat_sub (w_timeout w) 1) w).

Lemma tick_wt_holdtap w htc q aq :
  w_cfg w = WHoldTap htc ->
  tick_wt w q aq =
    Ok (fst (handle_hold_tap (ticked w) htc q), q, aq,
        option_map (fun a => (a, None)) (snd (handle_hold_tap (ticked w) htc q))).
Proof.
  intros H. unfold tick_wt. fold (ticked w).
  assert (Hc : w_cfg (ticked w) = WHoldTap htc) by exact H.
  rewrite Hc. destruct (handle_hold_tap (ticked w) htc q). reflexivity.
Qed.

(* the early triggers *)
Definition early (cfg : ht_cfg) (q : list queued) : option waction * bool :=
  match cfg with
  | HTDefault => (None, false)
  | HTHoldOnOtherKeyPress => (if existsb q_press q then Some WAHold else None, false)
  | HTPermissiveHold => (if permissive_scan q then Some WAHold else None, false)
  | HTReleaseKeys ks => (release_keys_scan ks q, false)
  | HTExceptKeys ks => except_keys_scan ks q
  end.

(* handle_hold_tap when it does look at the queue (not the fast path) *)
Lemma handle_hold_tap_slow w cfg q :
  (qlen q =? w_prev_queue_len w) && (0 <? w_timeout w) = false ->
  snd (handle_hold_tap w cfg q) =
    match fst (early cfg q) with
    | Some a => Some a
    | None =>
      match find (q_is_release_at (w_coord w)) q with
      | Some qd => if sat_sub (w_delay w) (q_since qd) <? w_timeout w then Some WATap else Some WATimeout
      | None => if (w_timeout w =? 0) && negb (snd (early cfg q)) then Some WATimeout else None
      end
    end.
Proof.
  intros Hf. unfold handle_hold_tap. rewrite Hf.
  assert (He : (match cfg with
                | HTDefault => (None, false)
                | HTHoldOnOtherKeyPress => (if existsb q_press q then Some WAHold else None, false)
                | HTPermissiveHold => (if permissive_scan q then Some WAHold else None, false)
                | HTReleaseKeys ks => (release_keys_scan ks q, false)
                | HTExceptKeys ks => except_keys_scan ks q
                end) = early cfg q) by reflexivity.
  rewrite He. destruct (early cfg q) as [e sk]. cbn [fst snd].
  destruct e as [a|]; [reflexivity|].
  cbn [w_coord set_w_prev_queue_len w_delay w_timeout].
  destruct (find (q_is_release_at (w_coord w)) q) as [qd|].
  - destruct (sat_sub (w_delay w) (q_since qd) <? w_timeout w); reflexivity.
  - destruct ((w_timeout w =? 0) && negb sk); reflexivity.
Qed.

(* the fast path never decides *)
Lemma handle_hold_tap_fast w cfg q :
  (qlen q =? w_prev_queue_len w) && (0 <? w_timeout w) = true ->
  handle_hold_tap w cfg q = (w, None).
Proof. intros Hf. unfold handle_hold_tap. rewrite Hf. reflexivity. Qed.

(* ---- with no other input: nothing before the timeout has elapsed, the timeout action exactly then ---- *)
Lemma quiet_tick_no_decision w q :
  no_own_release w q -> 1 < w_timeout w ->
  snd (handle_hold_tap (ticked w) HTDefault q) = None.
Proof.
  intros Hnr Ht. unfold ticked.
  destruct ((qlen q =? w_prev_queue_len (set_w_ticks (sat_add16 (w_ticks w) 1) (set_w_timeout (sat_sub (w_timeout w) 1) w)))
            && (0 <? w_timeout (set_w_ticks (sat_add16 (w_ticks w) 1) (set_w_timeout (sat_sub (w_timeout w) 1) w)))) eqn:Ef.
  - rewrite handle_hold_tap_fast by exact Ef. reflexivity.
  - rewrite handle_hold_tap_slow by exact Ef. cbn [early fst snd].
    cbn [w_coord set_w_ticks set_w_timeout w_timeout w_delay].
    unfold no_own_release in Hnr. rewrite Hnr.
    unfold sat_sub. destruct (N.eqb_spec (w_timeout w - 1) 0); [lia|]. reflexivity.
Qed.

Lemma quiet_tick_timeout_fires w q :
  no_own_release w q -> w_timeout w <= 1 ->
  snd (handle_hold_tap (ticked w) HTDefault q) = Some WATimeout.
Proof.
  intros Hnr Ht. unfold ticked.
  rewrite handle_hold_tap_slow.
  - cbn [early fst snd]. cbn [w_coord set_w_ticks set_w_timeout w_timeout w_delay].
    unfold no_own_release in Hnr. rewrite Hnr.
    unfold sat_sub. destruct (N.eqb_spec (w_timeout w - 1) 0); [reflexivity|lia].
  - cbn [w_timeout set_w_ticks set_w_timeout]. unfold sat_sub.
    destruct (N.ltb_spec 0 (w_timeout w - 1)); [lia|]. apply andb_false_r.
Qed.

(* n quiet ticks of the bookkeeping *)
Fixpoint quiet_ticks (n : nat) (w : waiting) (q : list queued) : waiting :=
  match n with O => w | S k => quiet_ticks k (fst (handle_hold_tap (ticked w) HTDefault q)) q end.

Lemma handle_hold_tap_fields w cfg q :
  let w' := fst (handle_hold_tap w cfg q) in
  w_timeout w' = w_timeout w /\ w_coord w' = w_coord w /\ w_delay w' = w_delay w /\ w_cfg w' = w_cfg w
  /\ w_hold w' = w_hold w /\ w_tap w' = w_tap w /\ w_timeout_ac w' = w_timeout_ac w /\ w_ticks w' = w_ticks w.
Proof.
  cbv zeta. unfold handle_hold_tap.
  destruct ((qlen q =? w_prev_queue_len w) && (0 <? w_timeout w)); [cbn [fst]; repeat split; reflexivity|].
  destruct (match cfg with
            | HTDefault => (None, false)
            | HTHoldOnOtherKeyPress => (if existsb q_press q then Some WAHold else None, false)
            | HTPermissiveHold => (if permissive_scan q then Some WAHold else None, false)
            | HTReleaseKeys ks => (release_keys_scan ks q, false)
            | HTExceptKeys ks => except_keys_scan ks q
            end) as [e sk].
  destruct e; [cbn [fst]; repeat split; reflexivity|].
  destruct (find (q_is_release_at (w_coord (set_w_prev_queue_len (qlen q) w))) q).
  - destruct (sat_sub _ _ <? _); cbn [fst]; repeat split; reflexivity.
  - destruct ((_ =? 0) && negb sk); cbn [fst]; repeat split; reflexivity.
Qed.

(* for every hold timeout H >= 1: with the key held and no other input, the first H-1 ticks decide
   nothing and the H-th tick yields the timeout (= hold) action; never earlier, never later *)
Theorem hold_exactly_at_timeout : forall (n : nat) w q,
  no_own_release w q -> w_timeout w = N.of_nat (S n) ->
  (forall k, (k < n)%nat -> snd (handle_hold_tap (ticked (quiet_ticks k w q)) HTDefault q) = None) /\
  snd (handle_hold_tap (ticked (quiet_ticks n w q)) HTDefault q) = Some WATimeout.
Proof.
  induction n as [|n IH]; intros w q Hnr Ht.
  - split; [intros k Hk; lia|]. cbn [quiet_ticks]. apply quiet_tick_timeout_fires; [exact Hnr|lia].
  - set (w1 := fst (handle_hold_tap (ticked w) HTDefault q)).
    assert (Hf := handle_hold_tap_fields (ticked w) HTDefault q). cbv zeta in Hf. fold w1 in Hf.
    destruct Hf as [Hto [Hco _]].
    assert (Hnr1 : no_own_release w1 q) by (unfold no_own_release in *; rewrite Hco; exact Hnr).
    assert (Ht1 : w_timeout w1 = N.of_nat (S n)).
    { rewrite Hto. unfold ticked. cbn [w_timeout set_w_ticks set_w_timeout]. unfold sat_sub. lia. }
    destruct (IH w1 q Hnr1 Ht1) as [IHa IHb].
    split.
    + intros k Hk. destruct k as [|k].
      * cbn [quiet_ticks]. apply quiet_tick_no_decision; [exact Hnr|lia].
      * cbn [quiet_ticks]. fold w1. apply IHa. lia.
    + cbn [quiet_ticks]. fold w1. exact IHb.
Qed.

(* release before the timeout has elapsed => tap; the decision never waits for anything else *)
Lemma release_decides w cfg q qd :
  fst (early cfg q) = None ->
  find (q_is_release_at (w_coord w)) q = Some qd ->
  (qlen q =? w_prev_queue_len w) && (0 <? w_timeout w) = false ->
  snd (handle_hold_tap w cfg q) =
    Some (if sat_sub (w_delay w) (q_since qd) <? w_timeout w then WATap else WATimeout).
Proof.
  intros He Hf Hs. rewrite handle_hold_tap_slow by exact Hs. rewrite He, Hf.
  destruct (sat_sub (w_delay w) (q_since qd) <? w_timeout w); reflexivity.
Qed.

(* documented early triggers *)
Lemma press_variant_holds_on_other_press w q :
  existsb q_press q = true ->
  (qlen q =? w_prev_queue_len w) && (0 <? w_timeout w) = false ->
  snd (handle_hold_tap w HTHoldOnOtherKeyPress q) = Some WAHold.
Proof. intros H Hs. rewrite handle_hold_tap_slow by exact Hs. cbn [early fst]. rewrite H. reflexivity. Qed.

Lemma release_variant_holds_on_press_release w q :
  permissive_scan q = true ->
  (qlen q =? w_prev_queue_len w) && (0 <? w_timeout w) = false ->
  snd (handle_hold_tap w HTPermissiveHold q) = Some WAHold.
Proof. intros H Hs. rewrite handle_hold_tap_slow by exact Hs. cbn [early fst]. rewrite H. reflexivity. Qed.

(* permissive_scan is "some press is followed later by the release of the same coordinate" *)
Lemma permissive_scan_spec q :
  permissive_scan q = true <->
  exists pre x post, q = pre ++ x :: post /\ q_press x = true /\
                     existsb (q_is_release_at (q_coord x)) post = true.
Proof.
  induction q as [|x t IH]; cbn [permissive_scan].
  - split; [discriminate|]. intros [pre [x [post [H _]]]]. destruct pre; discriminate.
  - rewrite orb_true_iff, andb_true_iff. split.
    + intros [[Hp Hr]|Hs].
      * exists [], x, t. repeat split; assumption.
      * apply IH in Hs. destruct Hs as [pre [y [post [-> [Hp Hr]]]]].
        exists (x :: pre), y, post. repeat split; assumption.
    + intros [pre [y [post [Heq [Hp Hr]]]]]. destruct pre as [|z pre].
      * cbn in Heq. inversion Heq; subst. left. split; assumption.
      * cbn in Heq. inversion Heq; subst. right. apply IH. exists pre, y, post. repeat split; assumption.
Qed.

Lemma release_keys_scan_first_listed ks pre x post :
  Forall (fun y => q_press y = false) pre -> q_press x = true -> mem_n (snd (q_coord x)) ks = true ->
  release_keys_scan ks (pre ++ x :: post) = Some WATap.
Proof.
  intros Hpre Hp Hm. induction Hpre as [|y pre' Hy _ IH]; cbn [app release_keys_scan].
  - rewrite Hp, Hm. reflexivity.
  - rewrite Hy. exact IH.
Qed.

(* listed key pressed first => tap (release-keys variant) *)
Lemma release_keys_tap_on_listed w ks q pre x post :
  q = pre ++ x :: post -> Forall (fun y => q_press y = false) pre ->
  q_press x = true -> mem_n (snd (q_coord x)) ks = true ->
  (qlen q =? w_prev_queue_len w) && (0 <? w_timeout w) = false ->
  snd (handle_hold_tap w (HTReleaseKeys ks) q) = Some WATap.
Proof.
  intros -> Hpre Hp Hm Hs. rewrite handle_hold_tap_slow by exact Hs. cbn [early fst].
  rewrite (release_keys_scan_first_listed ks pre x post Hpre Hp Hm). reflexivity.
Qed.

(* ---- exactly one: a decision consumes the pending state and performs one action ---- *)
Lemma waiting_into_hold_consumes rec l w :
  waiting_ l = Some w ->
  waiting_into_hold rec l (-1)%Z =
    (delay <- waiting_delay w ;;
     rec (set_oneshot (set_os_pause_ticks (os_pause_delay (oneshot l)) (oneshot l))
            (let l1 := set_waiting_ None l in
             if coord_eqb (w_coord w) (lpt_coord l1) then set_lpt_timeout 0 l1 else l1))
         (CDoAction (w_hold w) (w_coord w) delay false (w_layer_stack w))).
Proof.
  intros H. unfold waiting_into_hold, get_waiting. cbn [Z.ltb Z.compare]. rewrite H.
  destruct (waiting_delay w) as [d| |]; cbn [bind]; try reflexivity.
  all: unfold doact, remove_waiting; cbn [Z.ltb Z.compare];
    destruct (coord_eqb (w_coord w) (lpt_coord (set_waiting_ None l))); reflexivity.
Qed.

Lemma waiting_into_timeout_consumes rec l w :
  waiting_ l = Some w ->
  waiting_into_timeout rec l (-1)%Z =
    (delay <- waiting_delay w ;;
     rec (let l1 := set_waiting_ None l in
          if coord_eqb (w_coord w) (lpt_coord l1) then set_lpt_timeout 0 l1 else l1)
         (CDoAction (w_timeout_ac w) (w_coord w) delay false (w_layer_stack w))).
Proof.
  intros H. unfold waiting_into_timeout, get_waiting. cbn [Z.ltb Z.compare]. rewrite H.
  destruct (waiting_delay w) as [d| |]; cbn [bind]; try reflexivity.
  all: unfold doact, remove_waiting; cbn [Z.ltb Z.compare];
    destruct (coord_eqb (w_coord w) (lpt_coord (set_waiting_ None l))); reflexivity.
Qed.

(* keys pressed while the decision is pending are not dequeued: with a pending tap-hold that does
   not decide in this tick, the tick returns no event from the queue and only ages it *)
Lemma event_while_waiting_only_queues cfg l p c w :
  waiting_ l = Some w -> (length (queue l) < QUEUE_SIZE)%nat ->
  exists l', layout_event cfg l p c = Ok l' /\ states l' = states l /\ waiting_ l' = Some w /\
             queue l' = queue l ++ [mkq p c].
Proof.
  intros Hw Hq. rewrite event_enqueues by exact Hq. eexists; split; [reflexivity|].
  destruct p; cbn; repeat split; try reflexivity; exact Hw.
Qed.
