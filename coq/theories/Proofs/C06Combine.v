(* C06: one-shot keys tapped in a row combine and restart the timeout -- the OneShot arm of Layout::do_action. *)
From Coq Require Import Lia.
From KV Require Import Keyberon.Layout Proofs.LayoutBasics.

(* what do_action does to the layout before it looks at the action *)
Definition before_action (l : layout) (c : coord) : layout :=
  let l := if coord_eqb (lpt_coord l) c then l else set_lpt_timeout 0 l in
  set_states (filter (fun s => negb (st_clear_on_next_action s)) (states l)) l.

Lemma os_press_key_keeps_keys o c : os_keys (fst (os_handle_press o (OSKey c))) = os_keys o.
Proof.
  unfold os_handle_press. destruct (os_keys o) as [|c0 l0] eqn:E; [cbn [fst]; exact E|].
  destruct (0 <? os_ignore_ticks o); [cbn [fst]; exact E|].
  destruct (is_repress_cfg (os_end_config o) && mem_coord c (c0 :: l0)); cbn [fst os_keys set_os_released set_os_release_next]; exact E.
Qed.

Lemma os_press_key_keeps_other o c : os_other (fst (os_handle_press o (OSKey c))) = os_other o.
Proof.
  unfold os_handle_press. destruct (os_keys o) as [|c0 l0]; [reflexivity|].
  destruct (0 <? os_ignore_ticks o); [reflexivity|].
  destruct (is_repress_cfg (os_end_config o) && mem_coord c (c0 :: l0)); reflexivity.
Qed.

(* activating a one-shot key while others are active: its inner action is performed, the key joins the active one-shot keys
   (room for 16), the timeout restarts at the configured value and the end condition is the one of the new key *)
Theorem oneshot_keys_combine_and_restart cfg rec l inner timeout e c d os ls l2 cu :
  doact rec (lpt_update_coord c (before_action l c)) inner c d true [] = Ok (l2, cu) ->
  (length (os_keys (oneshot l2)) < ONE_SHOT_MAX_ACTIVE)%nat ->
  exists l', do_action_body cfg rec l (OneShot inner timeout e) c d os ls = Ok (l', cu) /\
             os_keys (oneshot l') = os_keys (oneshot l2) ++ [c] /\
             os_timeout (oneshot l') = timeout /\ os_end_config (oneshot l') = e /\ states l' = states l2 /\
             os_other (oneshot l') = os_other (oneshot l2).
Proof.
  intros Hin Hroom. unfold do_action_body. cbn [bind]. fold (before_action l c). rewrite Hin. cbn [bind].
  set (l3 := fst (os_press_l (OSKey c) (set_rpt (OneShot inner timeout e) l2))).
  assert (K3 : os_keys (oneshot l3) = os_keys (oneshot l2)).
  { unfold l3, os_press_l. destruct (os_handle_press (oneshot (set_rpt (OneShot inner timeout e) l2)) (OSKey c)) as [o cs] eqn:Eo.
    cbn [fst oneshot set_oneshot]. pose proof (os_press_key_keeps_keys (oneshot (set_rpt (OneShot inner timeout e) l2)) c) as H.
    rewrite Eo in H. cbn [fst] in H. rewrite H. unfold set_rpt. destruct (match OneShot inner timeout e with _ => _ end); reflexivity. }
  assert (S3 : states l3 = states l2).
  { unfold l3, os_press_l. destruct (os_handle_press _ _) as [o cs]. cbn [fst states set_oneshot]. unfold set_rpt.
    destruct (match OneShot inner timeout e with _ => _ end); reflexivity. }
  assert (O3 : os_other (oneshot l3) = os_other (oneshot l2)).
  { unfold l3, os_press_l. destruct (os_handle_press (oneshot (set_rpt (OneShot inner timeout e) l2)) (OSKey c)) as [o cs] eqn:Eo.
    cbn [fst oneshot set_oneshot]. pose proof (os_press_key_keeps_other (oneshot (set_rpt (OneShot inner timeout e) l2)) c) as H.
    rewrite Eo in H. cbn [fst] in H. rewrite H. unfold set_rpt. destruct (match OneShot inner timeout e with _ => _ end); reflexivity. }
  cbn [os_keys set_os_end_config set_os_timeout]. rewrite K3.
  unfold wdeque_push_back. destruct (Nat.ltb_spec (length (os_keys (oneshot l2))) ONE_SHOT_MAX_ACTIVE) as [_|Hc]; [|lia].
  eexists. split; [reflexivity|]. cbn [oneshot set_oneshot os_keys os_other set_os_keys os_timeout os_end_config set_os_end_config set_os_timeout states].
  rewrite S3, O3. auto.
Qed.

(* not vacuous: through the real recursive knot (`exec` with its fuel), lsft as one-shot is already active with 7 ms left when a
   one-shot lctl (500 ms) is tapped on another position: both are active, the timeout is 500 again *)
Example combine_example :
  let cfg := {| layers := []; src_keys := {| r_len := 8; r_default := RDIdentKey; r_cells := [] |};
                trans_v2 := true; delegate_first := false; quick_tap_hold := false |} in
  let l := set_oneshot {| os_keys := [(0, 1)]; os_released := [(0, 1)]; os_other := []; os_timeout := 7; os_end_config := EndOnFirstPress;
                          os_release_next := false; os_pause_delay := 0; os_pause_ticks := 0; os_ignore_ticks := 0 |}
                       (set_states [NormalKey 42 (0, 1) 0] (init_layout 0)) in
  exists l2 cu l',
    doact (exec cfg FUEL) (lpt_update_coord (0, 2) (before_action l (0, 2))) (KeyCode 29) (0, 2) 0 true [] = Ok (l2, cu) /\
    (length (os_keys (oneshot l2)) < ONE_SHOT_MAX_ACTIVE)%nat /\
    do_action_body cfg (exec cfg FUEL) l (OneShot (KeyCode 29) 500 EndOnFirstPress) (0, 2) 0 false [] = Ok (l', cu) /\
    os_keys (oneshot l') = [(0, 1); (0, 2)] /\ os_timeout (oneshot l') = 500.
Proof. cbv zeta. eexists _, _, _. split; [vm_compute; reflexivity|]. split; [vm_compute; lia|]. split; [vm_compute; reflexivity|]. split; reflexivity. Qed.
