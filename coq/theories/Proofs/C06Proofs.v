(* C06: one-shot state machine lemmas (OneShotState::tick_osh / handle_press / handle_release). *)
From Coq Require Import Lia.
From KV Require Import Keyberon.Layout Proofs.LayoutBasics.

Definition os_active (o : oneshot_state) : Prop := os_keys o <> [].

(* while active and neither expired nor told to release: one tick only counts down *)
Lemma os_tick_counts o :
  os_active o -> os_release_next o = false -> 1 < os_timeout o ->
  os_tick o = (set_os_timeout (os_timeout o - 1) (set_os_ignore_ticks (os_ignore_ticks o - 1) o), None).
Proof.
  intros Ha Hr Ht. unfold os_tick, os_active in *. destruct (os_keys o) eqn:Ek; [congruence|].
  cbn [os_release_next os_timeout set_os_timeout set_os_ignore_ticks]. rewrite Hr. unfold sat_sub.
  destruct (N.eqb_spec (os_timeout o - 1) 0); [lia|]. reflexivity.
Qed.

(* expiry or requested release: every one-shot key is let go, the state is inactive again *)
Lemma os_tick_ends o :
  os_active o -> (os_release_next o = true \/ os_timeout o <= 1) ->
  exists o', os_tick o = (o', Some (os_released o)) /\ os_keys o' = [] /\ os_released o' = [] /\
             os_other o' = [] /\ os_timeout o' = 0 /\ os_release_next o' = false /\ os_pause_ticks o' = 0.
Proof.
  intros Ha Hc. unfold os_tick, os_active in *. destruct (os_keys o) eqn:Ek; [congruence|].
  cbn [os_release_next os_timeout set_os_timeout set_os_ignore_ticks os_released os_end_config os_pause_delay].
  assert (H : os_release_next o || (sat_sub (os_timeout o) 1 =? 0) = true).
  { destruct Hc as [->|Hc]; [reflexivity|]. apply orb_true_iff. right. apply N.eqb_eq. unfold sat_sub. lia. }
  rewrite H. eexists. split; [reflexivity|]. cbn. repeat split; reflexivity.
Qed.

Lemma os_tick_inactive o : os_keys o = [] -> os_tick o = (o, None).
Proof. intros H. unfold os_tick. rewrite H. reflexivity. Qed.

(* n quiet ticks *)
Fixpoint os_ticks (n : nat) (o : oneshot_state) : oneshot_state :=
  match n with O => o | S k => os_ticks k (fst (os_tick o)) end.

(* for EVERY timeout T = n+1: with no further input an active one-shot stays active for exactly
   T-1 ticks and is released at tick T *)
Theorem oneshot_expires_exactly_at_timeout : forall (n : nat) o,
  os_active o -> os_release_next o = false -> os_timeout o = N.of_nat (S n) ->
  (forall k, (k < n)%nat -> snd (os_tick (os_ticks k o)) = None /\ os_keys (os_ticks (S k) o) = os_keys o) /\
  snd (os_tick (os_ticks n o)) = Some (os_released o) /\ os_keys (os_ticks (S n) o) = [].
Proof.
  induction n as [|n IH]; intros o Ha Hr Ht.
  - split; [intros k Hk; lia|]. cbn [os_ticks].
    destruct (os_tick_ends o Ha) as [o' [He [Hk _]]]; [right; lia|]. rewrite He. cbn [fst snd]. split; [reflexivity|exact Hk].
  - assert (H1 := os_tick_counts o Ha Hr ltac:(lia)).
    set (o1 := set_os_timeout (os_timeout o - 1) (set_os_ignore_ticks (os_ignore_ticks o - 1) o)) in *.
    assert (Ha1 : os_active o1) by exact Ha.
    assert (Hr1 : os_release_next o1 = false) by exact Hr.
    assert (Ht1 : os_timeout o1 = N.of_nat (S n)) by (unfold o1; cbn [os_timeout set_os_timeout]; lia).
    destruct (IH o1 Ha1 Hr1 Ht1) as [IHa [IHb IHc]].
    split; [|split].
    + intros k Hk. destruct k as [|k].
      * cbn [os_ticks]. rewrite H1. cbn [fst snd]. split; reflexivity.
      * cbn [os_ticks] in *. rewrite H1. cbn [fst]. destruct (IHa k ltac:(lia)) as [A B]. split; [exact A|exact B].
    + cbn [os_ticks]. rewrite H1. cbn [fst]. exact IHb.
    + cbn [os_ticks] in *. rewrite H1. cbn [fst]. exact IHc.
Qed.

(* press variants: the first following non-one-shot press caps the remaining time at the
   rapid-event delay, so the one-shot ends within that delay *)
Lemma os_press_variant_other_press o c :
  os_active o -> os_ignore_ticks o = 0 -> is_press_cfg (os_end_config o) = true ->
  os_handle_press o (OSOther c) =
    (set_os_pause_ticks (os_pause_delay o) (set_os_timeout (N.min (os_pause_delay o) (os_timeout o)) o), os_keys o).
Proof.
  intros Ha Hi Hc. unfold os_handle_press, os_active in *. destruct (os_keys o) eqn:Ek; [congruence|].
  rewrite Hi. cbn [N.ltb N.compare]. rewrite Hc. reflexivity.
Qed.

(* release variants: a following key only registers as pressed; its release ends the one-shot *)
Lemma os_release_variant_other_press o c :
  os_active o -> os_ignore_ticks o = 0 -> is_press_cfg (os_end_config o) = false ->
  os_handle_press o (OSOther c) =
    (set_os_other (fst (wdeque_push_back ONE_SHOT_MAX_ACTIVE c (os_other o))) o, os_keys o).
Proof.
  intros Ha Hi Hc. unfold os_handle_press, os_active in *. destruct (os_keys o) eqn:Ek; [congruence|].
  rewrite Hi. cbn [N.ltb N.compare]. rewrite Hc. reflexivity.
Qed.

Lemma os_release_variant_other_release o c :
  os_active o -> mem_coord c (os_keys o) = false ->
  is_release_cfg (os_end_config o) = true -> mem_coord c (os_other o) = true ->
  os_handle_release o c = (set_os_release_next true o, true, None).
Proof.
  intros Ha Hk Hc Ho. unfold os_handle_release, os_active in *.
  destruct (os_keys o) as [|k0 ks] eqn:Ek; [congruence|].
  rewrite Hk, Hc, Ho. reflexivity.
Qed.

(* the release of a one-shot key itself is deferred while the one-shot is active *)
Lemma os_own_release_deferred o c :
  mem_coord c (os_keys o) = true -> (length (os_released o) < ONE_SHOT_MAX_ACTIVE)%nat ->
  os_handle_release o c = (set_os_released (os_released o ++ [c]) o, false, None).
Proof.
  intros Hk Hl. unfold os_handle_release. destruct (os_keys o) as [|k0 ks] eqn:Ek; [discriminate|].
  rewrite Hk. cbn [negb]. rewrite wdeque_push_back_room by exact Hl. reflexivity.
Qed.

(* pcancel variants end on re-press of an active one-shot key *)
Lemma os_pcancel_repress o c :
  os_active o -> os_ignore_ticks o = 0 -> is_repress_cfg (os_end_config o) = true ->
  mem_coord c (os_keys o) = true ->
  fst (os_handle_press o (OSKey c)) =
    set_os_released (filter (fun c' => negb (coord_eqb c' c)) (os_released o)) (set_os_release_next true o) /\
  snd (os_handle_press o (OSKey c)) = os_keys o.
Proof.
  intros Ha Hi Hc Hm. unfold os_handle_press, os_active in *.
  destruct (os_keys o) as [|k0 ks] eqn:Ek; [congruence|].
  rewrite Hi. cbn [N.ltb N.compare]. rewrite Hc, Hm. cbn [andb fst snd]. split; reflexivity.
Qed.

(* an inactive one-shot state affects nothing *)
Lemma os_inactive_press o k : os_keys o = [] -> os_handle_press o k = (o, []).
Proof. intros H. unfold os_handle_press. rewrite H. reflexivity. Qed.
Lemma os_inactive_release o c : os_keys o = [] -> os_handle_release o c = (o, true, None).
Proof. intros H. unfold os_handle_release. rewrite H. reflexivity. Qed.
