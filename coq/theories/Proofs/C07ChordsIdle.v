(* C07, chords v2: an idle chord machine (nothing queued, nothing active) stays idle through a tick and hands nothing to the
   layout; the first lines of Layout::tick (chv2_pre) then change nothing but the chord machine's own countdowns. *)
From Coq Require Import Lia.
From KV Require Import Kanata.Glue Proofs.LayoutBasics Proofs.C07Proofs.

Lemma idle_chords_tick ch layer :
  chv2_is_idle ch = true ->
  exists ch', tick_chv2 ch layer = Ok (ch', []) /\ chv2_is_idle ch' = true /\ cv_chords ch' = cv_chords ch.
Proof.
  unfold chv2_is_idle. destruct ch as [chords q act ign cign until pl pq nc]. cbn [cv_queue cv_active].
  destruct q; [|discriminate]. destruct act; [|discriminate]. intros _.
  unfold tick_chv2, drain_inputs, process_presses, set_cv_queue, set_cv_active, set_cv_until, set_cv_ignore.
  cbn [cv_queue cv_active cv_ignore cv_until_change cv_prev_layer cv_prev_qlen cv_chords cv_cfg_ignore cv_next_coord map length fold_left].
  destruct (0 <? ign) eqn:Ei.
  - cbn. eexists. split; [reflexivity|]. split; reflexivity.
  - destruct ((0 <? until) && (pl =? layer) && (pq =? N.of_nat 0)) eqn:Eu.
    + cbn. eexists. split; [reflexivity|]. split; reflexivity.
    + cbn. eexists. split; [reflexivity|]. split; reflexivity.
Qed.

Lemma idle_chords_pre l ch :
  chords2 l = Some ch -> chv2_is_idle ch = true ->
  exists ch', chv2_pre l = Ok (set_chords2 (Some ch') l) /\ chv2_is_idle ch' = true.
Proof.
  intros Hc Hi. unfold chv2_pre. rewrite Hc.
  destruct (idle_chords_tick ch (current_layer l) Hi) as (ch1 & E & I1 & _). rewrite E. cbn [bind].
  assert (Eq : wdeque_extend QUEUE_SIZE [] (queue l) = queue l) by reflexivity. rewrite Eq, set_queue_id.
  unfold get_action_chv2.
  assert (A1 : cv_active ch1 = []).
  { unfold chv2_is_idle in I1. destruct (cv_queue ch1); [|discriminate]. destruct (cv_active ch1); [reflexivity|discriminate]. }
  rewrite A1. cbn [get_action_go].
  exists (set_cv_active [] ch1). split; [reflexivity|].
  unfold chv2_is_idle in *. cbn [cv_queue cv_active set_cv_active]. destruct (cv_queue ch1); [reflexivity|discriminate].
Qed.
