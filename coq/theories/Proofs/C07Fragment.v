(* C07 on the fragment of C04, at the kanata level: while nothing is pending, milliseconds emit nothing and leave the
   instance related to the same keymap state, so running them or skipping them (blocking) is unobservable: whatever
   input follows produces the same OS events. *)
From Coq Require Import Lia.
From KV Require Import Spec.Keymap Kanata.Glue Proofs.LayoutBasics Proofs.C07Proofs Proofs.C04Refine Proofs.C04Kanata.

Lemma press_new_all_held cfg prev : forall todo, (forall x, In x todo -> mem_n x prev = true) -> press_new cfg prev todo = [].
Proof.
  induction todo as [|kc r IH]; intros H; [reflexivity|]. cbn [press_new].
  rewrite (H kc (or_introl eq_refl)). apply IH. intros x Hx. apply H. right. exact Hx.
Qed.

Lemma mem_n_in x l : In x l -> mem_n x l = true.
Proof. intros H. unfold mem_n. apply existsb_exists. exists x. split; [exact H|apply N.eqb_refl]. Qed.

Lemma os_diff_same cfg cur : os_diff cfg cur cur = [].
Proof.
  unfold os_diff.
  assert (E : filter (fun x => negb (mem_n x cur)) cur = []).
  { assert (G : forall l, (forall x, In x l -> In x cur) -> filter (fun x => negb (mem_n x cur)) l = []).
    { induction l as [|y t IH]; intros Hl; [reflexivity|]. cbn [filter].
      rewrite (mem_n_in y cur (Hl y (or_introl eq_refl))). cbn [negb]. apply IH. intros x Hx. apply Hl. right. exact Hx. }
    apply G. auto. }
  rewrite E. cbn [flat_map app]. apply press_new_all_held. intros x Hx. apply mem_n_in. exact Hx.
Qed.

(* the keymap model: ticks with nothing pending change nothing and tell the OS nothing *)
Lemma km_os_run_idle_ticks cfg m is : km_pending m = [] ->
  forall n, km_os_run cfg m (km_keys (held (km_st m))) (repeat KmTick n ++ is) =
            repeat [] n ++ km_os_run cfg m (km_keys (held (km_st m))) is.
Proof.
  intros Hp. induction n as [|n IH]; [reflexivity|].
  cbn [repeat app km_os_run]. cbn [km_step]. rewrite Hp. rewrite os_diff_same. rewrite IH. reflexivity.
Qed.

Lemma hist_ok_idle_ticks cfg is : forall n, hist_ok cfg 0 (repeat KmTick n ++ is) = hist_ok cfg 0 is.
Proof. induction n as [|n IH]; [reflexivity|]. cbn [repeat app hist_ok Nat.pred]. exact IH. Qed.
Lemma physical_idle_ticks is : forall n, physical (repeat KmTick n ++ is) = physical is.
Proof. induction n as [|n IH]; [reflexivity|]. cbn [repeat app physical forallb andb]. exact IH. Qed.

(* running n idle milliseconds first, or not running them at all, gives the same OS events for every continuation *)
Theorem idle_ticks_unobservable cfg k m n is :
  kfrag cfg -> KSys cfg k m -> km_pending m = [] -> k_prev_keys k = km_keys (held (km_st m)) ->
  hist_ok (kc_layout cfg) 0 is = true -> physical is = true ->
  exists outs, k_run cfg k is = Ok outs /\ k_run cfg k (repeat KmTick n ++ is) = Ok (repeat [] n ++ outs).
Proof.
  intros Hk HS Hp Hprev Hh Hph.
  exists (km_os_run cfg m (k_prev_keys k) is). split.
  - apply (k_run_refines cfg Hk is k m HS); [rewrite Hp; exact Hh|exact Hph].
  - rewrite (k_run_refines cfg Hk (repeat KmTick n ++ is) k m HS).
    + rewrite Hprev. rewrite (km_os_run_idle_ticks cfg m is Hp n). reflexivity.
    + rewrite Hp. cbn [length]. rewrite hist_ok_idle_ticks. exact Hh.
    + rewrite physical_idle_ticks. exact Hph.
Qed.

(* the premise is what the model's idle predicate provides on the fragment: nothing queued *)
Lemma idle_means_nothing_pending cfg k m : KSys cfg k m -> k_is_idle k = true -> km_pending m = [].
Proof.
  intros HS Hi. destruct (is_idle_layout_conjuncts k Hi) as [Hq _].
  rewrite <- (ks_pending _ _ _ HS), Hq. reflexivity.
Qed.
