(* C07 at the kanata level, for every configuration without defoverrides and the whole action grammar: in a state where
   nothing is pending -- the conjuncts Kanata::is_idle reads, in the form reachable after a millisecond in which nothing
   happened (the OS key list is up to date) -- one millisecond (tick_ms(1)) emits nothing and leads to such a state again,
   with the layout only aged.  Hence any number of milliseconds slept through while the loop is blocked are unobservable. *)
From Coq Require Import Lia.
From KV Require Import Kanata.Glue Proofs.LayoutBasics Proofs.C07Proofs Proofs.C04Refine Proofs.C04Kanata Proofs.C07ChordsIdle.

Record IdleK (k : kstate) : Prop := {
  ik_quiet : quiet (k_layout k);
  ik_ch2 : match chords2 (k_layout k) with None => True | Some ch => chv2_is_idle ch = true end;
  ik_scroll : k_scroll k = None; ik_hscroll : k_hscroll k = None;
  ik_mmv : k_mmv k = None; ik_mmh : k_mmh k = None;
  ik_seq : sq_active (k_seq k) = false;
  ik_replay : k_replay k = None;
  ik_caps : k_caps_word k = None;
  ik_wfi : k_waiting_for_idle k = [];
  ik_vk : k_vkeys_pending k = [];
  ik_unmod : k_unmodded_keys k = [];
  ik_unsh : k_unshifted_keys k = [];
  ik_cancel : k_macro_cancel_dur k = 0;
  ik_prev : k_prev_keys k = keycodes (k_layout k) }.

Lemma keycodes_aged l : keycodes (aged l) = keycodes l.
Proof. reflexivity. Qed.

(* the layout after the chord machine's part of a tick (only its own countdowns move when it is idle) *)
Definition chv2_ticked (l : layout) : layout := match chv2_pre l with Ok l1 => l1 | _ => l end.
Definition idle_aged (l : layout) : layout := aged (chv2_ticked l).
Fixpoint idle_aged_n (n : nat) (l : layout) : layout := match n with O => l | S m => idle_aged_n m (idle_aged l) end.

Lemma quiet_set_chords2 x l : quiet l -> quiet (set_chords2 x l).
Proof. intros [H1 H2 H3 H4 H5 H6 H7 H8 H9 H10]. constructor; assumption. Qed.

Lemma idle_pre l :
  quiet l -> match chords2 l with None => True | Some ch => chv2_is_idle ch = true end ->
  chv2_pre l = Ok (chv2_ticked l) /\ quiet (chv2_ticked l) /\ keycodes (chv2_ticked l) = keycodes l /\
  match chords2 (chv2_ticked l) with None => True | Some ch => chv2_is_idle ch = true end.
Proof.
  intros Hq Hc. unfold chv2_ticked. destruct (chords2 l) as [ch|] eqn:E.
  - destruct (idle_chords_pre l ch E Hc) as (ch' & Ep & Hi). rewrite Ep.
    split; [reflexivity|]. split; [apply quiet_set_chords2; exact Hq|]. split; [reflexivity|]. cbn. exact Hi.
  - rewrite (chv2_pre_none l E). split; [reflexivity|]. split; [exact Hq|]. split; [reflexivity|]. rewrite E. exact I.
Qed.

Lemma mem_n_refl_in x l : In x l -> mem_n x l = true.
Proof. intros H. unfold mem_n. apply existsb_exists. exists x. split; [exact H|apply N.eqb_refl]. Qed.

Lemma nothing_to_release l : filter (fun x => negb (mem_n x l)) l = [].
Proof.
  assert (G : forall m, (forall x, In x m -> In x l) -> filter (fun x => negb (mem_n x l)) m = []).
  { induction m as [|y t IH]; intros H; [reflexivity|]. cbn [filter].
    rewrite (mem_n_refl_in y l (H y (or_introl eq_refl))). cbn [negb]. apply IH. intros x Hx. apply H. right. exact Hx. }
  apply G. auto.
Qed.

Lemma nothing_to_press cfg : forall todo prev, (forall x, In x todo -> mem_n x prev = true) -> press_new cfg prev todo = [].
Proof.
  induction todo as [|y t IH]; intros prev H; [reflexivity|]. cbn [press_new].
  rewrite (H y (or_introl eq_refl)). apply IH. intros x Hx. apply H. right. exact Hx.
Qed.

Theorem idle_tick_is_silent cfg k :
  kc_overrides cfg = [] -> kc_seq_always_on cfg = false -> IdleK k ->
  exists k', k_tick cfg k = Ok (k', []) /\ IdleK k' /\ k_layout k' = idle_aged (k_layout k) /\ k_prev_keys k' = k_prev_keys k /\
             k_seq k' = k_seq k /\ k_ticks_since_idle k' = k_ticks_since_idle k /\ k_record k' = tick_record (k_record k).
Proof.
  intros Hov Hao [Hq Hch Hsc Hhs Hmv Hmh Hseq Hrp Hcw Hwfi Hvk Hum Hus Hcd Hprev].
  destruct (idle_pre (k_layout k) Hq Hch) as (Hpre & Hq1 & Hk1 & Hch1).
  set (l1 := chv2_ticked (k_layout k)) in *.
  set (l' := aged l1).
  assert (EL : layout_tick (kc_layout cfg) l1 = Ok (l', CNone)) by (apply quiet_tick_is_noop; exact Hq1).
  assert (EH : exists k1, handle_keystate_changes cfg k = Ok (k1, k_prev_keys k, []) /\
                          k_layout k1 = l' /\ k_seq k1 = k_seq k /\ k_scroll k1 = None /\ k_hscroll k1 = None /\ k_mmv k1 = None /\
                          k_mmh k1 = None /\ k_mm_buffer k1 = k_mm_buffer k /\ k_replay k1 = None /\ k_caps_word k1 = None /\
                          k_waiting_for_idle k1 = [] /\ k_vkeys_pending k1 = [] /\ k_unmodded_keys k1 = [] /\
                          k_unshifted_keys k1 = [] /\ k_macro_cancel_dur k1 = 0 /\ k_ticks_since_idle k1 = k_ticks_since_idle k /\
                          k_record k1 = k_record k).
  { unfold handle_keystate_changes, layout_tick2.
    rewrite Hpre. cbn [bind]. rewrite EL. cbn [bind].
    rewrite Hum, Hus, Hov. cbn [override_keys]. rewrite mark_overridden_nil, set_states_id.
    assert (Eset : (if kc_override_release_on_activation cfg
                    then set_states (filter (fun s0 => match s0 with
                                                       | NormalKey kc _ _ | FakeKey kc => negb (mem_n kc (filter (fun x => negb (is_modifier x)) []))
                                                       | _ => true end) (states l')) l' else l') = l').
    { destruct (kc_override_release_on_activation cfg); [|reflexivity].
      assert (F : filter (fun s0 => match s0 with
                                    | NormalKey kc _ _ | FakeKey kc => negb (mem_n kc (filter (fun x => negb (is_modifier x)) []))
                                    | _ => true end) (states l') = states l').
      { apply filter_all_true. intros x. destruct x; reflexivity. }
      rewrite F. apply set_states_id. }
    rewrite Eset. rewrite Hcw.
    assert (Ecur : keycodes l' = k_prev_keys k) by (unfold l'; rewrite keycodes_aged, Hk1; symmetry; exact Hprev).
    rewrite Ecur.
    set (cur := k_prev_keys k).
    cbv beta iota zeta.
    assert (Erel : flat_map (release_key cfg) (filter (fun x => negb (mem_n x cur)) cur) = []).
    { rewrite nothing_to_release. reflexivity. }
    rewrite Erel.
    match goal with |- exists k1, bind ?M _ = _ /\ _ => assert (Eov : M = Ok (k, l', [])) end.
    { rewrite Hseq. destruct cur; reflexivity. }
    rewrite Eov. cbn [bind].
    destruct (press_loop_plain cfg cur k l' cur [] Hao Hseq)
      as [k1 [EP [P1 [P2 [P3 [P4 [P5 [P6 [P7 [P8 [P9 [P10 [P11 [P12 [P13 [P14 [P15 P16]]]]]]]]]]]]]]]]].
    rewrite EP. cbn [bind app].
    rewrite (nothing_to_press cfg cur (k_prev_keys k)) by (intros x Hx; apply mem_n_refl_in; exact Hx).
    exists (set_k_layout l' k1). split; [reflexivity|].
    cbn [k_layout set_k_layout k_seq k_scroll k_hscroll k_mmv k_mmh k_mm_buffer k_replay k_caps_word k_waiting_for_idle
         k_vkeys_pending k_unmodded_keys k_unshifted_keys k_macro_cancel_dur k_ticks_since_idle k_record].
    repeat split; congruence. }
  destruct EH as [k1 [EH [H1 [H2 [H3 [H4 [H5 [H6 [H7 [H8 [H9 [H10 [H11 [H12 [H13 [H14 [H15 H16]]]]]]]]]]]]]]]]].
  exists (set_k_vkeys_pending [] (set_k_layout l' (set_k_prev_keys (k_prev_keys k)
            (set_k_record (tick_record (k_record k1))
              (set_k_macro_cancel_dur 0
                (set_k_waiting_for_idle [] (set_k_layout l'
                  (set_k_mm_buffer (k_mm_buffer k1) (set_k_mmh None (set_k_mmv None (set_k_hscroll None (set_k_scroll None k1)))))))))))).
  split.
  - unfold k_tick, tick_states. rewrite EH. cbn [bind]. rewrite H3, H4. cbn [scroll_tick bind].
    cbn [k_mmv k_mmh k_mm_buffer set_k_hscroll set_k_scroll]. rewrite H5, H6. cbn [mm_tick bind].
    cbn [k_seq set_k_mm_buffer set_k_mmh set_k_mmv set_k_hscroll set_k_scroll]. rewrite H2, Hseq. cbn [bind].
    cbn [k_layout k_ticks_since_idle k_waiting_for_idle set_k_mm_buffer set_k_mmh set_k_mmv set_k_hscroll set_k_scroll].
    rewrite H10, H1. cbn [idle_fire bind].
    cbn [k_macro_cancel_dur set_k_waiting_for_idle set_k_layout set_k_mm_buffer set_k_mmh set_k_mmv set_k_hscroll set_k_scroll].
    rewrite H14. change (sat_sub 0 1) with 0.
    cbn [k_vkeys_pending k_layout k_record set_k_prev_keys set_k_record set_k_macro_cancel_dur set_k_waiting_for_idle set_k_layout
         set_k_mm_buffer set_k_mmh set_k_mmv set_k_hscroll set_k_scroll].
    rewrite H11. cbn [held_vkeys_tick bind].
    match goal with |- context [tick_replay (k_replay ?kk) _] => change (k_replay kk) with (k_replay k1) end.
    rewrite H8. cbn [tick_replay].
    assert (Ek : forall kk : kstate, k_replay kk = None -> set_k_replay None kk = kk) by (intros [] E; cbn in *; subst; reflexivity).
    rewrite Ek by (cbn; exact H8).
    rewrite !app_nil_r. reflexivity.
  - cbn [k_layout k_scroll k_hscroll k_mmv k_mmh k_seq k_replay k_caps_word k_waiting_for_idle k_vkeys_pending k_prev_keys
            k_unmodded_keys k_unshifted_keys k_macro_cancel_dur k_ticks_since_idle k_record set_k_vkeys_pending set_k_layout set_k_prev_keys
            set_k_record set_k_macro_cancel_dur set_k_waiting_for_idle set_k_mm_buffer set_k_mmh set_k_mmv
            set_k_hscroll set_k_scroll].
    split; [|split; [reflexivity|split; [reflexivity|split; [exact H2|split; [exact H15|rewrite H16; reflexivity]]]]].
    constructor; cbn [k_layout k_scroll k_hscroll k_mmv k_mmh k_seq k_replay k_caps_word k_waiting_for_idle k_vkeys_pending k_prev_keys
                       k_unmodded_keys k_unshifted_keys k_macro_cancel_dur set_k_vkeys_pending set_k_layout set_k_prev_keys
                       set_k_record set_k_macro_cancel_dur set_k_waiting_for_idle set_k_mm_buffer set_k_mmh set_k_mmv
                       set_k_hscroll set_k_scroll]; try reflexivity; try assumption.
    all: try (apply aged_quiet; exact Hq1); try (rewrite H2; exact Hseq); try (unfold l'; rewrite keycodes_aged, Hk1; exact Hprev);
      try exact Hch1.
Qed.

(* any number of milliseconds *)
Fixpoint k_ticks (cfg : kcfg) (n : nat) (k : kstate) : outcome (kstate * list os_ev) :=
  match n with
  | O => Ok (k, [])
  | S m => '(k1, o1) <- k_tick cfg k ;; '(k2, o2) <- k_ticks cfg m k1 ;; Ok (k2, o1 ++ o2)
  end.

Theorem idle_ticks_are_silent cfg : kc_overrides cfg = [] -> kc_seq_always_on cfg = false ->
  forall n k, IdleK k ->
  exists k', k_ticks cfg n k = Ok (k', []) /\ IdleK k' /\ k_layout k' = idle_aged_n n (k_layout k) /\ k_prev_keys k' = k_prev_keys k /\
             k_seq k' = k_seq k /\ k_ticks_since_idle k' = k_ticks_since_idle k.
Proof.
  intros Hov Hao. induction n as [|n IH]; intros k Hi.
  - exists k. cbn [k_ticks idle_aged_n]. split; [reflexivity|]. split; [exact Hi|]. repeat split; reflexivity.
  - destruct (idle_tick_is_silent cfg k Hov Hao Hi) as (k1 & E1 & I1 & L1 & P1 & S1 & T1 & _).
    destruct (IH k1 I1) as (k2 & E2 & I2 & L2 & P2 & S2 & T2).
    exists k2. cbn [k_ticks idle_aged_n]. rewrite E1. cbn [bind]. rewrite E2. cbn [bind app].
    split; [reflexivity|]. split; [exact I2|]. rewrite L2, L1, P2, P1, S2, S1, T2, T1. repeat split; reflexivity.
Qed.

(* the model's idle predicate holds in such states, and the loop may block in them (no reload request pending, the
   key-timing window of `switch` passed) *)
Theorem idlek_is_idle k : IdleK k -> k_live_reload_requested k = false -> k_is_idle k = true.
Proof.
  intros [[Hqq Hw He Hl Ho Hp Hs Ht Ha Hst] Hch Hsc Hhs Hmv Hmh Hseq Hrp Hcw Hwfi Hvk Hum Hus Hcd Hprev] Hlr.
  assert (Hc2 : (match chords2 (k_layout k) with Some ch => chv2_is_idle ch | None => true end) = true).
  { destruct (chords2 (k_layout k)); [exact Hch|reflexivity]. }
  unfold k_is_idle. rewrite Hqq, Hw, He, Hl, Ho, Hp, Hs, Ht, Ha, Hseq, Hsc, Hhs, Hmv, Hmh, Hrp, Hcw, Hvk, Hcd, Hc2, Hwfi, Hlr.
  cbn [negb orb andb N.eqb].
  assert (F1 : forallb (fun pk => mem_n pk (keycodes (k_layout k))) (k_prev_keys k) = true).
  { rewrite Hprev. apply forallb_forall. intros x Hx. apply mem_n_refl_in. exact Hx. }
  rewrite F1. cbn [andb].
  assert (F2 : existsb (fun s => match s with
                                 | SeqCustomPending _ | SeqCustomActive _ => true
                                 | NormalKey _ _ _ => false
                                 | _ => false end) (states (k_layout k)) = false).
  { apply Bool.not_true_is_false. intros Hx. apply existsb_exists in Hx. destruct Hx as [s [Hin Hs']].
    rewrite forallb_forall in Hst. specialize (Hst s Hin). destruct s; cbn in *; discriminate. }
  rewrite F2. reflexivity.
Qed.

(* not vacuous: a state with two keys and a layer held (and known to the OS), everything else at rest *)
Definition ex_idle : kstate :=
  set_k_prev_keys [42; 30]
    (k_init (set_states [NormalKey 42 (0, 1) 0; LayerModifier 1 (0, 3); NormalKey 30 (0, 0) 0] (init_layout 0))).
Example idlek_example : IdleK ex_idle /\ k_live_reload_requested ex_idle = false /\ keycodes (k_layout ex_idle) = [42; 30].
Proof. split; [constructor; try reflexivity; try exact I; constructor; reflexivity|]. split; reflexivity. Qed.

Lemma idle_aged_without_chords l : chords2 l = None -> idle_aged l = aged l.
Proof. intros H. unfold idle_aged, chv2_ticked. rewrite (chv2_pre_none l H). reflexivity. Qed.

(* ... and the same with an idle chords-v2 machine in its ignore window *)
Definition ex_idle_chv2 : kstate :=
  set_k_prev_keys [42]
    (k_init (set_chords2 (Some (set_cv_ignore 3 (chv2_init [mkchord2 (KeyCode 30) [1; 2] 50 [] false] 5)))
                         (set_states [NormalKey 42 (0, 1) 0] (init_layout 0)))).
Example idlek_chv2_example : IdleK ex_idle_chv2 /\ chords2 (k_layout ex_idle_chv2) <> None.
Proof. split; [constructor; try reflexivity; constructor; reflexivity|discriminate]. Qed.
