(* C07: when nothing is pending, a tick of the layout does nothing but age the histories. *)
From Coq Require Import Lia.
From KV Require Import Kanata.Glue Proofs.LayoutBasics.

Definition plain_state (s : Types.kstate) : bool :=
  match s with
  | NormalKey _ _ _ => true
  | LayerModifier _ _ | CustomSt _ _ | FakeKey _ => true
  | RepeatingSequence _ _ | SeqCustomPending _ | SeqCustomActive _ | Tombstone => false
  end.

(* the layout part of "idle": exactly the conjuncts Kanata::is_idle reads from the layout (with the
   one-shot conjunct in its reachable form: no active one-shot key), plus the absence of transient
   sequence bookkeeping states *)
Record quiet (l : layout) : Prop := {
  q_queue : queue l = [];
  q_waiting : waiting_ l = None;
  q_extra : extra_waiting l = [];
  q_lpt : lpt_timeout l = 0;
  q_oneshot : os_keys (oneshot l) = [];
  q_pause : os_pause_ticks (oneshot l) = 0;
  q_seqs : active_sequences l = [];
  q_tde : tap_dance_eager l = None;
  q_aq : action_queue l = [];
  q_states : forallb plain_state (states l) = true }.

Definition aged (l : layout) : layout :=
  set_hist_inputs (hist_tick (hist_inputs l)) (set_hist_keys (hist_tick (hist_keys l)) l).

Lemma no_repeating_found sts :
  forallb plain_state sts = true ->
  find (fun s => match s with RepeatingSequence _ _ => true | _ => false end) (rev sts) = None.
Proof.
  intros H. destruct (find _ (rev sts)) as [s|] eqn:E; [|reflexivity].
  apply find_some in E. destruct E as [Hin Hs]. apply in_rev in Hin.
  rewrite forallb_forall in H. specialize (H s Hin). destruct s; discriminate.
Qed.

Lemma no_tombstone_filter sts :
  forallb plain_state sts = true ->
  filter (fun s => match s with Tombstone => false | _ => true end) sts = sts.
Proof.
  induction sts as [|s t IH]; intros H; [reflexivity|]. cbn [forallb] in H. apply andb_prop in H. destruct H as [Hs Ht].
  cbn [filter]. destruct s; try discriminate; rewrite (IH Ht); reflexivity.
Qed.

Lemma seq_custom_scan_plain sts :
  forallb plain_state sts = true -> seq_custom_scan sts = (sts, None).
Proof.
  induction sts as [|s t IH]; intros H; [reflexivity|]. cbn [forallb] in H. apply andb_prop in H. destruct H as [Hs Ht].
  destruct s; try discriminate; cbn [seq_custom_scan]; rewrite (IH Ht); reflexivity.
Qed.

Lemma set_queue_id l : set_queue (queue l) l = l. Proof. destruct l; reflexivity. Qed.
Lemma set_lpt_timeout_id l : set_lpt_timeout (lpt_timeout l) l = l. Proof. destruct l; reflexivity. Qed.
Lemma set_active_sequences_id l : set_active_sequences (active_sequences l) l = l. Proof. destruct l; reflexivity. Qed.
Lemma set_oneshot_id l : set_oneshot (oneshot l) l = l. Proof. destruct l; reflexivity. Qed.
Lemma set_extra_waiting_id l : set_extra_waiting (extra_waiting l) l = l. Proof. destruct l; reflexivity. Qed.
Lemma set_action_queue_id l : set_action_queue (action_queue l) l = l. Proof. destruct l; reflexivity. Qed.
Lemma set_states_id l : set_states (states l) l = l. Proof. destruct l; reflexivity. Qed.

Lemma process_sequences_quiet l :
  active_sequences l = [] -> forallb plain_state (states l) = true -> process_sequences l = l.
Proof.
  intros Hs Hst. unfold process_sequences. rewrite Hs. cbn [fold_left].
  assert (E : set_active_sequences [] l = l) by (rewrite <- Hs; apply set_active_sequences_id).
  rewrite E. rewrite (no_repeating_found _ Hst). reflexivity.
Qed.

Lemma process_extra_waitings_quiet cfg l :
  extra_waiting l = [] -> process_extra_waitings cfg l CNone = Ok (l, CNone).
Proof.
  intros He. unfold process_extra_waitings. rewrite He. cbn [extra_tick_loop bind].
  assert (E : set_extra_waiting [] l = l) by (rewrite <- He; apply set_extra_waiting_id).
  rewrite E, set_queue_id, set_action_queue_id. reflexivity.
Qed.

Lemma process_sequence_custom_quiet l :
  forallb plain_state (states l) = true -> process_sequence_custom l CNone = (l, CNone).
Proof.
  intros Hst. unfold process_sequence_custom.
  rewrite (no_tombstone_filter _ Hst), (seq_custom_scan_plain _ Hst), set_states_id.
  destruct (states l); reflexivity.
Qed.

(* the theorem: with nothing pending one tick emits no custom event, leaves the key states, layers,
   queues and timers exactly as they were, and only ages the two histories *)
Theorem quiet_tick_is_noop cfg l : quiet l -> layout_tick cfg l = Ok (aged l, CNone).
Proof.
  intros [Hq Hw He Hl Ho Hp Hs Ht Ha Hst].
  unfold layout_tick. rewrite Ha. cbv zeta.
  assert (E1 : set_queue (map (fun q => {| q_press := q_press q; q_coord := q_coord q; q_since := sat_add16 (q_since q) 1 |}) (queue l)) l = l).
  { rewrite Hq. cbn [map]. rewrite <- Hq. apply set_queue_id. }
  rewrite E1.
  assert (E2 : set_lpt_timeout (sat_sub (lpt_timeout l) 1) l = l).
  { rewrite Hl. change (sat_sub 0 1) with 0. rewrite <- Hl. apply set_lpt_timeout_id. }
  rewrite E2. rewrite Ht.
  rewrite (process_sequences_quiet l Hs Hst).
  fold (aged l).
  assert (E3 : os_tick (oneshot (aged l)) = (oneshot (aged l), None)).
  { unfold os_tick. change (oneshot (aged l)) with (oneshot l). rewrite Ho. reflexivity. }
  rewrite E3. rewrite set_oneshot_id. cbn [bind].
  change (waiting_ (aged l)) with (waiting_ l). rewrite Hw.
  change (extra_waiting (aged l)) with (extra_waiting l). rewrite He.
  change (oneshot (aged l)) with (oneshot l). rewrite Hp. change (0 <? 0) with false. cbv iota.
  change (queue (aged l)) with (queue l). rewrite Hq. cbn [bind cev_update].
  rewrite (process_extra_waitings_quiet cfg (aged l) He). cbn [bind].
  rewrite (process_sequence_custom_quiet (aged l) Hst). reflexivity.
Qed.

(* and the state reached is quiet again: blocking may continue for any number of ticks *)
Lemma aged_quiet l : quiet l -> quiet (aged l).
Proof. intros [Hq Hw He Hl Ho Hp Hs Ht Ha Hst]. constructor; assumption. Qed.

Fixpoint aged_n (n : nat) (l : layout) : layout := match n with O => l | S k => aged_n k (aged l) end.

Theorem quiet_ticks_are_noops cfg (n : nat) : forall l, quiet l ->
  forall k, (k < n)%nat -> layout_tick cfg (aged_n k l) = Ok (aged_n (S k) l, CNone).
Proof.
  induction n as [|n IH]; intros l Hq k Hk; [lia|].
  destruct k as [|k].
  - cbn [aged_n]. apply quiet_tick_is_noop. exact Hq.
  - cbn [aged_n]. apply (IH (aged l) (aged_quiet l Hq) k). lia.
Qed.

(* the idle predicate of the model implies the layout conjuncts it names *)
Theorem is_idle_layout_conjuncts k :
  k_is_idle k = true ->
  queue (k_layout k) = [] /\ waiting_ (k_layout k) = None /\ extra_waiting (k_layout k) = [] /\
  lpt_timeout (k_layout k) = 0 /\ os_pause_ticks (oneshot (k_layout k)) = 0 /\
  active_sequences (k_layout k) = [] /\ tap_dance_eager (k_layout k) = None /\ action_queue (k_layout k) = [].
Proof.
  unfold k_is_idle. intros H.
  repeat match type of H with _ && _ = true => apply andb_prop in H; let H2 := fresh "C" in destruct H as [H H2] end.
  destruct (queue (k_layout k)); [|discriminate].
  destruct (waiting_ (k_layout k)); [discriminate|].
  destruct (extra_waiting (k_layout k)); [|discriminate].
  destruct (active_sequences (k_layout k)); [|discriminate].
  destruct (tap_dance_eager (k_layout k)); [discriminate|].
  destruct (action_queue (k_layout k)); [|discriminate].
  repeat split; try reflexivity; apply N.eqb_eq; assumption.
Qed.

(* the conjuncts of is_idle that belong to kanata itself: no sequence mode, no one-shot key, no scroll / mouse movement, no replay,
   no caps-word, no pending virtual-key deadline, every key kanata holds at the OS is still produced by the layout (nothing to
   release in the next tick), no macro custom action between its press and its release, chords v2 idle *)
Theorem is_idle_kanata_conjuncts k :
  k_is_idle k = true ->
  sq_active (k_seq k) = false /\ os_keys (oneshot (k_layout k)) = [] /\
  k_scroll k = None /\ k_hscroll k = None /\ k_mmv k = None /\ k_mmh k = None /\
  k_macro_cancel_dur k = 0 /\ k_replay k = None /\ k_caps_word k = None /\ k_vkeys_pending k = [] /\
  (forall pk, In pk (k_prev_keys k) -> mem_n pk (keycodes (k_layout k)) = true) /\
  (forall s, In s (states (k_layout k)) -> match s with SeqCustomPending _ | SeqCustomActive _ => False | _ => True end) /\
  (forall ch, chords2 (k_layout k) = Some ch -> chv2_is_idle ch = true).
Proof.
  unfold k_is_idle. intros H.
  repeat match type of H with _ && _ = true => apply andb_prop in H; let H2 := fresh "C" in destruct H as [H H2] end.
  destruct (os_keys (oneshot (k_layout k))); [|discriminate].
  destruct (k_scroll k); [discriminate|]. destruct (k_hscroll k); [discriminate|].
  destruct (k_mmv k); [discriminate|]. destruct (k_mmh k); [discriminate|].
  destruct (k_replay k); [discriminate|]. destruct (k_caps_word k); [discriminate|].
  destruct (k_vkeys_pending k); [|discriminate].
  repeat match goal with |- _ /\ _ => split end; try reflexivity.
  - match goal with X : negb (sq_active _) = true |- _ => apply negb_true_iff in X; exact X end.
  - apply N.eqb_eq. assumption.
  - intros pk Hin. match goal with X : forallb _ (k_prev_keys k) = true |- _ => exact (proj1 (forallb_forall _ _) X pk Hin) end.
  - intros s Hin.
    match goal with X : negb (existsb _ (states (k_layout k))) = true |- _ => apply negb_true_iff in X; rename X into Hex end.
    destruct s; try exact I.
    + assert (existsb (fun s => match s with
                             | SeqCustomPending _ | SeqCustomActive _ => true
                             | NormalKey _ _ _ => negb (match k_waiting_for_idle k with [] => true | _ => false end) || k_live_reload_requested k
                             | _ => false end) (states (k_layout k)) = true) as X
        by (apply existsb_exists; eexists; split; [exact Hin|reflexivity]).
      congruence.
    + assert (existsb (fun s => match s with
                             | SeqCustomPending _ | SeqCustomActive _ => true
                             | NormalKey _ _ _ => negb (match k_waiting_for_idle k with [] => true | _ => false end) || k_live_reload_requested k
                             | _ => false end) (states (k_layout k)) = true) as X
        by (apply existsb_exists; eexists; split; [exact Hin|reflexivity]).
      congruence.
  - intros ch Hch. match goal with X : context [chords2 (k_layout k)] |- _ => rewrite Hch in X; exact X end.
Qed.
