(* C08, a whole macro: running one sequence of press / release / tap / delay steps from a ready state plays exactly the
   spelled list, in order, one step per millisecond (a tap takes two, a delay of d takes max 1 d), and ends with nothing
   left to play.  The trace observed is the list of macro-held keys after every millisecond. *)
From Coq Require Import Lia.
From KV Require Import Keyberon.Layout Proofs.LayoutBasics Proofs.C08Proofs.

Section Play.

  (* n milliseconds of one sequence: the macro-held keys after each, and the final state *)
  Fixpoint seq_run (n : nat) (l : layout) (s : seq_state) : list (list N) * (layout * seq_state) :=
    match n with
    | O => ([], (l, s))
    | S m => let '(l', s') := seq_step l s in
             let '(tr, r) := seq_run m l' s' in (fake_keys l' :: tr, r)
    end.

  Lemma seq_run_app a : forall b l s,
    seq_run (a + b) l s =
      (let '(tr1, (l1, s1)) := seq_run a l s in let '(tr2, r) := seq_run b l1 s1 in (tr1 ++ tr2, r)).
  Proof.
    induction a as [|a IH]; intros b l s; cbn [plus seq_run].
    - destruct (seq_run b l s) as [tr2 r]. reflexivity.
    - destruct (seq_step l s) as [l' s']. rewrite IH.
      destruct (seq_run a l' s') as [tr1 [l1 s1]]. destruct (seq_run b l1 s1) as [tr2 r]. reflexivity.
  Qed.

  Definition drop_key (k : N) (fk : list N) : list N := filter (fun x => negb (x =? k)) fk.
  Definition delay_ticks (d : N) : nat := N.to_nat (N.max 1 d).

  (* what the macro spells out *)
  Fixpoint play (evs : list seq_ev) (fk : list N) : list (list N) :=
    match evs with
    | [] => []
    | SPress k :: t => (fk ++ [k]) :: play t (fk ++ [k])
    | SRelease k :: t => drop_key k fk :: play t (drop_key k fk)
    | STap k :: t => (fk ++ [k]) :: drop_key k (fk ++ [k]) :: play t (drop_key k (fk ++ [k]))
    | SDelay d :: t => repeat fk (delay_ticks d) ++ play t fk
    | _ :: t => play t fk
    end.
  Definition simple_ev (e : seq_ev) : Prop :=
    match e with SPress _ | SRelease _ | STap _ | SDelay _ => True | _ => False end.

  Lemma fake_keys_push l k :
    (length (states l) < STATES_CAP)%nat ->
    filter_map (fun s => match s with FakeKey k0 => Some k0 | _ => None end) (fst (states_push (FakeKey k) (states l))) =
    fake_keys l ++ [k].
  Proof.
    intros Hc. unfold states_push. rewrite sat_push_back_room by exact Hc. cbn [fst]. unfold fake_keys.
    rewrite filter_map_app. reflexivity.
  Qed.

  Lemma seq_release_len k sts : (length (seq_release k sts) <= length sts)%nat.
  Proof. unfold seq_release. induction sts as [|x t IH]; [apply le_n|]. cbn [filter]. destruct (match x with FakeKey k0 => _ | _ => _ end); cbn [length]; lia. Qed.

  (* the countdown of a delay: the layout does not change *)
  Lemma countdown : forall n l s,
    ss_delay s = N.of_nat n -> seq_run n l s = (repeat (fake_keys l) n, (l, set_ss_delay 0 s)).
  Proof.
    induction n as [|n IH]; intros l s Hd.
    - cbn [seq_run repeat]. destruct s as [c d tp r]. cbn in Hd. subst d. reflexivity.
    - cbn [seq_run repeat]. rewrite (step_delay_countdown l s) by lia.
      rewrite IH by (cbn [ss_delay set_ss_delay]; lia). cbn [set_ss_delay ss_cur ss_tapped ss_remaining]. reflexivity.
  Qed.

  Theorem macro_plays_exactly : forall evs l s,
    ready s -> ss_remaining s = evs -> Forall simple_ev evs ->
    (length (states l) + length evs <= STATES_CAP)%nat ->
    exists l' s', seq_run (length (play evs (fake_keys l))) l s = (play evs (fake_keys l), (l', s')) /\
                  ready s' /\ ss_remaining s' = [].
  Proof.
    induction evs as [|e t IH]; intros l s [H0 Ht] Hr Hs Hc.
    - exists l, s. cbn [play length seq_run]. split; [reflexivity|]. split; [split; assumption|exact Hr].
    - pose proof (Forall_inv Hs) as He. pose proof (Forall_inv_tail Hs) as Hst. cbn [length] in Hc.
      destruct e as [|k|k|k|d|cu|]; cbn in He; try contradiction.
      + (* press *)
        cbn [play length seq_run].
        unfold seq_step at 1. rewrite H0, Ht, Hr. cbn [N.ltb N.compare ss_cur set_ss_cur set_ss_remaining].
        unfold os_press_l. destruct (os_handle_press _ _) as [o cs] eqn:Eo. cbn [fst].
        set (l1 := set_oneshot o _).
        assert (F1 : fake_keys l1 = fake_keys l ++ [k]).
        { unfold l1, fake_keys at 1. cbn [states set_oneshot set_hist_keys set_states]. apply fake_keys_push. lia. }
        assert (L1 : length (states l1) = S (length (states l))).
        { unfold l1. cbn [states set_oneshot set_hist_keys set_states]. unfold states_push.
          rewrite sat_push_back_room by lia. cbn [fst]. rewrite app_length. cbn [length]. lia. }
        destruct (IH l1 (set_ss_remaining t (set_ss_cur (Some (SPress k)) s))) as (l' & s' & E & R1 & R2);
          [split; assumption|reflexivity|exact Hst|lia|].
        rewrite F1 in *. rewrite E. exists l', s'. auto.
      + (* release *)
        cbn [play length seq_run].
        unfold seq_step at 1. rewrite H0, Ht, Hr. cbn [N.ltb N.compare ss_cur set_ss_cur set_ss_remaining].
        destruct (os_handle_release (oneshot l) (0, 0)) as [[o b] ov].
        set (l1 := set_states _ _).
        assert (F1 : fake_keys l1 = drop_key k (fake_keys l)).
        { unfold l1, fake_keys. cbn [states set_states set_oneshot]. apply fake_keys_seq_release. }
        assert (L1 : (length (states l1) <= length (states l))%nat).
        { unfold l1. cbn [states set_states set_oneshot]. apply seq_release_len. }
        destruct (IH l1 (set_ss_remaining t (set_ss_cur (Some (SRelease k)) s))) as (l' & s' & E & R1 & R2);
          [split; assumption|reflexivity|exact Hst|lia|].
        rewrite F1 in *. rewrite E. exists l', s'. auto.
      + (* tap: press, then release on the next millisecond *)
        cbn [play length seq_run].
        unfold seq_step at 1. rewrite H0, Ht, Hr. cbn [N.ltb N.compare ss_cur set_ss_cur set_ss_remaining].
        unfold os_press_l. destruct (os_handle_press _ _) as [o cs] eqn:Eo. cbn [fst].
        set (l1 := set_oneshot o _).
        assert (F1 : fake_keys l1 = fake_keys l ++ [k]).
        { unfold l1, fake_keys at 1. cbn [states set_oneshot set_hist_keys set_states]. apply fake_keys_push. lia. }
        assert (L1 : length (states l1) = S (length (states l))).
        { unfold l1. cbn [states set_oneshot set_hist_keys set_states]. unfold states_push.
          rewrite sat_push_back_room by lia. cbn [fst]. rewrite app_length. cbn [length]. lia. }
        unfold seq_step at 1. cbn [ss_delay ss_tapped set_ss_tapped set_ss_remaining set_ss_cur]. rewrite H0.
        cbn [N.ltb N.compare].
        set (l2 := set_states (seq_release k (states l1)) l1).
        assert (F2 : fake_keys l2 = drop_key k (fake_keys l ++ [k])).
        { unfold l2, fake_keys at 1. cbn [states set_states]. rewrite fake_keys_seq_release. fold (fake_keys l1). rewrite F1. reflexivity. }
        assert (L2 : (length (states l2) <= S (length (states l)))%nat).
        { unfold l2. cbn [states set_states]. rewrite <- L1. apply seq_release_len. }
        destruct (IH l2 (set_ss_tapped None (set_ss_tapped (Some k) (set_ss_remaining t (set_ss_cur (Some (STap k)) s)))))
          as (l' & s' & E & R1 & R2); [split; [exact H0|reflexivity]|reflexivity|exact Hst|lia|].
        rewrite F1, F2 in *. rewrite E. exists l', s'. auto.
      + (* delay *)
        cbn [play]. rewrite app_length, repeat_length.
        assert (Hdt : delay_ticks d = S (N.to_nat (d - 1))) by (unfold delay_ticks; lia).
        rewrite Hdt. cbn [plus]. cbn [seq_run].
        unfold seq_step at 1. rewrite H0, Ht, Hr. cbn [N.ltb N.compare ss_cur set_ss_cur set_ss_remaining].
        set (s1 := if 0 <? d then _ else _).
        assert (Hs1 : ss_delay s1 = N.of_nat (N.to_nat (d - 1)) /\ ss_tapped s1 = None /\ ss_remaining s1 = t).
        { unfold s1. destruct (N.ltb_spec 0 d) as [Hd|Hd]; cbn [ss_delay ss_tapped ss_remaining set_ss_delay set_ss_remaining set_ss_cur].
          - split; [lia|]. split; [exact Ht|reflexivity].
          - split; [rewrite H0; lia|]. split; [exact Ht|reflexivity]. }
        destruct Hs1 as (D1 & T1 & R1).
        rewrite seq_run_app. rewrite (countdown _ l s1 D1).
        destruct (IH l (set_ss_delay 0 s1)) as (l' & s' & E & Q1 & Q2);
          [split; [reflexivity|exact T1]|exact R1|exact Hst|lia|].
        rewrite E. exists l', s'. split; [|split; assumption]. cbn [repeat app]. reflexivity.
  Qed.

  Lemma last_default {A} (x : A) t d d' : last (x :: t) d = last (x :: t) d'.
  Proof. revert x. induction t as [|y t IH]; intros x; [reflexivity|]. cbn [last] in *. apply IH. Qed.

  Lemma seq_run_last : forall n l s tr l' s',
    seq_run n l s = (tr, (l', s')) -> fake_keys l' = last tr (fake_keys l).
  Proof.
    induction n as [|n IH]; intros l s tr l' s' E; cbn [seq_run] in E.
    - injection E as <- <- _. reflexivity.
    - destruct (seq_step l s) as [l1 s1]. destruct (seq_run n l1 s1) as [tr1 r] eqn:E1. injection E as <- ->.
      rewrite (IH _ _ _ _ _ E1). destruct tr1 as [|x t]; [reflexivity|]. cbn [last]. apply last_default.
  Qed.

  (* what is held when the macro has finished is what its spelling leaves held: nothing, if it releases what it presses *)
  Corollary macro_ends_as_spelled evs l s :
    ready s -> ss_remaining s = evs -> Forall simple_ev evs ->
    (length (states l) + length evs <= STATES_CAP)%nat ->
    exists l' s', seq_run (length (play evs (fake_keys l))) l s = (play evs (fake_keys l), (l', s')) /\
                  ss_remaining s' = [] /\ fake_keys l' = last (play evs (fake_keys l)) (fake_keys l).
  Proof.
    intros H1 H2 H3 H4. destruct (macro_plays_exactly evs l s H1 H2 H3 H4) as (l' & s' & E & _ & R).
    exists l', s'. split; [exact E|]. split; [exact R|]. exact (seq_run_last _ _ _ _ _ _ E).
  Qed.
End Play.

(* not vacuous: S-(a) 3 ms, then a tap of s, from the fresh layout *)
Example macro_play_example :
  let evs := [SPress 42; SPress 30; SDelay 3; SRelease 30; STap 31; SRelease 42] in
  let l := init_layout 0 in
  Forall simple_ev evs /\ (length (states l) + length evs <= STATES_CAP)%nat /\
  play evs (fake_keys l) = [[42]; [42; 30]; [42; 30]; [42; 30]; [42; 30]; [42]; [42; 31]; [42]; []] /\
  fst (seq_run 9 l (new_seq evs)) = play evs (fake_keys l).
Proof.
  cbv zeta. split; [repeat constructor|]. split; [vm_compute; lia|]. split; vm_compute; reflexivity.
Qed.

(* "regardless of other keys typed meanwhile": the release of a physical key - whatever it was bound to, also a key with the same
   key code as one the macro holds - removes no macro-held key: those states carry no coordinate *)
Lemma release_states_keeps_fake c skip : forall sts cu,
  filter_map (fun s => match s with FakeKey k => Some k | _ => None end) (fst (release_states c skip sts cu)) =
  filter_map (fun s => match s with FakeKey k => Some k | _ => None end) sts.
Proof.
  induction sts as [|s t IH]; intros cu; [reflexivity|]. cbn [release_states].
  destruct (skip && st_clear_on_next_release s) eqn:Es.
  - rewrite IH. destruct s; cbn [filter_map]; try reflexivity.
    (* a macro-held key is never flagged clear-on-next-release *)
    cbn in Es. rewrite andb_false_r in Es. discriminate.
  - destruct s as [k c' f|ly c'|v c'|k|evs c'|cu1|cu2|]; cbn [filter_map].
    all: try (destruct (coord_eqb c' c); [apply IH|]).
    all: try (destruct (release_states c skip t _) as [r cu'] eqn:Er; cbn [fst filter_map];
              specialize (IH cu); try rewrite Er in IH; cbn [fst] in IH; try rewrite IH; try reflexivity).
    all: try (specialize (IH (cev_update cu (CRelease v))); rewrite IH; reflexivity).
Qed.
