(* C08: macro playback (Layout::process_sequences), one step per tick; keys pressed by a macro are
   released by its own Release events; cancellation removes every macro-held key. *)
From Coq Require Import Lia.
From KV Require Import Keyberon.Layout Proofs.LayoutBasics.

(* the keys currently held by macros *)
Definition fake_keys (l : layout) : list N :=
  filter_map (fun s => match s with FakeKey k => Some k | _ => None end) (states l).

Definition ready (s : seq_state) : Prop := ss_delay s = 0 /\ ss_tapped s = None.

(* a delay of d consumes exactly d ticks: the tick that reads it, then d-1 countdown ticks *)
Lemma step_delay_countdown l s :
  0 < ss_delay s -> seq_step l s = (l, set_ss_delay (ss_delay s - 1) s).
Proof. intros H. unfold seq_step. apply N.ltb_lt in H. rewrite H. reflexivity. Qed.

Lemma step_reads_delay l s d t :
  ready s -> ss_remaining s = SDelay d :: t -> 0 < d ->
  seq_step l s = (l, set_ss_delay (d - 1) (set_ss_remaining t (set_ss_cur (Some (SDelay d)) s))).
Proof.
  intros [H0 Ht] Hr Hd. unfold seq_step. rewrite H0, Ht, Hr. cbn.
  apply N.ltb_lt in Hd. rewrite Hd. reflexivity.
Qed.

(* a Press step holds the key (when there is room), a Release step lets every copy of it go *)
Lemma step_press l s k t :
  ready s -> ss_remaining s = SPress k :: t -> (length (states l) < STATES_CAP)%nat ->
  states (fst (seq_step l s)) = states l ++ [FakeKey k] /\
  ss_remaining (snd (seq_step l s)) = t.
Proof.
  intros [H0 Ht] Hr Hc. unfold seq_step. rewrite H0, Ht, Hr. cbn [N.ltb N.compare ss_cur set_ss_cur set_ss_remaining].
  unfold states_push. rewrite sat_push_back_room by exact Hc. cbn [fst snd].
  unfold os_press_l. destruct (os_handle_press _ _). cbn. split; reflexivity.
Qed.

Lemma filter_map_app {A B} (f : A -> option B) a b : filter_map f (a ++ b) = filter_map f a ++ filter_map f b.
Proof. induction a as [|x t IH]; cbn; [reflexivity|]. destruct (f x); cbn; rewrite IH; reflexivity. Qed.

Lemma fake_keys_seq_release kc sts :
  filter_map (fun s => match s with FakeKey k => Some k | _ => None end) (seq_release kc sts) =
  filter (fun k => negb (k =? kc)) (filter_map (fun s => match s with FakeKey k => Some k | _ => None end) sts).
Proof.
  induction sts as [|s t IH]; [reflexivity|]. unfold seq_release in *. cbn [filter].
  destruct s; cbn [filter_map filter]; try (rewrite IH; reflexivity).
  destruct (k =? kc); cbn [negb filter_map filter]; rewrite IH; reflexivity.
Qed.

Lemma step_release l s k t :
  ready s -> ss_remaining s = SRelease k :: t ->
  fake_keys (fst (seq_step l s)) = filter (fun x => negb (x =? k)) (fake_keys l) /\
  ss_remaining (snd (seq_step l s)) = t.
Proof.
  intros [H0 Ht] Hr. unfold seq_step. rewrite H0, Ht, Hr. cbn [N.ltb N.compare ss_cur set_ss_cur set_ss_remaining].
  destruct (os_handle_release (oneshot l) (0, 0)) as [[o b] ov]. cbn [fst snd].
  unfold fake_keys. cbn [states set_states set_oneshot]. split; [apply fake_keys_seq_release|reflexivity].
Qed.

(* with one macro running, a tick performs exactly one of its steps *)
Lemma process_sequences_single l s :
  active_sequences l = [s] ->
  process_sequences l =
    (let '(l', s') := seq_step l s in
     match ss_remaining s' with
     | _ :: _ => set_active_sequences [s'] l'
     | [] =>
       match find (fun st => match st with RepeatingSequence _ _ => true | _ => false end)
                  (rev (states (set_active_sequences [] l'))) with
       | Some (RepeatingSequence evs _) => set_active_sequences [new_seq evs] (set_active_sequences [] l')
       | _ => set_active_sequences [] l'
       end
     end).
Proof.
  intros H. unfold process_sequences. rewrite H. cbn [fold_left].
  destruct (seq_step l s) as [l' s']. destruct (ss_remaining s'); reflexivity.
Qed.

(* cancelling: no macro keeps running and no macro-held key survives *)
Lemma no_fake_after_filter sts :
  filter_map (fun s => match s with FakeKey k => Some k | _ => None end)
             (filter (fun s => match s with FakeKey _ => false | _ => true end) sts) = [].
Proof. induction sts as [|s t IH]; [reflexivity|]. destruct s; cbn; exact IH. Qed.

Lemma cancel_sequences_clears cfg rec l c d os ls :
  exists l', do_action_body cfg rec l CancelSequences c d os ls = Ok (l', CNone) /\ active_sequences l' = [] /\ fake_keys l' = [].
Proof.
  unfold do_action_body. cbn [bind].
  eexists. split; [reflexivity|].
  unfold set_rpt, os_other_unless, os_press_l, fake_keys.
  destruct os; [|destruct (os_handle_press _ _)]; cbn [fst active_sequences set_rpt_action set_states set_oneshot set_active_sequences states];
    (split; [reflexivity|]); rewrite no_fake_after_filter; reflexivity.
Qed.

(* the same for kanata's own cancel paths (release-cancel, cancel-on-press), which clear the ring and
   drop FakeKey / RepeatingSequence states: modelled in Kanata/Glue.v; here the layout part *)
Definition cancel_macros (l : layout) : layout :=
  set_states (filter (fun s => match s with FakeKey _ | RepeatingSequence _ _ => false | _ => true end) (states l))
             (set_active_sequences [] l).
Lemma cancel_macros_clears l : active_sequences (cancel_macros l) = [] /\ fake_keys (cancel_macros l) = [].
Proof.
  unfold cancel_macros, fake_keys. cbn [active_sequences set_states set_active_sequences states]. split; [reflexivity|].
  induction (states l) as [|s t IH]; [reflexivity|]. destruct s; cbn; exact IH.
Qed.

(* a repeating macro restarts only while its key is still held (its RepeatingSequence state exists) *)
Lemma repeat_only_while_held l :
  active_sequences l = [] ->
  (forall s, In s (states l) -> match s with RepeatingSequence _ _ => False | _ => True end) ->
  active_sequences (process_sequences l) = [].
Proof.
  intros Ha Hno. unfold process_sequences. rewrite Ha. cbn [fold_left].
  destruct (find _ (rev (states (set_active_sequences [] l)))) as [s|] eqn:Ef; [|reflexivity].
  apply find_some in Ef. destruct Ef as [Hin Hs]. apply in_rev in Hin. cbn [states set_active_sequences] in Hin.
  specialize (Hno s Hin). destruct s; try discriminate. contradiction.
Qed.
