(* C09: input chords v1 (WaitingState::handle_chord and ChordsGroup lookups). *)
From Coq Require Import Lia Permutation.
From KV Require Import Keyberon.Layout Proofs.LayoutBasics.

(* ---- the pressed key set is accumulated with bitwise or: press order does not matter ---- *)
Definition in_window (w : waiting) (s : queued) : bool :=
  negb (w_timeout w <? sat_sub (w_delay w) (q_since s)).
Definition chord_press (g : chord_group) (w : waiting) (s : queued) : bool :=
  q_press s && in_window w s && (match cg_get_keys g (q_coord s) with Some _ => true | None => false end).

Definition key_mask (g : chord_group) (s : queued) : N := opt_mask (cg_get_keys g (q_coord s)).
Definition mask_of_presses (g : chord_group) (q : list queued) (m0 : N) : N :=
  fold_left (fun m s => N.lor m (key_mask g s)) q m0.

Lemma chord_active_fold_presses g w q active handled rel :
  Forall (fun s => chord_press g w s = true) q ->
  chord_active_fold g w q active handled rel =
    (inl (mask_of_presses g q active), handled + N.of_nat (length q), rel).
Proof.
  revert active handled. induction q as [|s t IH]; intros active handled H; cbn [chord_active_fold mask_of_presses fold_left length].
  - f_equal. f_equal. lia.
  - inversion H as [|? ? Hs Ht]; subst. unfold chord_press, in_window in Hs.
    apply andb_prop in Hs. destruct Hs as [Hs Hk]. apply andb_prop in Hs. destruct Hs as [Hp Hw].
    apply negb_true_iff in Hw. rewrite Hw.
    unfold key_mask, opt_mask. destruct (cg_get_keys g (q_coord s)) as [ck|]; [|discriminate].
    rewrite Hp. rewrite IH by exact Ht. unfold mask_of_presses. f_equal. f_equal. lia.
Qed.

Lemma mask_of_presses_acc g q m0 : mask_of_presses g q m0 = N.lor m0 (mask_of_presses g q 0).
Proof.
  revert m0. induction q as [|s t IH]; intros m0; cbn [mask_of_presses fold_left].
  - rewrite N.lor_0_r. reflexivity.
  - unfold mask_of_presses in *. rewrite IH. rewrite (IH (N.lor 0 (key_mask g s))).
    rewrite N.lor_0_l, N.lor_assoc. reflexivity.
Qed.

(* any permutation of the same presses yields the same key set *)
Lemma mask_of_presses_perm g q1 q2 m0 : Permutation q1 q2 -> mask_of_presses g q1 m0 = mask_of_presses g q2 m0.
Proof.
  intros H. revert m0. unfold mask_of_presses.
  induction H as [|x l l' Hp IH|x y l|l l' l'' Hp1 IH1 Hp2 IH2]; intros m0; cbn [fold_left].
  - reflexivity.
  - exact (IH _).
  - f_equal. rewrite <- !N.lor_assoc. f_equal. apply N.lor_comm.
  - rewrite (IH1 m0). exact (IH2 m0).
Qed.

(* ---- lookups ---- *)
Definition no_strict_superset (chs : list (N * action)) (keys : N) : Prop :=
  forall ck a, In (ck, a) chs -> ck <> keys -> N.lor ck keys <> ck.

Lemma find_none_not_in (chs : list (N * action)) keys :
  ~ In keys (map fst chs) -> find (fun p => fst p =? keys) chs = None.
Proof.
  induction chs as [|[ck a] t IH]; intros H; [reflexivity|]. cbn [find fst].
  destruct (N.eqb_spec ck keys) as [->|Hne]; [exfalso; apply H; left; reflexivity|].
  apply IH. intros Hin. apply H. right. exact Hin.
Qed.

Lemma unambiguous_loop_spec chs keys res :
  no_strict_superset chs keys -> NoDup (map fst chs) ->
  cg_unambiguous_loop chs keys res =
    Some (match find (fun p => fst p =? keys) chs with Some p => Some (snd p) | None => res end).
Proof.
  revert res. induction chs as [|[ck a] t IH]; intros res Hn Hd; [reflexivity|].
  cbn [cg_unambiguous_loop find fst snd].
  assert (Hn' : no_strict_superset t keys) by (intros ck' a' Hin Hne'; apply (Hn ck' a'); [right; exact Hin|exact Hne']).
  inversion Hd as [|? ? Hnin Hd']; subst.
  destruct (N.eqb_spec ck keys) as [->|Hne].
  - rewrite IH by assumption. rewrite find_none_not_in by exact Hnin. reflexivity.
  - destruct (N.eqb_spec (N.lor ck keys) ck) as [He|_].
    + exfalso. exact (Hn ck a (or_introl eq_refl) Hne He).
    + apply IH; assumption.
Qed.

(* the exactly-pressed chord fires as soon as it is unambiguous: no defined chord strictly contains it *)
Lemma unambiguous_fires g keys :
  no_strict_superset (cg_chords g) keys -> NoDup (map fst (cg_chords g)) ->
  cg_get_chord_if_unambiguous g keys = cg_get_chord g keys.
Proof.
  intros Hn Hd. unfold cg_get_chord_if_unambiguous, cg_get_chord.
  rewrite unambiguous_loop_spec by assumption.
  destruct (find (fun p => fst p =? keys) (cg_chords g)); reflexivity.
Qed.

(* while some defined chord strictly contains the pressed set, nothing fires early *)
Lemma ambiguous_waits g keys ck a :
  In (ck, a) (cg_chords g) -> ck <> keys -> N.lor ck keys = ck ->
  cg_get_chord_if_unambiguous g keys = None.
Proof.
  intros Hin Hne Hsup. unfold cg_get_chord_if_unambiguous.
  assert (H : forall chs res, In (ck, a) chs -> cg_unambiguous_loop chs keys res = None).
  { induction chs as [|[ck' a'] t IH]; intros res Hi; [contradiction|].
    cbn [cg_unambiguous_loop]. destruct Hi as [Heq|Hi].
    - inversion Heq; subst. destruct (N.eqb_spec ck keys); [contradiction|].
      rewrite Hsup, N.eqb_refl. reflexivity.
    - destruct (ck' =? keys); [apply IH; exact Hi|].
      destruct (N.lor ck' keys =? ck'); [reflexivity|apply IH; exact Hi]. }
  rewrite (H _ _ Hin). reflexivity.
Qed.

(* a participant's press is consumed by the chord (removed from the queue) — none of the
   participating keys' individual actions run: the retain step drops exactly the handled presses *)
Lemma chord_retain_drops_all g w q pq :
  Forall (fun s => chord_press g w s = true) q ->
  (length pq + length q <= QUEUE_SIZE)%nat ->
  chord_retain g w q (N.of_nat (length q)) pq = ([], pq ++ map q_coord q).
Proof.
  revert pq. induction q as [|s t IH]; intros pq H Hl; cbn [chord_retain map].
  - rewrite app_nil_r. reflexivity.
  - inversion H as [|? ? Hs Ht]; subst. unfold chord_press, in_window in Hs.
    apply andb_prop in Hs. destruct Hs as [Hs Hk]. apply andb_prop in Hs. destruct Hs as [Hp Hw].
    apply negb_true_iff in Hw. rewrite Hw, Hp.
    destruct (cg_get_keys g (q_coord s)) as [ck|]; [|discriminate]. cbn [andb].
    assert (Hpos : 0 <? N.of_nat (length (s :: t)) = true) by (apply N.ltb_lt; cbn [length]; lia).
    rewrite Hpos.
    replace (N.of_nat (length (s :: t)) - 1) with (N.of_nat (length t)) by (cbn [length]; lia).
    cbn [length] in Hl. rewrite sat_push_back_room by lia. cbn [fst].
    rewrite IH; [|exact Ht|rewrite app_length; cbn; lia].
    rewrite <- app_assoc. reflexivity.
Qed.
