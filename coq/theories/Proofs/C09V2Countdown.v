(* defchordsv2, the "skip this tick" bookkeeping of drain_inputs (the two defects repaired by f65267c and 88090f5):
   an activation clears the countdown of the presses it consumed, and the remembered queue length is the length the queue has after
   the virtual-key events have left it. *)
From Coq Require Import Lia.
From KV Require Import Keyberon.ChordsV2.
Local Open Scope N_scope.

Theorem activation_clears_countdown c layer c' :
  process_presses c layer = Ok c' -> (length (cv_active c) < length (cv_active c'))%nat -> cv_until_change c' = 0.
Proof.
  unfold process_presses.
  destruct (scan_presses (cv_queue c) []) as [[presses rf]| |]; cbn [bind]; try discriminate.
  destruct presses as [|start rest]; [intros E; injection E as <-; lia|].
  destruct (filter (fun ch => mem_n start (c2_keys ch)) (cv_chords c)) as [|p0 ps] eqn:Ep.
  { intros E. injection E as <-. cbn. lia. }
  destruct (pp_loop _ layer _ rf _ _) as [st| |]; cbn [bind]; try discriminate.
  match goal with |- (c2 <- ?X ;; _) = _ -> _ => destruct X as [c2| |] end; cbn [bind]; try discriminate.
  destruct (Nat.ltb (length (cv_active c)) (length (cv_active c2))) eqn:El.
  - intros E. injection E as <-. reflexivity.
  - intros E. injection E as <-. apply Nat.ltb_ge in El. lia.
Qed.

Section Book.
  Variable layer : N.
  Lemma push_active_book a c c' : push_active a c = Ok c' -> cv_prev_qlen c' = cv_prev_qlen c.
  Proof. unfold push_active. destruct (Nat.ltb _ _); intros E; injection E as <-; reflexivity. Qed.

  Lemma pp_step_book possible since rf st press st' :
    pp_step possible layer since rf st press = Ok st' -> cv_prev_qlen (pp_c st') = cv_prev_qlen (pp_c st).
  Proof.
    unfold pp_step. destruct (pp_done st); [intros E; injection E as <-; reflexivity|].
    destruct (if match pp_prev_count st with Some n => Nat.eqb n (length (pp_cands st)) | None => false end then _ else _)
      as [[cands count] mt].
    destruct count as [|[|n]].
    - destruct (find _ possible) as [cch|].
      + destruct (next_coord (pp_c st)) as [c1 coord] eqn:En.
        assert (Q1 : cv_prev_qlen c1 = cv_prev_qlen (pp_c st)) by (unfold next_coord in En; injection En as <- _; reflexivity).
        destruct (push_active _ c1) as [c2| |] eqn:Ep; cbn [bind]; try discriminate.
        intros X. injection X as <-. cbn [pp_c]. rewrite (push_active_book _ _ _ Ep). exact Q1.
      + intros X. injection X as <-. reflexivity.
    - destruct (next_coord (pp_c st)) as [c1 coord] eqn:En.
      assert (Q1 : cv_prev_qlen c1 = cv_prev_qlen (pp_c st)) by (unfold next_coord in En; injection En as <- _; reflexivity).
      destruct cands as [|cch crest]; [discriminate|].
      destruct (subset_n _ _).
      + destruct (push_active _ c1) as [c2| |] eqn:Ep; cbn [bind]; try discriminate.
        intros X. injection X as <-. cbn [pp_c]. rewrite (push_active_book _ _ _ Ep). exact Q1.
      + intros X. injection X as <-. exact Q1.
    - intros X. injection X as <-. reflexivity.
  Qed.

  Lemma pp_loop_book possible since rf : forall presses st st',
    pp_loop possible layer since rf st presses = Ok st' -> cv_prev_qlen (pp_c st') = cv_prev_qlen (pp_c st).
  Proof.
    induction presses as [|p r IH]; intros st st' E; cbn [pp_loop] in E; [injection E as <-; reflexivity|].
    destruct (pp_step possible layer since rf st p) as [st1| |] eqn:E1; cbn [bind] in E; try discriminate.
    rewrite (IH _ _ E). exact (pp_step_book _ _ _ _ _ _ E1).
  Qed.

  Lemma process_presses_book c c' : process_presses c layer = Ok c' -> cv_prev_qlen c' = cv_prev_qlen c.
  Proof.
    unfold process_presses.
    destruct (scan_presses (cv_queue c) []) as [[presses rf]| |]; cbn [bind]; try discriminate.
    destruct presses as [|start rest]; [intros E; injection E as <-; reflexivity|].
    destruct (filter (fun ch => mem_n start (c2_keys ch)) (cv_chords c)) as [|p0 ps] eqn:Ep.
    { intros E. injection E as <-. reflexivity. }
    destruct (pp_loop _ layer _ rf _ _) as [st| |] eqn:El; cbn [bind]; try discriminate.
    pose proof (pp_loop_book _ _ _ _ _ _ El) as Q1. cbn [pp_c] in Q1.
    assert (Hfin : forall c2 (b : bool) q, cv_prev_qlen c2 = cv_prev_qlen c ->
              (if b then Ok (set_cv_queue q (set_cv_until 0 c2)) else Ok c2) = Ok c' -> cv_prev_qlen c' = cv_prev_qlen c).
    { intros c2 b q G X. destruct b; injection X as <-; exact G. }
    destruct ((cv_until_change (pp_c st) =? 0) || rf).
    - destruct (find _ _) as [cch|].
      + destruct (Nat.ltb (length (cv_active c)) (length (cv_active (pp_c st)))).
        * cbn [bind]. apply Hfin. exact Q1.
        * destruct (next_coord (pp_c st)) as [c1' coord] eqn:En.
          assert (Q2 : cv_prev_qlen c1' = cv_prev_qlen (pp_c st)) by (unfold next_coord in En; injection En as <- _; reflexivity).
          destruct (push_active _ c1') as [c2| |] eqn:Ep2; cbn [bind]; try discriminate.
          apply Hfin. rewrite (push_active_book _ _ _ Ep2), Q2. exact Q1.
      + cbn [bind]. apply Hfin. exact Q1.
    - cbn [bind]. apply Hfin. exact Q1.
  Qed.
End Book.

(* a tick that is not skipped remembers the length the queue has once the virtual-key events are gone *)
Theorem remembered_length_excludes_virtual_keys c dq layer c' dq' :
  drain_inputs c dq layer = Ok (c', dq') ->
  (0 <? cv_ignore c) = false ->
  ((0 <? cv_until_change c) && (cv_prev_layer c =? layer) && (cv_prev_qlen c =? N.of_nat (length (cv_queue c)))) = false ->
  exists q1 dq1, drain_virtual (cv_queue c) dq = Ok (q1, dq1) /\ cv_prev_qlen c' = N.of_nat (length q1).
Proof.
  unfold drain_inputs. intros E Hi Hs. rewrite Hi, Hs in E.
  destruct (drain_virtual (cv_queue c) dq) as [[q1 dq1]| |]; cbn [bind] in E; try discriminate.
  exists q1, dq1. split; [reflexivity|].
  match type of E with context [drain_releases q1 O ?a dq1] => destruct (drain_releases q1 O a dq1) as [[[q2 achs] dq2]| |] end;
    cbn [bind] in E; try discriminate.
  match type of E with context [process_presses ?x layer] => destruct (process_presses x layer) as [c2| |] eqn:Ep end;
    cbn [bind] in E; try discriminate.
  injection E as <- _. rewrite (process_presses_book layer _ _ Ep). reflexivity.
Qed.

(* not vacuous: the example of C09V2Exact activates a chord *)
From KV Require Import Proofs.C09V2Exact.
Example activation_example :
  exists c', process_presses ex_c 0 = Ok c' /\ (length (cv_active ex_c) < length (cv_active c'))%nat /\ cv_until_change c' = 0.
Proof. eexists. split; [vm_compute; reflexivity|]. split; [cbn; lia|reflexivity]. Qed.

(* virtual-key events (every row but 0), presses and releases alike, leave the chord queue at once and in their order; the physical
   events stay, in their order *)
Theorem virtual_key_events_leave_at_once : forall q dq q1 dq1,
  drain_virtual q dq = Ok (q1, dq1) ->
  q1 = filter (fun qd => fst (q_coord qd) =? 0) q /\ dq1 = dq ++ filter (fun qd => negb (fst (q_coord qd) =? 0)) q.
Proof.
  induction q as [|qd r IH]; intros dq q1 dq1 E; cbn [drain_virtual] in E.
  - injection E as <- <-. cbn [filter]. rewrite app_nil_r. split; reflexivity.
  - cbn [filter]. destruct (fst (q_coord qd) =? 0); cbn [negb].
    + destruct (drain_virtual r dq) as [[keep d]| |] eqn:E1; cbn [bind] in E; try discriminate.
      injection E as <- <-. destruct (IH _ _ _ E1) as [-> ->]. split; reflexivity.
    + destruct (Nat.ltb (length dq) SMOL_Q_LEN); [|discriminate].
      destruct (IH _ _ _ E) as [-> ->]. split; [reflexivity|]. rewrite <- app_assoc. reflexivity.
Qed.

(* clear_released_chords: every active chord whose status is Released leaves the list in this tick and its release event
   (Release of its virtual coordinate) is handed to the layout, in list order; no other chord is touched *)
Definition is_released (a : active_chord) : bool := match ac_status a with AReleased => true | _ => false end.
Definition release_event (a : active_chord) : queued := {| q_press := false; q_coord := (0, ac_coord a); q_since := 0 |}.

Lemma clear_fold : forall achs dq dq',
  fold_left (fun acc a =>
               dq0 <- acc ;;
               match ac_status a with
               | AReleased =>
                   if Nat.ltb (length dq0) SMOL_Q_LEN
                   then Ok (dq0 ++ [{| q_press := false; q_coord := (0, ac_coord a); q_since := 0 |}])
                   else Panic "chords v2: overflowed drain queue"
               | _ => Ok dq0
               end) achs (Ok dq) = Ok dq' ->
  dq' = dq ++ map release_event (filter is_released achs).
Proof.
  induction achs as [|a r IH]; intros dq dq' E; cbn [fold_left] in E.
  - injection E as <-. cbn. rewrite app_nil_r. reflexivity.
  - cbn [bind] in E. cbn [filter]. unfold is_released at 1.
    destruct (ac_status a) eqn:Es; try (cbn [map]; apply IH; exact E).
    destruct (Nat.ltb (length dq) SMOL_Q_LEN).
    + rewrite (IH _ _ E). cbn [map]. rewrite <- app_assoc. reflexivity.
    + exfalso. clear -E. induction r as [|b r IH]; cbn [fold_left] in E; [discriminate|]. cbn [bind] in E. apply IH. exact E.
Qed.

Theorem released_chords_are_cleared c layer c' dq' :
  tick_chv2 c layer = Ok (c', dq') ->
  Forall (fun a => is_released a = false) (cv_active c') /\
  exists c1 dq, cv_active c' = filter (fun a => negb (is_released a)) (cv_active c1) /\
                dq' = dq ++ map release_event (filter is_released (cv_active c1)).
Proof.
  unfold tick_chv2. intros E.
  match type of E with context [drain_inputs ?x [] layer] => destruct (drain_inputs x [] layer) as [[c1 dq0]| |] end;
    cbn [bind] in E; try discriminate.
  match type of E with (dq' <- fold_left ?f ?l (Ok ?d) ;; _) = _ => destruct (fold_left f l (Ok d)) as [dq1| |] eqn:Ef end;
    cbn [bind] in E; try discriminate.
  injection E as <- <-. cbn [cv_active set_cv_ignore set_cv_active].
  split.
  - apply Forall_forall. intros a Ha. apply filter_In in Ha. destruct Ha as [_ Ha]. unfold is_released. destruct (ac_status a); try reflexivity; discriminate.
  - eexists c1, _. split.
    + apply filter_ext. intros a. unfold is_released. destruct (ac_status a); reflexivity.
    + exact (clear_fold _ _ _ Ef).
Qed.

(* the release rule, last link: when the key released is the only one the chord still waits for, the chord is marked Released
   (if its action has been read by the layout) or UnreadReleased (if not yet: it is then released right after it has been read) *)
Theorem last_release_marks_the_chord_released j a :
  mem_n j (ac_keys a) = true -> (forall k, In k (ac_remaining a) -> k = j) ->
  ac_remaining (release_in_ach j a) = [] /\
  ac_status (release_in_ach j a) = match ac_status a with AUnread | AUnreadReleased => AUnreadReleased | _ => AReleased end.
Proof.
  intros Hm Hall. unfold release_in_ach. rewrite Hm. cbn [negb].
  assert (Hrem : filter (fun pk => negb (pk =? j)) (ac_remaining a) = []).
  { induction (ac_remaining a) as [|k r IH]; [reflexivity|]. cbn [filter].
    rewrite (Hall k (or_introl eq_refl)), N.eqb_refl. cbn [negb]. apply IH. intros k' Hk'. apply Hall. right. exact Hk'. }
  rewrite Hrem. cbn [ac_remaining ac_status]. split; reflexivity.
Qed.

(* "that chord's action is performed once": the layout reads the action of the first chord that has not been read yet; reading marks
   it read (Unread -> Releasable, UnreadReleased -> Released), so it is never handed out again; nothing else changes *)
Definition unread (a : active_chord) : bool := match ac_status a with AUnread | AUnreadReleased => true | _ => false end.
Definition mark_read (a : active_chord) : active_chord :=
  mkach (ac_coord a) (ac_remaining a) (ac_keys a) (ac_action a)
        (match ac_status a with AUnread => AReleasable | AUnreadReleased => AReleased | s => s end) (ac_delay a).

Theorem action_is_read_once : forall l,
  (forallb (fun a => negb (unread a)) l = true /\ get_action_go l = (l, None)) \/
  (exists pre a post, l = pre ++ a :: post /\ forallb (fun a => negb (unread a)) pre = true /\ unread a = true /\
     get_action_go l = (pre ++ mark_read a :: post, Some ((0, ac_coord a), ac_delay a, ac_action a)) /\ unread (mark_read a) = false).
Proof.
  induction l as [|a r IH].
  - left. split; reflexivity.
  - cbn [get_action_go]. destruct (ac_status a) eqn:Es.
    + right. exists [], a, r. unfold unread, mark_read. rewrite Es. cbn. repeat split.
    + right. exists [], a, r. unfold unread, mark_read. rewrite Es. cbn. repeat split.
    + destruct IH as [[Hall Hg]|(pre & b & post & -> & Hpre & Hb & Hg & Hm)].
      * left. rewrite Hg. cbn [forallb]. unfold unread at 1. rewrite Es. cbn [negb andb]. split; [exact Hall|reflexivity].
      * right. exists (a :: pre), b, post. rewrite Hg. cbn [forallb app]. unfold unread at 1. rewrite Es. cbn [negb andb].
        repeat split; assumption.
    + destruct IH as [[Hall Hg]|(pre & b & post & -> & Hpre & Hb & Hg & Hm)].
      * left. rewrite Hg. cbn [forallb]. unfold unread at 1. rewrite Es. cbn [negb andb]. split; [exact Hall|reflexivity].
      * right. exists (a :: pre), b, post. rewrite Hg. cbn [forallb app]. unfold unread at 1. rewrite Es. cbn [negb andb].
        repeat split; assumption.
Qed.
