(* C09, chords v2: whatever process_presses activates is a chord that is enabled on the active layer and whose key
   set is exactly (as a set) a prefix of the presses waiting in the queue -- the keys typed first, in whatever order
   they were typed: membership tests only, so the order of the presses inside the prefix cannot matter.
   The same invariant also yields that the keys taken out of the queue are that prefix. *)
From Coq Require Import Lia Permutation.
From KV Require Import Keyberon.ChordsV2.
Local Open Scope N_scope.

Lemma subset_n_snoc acc p ks : subset_n (acc ++ [p]) ks = subset_n acc ks && mem_n p ks.
Proof. unfold subset_n. rewrite forallb_app. cbn [forallb]. rewrite andb_true_r. reflexivity. Qed.

Lemma firstn_snoc {A} (pre : list A) x rest : firstn (S (length pre)) (pre ++ x :: rest) = pre ++ [x].
Proof. induction pre as [|a pre IH]; [reflexivity|]. cbn [length app firstn]. f_equal. exact IH. Qed.
Lemma firstn_pre {A} (pre rest : list A) : firstn (length pre) (pre ++ rest) = pre.
Proof. induction pre as [|a pre IH]; [destruct rest; reflexivity|]. cbn [length app firstn]. f_equal. exact IH. Qed.

Section Exact.
  Variable chords0 : list chordv2.
  Variable old : list active_chord.
  Variable layer : N.
  Variable all : list N.          (* the presses found in the queue, oldest first *)

  Definition exact_ach (a : active_chord) : Prop :=
    In a old \/
    exists ch since coord rf n, In ch chords0 /\ enabled_on layer ch = true /\
                                same_keys ch (firstn n all) = true /\ a = get_active_chord ch since coord rf.
  Definition exact_c (c : chv2) : Prop := cv_chords c = chords0 /\ Forall exact_ach (cv_active c).

  Lemma push_active_exact c c' ch since coord rf n :
    exact_c c -> In ch chords0 -> enabled_on layer ch = true -> same_keys ch (firstn n all) = true ->
    push_active (get_active_chord ch since coord rf) c = Ok c' -> exact_c c'.
  Proof.
    intros [Hc Ha] Hin Hen Hs. unfold push_active. destruct (Nat.ltb _ _); intros E; injection E as <-; [|split; assumption].
    split; [exact Hc|]. cbn [set_cv_active cv_active]. apply Forall_app. split; [exact Ha|].
    constructor; [|constructor]. right. exists ch, since, coord, rf, n. auto.
  Qed.

  (* candidates: possible, enabled, and containing every key accumulated so far *)
  Definition cands_in (possible : list chordv2) (acc : list N) (cands : list chordv2) : Prop :=
    Forall (fun ch => In ch possible /\ enabled_on layer ch = true /\ subset_n acc (c2_keys ch) = true) cands.

  Definition pinv (possible : list chordv2) (pre : list N) (st : pp_state) : Prop :=
    exact_c (pp_c st) /\
    (exists n, pp_acc st = firstn n all) /\
    cands_in possible (pp_acc st) (pp_cands st) /\
    (pp_done st = false -> pp_acc st = pre).

  Lemma push16_fold_in' (matching : list chordv2) : forall acc x,
    In x (fold_left (fun l ch => push16 ch l) matching acc) -> In x acc \/ In x matching.
  Proof.
    induction matching as [|m r IH]; intros acc x H; [left; exact H|]. cbn [fold_left] in H.
    destruct (IH _ _ H) as [H1|H1]; [|right; right; exact H1].
    unfold push16 in H1. destruct (Nat.ltb _ _); [|left; exact H1].
    apply in_app_or in H1. destruct H1 as [H1|[<-|[]]]; [left; exact H1|right; left; reflexivity].
  Qed.

  Lemma pp_step_exact possible since rf pre press rest st st' :
    (forall ch, In ch possible -> In ch chords0) ->
    all = pre ++ press :: rest ->
    pinv possible pre st ->
    pp_step possible layer since rf st press = Ok st' ->
    pinv possible (pre ++ [press]) st'.
  Proof.
    intros Hsub Hall (Hg & Hn & Hc & Hnd). unfold pp_step. destruct (pp_done st) eqn:Ed.
    { intros E. injection E as <-. split; [exact Hg|]. split; [exact Hn|]. split; [exact Hc|]. intros X. congruence. }
    pose proof (Hnd eq_refl) as Hacc. clear Hnd. rewrite Hacc in *.
    set (acc := pre ++ [press]).
    assert (Hpre : pre = firstn (length pre) all) by (rewrite Hall; symmetry; apply firstn_pre).
    assert (Haccn : acc = firstn (S (length pre)) all) by (rewrite Hall; symmetry; apply firstn_snoc).
    set (reuse := match pp_prev_count st with Some n => Nat.eqb n (length (pp_cands st)) | None => false end).
    assert (Hcands : forall cands count mt,
              (if reuse then let cs := filter (fun chc => mem_n press (c2_keys chc)) (pp_cands st) in (cs, length cs, min_pending cs 65535)
               else let matching := filter (fun pch => enabled_on layer pch && subset_n acc (c2_keys pch)) possible in
                    (fold_left (fun l ch => push16 ch l) matching [], length matching, min_pending matching 65535)) = (cands, count, mt) ->
              cands_in possible acc cands).
    { intros cands count mt E. destruct reuse.
      - injection E as <- _ _. apply Forall_forall. intros x Hx. apply filter_In in Hx. destruct Hx as [Hx Hm].
        destruct (proj1 (Forall_forall _ _) Hc x Hx) as (H1 & H2 & H3). split; [exact H1|]. split; [exact H2|].
        unfold acc. rewrite subset_n_snoc, H3, Hm. reflexivity.
      - injection E as <- _ _. apply Forall_forall. intros x Hx. destruct (push16_fold_in' _ _ _ Hx) as [[]|Hx'].
        apply filter_In in Hx'. destruct Hx' as [Hp Hf]. apply andb_prop in Hf. destruct Hf as [Hf1 Hf2]. auto. }
    destruct (if reuse then _ else _) as [[cands count] mt] eqn:E. specialize (Hcands _ _ _ eq_refl).
    destruct count as [|[|n]].
    - (* no candidate left: the keys before this one *)
      assert (Hrl : removelast acc = pre) by (unfold acc; apply removelast_last). rewrite Hrl.
      destruct (find _ possible) as [cch|] eqn:Ef.
      + apply find_some in Ef. destruct Ef as [Hin Hen]. apply andb_prop in Hen. destruct Hen as [Hen Hsame].
        destruct (next_coord (pp_c st)) as [c1 coord] eqn:En.
        destruct (push_active _ c1) as [c2| |] eqn:Ep; cbn [bind]; try discriminate.
        intros X. injection X as <-. split; [|split; [|split]].
        * cbn [pp_c]. eapply push_active_exact; [| |exact Hen| |exact Ep].
          -- assert (G : exact_c (fst (next_coord (pp_c st)))) by exact Hg. rewrite En in G. exact G.
          -- apply Hsub. exact Hin.
          -- rewrite <- Hpre. exact Hsame.
        * cbn [pp_acc]. exists (length pre). exact Hpre.
        * constructor.
        * cbn [pp_done]. discriminate.
      + intros X. injection X as <-. split; [exact Hg|]. split; [exists (length pre); exact Hpre|].
        split; [constructor|]. cbn [pp_done]. discriminate.
    - (* exactly one candidate *)
      destruct (next_coord (pp_c st)) as [c1 coord] eqn:En.
      assert (G1 : exact_c c1).
      { assert (G : exact_c (fst (next_coord (pp_c st)))) by exact Hg. rewrite En in G. exact G. }
      destruct cands as [|cch crest]; [discriminate|].
      pose proof (Forall_inv Hcands) as (Hin & Hen & Hsb).
      destruct (subset_n (c2_keys cch) acc) eqn:Esub.
      + destruct (push_active _ c1) as [c2| |] eqn:Ep; cbn [bind]; try discriminate.
        intros X. injection X as <-. split; [|split; [|split]].
        * cbn [pp_c]. eapply push_active_exact; [exact G1| |exact Hen| |exact Ep]; [apply Hsub; exact Hin|].
          rewrite <- Haccn. unfold same_keys. rewrite Hsb, Esub. reflexivity.
        * cbn [pp_acc]. exists (S (length pre)). exact Haccn.
        * exact Hcands.
        * cbn [pp_done]. discriminate.
      + intros X. injection X as <-. split; [exact G1|]. split; [exists (S (length pre)); exact Haccn|].
        split; [exact Hcands|]. intros _. reflexivity.
    - intros X. injection X as <-. split; [exact Hg|]. split; [exists (S (length pre)); exact Haccn|].
      split; [exact Hcands|]. intros _. reflexivity.
  Qed.

  Lemma pp_loop_exact possible since rf : forall presses pre st st',
    (forall ch, In ch possible -> In ch chords0) ->
    all = pre ++ presses ->
    pinv possible pre st ->
    pp_loop possible layer since rf st presses = Ok st' ->
    pinv possible all st'.
  Proof.
    induction presses as [|p r IH]; intros pre st st' Hsub Hall Hi E.
    - injection E as <-. rewrite app_nil_r in Hall. rewrite Hall. exact Hi.
    - cbn [pp_loop] in E. destruct (pp_step possible layer since rf st p) as [st1| |] eqn:E1; cbn [bind] in E; try discriminate.
      pose proof (pp_step_exact _ _ _ _ _ _ _ _ Hsub Hall Hi E1) as H1.
      eapply (IH (pre ++ [p])); [exact Hsub| |exact H1|exact E]. rewrite <- app_assoc. exact Hall.
  Qed.

  (* the loop never touches the queue *)
  Lemma push_active_queue a c c' : push_active a c = Ok c' -> cv_queue c' = cv_queue c.
  Proof. unfold push_active. destruct (Nat.ltb _ _); intros E; injection E as <-; reflexivity. Qed.

  Lemma pp_step_queue possible since rf st press st' :
    pp_step possible layer since rf st press = Ok st' -> cv_queue (pp_c st') = cv_queue (pp_c st).
  Proof.
    unfold pp_step. destruct (pp_done st); [intros E; injection E as <-; reflexivity|].
    destruct (if match pp_prev_count st with Some n => Nat.eqb n (length (pp_cands st)) | None => false end then _ else _)
      as [[cands count] mt].
    destruct count as [|[|n]].
    - destruct (find _ possible) as [cch|].
      + destruct (next_coord (pp_c st)) as [c1 coord] eqn:En.
        assert (Q1 : cv_queue c1 = cv_queue (pp_c st)) by (unfold next_coord in En; injection En as <- _; reflexivity).
        destruct (push_active _ c1) as [c2| |] eqn:Ep; cbn [bind]; try discriminate.
        intros X. injection X as <-. cbn [pp_c]. rewrite (push_active_queue _ _ _ Ep). exact Q1.
      + intros X. injection X as <-. reflexivity.
    - destruct (next_coord (pp_c st)) as [c1 coord] eqn:En.
      assert (Q1 : cv_queue c1 = cv_queue (pp_c st)) by (unfold next_coord in En; injection En as <- _; reflexivity).
      destruct cands as [|cch crest]; [discriminate|].
      destruct (subset_n _ _).
      + destruct (push_active _ c1) as [c2| |] eqn:Ep; cbn [bind]; try discriminate.
        intros X. injection X as <-. cbn [pp_c]. rewrite (push_active_queue _ _ _ Ep). exact Q1.
      + intros X. injection X as <-. exact Q1.
    - intros X. injection X as <-. reflexivity.
  Qed.

  Lemma pp_loop_queue possible since rf : forall presses st st',
    pp_loop possible layer since rf st presses = Ok st' -> cv_queue (pp_c st') = cv_queue (pp_c st).
  Proof.
    induction presses as [|p r IH]; intros st st' E; [injection E as <-; reflexivity|].
    cbn [pp_loop] in E. destruct (pp_step possible layer since rf st p) as [st1| |] eqn:E1; cbn [bind] in E; try discriminate.
    rewrite (IH _ _ E). exact (pp_step_queue _ _ _ _ _ _ E1).
  Qed.

  (* what is taken out of the queue: nothing, or the presses of a prefix of the keys typed *)
  Definition consumed_prefix (c c' : chv2) : Prop :=
    cv_queue c' = cv_queue c \/
    exists n, cv_queue c' = filter (fun qd => negb (q_press qd && mem_n (snd (q_coord qd)) (firstn n all))) (cv_queue c).

  Theorem process_presses_exact c c' rf :
    scan_presses (cv_queue c) [] = Ok (all, rf) ->
    exact_c c -> process_presses c layer = Ok c' -> exact_c c' /\ consumed_prefix c c'.
  Proof.
    intros Es Hg. unfold process_presses. rewrite Es. cbn [bind].
    destruct all as [|start rest] eqn:Eall; [intros E; injection E as <-; split; [exact Hg|left; reflexivity]|]. rewrite <- Eall in *.
    set (possible := filter (fun ch => mem_n start (c2_keys ch)) (cv_chords c)).
    assert (Hsub : forall ch, In ch possible -> In ch chords0).
    { intros ch H. apply filter_In in H. destruct Hg as [Hc _]. rewrite <- Hc. apply H. }
    destruct possible as [|p0 ps] eqn:Ep; [intros E; injection E as <-; split; [exact Hg|left; reflexivity]|].
    rewrite <- Ep in *.
    assert (Hi0 : pinv possible [] (mkpp c [] [] None false)).
    { split; [exact Hg|]. split; [exists 0%nat; reflexivity|]. split; [constructor|]. intros _. reflexivity. }
    destruct (pp_loop possible layer _ rf (mkpp c [] [] None false) all) as [st| |] eqn:El; cbn [bind]; try discriminate.
    destruct (pp_loop_exact possible _ rf all [] _ st Hsub eq_refl Hi0 El) as (G1 & [n Hn] & Hc & Hnd).
    pose proof (pp_loop_queue _ _ _ _ _ _ El) as Q1. cbn [pp_c] in Q1.
    assert (Hfin : forall c2 (b : bool), exact_c c2 -> cv_queue c2 = cv_queue c ->
              (if b then Ok (set_cv_queue (filter (fun qd => negb (q_press qd && mem_n (snd (q_coord qd)) (pp_acc st))) (cv_queue c2)) (set_cv_until 0 c2))
               else Ok c2) = Ok c' -> exact_c c' /\ consumed_prefix c c').
    { intros c2 b G Q X. destruct b; injection X as <-; (split; [exact G|]).
      - right. exists n. cbn [set_cv_queue set_cv_until cv_queue]. rewrite Q, Hn. reflexivity.
      - left. exact Q. }
    destruct ((cv_until_change (pp_c st) =? 0) || rf).
    - destruct (find _ _) as [cch|] eqn:Ef.
      + destruct (Nat.ltb (length (cv_active c)) (length (cv_active (pp_c st)))) eqn:El2.
        * cbn [bind]. apply Hfin; [exact G1|exact Q1].
        * apply find_some in Ef. destruct Ef as [Hin Hen]. apply andb_prop in Hen. destruct Hen as [Hen Hsame].
          destruct (next_coord (pp_c st)) as [c1' coord] eqn:En.
          destruct (push_active _ c1') as [c2| |] eqn:Ep2; cbn [bind]; try discriminate.
          assert (Q2 : cv_queue c1' = cv_queue c) by (unfold next_coord in En; injection En as <- _; exact Q1).
          apply Hfin; [|rewrite (push_active_queue _ _ _ Ep2); exact Q2].
          eapply push_active_exact; [| |exact Hen| |exact Ep2].
          -- assert (G : exact_c (fst (next_coord (pp_c st)))) by exact G1. rewrite En in G. exact G.
          -- destruct (Nat.eqb _ _); [apply Hsub; exact Hin|].
             apply Hsub. exact (proj1 (proj1 (Forall_forall _ _) Hc cch Hin)).
          -- rewrite <- Hn. exact Hsame.
      + cbn [bind]. apply Hfin; [exact G1|exact Q1].
    - cbn [bind]. apply Hfin; [exact G1|exact Q1].
  Qed.
End Exact.

(* the statement without the section bookkeeping: every chord that process_presses adds to the active chords is enabled on
   the active layer and its key set is, as a set, exactly the first n keys typed (for some n); the presses taken out of the
   queue are those of such a prefix; nothing else about the order of the presses enters *)
Theorem activation_is_exact_prefix c layer presses rf c' :
  scan_presses (cv_queue c) [] = Ok (presses, rf) ->
  process_presses c layer = Ok c' ->
  (forall a, In a (cv_active c') ->
     In a (cv_active c) \/
     exists ch since coord rf' n, In ch (cv_chords c) /\ enabled_on layer ch = true /\
       same_keys ch (firstn n presses) = true /\ a = get_active_chord ch since coord rf') /\
  (cv_queue c' = cv_queue c \/
   exists n, cv_queue c' = filter (fun qd => negb (q_press qd && mem_n (snd (q_coord qd)) (firstn n presses))) (cv_queue c)).
Proof.
  intros Es E.
  assert (G : exact_c (cv_chords c) (cv_active c) layer presses c).
  { split; [reflexivity|]. apply Forall_forall. intros x Hx. left. exact Hx. }
  destruct (process_presses_exact _ _ _ _ _ _ _ Es G E) as [[_ Ha] Hq].
  split; [|exact Hq]. intros a Hin. exact (proj1 (Forall_forall _ _) Ha a Hin).
Qed.

(* same_keys is a statement about sets: any reordering of the typed prefix gives the same verdict *)
Lemma mem_n_perm k l l' : Permutation l l' -> mem_n k l = mem_n k l'.
Proof.
  intros P. induction P as [|x l l' P IH|x y l|l l' l'' P1 IH1 P2 IH2]; cbn [mem_n existsb] in *.
  - reflexivity.
  - unfold mem_n in IH. rewrite IH. reflexivity.
  - destruct (k =? y), (k =? x); reflexivity.
  - congruence.
Qed.
Lemma subset_n_perm_l a a' b : Permutation a a' -> subset_n a b = subset_n a' b.
Proof.
  intros P. induction P as [|x l l' P IH|x y l|l l' l'' P1 IH1 P2 IH2]; cbn [subset_n forallb] in *.
  - reflexivity.
  - unfold subset_n in IH. rewrite IH. reflexivity.
  - destruct (mem_n y b), (mem_n x b); reflexivity.
  - congruence.
Qed.
Lemma subset_n_perm_r a b b' : Permutation b b' -> subset_n a b = subset_n a b'.
Proof.
  intros P. unfold subset_n. induction a as [|x a IH]; [reflexivity|]. cbn [forallb]. rewrite IH, (mem_n_perm x _ _ P). reflexivity.
Qed.
Theorem same_keys_any_order ch typed typed' :
  Permutation typed typed' -> same_keys ch typed = same_keys ch typed'.
Proof.
  intros P. unfold same_keys. rewrite (subset_n_perm_l _ _ _ P), (subset_n_perm_r _ _ _ P). reflexivity.
Qed.

(* not vacuous: keys 2 then 1 typed for the chord {1,2} (a longer chord {1,2,3} exists too), then 2 released:
   the chord is activated although it was typed in the other order, and exactly its two presses leave the queue *)
Definition ex_chords : list chordv2 :=
  [mkchord2 (KeyCode 30) [1; 2] 50 [] false; mkchord2 (KeyCode 31) [1; 2; 3] 50 [] false; mkchord2 (KeyCode 32) [4; 5] 50 [7] false].
Definition ex_c : chv2 :=
  set_cv_queue [{| q_press := true; q_coord := (0, 2); q_since := 3 |}; {| q_press := true; q_coord := (0, 1); q_since := 2 |};
                {| q_press := false; q_coord := (0, 2); q_since := 0 |}] (chv2_init ex_chords 0).
Example exact_not_vacuous :
  scan_presses (cv_queue ex_c) [] = Ok ([2; 1], true) /\
  exists c', process_presses ex_c 0 = Ok c' /\
    map ac_action (cv_active c') = [KeyCode 30] /\ map q_press (cv_queue c') = [false].
Proof. split; [reflexivity|]. eexists. split; [vm_compute; reflexivity|]. split; reflexivity. Qed.
