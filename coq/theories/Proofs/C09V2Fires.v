(* C09, chords v2, the other direction of C09V2Exact: when the presses waiting in the queue are exactly the keys of a chord
   that is enabled on the active layer -- in whatever order they were typed -- process_presses does not fail and either
   activates a chord with exactly that key set, or (only while a longer chord can still be completed: no participant
   released yet and a timeout still running) leaves the active chords as they are. *)
From Coq Require Import Lia.
From KV Require Import Keyberon.ChordsV2 Proofs.C09V2Exact.
Local Open Scope N_scope.

Lemma fold_push16 (m : list chordv2) : forall acc,
  fold_left (fun l ch => push16 ch l) m acc = acc ++ firstn (16 - length acc) m.
Proof.
  induction m as [|x m IH]; intros acc; cbn [fold_left].
  - rewrite firstn_nil, app_nil_r. reflexivity.
  - rewrite IH. unfold push16, SMOL_Q_LEN. destruct (Nat.ltb_spec (length acc) 16) as [Hl|Hl].
    + rewrite app_length. cbn [length]. replace (16 - length acc)%nat with (S (16 - (length acc + 1)))%nat by lia.
      cbn [firstn]. rewrite <- app_assoc. reflexivity.
    + replace (16 - length acc)%nat with 0%nat by lia. reflexivity.
Qed.

Lemma filter_len_le {A} (f : A -> bool) l : (length (filter f l) <= length l)%nat.
Proof. induction l as [|x l IH]; [apply le_n|]. cbn [filter]. destruct (f x); cbn [length]; lia. Qed.

Lemma in_firstn_in {A} k (l : list A) x : In x (firstn k l) -> In x l.
Proof. revert l. induction k as [|k IH]; intros [|y l] H; try destruct H; [left; assumption|right; apply IH; assumption]. Qed.

Lemma firstn_len_eq {A} k (l : list A) : length (firstn k l) = length l -> firstn k l = l.
Proof. intros H. rewrite firstn_length in H. apply firstn_all2. lia. Qed.

Lemma find_exists {A} (f : A -> bool) l x : In x l -> f x = true -> exists y, find f l = Some y.
Proof.
  intros Hin Hf. destruct (find f l) as [y|] eqn:E; [exists y; reflexivity|].
  pose proof (find_none f l E x Hin) as H. congruence.
Qed.

Lemma mem_n_in k l : mem_n k l = true <-> In k l.
Proof.
  unfold mem_n. rewrite existsb_exists. split.
  - intros [x [Hx He]]. apply N.eqb_eq in He. subst. exact Hx.
  - intros H. exists k. split; [exact H|apply N.eqb_refl].
Qed.
Lemma subset_n_in a b : subset_n a b = true <-> (forall x, In x a -> In x b).
Proof.
  unfold subset_n. rewrite forallb_forall. split; intros H x Hx; [apply mem_n_in, H, Hx|apply mem_n_in, H, Hx].
Qed.

Lemma M_snoc_gen layer (poss : list chordv2) pre press :
  filter (fun chc => mem_n press (c2_keys chc)) (filter (fun pch => enabled_on layer pch && subset_n pre (c2_keys pch)) poss) =
  filter (fun pch => enabled_on layer pch && subset_n (pre ++ [press]) (c2_keys pch)) poss.
Proof.
  induction poss as [|x l IH]; [reflexivity|]. cbn [filter].
  rewrite subset_n_snoc. destruct (enabled_on layer x); cbn [andb]; [|exact IH].
  destruct (subset_n pre (c2_keys x)); cbn [andb]; [|exact IH].
  cbn [filter]. destruct (mem_n press (c2_keys x)); [f_equal; exact IH|exact IH].
Qed.

Section Fires.
  Variable layer : N.
  Variable all : list N.
  Variable ch : chordv2.
  Variable possible : list chordv2.
  Variable active0 : list active_chord.
  Variable since : N.
  Variable rf : bool.
  Hypothesis Hposs : In ch possible.
  Hypothesis Hen : enabled_on layer ch = true.
  Hypothesis Hsame : same_keys ch all = true.
  Hypothesis Hnd : NoDup all.
  Hypothesis Hroom : (length active0 < 10)%nat.

  Definition M (acc : list N) : list chordv2 :=
    filter (fun pch => enabled_on layer pch && subset_n acc (c2_keys pch)) possible.

  Lemma all_sub : subset_n all (c2_keys ch) = true /\ subset_n (c2_keys ch) all = true.
  Proof. unfold same_keys in Hsame. apply andb_prop in Hsame. exact Hsame. Qed.

  Lemma prefix_sub pre rest : all = pre ++ rest -> subset_n pre (c2_keys ch) = true.
  Proof.
    intros E. apply subset_n_in. intros x Hx. apply (proj1 (subset_n_in _ _) (proj1 all_sub)).
    rewrite E. apply in_or_app. left. exact Hx.
  Qed.

  Lemma strict_prefix_not_complete pre y rest : all = pre ++ y :: rest -> subset_n (c2_keys ch) pre = false.
  Proof.
    intros E. destruct (subset_n (c2_keys ch) pre) eqn:Es; [|reflexivity]. exfalso.
    assert (Hy : In y (c2_keys ch)).
    { apply (proj1 (subset_n_in _ _) (proj1 all_sub)). rewrite E. apply in_or_app. right. left. reflexivity. }
    pose proof (proj1 (subset_n_in _ _) Es y Hy) as Hp.
    rewrite E in Hnd. apply NoDup_remove_2 in Hnd. apply Hnd. apply in_or_app. left. exact Hp.
  Qed.

  Lemma ch_in_M pre rest : all = pre ++ rest -> In ch (M pre).
  Proof. intros E. apply filter_In. split; [exact Hposs|]. rewrite Hen, (prefix_sub _ _ E). reflexivity. Qed.

  Lemma M_snoc pre press : filter (fun chc => mem_n press (c2_keys chc)) (M pre) = M (pre ++ [press]).
  Proof. apply M_snoc_gen. Qed.

  Lemma M_len_16 acc : (length (firstn 16 (M acc)) <= 16)%nat.
  Proof. rewrite firstn_length. lia. Qed.

  (* the loop state before anything was activated *)
  Definition J (pre : list N) (st : pp_state) : Prop :=
    pp_done st = false /\ pp_acc st = pre /\ cv_active (pp_c st) = active0 /\
    match pp_prev_count st with
    | None => pre = []
    | Some n => n = length (M pre) /\ pp_cands st = firstn 16 (M pre)
    end.
  (* the loop state after the chord was activated by the loop *)
  Definition Fired (st : pp_state) : Prop :=
    pp_done st = true /\ pp_acc st = all /\
    exists coord, cv_active (pp_c st) = active0 ++ [get_active_chord ch since coord rf].

  Lemma next_coord_active c : cv_active (fst (next_coord c)) = cv_active c.
  Proof. reflexivity. Qed.

  Lemma pp_step_fires pre press rest st :
    all = pre ++ press :: rest -> J pre st ->
    exists st', pp_step possible layer since rf st press = Ok st' /\
                ((rest <> [] /\ J (pre ++ [press]) st') \/ (rest = [] /\ (J all st' \/ Fired st'))).
  Proof.
    intros Hall (Hd & Hacc & Hact & Hpc). unfold pp_step. rewrite Hd, Hacc.
    set (acc := pre ++ [press]).
    assert (Hall' : all = acc ++ rest) by (unfold acc; rewrite <- app_assoc; exact Hall).
    set (reuse := match pp_prev_count st with Some n => Nat.eqb n (length (pp_cands st)) | None => false end).
    assert (Hcc : forall cands count mt,
              (if reuse then let cs := filter (fun chc => mem_n press (c2_keys chc)) (pp_cands st) in (cs, length cs, min_pending cs 65535)
               else let matching := filter (fun pch => enabled_on layer pch && subset_n acc (c2_keys pch)) possible in
                    (fold_left (fun l ch => push16 ch l) matching [], length matching, min_pending matching 65535)) = (cands, count, mt) ->
              cands = firstn 16 (M acc) /\ count = length (M acc)).
    { intros cands count mt E. unfold reuse in E. destruct (pp_prev_count st) as [n|] eqn:Epc.
      - destruct Hpc as [Hn Hc]. destruct (Nat.eqb_spec n (length (pp_cands st))) as [Hr|Hr].
        + (* the candidate list is complete: filtering it is the same as starting over *)
          assert (Hfull : pp_cands st = M pre).
          { rewrite Hc. apply firstn_len_eq. rewrite <- Hc, <- Hr. exact Hn. }
          rewrite Hfull, M_snoc in E. fold acc in E. injection E as <- <- _.
          assert (Hle : (length (M acc) <= 16)%nat).
          { unfold acc. rewrite <- M_snoc. etransitivity; [apply filter_len_le|].
            rewrite <- Hfull, Hc. apply M_len_16. }
          split; [symmetry; apply firstn_all2; exact Hle|reflexivity].
        + injection E as <- <- _. rewrite fold_push16. cbn [app length]. split; reflexivity.
      - injection E as <- <- _. rewrite fold_push16. cbn [app length]. split; reflexivity. }
    destruct (if reuse then _ else _) as [[cands count] mt] eqn:E. destruct (Hcc _ _ _ eq_refl) as [Hcands Hcount].
    pose proof (ch_in_M acc rest Hall') as HchM.
    assert (Jnext : forall c1 n, cv_active c1 = active0 -> n = length (M acc) ->
              J acc (mkpp c1 acc cands (Some n) false)).
    { intros c1 n Ha Hn. split; [reflexivity|]. split; [reflexivity|]. split; [exact Ha|]. cbn [pp_prev_count pp_cands].
      split; [exact Hn|exact Hcands]. }
    destruct count as [|[|n]].
    - (* impossible: the chord itself is a candidate *)
      exfalso. destruct (M acc); [destruct HchM|discriminate].
    - (* the chord is the only candidate *)
      assert (HM : M acc = [ch]).
      { destruct (M acc) as [|m [|m2 ms]]; try discriminate. destruct HchM as [->|[]]. reflexivity. }
      rewrite HM in Hcands. cbn [firstn] in Hcands. subst cands.
      destruct (next_coord (pp_c st)) as [c1 coord] eqn:En.
      assert (Ha1 : cv_active c1 = active0).
      { pose proof (next_coord_active (pp_c st)) as X. rewrite En in X. cbn [fst] in X. rewrite X. exact Hact. }
      destruct rest as [|r1 rest'].
      + (* the last key: complete *)
        assert (Eacc : acc = all) by (rewrite Hall', app_nil_r; reflexivity).
        rewrite Eacc, (proj2 all_sub).
        unfold push_active. rewrite Ha1. destruct (Nat.ltb_spec (length active0) 10) as [_|Hc]; [|lia].
        cbn [bind]. eexists. split; [reflexivity|]. right. split; [reflexivity|]. right.
        split; [reflexivity|]. split; [reflexivity|]. exists coord. cbn [pp_c set_cv_active cv_active]. rewrite ?Ha1. reflexivity.
      + rewrite (strict_prefix_not_complete acc r1 rest' Hall').
        eexists. split; [reflexivity|]. left. split; [discriminate|]. apply Jnext; [exact Ha1|exact Hcount].
    - (* several candidates: wait for more keys *)
      eexists. split; [reflexivity|].
      assert (Jn : J acc (mkpp (set_cv_until (mt - since) (pp_c st)) acc cands (Some (S (S n))) false)) by (apply Jnext; [exact Hact|exact Hcount]).
      destruct rest as [|r1 rest'].
      + right. split; [reflexivity|]. left. rewrite Hall', app_nil_r. exact Jn.
      + left. split; [discriminate|]. exact Jn.
  Qed.

  Lemma pp_loop_fires : forall presses pre st,
    presses <> [] -> all = pre ++ presses -> J pre st ->
    exists st', pp_loop possible layer since rf st presses = Ok st' /\ (J all st' \/ Fired st').
  Proof.
    induction presses as [|p r IH]; intros pre st Hne Hall Hj; [congruence|].
    cbn [pp_loop]. destruct (pp_step_fires pre p r st Hall Hj) as (st1 & E1 & Hcase). rewrite E1. cbn [bind].
    destruct Hcase as [[Hr Hj1]|[Hr Hfin]].
    - apply (IH (pre ++ [p]) st1 Hr); [rewrite <- app_assoc; exact Hall|exact Hj1].
    - subst r. cbn [pp_loop]. exists st1. split; [reflexivity|exact Hfin].
  Qed.
End Fires.

(* the statement without the section bookkeeping *)
Theorem exact_set_fires_or_waits c layer presses rf ch :
  scan_presses (cv_queue c) [] = Ok (presses, rf) ->
  presses <> [] -> NoDup presses ->
  In ch (cv_chords c) -> enabled_on layer ch = true -> same_keys ch presses = true ->
  (length (cv_active c) < 10)%nat ->
  exists c', process_presses c layer = Ok c' /\
    ((exists cch since coord rf',
        cv_active c' = cv_active c ++ [get_active_chord cch since coord rf'] /\
        In cch (cv_chords c) /\ enabled_on layer cch = true /\ same_keys cch presses = true)
     \/ (cv_active c' = cv_active c /\ rf = false /\ cv_until_change c' <> 0)).
Proof.
  intros Es Hne Hnd Hin Hen Hsame Hroom. unfold process_presses. rewrite Es. cbn [bind].
  destruct presses as [|start rest] eqn:Ep; [congruence|]. rewrite <- Ep in *.
  set (possible := filter (fun ch0 => mem_n start (c2_keys ch0)) (cv_chords c)).
  assert (Hposs : In ch possible).
  { apply filter_In. split; [exact Hin|]. apply mem_n_in.
    unfold same_keys in Hsame. apply andb_prop in Hsame. apply (proj1 (subset_n_in _ _) (proj1 Hsame)).
    rewrite Ep. left. reflexivity. }
  assert (Hsub : forall x, In x possible -> In x (cv_chords c)) by (intros x Hx; apply filter_In in Hx; apply Hx).
  destruct possible as [|p0 ps] eqn:Eposs; [destruct Hposs|]. rewrite <- Eposs in *.
  set (since := match cv_queue c with qd :: _ => q_since qd | [] => 0 end).
  assert (J0 : J layer possible (cv_active c) [] (mkpp c [] [] None false)).
  { split; [reflexivity|]. split; [reflexivity|]. split; [reflexivity|]. reflexivity. }
  destruct (pp_loop_fires layer presses ch possible (cv_active c) since rf Hposs Hen Hsame Hnd Hroom presses [] _ Hne eq_refl J0)
    as (st & El & Hcase).
  rewrite El. cbn [bind].
  assert (Hfin : forall c2 (b : bool) q (P : chv2 -> Prop), P c2 -> (forall q', P (set_cv_queue q' (set_cv_until 0 c2))) ->
            exists c', (if b then Ok (set_cv_queue q (set_cv_until 0 c2)) else Ok c2) = Ok c' /\ P c').
  { intros c2 b q P H1 H2. destruct b; eexists; (split; [reflexivity|]); [apply H2|exact H1]. }
  destruct Hcase as [(Hd & Hacc & Hact & Hpc)|(Hd & Hacc & coord & Hact)].
  - (* the loop did not activate anything *)
    destruct ((cv_until_change (pp_c st) =? 0) || rf) eqn:Ego.
    + assert (Hpool : In ch (if Nat.eqb (length (pp_cands st)) SMOL_Q_LEN then possible else pp_cands st)).
      { destruct (Nat.eqb_spec (length (pp_cands st)) SMOL_Q_LEN) as [H16|H16]; [exact Hposs|].
        destruct (pp_prev_count st) as [n|]; [|congruence]. destruct Hpc as [Hn Hc]. rewrite Hc in *.
        assert (Hall : firstn 16 (M layer possible presses) = M layer possible presses).
        { apply firstn_all2. rewrite firstn_length in H16. unfold SMOL_Q_LEN in H16. lia. }
        rewrite Hall. apply (ch_in_M layer presses ch possible Hposs Hen Hsame presses []). rewrite app_nil_r. reflexivity. }
      rewrite Hacc.
      destruct (find_exists (fun pch => enabled_on layer pch && same_keys pch presses) _ ch Hpool) as [cch Ef];
        [rewrite Hen, Hsame; reflexivity|].
      rewrite Ef. rewrite Hact. rewrite Nat.ltb_irrefl.
      apply find_some in Ef. destruct Ef as [Hcin Hcp]. apply andb_prop in Hcp. destruct Hcp as [Hcen Hcsame].
      destruct (next_coord (pp_c st)) as [c1' coord] eqn:En.
      assert (Ha1 : cv_active c1' = cv_active c).
      { pose proof (next_coord_active (pp_c st)) as X. rewrite En in X. cbn [fst] in X. rewrite X. exact Hact. }
      unfold push_active. rewrite Ha1. destruct (Nat.ltb_spec (length (cv_active c)) 10) as [_|Hc]; [|lia]. cbn [bind].
      apply Hfin.
      * left. exists cch, since, coord, rf. cbn [set_cv_active cv_active]. rewrite ?Ha1. split; [reflexivity|].
        split; [|split; [exact Hcen|exact Hcsame]].
        destruct (Nat.eqb (length (pp_cands st)) SMOL_Q_LEN); [apply Hsub; exact Hcin|].
        destruct (pp_prev_count st) as [n|]; [|congruence]. destruct Hpc as [_ Hc]. rewrite Hc in Hcin.
        apply Hsub. apply in_firstn_in in Hcin. apply filter_In in Hcin. apply Hcin.
      * intros q'. left. exists cch, since, coord, rf. cbn [set_cv_queue set_cv_until set_cv_active cv_active]. rewrite ?Ha1. split; [reflexivity|].
        split; [|split; [exact Hcen|exact Hcsame]].
        destruct (Nat.eqb (length (pp_cands st)) SMOL_Q_LEN); [apply Hsub; exact Hcin|].
        destruct (pp_prev_count st) as [n|]; [|congruence]. destruct Hpc as [_ Hc]. rewrite Hc in Hcin.
        apply Hsub. apply in_firstn_in in Hcin. apply filter_In in Hcin. apply Hcin.
    + cbn [bind]. apply orb_false_elim in Ego. destruct Ego as [Eu Erf]. apply N.eqb_neq in Eu.
      rewrite Hact, Nat.ltb_irrefl. eexists. split; [reflexivity|].
      right. split; [exact Hact|]. split; [exact Erf|exact Eu].
  - (* the loop activated the chord *)
    assert (Hres : forall c2, cv_active c2 = cv_active (pp_c st) ->
              exists cch since0 coord0 rf', cv_active c2 = cv_active c ++ [get_active_chord cch since0 coord0 rf'] /\
                In cch (cv_chords c) /\ enabled_on layer cch = true /\ same_keys cch presses = true).
    { intros c2 H2. exists ch, since, coord, rf. rewrite H2, Hact. auto. }
    assert (Hlt : Nat.ltb (length (cv_active c)) (length (cv_active (pp_c st))) = true).
    { apply Nat.ltb_lt. rewrite Hact, app_length. cbn [length]. lia. }
    destruct ((cv_until_change (pp_c st) =? 0) || rf).
    + destruct (find _ _) as [cch|].
      * rewrite Hlt. cbn [bind]. apply Hfin; [left; apply Hres; reflexivity|intros q'; left; apply Hres; reflexivity].
      * cbn [bind]. apply Hfin; [left; apply Hres; reflexivity|intros q'; left; apply Hres; reflexivity].
    + cbn [bind]. apply Hfin; [left; apply Hres; reflexivity|intros q'; left; apply Hres; reflexivity].
Qed.

(* not vacuous: the hypotheses hold for the example of C09V2Exact (keys 2 then 1 for the chord {1,2}, then 2 released), where
   the first alternative happens; without the release the longer chord {1,2,3} is still possible and the second one happens *)
Example fires_hyps_hold :
  scan_presses (cv_queue ex_c) [] = Ok ([2; 1], true) /\ NoDup [2; 1] /\
  In (mkchord2 (KeyCode 30) [1; 2] 50 [] false) (cv_chords ex_c) /\
  same_keys (mkchord2 (KeyCode 30) [1; 2] 50 [] false) [2; 1] = true /\ (length (cv_active ex_c) < 10)%nat.
Proof.
  split; [reflexivity|]. split; [repeat constructor; cbn; intuition discriminate|]. split; [left; reflexivity|].
  split; [reflexivity|]. cbn. lia.
Qed.
Definition ex_c_waiting : chv2 :=
  set_cv_queue [{| q_press := true; q_coord := (0, 2); q_since := 3 |}; {| q_press := true; q_coord := (0, 1); q_since := 2 |}]
               (chv2_init ex_chords 0).
Example waits_example :
  exists c', process_presses ex_c_waiting 0 = Ok c' /\ cv_active c' = [] /\ cv_until_change c' = 47.
Proof. eexists. split; [vm_compute; reflexivity|]. split; reflexivity. Qed.

(* ---- keys that complete no chord are not swallowed ---- *)
Lemma wdeque_extend_fits {A} cap : forall (xs l : list A),
  (length l + length xs <= cap)%nat -> wdeque_extend cap xs l = l ++ xs.
Proof.
  unfold wdeque_extend. induction xs as [|x xs IH]; intros l H; cbn [fold_left]; [rewrite app_nil_r; reflexivity|].
  cbn [length] in H. unfold wdeque_push_back at 2. destruct (Nat.ltb_spec (length l) cap) as [Hl|Hl]; [|lia].
  cbn [fst]. rewrite IH; [rewrite <- app_assoc; reflexivity|rewrite app_length; cbn [length]; lia].
Qed.

(* the first key waiting is in no chord at all: nothing is activated, nothing leaves the queue, the ignore window starts *)
Theorem outside_key_starts_ignore_window c layer start rest rf :
  scan_presses (cv_queue c) [] = Ok (start :: rest, rf) ->
  (forall ch, In ch (cv_chords c) -> mem_n start (c2_keys ch) = false) ->
  process_presses c layer = Ok (no_chord_activations c).
Proof.
  intros Es Hno. unfold process_presses. rewrite Es. cbn [bind].
  assert (E : filter (fun ch => mem_n start (c2_keys ch)) (cv_chords c) = []).
  { induction (cv_chords c) as [|x l IH]; [reflexivity|]. cbn [filter]. rewrite (Hno x (or_introl eq_refl)).
    apply IH. intros ch Hc. apply Hno. right. exact Hc. }
  rewrite E. reflexivity.
Qed.

(* while the ignore window is open every queued event is handed on, in its original order, and the queue is emptied *)
Theorem ignore_window_forwards_in_order c dq layer :
  0 <? cv_ignore c = true -> (length dq + length (cv_queue c) <= SMOL_Q_LEN)%nat ->
  exists c', drain_inputs c dq layer = Ok (c', dq ++ cv_queue c) /\ cv_queue c' = [] /\ cv_chords c' = cv_chords c.
Proof.
  intros Hi Hfit. unfold drain_inputs. rewrite Hi. rewrite (wdeque_extend_fits _ _ _ Hfit).
  eexists. split; [reflexivity|]. split; reflexivity.
Qed.
