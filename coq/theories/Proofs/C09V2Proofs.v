(* C09, chords v2: a chord that is disabled on the active layer is never activated. *)
From Coq Require Import Lia.
From KV Require Import Keyberon.ChordsV2.
Local Open Scope N_scope.

Section Disabled.
  Variable chords0 : list chordv2.
  Variable old : list active_chord.
  Variable layer : N.

  (* an active chord is either one that was already there or the activation of a chord enabled on this layer *)
  Definition good_ach (a : active_chord) : Prop :=
    In a old \/ exists ch since coord rf, In ch chords0 /\ enabled_on layer ch = true /\ a = get_active_chord ch since coord rf.
  Definition good_c (c : chv2) : Prop := cv_chords c = chords0 /\ Forall good_ach (cv_active c).

  Lemma next_coord_good c : good_c c -> good_c (fst (next_coord c)).
  Proof. intros H. exact H. Qed.
  Lemma set_until_good v c : good_c c -> good_c (set_cv_until v c).
  Proof. intros H. exact H. Qed.
  Lemma no_act_good c : good_c c -> good_c (no_chord_activations c).
  Proof. intros H. exact H. Qed.
  Lemma set_queue_good q c : good_c c -> good_c (set_cv_queue q c).
  Proof. intros H. exact H. Qed.

  Lemma push_active_good c c' ch since coord rf :
    good_c c -> In ch chords0 -> enabled_on layer ch = true ->
    push_active (get_active_chord ch since coord rf) c = Ok c' -> good_c c'.
  Proof.
    intros [Hc Ha] Hin Hen. unfold push_active. destruct (Nat.ltb _ _); intros E; injection E as <-; [|split; assumption].
    split; [exact Hc|]. cbn [set_cv_active cv_active]. apply Forall_app. split; [exact Ha|].
    constructor; [|constructor]. right. exists ch, since, coord, rf. auto.
  Qed.

  Definition cands_ok (possible cands : list chordv2) : Prop :=
    Forall (fun ch => In ch possible /\ enabled_on layer ch = true) cands.

  Lemma push16_fold_in (matching : list chordv2) : forall acc x,
    In x (fold_left (fun l ch => push16 ch l) matching acc) -> In x acc \/ In x matching.
  Proof.
    induction matching as [|m r IH]; intros acc x H; [left; exact H|]. cbn [fold_left] in H.
    destruct (IH _ _ H) as [H1|H1]; [|right; right; exact H1].
    unfold push16 in H1. destruct (Nat.ltb _ _); [|left; exact H1].
    apply in_app_or in H1. destruct H1 as [H1|[<-|[]]]; [left; exact H1|right; left; reflexivity].
  Qed.

  Lemma pp_step_good possible since rf st press st' :
    (forall ch, In ch possible -> In ch chords0) ->
    good_c (pp_c st) -> cands_ok possible (pp_cands st) ->
    pp_step possible layer since rf st press = Ok st' ->
    good_c (pp_c st') /\ cands_ok possible (pp_cands st').
  Proof.
    intros Hsub Hg Hc. unfold pp_step. destruct (pp_done st); [intros E; injection E as <-; auto|].
    set (acc := pp_acc st ++ [press]).
    set (reuse := match pp_prev_count st with Some n => Nat.eqb n (length (pp_cands st)) | None => false end).
    assert (Hcands : forall cands count mt,
              (if reuse then let cs := filter (fun chc => mem_n press (c2_keys chc)) (pp_cands st) in (cs, length cs, min_pending cs 65535)
               else let matching := filter (fun pch => enabled_on layer pch && subset_n acc (c2_keys pch)) possible in
                    (fold_left (fun l ch => push16 ch l) matching [], length matching, min_pending matching 65535)) = (cands, count, mt) ->
              cands_ok possible cands).
    { intros cands count mt E. destruct reuse.
      - injection E as <- _ _. apply Forall_forall. intros x Hx. apply filter_In in Hx. destruct Hx as [Hx _].
        exact (proj1 (Forall_forall _ _) Hc x Hx).
      - injection E as <- _ _. apply Forall_forall. intros x Hx. destruct (push16_fold_in _ _ _ Hx) as [[]|Hx'].
        apply filter_In in Hx'. destruct Hx' as [Hp Hf]. apply andb_prop in Hf. split; [exact Hp|apply Hf]. }
    destruct (if reuse then _ else _) as [[cands count] mt] eqn:E. specialize (Hcands _ _ _ eq_refl).
    destruct count as [|[|n]].
    - (* 0: backtrack *)
      destruct (find _ possible) as [cch|] eqn:Ef.
      + apply find_some in Ef. destruct Ef as [Hin Hen]. apply andb_prop in Hen. destruct Hen as [Hen _].
        destruct (next_coord (pp_c st)) as [c1 coord] eqn:En.
        destruct (push_active _ c1) as [c2| |] eqn:Ep; cbn [bind]; try discriminate.
        intros X. injection X as <-. cbn [pp_c pp_cands]. split; [|constructor].
        eapply push_active_good; [| |exact Hen|exact Ep]; [|apply Hsub; exact Hin].
        pose proof (next_coord_good _ Hg) as G. rewrite En in G. exact G.
      + intros X. injection X as <-. cbn [pp_c pp_cands]. split; [apply no_act_good; exact Hg|constructor].
    - (* 1 *)
      destruct (next_coord (pp_c st)) as [c1 coord] eqn:En.
      assert (G1 : good_c c1) by (pose proof (next_coord_good _ Hg) as G; rewrite En in G; exact G).
      destruct cands as [|cch rest]; [discriminate|].
      inversion Hcands as [|? ? [Hin Hen] Hrest]; subst.
      destruct (subset_n (c2_keys cch) acc).
      + destruct (push_active _ c1) as [c2| |] eqn:Ep; cbn [bind]; try discriminate.
        intros X. injection X as <-. cbn [pp_c pp_cands]. split; [|exact Hcands].
        eapply push_active_good; [exact G1| |exact Hen|exact Ep]. apply Hsub. exact Hin.
      + intros X. injection X as <-. cbn [pp_c pp_cands]. split; [apply set_until_good; exact G1|exact Hcands].
    - intros X. injection X as <-. cbn [pp_c pp_cands]. split; [apply set_until_good; exact Hg|exact Hcands].
  Qed.

  Lemma pp_loop_good possible since rf : forall presses st st',
    (forall ch, In ch possible -> In ch chords0) ->
    good_c (pp_c st) -> cands_ok possible (pp_cands st) ->
    pp_loop possible layer since rf st presses = Ok st' ->
    good_c (pp_c st') /\ cands_ok possible (pp_cands st').
  Proof.
    induction presses as [|p r IH]; intros st st' Hsub Hg Hc E; [injection E as <-; auto|].
    cbn [pp_loop] in E. destruct (pp_step possible layer since rf st p) as [st1| |] eqn:E1; cbn [bind] in E; try discriminate.
    destruct (pp_step_good _ _ _ _ _ _ Hsub Hg Hc E1) as [G1 C1]. eapply IH; eassumption.
  Qed.

  Theorem process_presses_good c c' :
    good_c c -> process_presses c layer = Ok c' -> good_c c'.
  Proof.
    intros Hg. unfold process_presses.
    destruct (scan_presses (cv_queue c) []) as [[presses rf]| |]; cbn [bind]; try discriminate.
    destruct presses as [|start rest]; [intros E; injection E as <-; exact Hg|].
    set (possible := filter (fun ch => mem_n start (c2_keys ch)) (cv_chords c)).
    assert (Hsub : forall ch, In ch possible -> In ch chords0).
    { intros ch H. apply filter_In in H. destruct Hg as [Hc _]. rewrite <- Hc. apply H. }
    destruct possible as [|p0 ps] eqn:Ep; [intros E; injection E as <-; apply no_act_good; exact Hg|].
    rewrite <- Ep in *.
    destruct (pp_loop possible layer _ rf (mkpp c [] [] None false) (start :: rest)) as [st| |] eqn:El; cbn [bind]; try discriminate.
    destruct (pp_loop_good possible _ rf (start :: rest) (mkpp c [] [] None false) st Hsub Hg (Forall_nil _) El) as [G1 C1].
    assert (Hfin : forall c2 (b : bool) q, good_c c2 -> (if b then Ok (set_cv_queue q (set_cv_until 0 c2)) else Ok c2) = Ok c' -> good_c c').
    { intros c2 b q G X. destruct b; injection X as <-; [apply set_queue_good; apply set_until_good; exact G|exact G]. }
    destruct ((cv_until_change (pp_c st) =? 0) || rf).
    - destruct (find _ _) as [cch|] eqn:Ef.
      + destruct (Nat.ltb (length (cv_active c)) (length (cv_active (pp_c st)))) eqn:El2.
        * cbn [bind]. apply Hfin. exact G1.
        * apply find_some in Ef. destruct Ef as [Hin Hen]. apply andb_prop in Hen. destruct Hen as [Hen _].
          destruct (next_coord (pp_c st)) as [c1' coord] eqn:En.
          destruct (push_active _ c1') as [c2| |] eqn:Ep2; cbn [bind]; try discriminate.
          apply Hfin. eapply push_active_good; [| |exact Hen|exact Ep2].
          -- pose proof (next_coord_good _ G1) as G. rewrite En in G. exact G.
          -- destruct (Nat.eqb _ _); [apply Hsub; exact Hin|].
             apply Hsub. exact (proj1 (proj1 (Forall_forall _ _) C1 cch Hin)).
      + cbn [bind]. apply Hfin. apply no_act_good. exact G1.
    - cbn [bind]. apply Hfin. exact G1.
  Qed.
End Disabled.

(* the statement without the section bookkeeping *)
Theorem disabled_chord_never_activated c layer c' a :
  process_presses c layer = Ok c' -> In a (cv_active c') ->
  In a (cv_active c) \/
  exists ch since coord rf, In ch (cv_chords c) /\ enabled_on layer ch = true /\ a = get_active_chord ch since coord rf.
Proof.
  intros E Hin.
  assert (G : good_c (cv_chords c) (cv_active c) layer c).
  { split; [reflexivity|]. apply Forall_forall. intros x Hx. left. exact Hx. }
  destruct (process_presses_good _ _ _ _ _ G E) as [_ Ha].
  exact (proj1 (Forall_forall _ _) Ha a Hin).
Qed.
