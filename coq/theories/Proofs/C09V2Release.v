(* C09, chords v2: the release rule of an active chord (keyberon/src/chord.rs drain_releases). *)
From Coq Require Import Lia.
From KV Require Import Keyberon.ChordsV2.
Local Open Scope N_scope.

Definition is_released (s : ach_status) : bool := match s with AUnreadReleased | AReleased => true | _ => false end.

(* the release of a key that is not a participant leaves the active chord exactly as it is *)
Lemma nonparticipant_release_ignored j a : mem_n j (ac_keys a) = false -> release_in_ach j a = a.
Proof. intros H. unfold release_in_ach. rewrite H. reflexivity. Qed.

(* a first-release chord (nothing left to wait for) is released by the release of any participant *)
Lemma first_release_by_participant j a :
  ac_remaining a = [] -> mem_n j (ac_keys a) = true -> is_released (ac_status (release_in_ach j a)) = true.
Proof.
  intros Hr Hm. unfold release_in_ach. rewrite Hm, Hr. cbn [negb filter ac_status]. destruct (ac_status a); reflexivity.
Qed.

(* an all-released chord keeps its status while some other participant is still to be released ... *)
Lemma all_released_waits j k a :
  In k (ac_remaining a) -> k <> j -> ac_status (release_in_ach j a) = ac_status a.
Proof.
  intros Hin Hne. unfold release_in_ach. destruct (negb (mem_n j (ac_keys a))); [reflexivity|].
  cbn [ac_status].
  assert (Hk : In k (filter (fun pk => negb (pk =? j)) (ac_remaining a))).
  { apply filter_In. split; [exact Hin|]. apply negb_true_iff. apply N.eqb_neq. exact Hne. }
  destruct (filter (fun pk => negb (pk =? j)) (ac_remaining a)); [destruct Hk|reflexivity].
Qed.

(* ... and is released by the release of its last remaining participant *)
Lemma all_released_by_last j a :
  mem_n j (ac_keys a) = true -> (forall k, In k (ac_remaining a) -> k = j) ->
  is_released (ac_status (release_in_ach j a)) = true.
Proof.
  intros Hm Hall. unfold release_in_ach. rewrite Hm. cbn [negb ac_status].
  assert (E : filter (fun pk => negb (pk =? j)) (ac_remaining a) = []).
  { induction (ac_remaining a) as [|x t IH]; [reflexivity|]. cbn [filter].
    rewrite (Hall x (or_introl eq_refl)), N.eqb_refl. cbn [negb]. apply IH. intros k Hk. apply Hall. right. exact Hk. }
  rewrite E. destruct (ac_status a); reflexivity.
Qed.

(* a release never un-releases a chord and never changes what the chord is *)
Lemma release_keeps_identity j a :
  ac_coord (release_in_ach j a) = ac_coord a /\ ac_keys (release_in_ach j a) = ac_keys a /\
  ac_action (release_in_ach j a) = ac_action a /\
  (is_released (ac_status a) = true -> is_released (ac_status (release_in_ach j a)) = true).
Proof.
  unfold release_in_ach. destruct (negb (mem_n j (ac_keys a))); [tauto|]. cbn [ac_coord ac_keys ac_action ac_status].
  repeat split. intros H. destruct (filter _ _); [|exact H]. destruct (ac_status a); try discriminate H; reflexivity.
Qed.

(* what activation sets up: first-release chords wait for nothing, all-released chords for every participant *)
Lemma activation_remaining ch since coord rf :
  ac_remaining (get_active_chord ch since coord rf) = (if c2_first_release ch then [] else c2_keys ch) /\
  ac_keys (get_active_chord ch since coord rf) = c2_keys ch.
Proof. split; reflexivity. Qed.

(* the whole queue walk: releases of keys that take part in no active chord leave every active chord untouched *)
Lemma drain_releases_bystanders : forall q npress achs dq q' achs' dq',
  Forall (fun qd => q_press qd = false -> forallb (fun a => negb (mem_n (snd (q_coord qd)) (ac_keys a))) achs = true) q ->
  drain_releases q npress achs dq = Ok (q', achs', dq') -> achs' = achs.
Proof.
  induction q as [|qd r IH]; intros npress achs dq q' achs' dq' HF H.
  - cbn [drain_releases] in H. injection H as _ <- _. reflexivity.
  - inversion HF as [|? ? Hqd Hr]; subst. cbn [drain_releases] in H.
    destruct (q_press qd) eqn:Ep.
    + destruct (Nat.ltb npress SMOL_Q_LEN); [|discriminate H].
      destruct (drain_releases r (S npress) achs dq) as [[[k1 a1] d1]| |] eqn:E; try discriminate H.
      cbn [bind] in H. injection H as _ <- _. exact (IH _ _ _ _ _ _ Hr E).
    + assert (Em : map (release_in_ach (snd (q_coord qd))) achs = achs).
      { specialize (Hqd eq_refl). clear -Hqd. induction achs as [|a t IHa]; [reflexivity|].
        cbn [forallb] in Hqd. apply andb_prop in Hqd. destruct Hqd as [Ha Ht]. cbn [map].
        rewrite nonparticipant_release_ignored by (apply negb_true_iff; exact Ha). rewrite (IHa Ht). reflexivity. }
      rewrite Em in H. destruct npress.
      * exact (IH _ _ _ _ _ _ Hr H).
      * destruct (drain_releases r (S npress) achs dq) as [[[k1 a1] d1]| |] eqn:E; try discriminate H.
        cbn [bind] in H. injection H as _ <- _. exact (IH _ _ _ _ _ _ Hr E).
Qed.

(* ---- releases during the ignore window (chords-v2-min-idle) still reach the active chords ---- *)
Definition rel_step (achs : list active_chord) (qd : queued) : list active_chord :=
  if negb (q_press qd) && (fst (q_coord qd) =? 0) then map (release_in_ach (snd (q_coord qd))) achs else achs.
Definition rel_step1 (a : active_chord) (qd : queued) : active_chord :=
  if negb (q_press qd) && (fst (q_coord qd) =? 0) then release_in_ach (snd (q_coord qd)) a else a.

Lemma fold_rel_track q : forall achs a, In a achs -> In (fold_left rel_step1 q a) (fold_left rel_step q achs).
Proof.
  induction q as [|qd r IH]; intros achs a Hin; [exact Hin|]. cbn [fold_left]. apply IH.
  unfold rel_step, rel_step1. destruct (negb (q_press qd) && (fst (q_coord qd) =? 0)); [apply in_map; exact Hin|exact Hin].
Qed.

Lemma fold_rel1_identity q : forall a,
  ac_coord (fold_left rel_step1 q a) = ac_coord a /\ ac_keys (fold_left rel_step1 q a) = ac_keys a /\
  (ac_remaining a = [] -> ac_remaining (fold_left rel_step1 q a) = []) /\
  (is_released (ac_status a) = true -> is_released (ac_status (fold_left rel_step1 q a)) = true).
Proof.
  induction q as [|qd r IH]; intros a; [tauto|]. cbn [fold_left].
  destruct (IH (rel_step1 a qd)) as [I1 [I2 [I3 I4]]].
  assert (S1 : ac_coord (rel_step1 a qd) = ac_coord a /\ ac_keys (rel_step1 a qd) = ac_keys a /\
               (ac_remaining a = [] -> ac_remaining (rel_step1 a qd) = []) /\
               (is_released (ac_status a) = true -> is_released (ac_status (rel_step1 a qd)) = true)).
  { unfold rel_step1. destruct (negb (q_press qd) && (fst (q_coord qd) =? 0)); [|tauto].
    destruct (release_keeps_identity (snd (q_coord qd)) a) as [R1 [R2 [_ R4]]].
    repeat split; try assumption.
    intros Hr. unfold release_in_ach. destruct (negb (mem_n _ _)); [exact Hr|]. cbn [ac_remaining]. rewrite Hr. reflexivity. }
  destruct S1 as [S1 [S2 [S3 S4]]].
  repeat split; [congruence|congruence|auto|auto].
Qed.

Lemma fold_rel1_releases q : forall a qd,
  In qd q -> q_press qd = false -> fst (q_coord qd) = 0 -> mem_n (snd (q_coord qd)) (ac_keys a) = true ->
  ac_remaining a = [] -> is_released (ac_status (fold_left rel_step1 q a)) = true.
Proof.
  induction q as [|x r IH]; intros a qd Hin Hp Hx Hm Hr; [destruct Hin|]. cbn [fold_left].
  destruct Hin as [->|Hin].
  - apply (proj2 (proj2 (proj2 (fold_rel1_identity r _)))).
    unfold rel_step1. rewrite Hp, Hx. cbn [negb andb N.eqb]. apply first_release_by_participant; assumption.
  - destruct (fold_rel1_identity [x] a) as [_ [K2 [K3 _]]]. cbn [fold_left] in K2, K3.
    apply (IH _ qd Hin Hp Hx); [rewrite K2; exact Hm|exact (K3 Hr)].
Qed.

(* the repaired behaviour (commit 297ba3c): a first-release chord whose participant is released while chords are being
   ignored is marked released by that very call *)
Lemma ignore_window_release_reaches_chord c dq layer a qd c' dq' :
  0 <? cv_ignore c = true -> In a (cv_active c) -> In qd (cv_queue c) ->
  q_press qd = false -> fst (q_coord qd) = 0 -> mem_n (snd (q_coord qd)) (ac_keys a) = true -> ac_remaining a = [] ->
  drain_inputs c dq layer = Ok (c', dq') ->
  exists a', In a' (cv_active c') /\ ac_coord a' = ac_coord a /\ is_released (ac_status a') = true.
Proof.
  intros Hi Ha Hq Hp Hx Hm Hr H. unfold drain_inputs in H. rewrite Hi in H. injection H as <- _.
  exists (fold_left rel_step1 (cv_queue c) a). cbn [cv_active set_cv_active].
  split; [exact (fold_rel_track (cv_queue c) (cv_active c) a Ha)|].
  split; [exact (proj1 (fold_rel1_identity _ a))|exact (fold_rel1_releases _ a qd Hq Hp Hx Hm Hr)].
Qed.
