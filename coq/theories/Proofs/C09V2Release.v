(* C09, chords v2: the release rule of an active chord (keyberon/src/chord.rs drain_releases). *)
From Coq Require Import Lia.
From KV Require Import Keyberon.ChordsV2.
Local Open Scope N_scope.

Definition is_released (s : ach_status) : bool := match s with AUnreadReleased | AReleased => true | _ => false end.

(* the release of a key that is not a participant leaves the active chord exactly as it is *)
Lemma nonparticipant_release_ignored j a : mem_n j (ac_keys a) = false -> release_in_ach j a = a.
Proof. intros H. unfold release_in_ach. rewrite H. reflexivity. Qed.

(* a first-release chord (nothing left to wait for) is released by the release of any participant *)
Lemma first_release_by_participant j a :
  ac_remaining a = [] -> mem_n j (ac_keys a) = true -> is_released (ac_status (release_in_ach j a)) = true.
Proof.
  intros Hr Hm. unfold release_in_ach. rewrite Hm, Hr. cbn [negb filter ac_status]. destruct (ac_status a); reflexivity.
Qed.

(* an all-released chord keeps its status while some other participant is still to be released ... *)
Lemma all_released_waits j k a :
  In k (ac_remaining a) -> k <> j -> ac_status (release_in_ach j a) = ac_status a.
Proof.
  intros Hin Hne. unfold release_in_ach. destruct (negb (mem_n j (ac_keys a))); [reflexivity|].
  cbn [ac_status].
  assert (Hk : In k (filter (fun pk => negb (pk =? j)) (ac_remaining a))).
  { apply filter_In. split; [exact Hin|]. apply negb_true_iff. apply N.eqb_neq. exact Hne. }
  destruct (filter (fun pk => negb (pk =? j)) (ac_remaining a)); [destruct Hk|reflexivity].
Qed.

(* ... and is released by the release of its last remaining participant *)
Lemma all_released_by_last j a :
  mem_n j (ac_keys a) = true -> (forall k, In k (ac_remaining a) -> k = j) ->
  is_released (ac_status (release_in_ach j a)) = true.
Proof.
  intros Hm Hall. unfold release_in_ach. rewrite Hm. cbn [negb ac_status].
  assert (E : filter (fun pk => negb (pk =? j)) (ac_remaining a) = []).
  { induction (ac_remaining a) as [|x t IH]; [reflexivity|]. cbn [filter].
    rewrite (Hall x (or_introl eq_refl)), N.eqb_refl. cbn [negb]. apply IH. intros k Hk. apply Hall. right. exact Hk. }
  rewrite E. destruct (ac_status a); reflexivity.
Qed.

(* a release never un-releases a chord and never changes what the chord is *)
Lemma release_keeps_identity j a :
  ac_coord (release_in_ach j a) = ac_coord a /\ ac_keys (release_in_ach j a) = ac_keys a /\
  ac_action (release_in_ach j a) = ac_action a /\
  (is_released (ac_status a) = true -> is_released (ac_status (release_in_ach j a)) = true).
Proof.
  unfold release_in_ach. destruct (negb (mem_n j (ac_keys a))); [tauto|]. cbn [ac_coord ac_keys ac_action ac_status].
  repeat split. intros H. destruct (filter _ _); [|exact H]. destruct (ac_status a); try discriminate H; reflexivity.
Qed.

(* what activation sets up: first-release chords wait for nothing, all-released chords for every participant *)
Lemma activation_remaining ch since coord rf :
  ac_remaining (get_active_chord ch since coord rf) = (if c2_first_release ch then [] else c2_keys ch) /\
  ac_keys (get_active_chord ch since coord rf) = c2_keys ch.
Proof. split; reflexivity. Qed.

(* the whole queue walk: releases of keys that take part in no active chord leave every active chord untouched *)
Lemma drain_releases_bystanders : forall q npress achs dq q' achs' dq',
  Forall (fun qd => q_press qd = false -> forallb (fun a => negb (mem_n (snd (q_coord qd)) (ac_keys a))) achs = true) q ->
  drain_releases q npress achs dq = Ok (q', achs', dq') -> achs' = achs.
Proof.
  induction q as [|qd r IH]; intros npress achs dq q' achs' dq' HF H.
  - cbn [drain_releases] in H. injection H as _ <- _. reflexivity.
  - inversion HF as [|? ? Hqd Hr]; subst. cbn [drain_releases] in H.
    destruct (q_press qd) eqn:Ep.
    + destruct (Nat.ltb npress SMOL_Q_LEN); [|discriminate H].
      destruct (drain_releases r (S npress) achs dq) as [[[k1 a1] d1]| |] eqn:E; try discriminate H.
      cbn [bind] in H. injection H as _ <- _. exact (IH _ _ _ _ _ _ Hr E).
    + assert (Em : map (release_in_ach (snd (q_coord qd))) achs = achs).
      { specialize (Hqd eq_refl). clear -Hqd. induction achs as [|a t IHa]; [reflexivity|].
        cbn [forallb] in Hqd. apply andb_prop in Hqd. destruct Hqd as [Ha Ht]. cbn [map].
        rewrite nonparticipant_release_ignored by (apply negb_true_iff; exact Ha). rewrite (IHa Ht). reflexivity. }
      rewrite Em in H. destruct npress.
      * exact (IH _ _ _ _ _ _ Hr H).
      * destruct (drain_releases r (S npress) achs dq) as [[[k1 a1] d1]| |] eqn:E; try discriminate H.
        cbn [bind] in H. injection H as _ <- _. exact (IH _ _ _ _ _ _ Hr E).
Qed.

(* ---- releases during the ignore window (chords-v2-min-idle) still reach the active chords ---- *)
Definition rel_step (achs : list active_chord) (qd : queued) : list active_chord :=
  if negb (q_press qd) && (fst (q_coord qd) =? 0) then map (release_in_ach (snd (q_coord qd))) achs else achs.
Definition rel_step1 (a : active_chord) (qd : queued) : active_chord :=
  if negb (q_press qd) && (fst (q_coord qd) =? 0) then release_in_ach (snd (q_coord qd)) a else a.

Lemma fold_rel_track q : forall achs a, In a achs -> In (fold_left rel_step1 q a) (fold_left rel_step q achs).
Proof.
  induction q as [|qd r IH]; intros achs a Hin; [exact Hin|]. cbn [fold_left]. apply IH.
  unfold rel_step, rel_step1. destruct (negb (q_press qd) && (fst (q_coord qd) =? 0)); [apply in_map; exact Hin|exact Hin].
Qed.

Lemma fold_rel1_identity q : forall a,
  ac_coord (fold_left rel_step1 q a) = ac_coord a /\ ac_keys (fold_left rel_step1 q a) = ac_keys a /\
  (ac_remaining a = [] -> ac_remaining (fold_left rel_step1 q a) = []) /\
  (is_released (ac_status a) = true -> is_released (ac_status (fold_left rel_step1 q a)) = true).
Proof.
  induction q as [|qd r IH]; intros a; [tauto|]. cbn [fold_left].
  destruct (IH (rel_step1 a qd)) as [I1 [I2 [I3 I4]]].
  assert (S1 : ac_coord (rel_step1 a qd) = ac_coord a /\ ac_keys (rel_step1 a qd) = ac_keys a /\
               (ac_remaining a = [] -> ac_remaining (rel_step1 a qd) = []) /\
               (is_released (ac_status a) = true -> is_released (ac_status (rel_step1 a qd)) = true)).
  { unfold rel_step1. destruct (negb (q_press qd) && (fst (q_coord qd) =? 0)); [|tauto].
    destruct (release_keeps_identity (snd (q_coord qd)) a) as [R1 [R2 [_ R4]]].
    repeat split; try assumption.
    intros Hr. unfold release_in_ach. destruct (negb (mem_n _ _)); [exact Hr|]. cbn [ac_remaining]. rewrite Hr. reflexivity. }
  destruct S1 as [S1 [S2 [S3 S4]]].
  repeat split; [congruence|congruence|auto|auto].
Qed.

Lemma fold_rel1_releases q : forall a qd,
  In qd q -> q_press qd = false -> fst (q_coord qd) = 0 -> mem_n (snd (q_coord qd)) (ac_keys a) = true ->
  ac_remaining a = [] -> is_released (ac_status (fold_left rel_step1 q a)) = true.
Proof.
  induction q as [|x r IH]; intros a qd Hin Hp Hx Hm Hr; [destruct Hin|]. cbn [fold_left].
  destruct Hin as [->|Hin].
  - apply (proj2 (proj2 (proj2 (fold_rel1_identity r _)))).
    unfold rel_step1. rewrite Hp, Hx. cbn [negb andb N.eqb]. apply first_release_by_participant; assumption.
  - destruct (fold_rel1_identity [x] a) as [_ [K2 [K3 _]]]. cbn [fold_left] in K2, K3.
    apply (IH _ qd Hin Hp Hx); [rewrite K2; exact Hm|exact (K3 Hr)].
Qed.

(* the repaired behaviour (commit 297ba3c): a first-release chord whose participant is released while chords are being
   ignored is marked released by that very call *)
Lemma ignore_window_release_reaches_chord c dq layer a qd c' dq' :
  0 <? cv_ignore c = true -> In a (cv_active c) -> In qd (cv_queue c) ->
  q_press qd = false -> fst (q_coord qd) = 0 -> mem_n (snd (q_coord qd)) (ac_keys a) = true -> ac_remaining a = [] ->
  drain_inputs c dq layer = Ok (c', dq') ->
  exists a', In a' (cv_active c') /\ ac_coord a' = ac_coord a /\ is_released (ac_status a') = true.
Proof.
  intros Hi Ha Hq Hp Hx Hm Hr H. unfold drain_inputs in H. rewrite Hi in H. injection H as <- _.
  exists (fold_left rel_step1 (cv_queue c) a). cbn [cv_active set_cv_active].
  split; [exact (fold_rel_track (cv_queue c) (cv_active c) a Ha)|].
  split; [exact (proj1 (fold_rel1_identity _ a))|exact (fold_rel1_releases _ a qd Hq Hp Hx Hm Hr)].
Qed.

(* ---- a release reaches every active chord, wherever it is stored ---- *)
Lemma release_in_ach_remaining j a k :
  In k (ac_remaining (release_in_ach j a)) -> In k (ac_remaining a) /\ (mem_n j (ac_keys a) = true -> k <> j).
Proof.
  unfold release_in_ach. destruct (mem_n j (ac_keys a)) eqn:Em; cbn [negb].
  - cbn [ac_remaining]. intros H. apply filter_In in H. destruct H as [H1 H2]. split; [exact H1|].
    intros _ E. subst k. rewrite N.eqb_refl in H2. discriminate.
  - intros H. split; [exact H|]. discriminate.
Qed.

(* b is a later state of the active chord a: same chord, waiting for no more keys than before *)
Definition shrinks (a b : active_chord) : Prop :=
  ac_coord b = ac_coord a /\ ac_keys b = ac_keys a /\ (forall k, In k (ac_remaining b) -> In k (ac_remaining a)).
(* ... and, if j is one of its keys, no longer waiting for j *)
Definition no_longer_waits (j : N) (a b : active_chord) : Prop :=
  shrinks a b /\ (mem_n j (ac_keys a) = true -> ~ In j (ac_remaining b)).

Lemma shrinks_refl a : shrinks a a.
Proof. repeat split; auto. Qed.
Lemma shrinks_trans a b c : shrinks a b -> shrinks b c -> shrinks a c.
Proof. intros (C1 & K1 & R1) (C2 & K2 & R2). repeat split; try congruence. intros k H. apply R1, R2, H. Qed.
Lemma shrinks_release j a : shrinks a (release_in_ach j a).
Proof.
  destruct (release_keeps_identity j a) as (C & K & _ & _). split; [exact C|]. split; [exact K|].
  intros k H. exact (proj1 (release_in_ach_remaining j a k H)).
Qed.
Lemma nlw_release j a : no_longer_waits j a (release_in_ach j a).
Proof. split; [apply shrinks_release|]. intros Hm Hj. exact (proj2 (release_in_ach_remaining j a j Hj) Hm eq_refl). Qed.
Lemma nlw_then_shrinks j a b c : no_longer_waits j a b -> shrinks b c -> no_longer_waits j a c.
Proof. intros [S W] S2. split; [eapply shrinks_trans; eassumption|]. intros Hm Hj. apply (W Hm). destruct S2 as (_ & _ & R). apply R, Hj. Qed.
Lemma shrinks_then_nlw j a b c : shrinks a b -> no_longer_waits j b c -> no_longer_waits j a c.
Proof. intros S [S2 W]. split; [eapply shrinks_trans; eassumption|]. destruct S as (_ & K & _). rewrite <- K. exact W. Qed.

Lemma F2_refl (l : list active_chord) : Forall2 shrinks l l.
Proof. induction l; constructor; [apply shrinks_refl|assumption]. Qed.
Lemma F2_map j l : Forall2 shrinks l (map (release_in_ach j) l).
Proof. induction l; cbn [map]; constructor; [apply shrinks_release|assumption]. Qed.
Lemma F2_map_nlw j l : Forall2 (no_longer_waits j) l (map (release_in_ach j) l).
Proof. induction l; cbn [map]; constructor; [apply nlw_release|assumption]. Qed.
Lemma F2_trans : forall l1 l2 l3, Forall2 shrinks l1 l2 -> Forall2 shrinks l2 l3 -> Forall2 shrinks l1 l3.
Proof.
  intros l1 l2 l3 H. revert l3. induction H as [|a b ta tb Hab _ IH]; intros l3 H2; inversion H2 as [|b' c tb' tc Hbc Ht2]; subst; constructor.
  - eapply shrinks_trans; eassumption.
  - apply IH. assumption.
Qed.
Lemma F2_nlw_shr j : forall l1 l2 l3, Forall2 (no_longer_waits j) l1 l2 -> Forall2 shrinks l2 l3 -> Forall2 (no_longer_waits j) l1 l3.
Proof.
  intros l1 l2 l3 H. revert l3. induction H as [|a b ta tb Hab _ IH]; intros l3 H2; inversion H2 as [|b' c tb' tc Hbc Ht2]; subst; constructor.
  - eapply nlw_then_shrinks; eassumption.
  - apply IH. assumption.
Qed.
Lemma F2_shr_nlw j : forall l1 l2 l3, Forall2 shrinks l1 l2 -> Forall2 (no_longer_waits j) l2 l3 -> Forall2 (no_longer_waits j) l1 l3.
Proof.
  intros l1 l2 l3 H. revert l3. induction H as [|a b ta tb Hab _ IH]; intros l3 H2; inversion H2 as [|b' c tb' tc Hbc Ht2]; subst; constructor.
  - eapply shrinks_then_nlw; eassumption.
  - apply IH. assumption.
Qed.

Lemma drain_releases_shrinks : forall q npress achs dq q' achs' dq',
  drain_releases q npress achs dq = Ok (q', achs', dq') -> Forall2 shrinks achs achs'.
Proof.
  induction q as [|qd r IH]; intros npress achs dq q' achs' dq' E; cbn [drain_releases] in E.
  - injection E as _ <- _. apply F2_refl.
  - destruct (q_press qd).
    + destruct (Nat.ltb npress SMOL_Q_LEN); [|discriminate].
      destruct (drain_releases r (S npress) achs dq) as [[[k1 a1] d1]| |] eqn:E1; cbn [bind] in E; try discriminate.
      injection E as _ <- _. exact (IH _ _ _ _ _ _ E1).
    + destruct npress.
      * eapply F2_trans; [apply F2_map|]. exact (IH _ _ _ _ _ _ E).
      * destruct (drain_releases r (S npress) _ dq) as [[[k1 a1] d1]| |] eqn:E1; cbn [bind] in E; try discriminate.
        injection E as _ <- _. eapply F2_trans; [apply F2_map|]. exact (IH _ _ _ _ _ _ E1).
Qed.

(* after the walk over a queue that contains the release of key j, the active chords are the same chords in the same order and none
   of those that j belongs to still waits for j - wherever in the list it is stored *)
Theorem release_reaches_every_active_chord : forall q npress achs dq q' achs' dq' qd,
  drain_releases q npress achs dq = Ok (q', achs', dq') ->
  In qd q -> q_press qd = false ->
  Forall2 (no_longer_waits (snd (q_coord qd))) achs achs'.
Proof.
  induction q as [|q0 r IH]; intros npress achs dq q' achs' dq' qd E Hin Hrel; [destruct Hin|].
  cbn [drain_releases] in E. destruct Hin as [->|Hin].
  - rewrite Hrel in E. destruct npress.
    + eapply F2_nlw_shr; [apply F2_map_nlw|]. exact (drain_releases_shrinks _ _ _ _ _ _ _ E).
    + destruct (drain_releases r (S npress) _ dq) as [[[k1 a1] d1]| |] eqn:E1; cbn [bind] in E; try discriminate.
      injection E as _ <- _. eapply F2_nlw_shr; [apply F2_map_nlw|]. exact (drain_releases_shrinks _ _ _ _ _ _ _ E1).
  - destruct (q_press q0).
    + destruct (Nat.ltb npress SMOL_Q_LEN); [|discriminate].
      destruct (drain_releases r (S npress) achs dq) as [[[k1 a1] d1]| |] eqn:E1; cbn [bind] in E; try discriminate.
      injection E as _ <- _. exact (IH _ _ _ _ _ _ _ E1 Hin Hrel).
    + destruct npress.
      * eapply F2_shr_nlw; [apply F2_map|]. exact (IH _ _ _ _ _ _ _ E Hin Hrel).
      * destruct (drain_releases r (S npress) _ dq) as [[[k1 a1] d1]| |] eqn:E1; cbn [bind] in E; try discriminate.
        injection E as _ <- _. eapply F2_shr_nlw; [apply F2_map|]. exact (IH _ _ _ _ _ _ _ E1 Hin Hrel).
Qed.

(* not vacuous: three active chords, the first and the third contain key 2; a press of key 9 and then the release of key 2 are
   queued: after the walk neither of the two waits for key 2 any more, the middle one is untouched *)
Definition ex_achs : list active_chord :=
  [mkach 0 [1; 2] [1; 2] (KeyCode 30) AReleasable 0; mkach 1 [4; 5] [4; 5] (KeyCode 31) AReleasable 0;
   mkach 2 [2; 3] [2; 3; 6] (KeyCode 32) AUnread 0].
Definition ex_q : list queued :=
  [{| q_press := true; q_coord := (0, 9); q_since := 1 |}; {| q_press := false; q_coord := (0, 2); q_since := 0 |}].
Example release_reaches_not_vacuous :
  exists q' achs' dq', drain_releases ex_q 0 ex_achs [] = Ok (q', achs', dq') /\
    map ac_remaining achs' = [[1]; [4; 5]; [3]].
Proof. do 3 eexists. split; [vm_compute; reflexivity|reflexivity]. Qed.
