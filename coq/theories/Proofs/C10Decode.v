(* C10, part 1: every OpCode constructor decodes to itself (decode . encode), by exhaustive
   computation over the finite operand ranges lifted to universally quantified statements; the
   lossy compression of key-timing thresholds. *)
From Coq Require Import Lia.
From KV Require Import Spec.BoolSpec.

(* ---- finite ranges of N ---- *)
Fixpoint nrange_from (start : N) (n : nat) : list N :=
  match n with O => [] | S k => start :: nrange_from (N.succ start) k end.

Lemma nrange_from_in s n x : s <= x < s + N.of_nat n -> In x (nrange_from s n).
Proof.
  revert s. induction n as [|n IH]; intros s H; [lia|].
  cbn [nrange_from]. destruct (N.eq_dec x s) as [->|Hne]; [left; reflexivity|].
  right. apply IH. lia.
Qed.

Definition nrange (k : N) : list N := nrange_from 0 (N.to_nat k).
Lemma nrange_in k x : x < k -> In x (nrange k).
Proof. intros H. apply nrange_from_in. lia. Qed.

Lemma forallb_nrange (f : N -> bool) k : forallb f (nrange k) = true -> forall x, x < k -> f x = true.
Proof. intros H x Hx. rewrite forallb_forall in H. apply H. apply nrange_in. exact Hx. Qed.

Lemma forallb_nrange2 (f : N -> N -> bool) k1 k2 :
  forallb (fun a => forallb (f a) (nrange k2)) (nrange k1) = true ->
  forall a b, a < k1 -> b < k2 -> f a b = true.
Proof.
  intros H a b Ha Hb. pose proof (forallb_nrange _ _ H a Ha) as H2. cbv beta in H2.
  exact (forallb_nrange _ _ H2 b Hb).
Qed.

(* ---- what each leaf decodes to ---- *)
Definition ot_of_leaf (lf : leaf) : optype :=
  match lf with
  | LKey k => OTKey k
  | LHistKey k r => OTHistKey k r
  | LLt nth t => OTLt nth (timing_threshold t)
  | LGt nth t => OTGt nth (timing_threshold t)
  | LInput row y => OTInput (row, y)
  | LHistInput row y r => OTHistInput (row, y) r
  | LLayer l => OTLayer l
  | LBaseLayer l => OTBaseLayer l
  end.

Definition optype_eqb (a b : optype) : bool :=
  match a, b with
  | OTBool o1 i1, OTBool o2 i2 => bop_eqb o1 o2 && (i1 =? i2)
  | OTKey a, OTKey b => a =? b
  | OTHistKey a1 b1, OTHistKey a2 b2 => (a1 =? a2) && (b1 =? b2)
  | OTInput c1, OTInput c2 => coord_eqb c1 c2
  | OTHistInput c1 b1, OTHistInput c2 b2 => coord_eqb c1 c2 && (b1 =? b2)
  | OTLt a1 b1, OTLt a2 b2 | OTGt a1 b1, OTGt a2 b2 => (a1 =? a2) && (b1 =? b2)
  | OTLayer a, OTLayer b | OTBaseLayer a, OTBaseLayer b => a =? b
  | _, _ => false
  end.
Lemma optype_eqb_eq a b : optype_eqb a b = true -> a = b.
Proof.
  destruct a, b; cbn; try discriminate; intros H;
    repeat match goal with
    | H : _ && _ = true |- _ => apply andb_prop in H; destruct H
    | H : (_ =? _) = true |- _ => apply N.eqb_eq in H; subst
    | H : coord_eqb ?c1 ?c2 = true |- _ =>
        destruct c1, c2; unfold coord_eqb in H; cbn [fst snd] in H
    | H : bop_eqb ?o1 ?o2 = true |- _ => destruct o1, o2; try discriminate; clear H
    end; reflexivity.
Qed.

Definition dec_is (v : N) (next : option N) (ot : optype) : bool :=
  match opcode_type v next with Ok ot' => optype_eqb ot' ot | _ => false end.
Lemma dec_is_spec v next ot : dec_is v next ot = true -> opcode_type v next = Ok ot.
Proof.
  unfold dec_is. destruct (opcode_type v next) as [ot'| |]; try discriminate.
  intros H. apply optype_eqb_eq in H. subst. reflexivity.
Qed.

(* a one-word opcode is decoded without looking at the next word *)
Lemma opcode_type_one_word v n1 n2 :
  v < KEY_MAX_KB \/ MAX_OPCODE_LEN < v -> opcode_type v n1 = opcode_type v n2.
Proof.
  intros H. unfold opcode_type.
  destruct (N.ltb_spec v KEY_MAX_KB); [reflexivity|].
  destruct (N.leb_spec v MAX_OPCODE_LEN); [|reflexivity].
  destruct H; lia.
Qed.

(* ---- exhaustive checks ---- *)
Lemma chk_key : forallb (fun k => dec_is (N.land k MAX_OPCODE_LEN) None (OTKey k)) (nrange KEY_MAX_KB) = true.
Proof. vm_compute. reflexivity. Qed.

Lemma chk_histkey :
  forallb (fun k => forallb (fun r =>
     dec_is (N.lor (N.lor (N.land k MAX_OPCODE_LEN) HISTORICAL_KEYCODE_VAL) (N.shiftl r 12)) None (OTHistKey k r))
     (nrange 8)) (nrange 4096) = true.
Proof. vm_compute. reflexivity. Qed.

(* timing: the compressed value c < 1024 is what gets encoded *)
Lemma chk_compress_range : forallb (fun t => lossy_compress_ticks t <? 1024) (nrange 65536) = true.
Proof. vm_compute. reflexivity. Qed.
Lemma chk_lt :
  forallb (fun c => forallb (fun nth =>
     dec_is (N.lor (N.lor TICKS_SINCE_VAL_LT c) (N.shiftl nth 10)) None (OTLt nth (lossy_decompress_ticks c)))
     (nrange 8)) (nrange 1024) = true.
Proof. vm_compute. reflexivity. Qed.
Lemma chk_gt :
  forallb (fun c => forallb (fun nth =>
     dec_is (N.lor (N.lor TICKS_SINCE_VAL_GT c) (N.shiftl nth 10)) None (OTGt nth (lossy_decompress_ticks c)))
     (nrange 8)) (nrange 1024) = true.
Proof. vm_compute. reflexivity. Qed.

Lemma chk_input :
  forallb (fun row => forallb (fun y =>
     dec_is INPUT_VAL (Some (N.shiftl (N.land row 3) 14 + y)) (OTInput (row, y)))
     (nrange 1024)) (nrange 4) = true.
Proof. vm_compute. reflexivity. Qed.
Lemma chk_histinput :
  forallb (fun row => forallb (fun y => forallb (fun r =>
     dec_is HISTORICAL_INPUT_VAL (Some (N.shiftl (N.land row 3) 14 + N.shiftl r 11 + y)) (OTHistInput (row, y) r))
     (nrange 8)) (nrange 1024)) (nrange 4) = true.
Proof. vm_compute. reflexivity. Qed.

Lemma chk_bool :
  forallb (fun e =>
     dec_is (N.land e MAX_OPCODE_LEN + OR_VAL) None (OTBool BOr e)
     && dec_is (N.land e MAX_OPCODE_LEN + AND_VAL) None (OTBool BAnd e)
     && dec_is (N.land e MAX_OPCODE_LEN + NOT_VAL) None (OTBool BNot e)) (nrange 4096) = true.
Proof. vm_compute. reflexivity. Qed.

(* opcode classes: where the first word of each constructor lives (needed for one-word-ness) *)
Lemma chk_oneword_histkey :
  forallb (fun k => forallb (fun r =>
     MAX_OPCODE_LEN <? N.lor (N.lor (N.land k MAX_OPCODE_LEN) HISTORICAL_KEYCODE_VAL) (N.shiftl r 12))
     (nrange 8)) (nrange 4096) = true.
Proof. vm_compute. reflexivity. Qed.
Lemma chk_oneword_timing :
  forallb (fun c => forallb (fun nth =>
     (MAX_OPCODE_LEN <? N.lor (N.lor TICKS_SINCE_VAL_LT c) (N.shiftl nth 10))
     && (MAX_OPCODE_LEN <? N.lor (N.lor TICKS_SINCE_VAL_GT c) (N.shiftl nth 10)))
     (nrange 8)) (nrange 1024) = true.
Proof. vm_compute. reflexivity. Qed.
Lemma chk_oneword_bool :
  forallb (fun e => (MAX_OPCODE_LEN <? N.land e MAX_OPCODE_LEN + OR_VAL)
                    && (MAX_OPCODE_LEN <? N.land e MAX_OPCODE_LEN + AND_VAL)
                    && (MAX_OPCODE_LEN <? N.land e MAX_OPCODE_LEN + NOT_VAL)) (nrange 4096) = true.
Proof. vm_compute. reflexivity. Qed.

(* ---- decode . encode for every well-formed leaf, for any following word where one word is used ---- *)
Lemma decode_leaf1 lf v next :
  wf_leaf lf -> enc_leaf lf = [v] -> opcode_type v next = Ok (ot_of_leaf lf).
Proof.
  intros Hwf Henc. destruct lf; cbn [enc_leaf] in Henc; try discriminate; inversion Henc; subst v; clear Henc;
    cbn [wf_leaf ot_of_leaf] in *.
  - (* key *)
    rewrite (opcode_type_one_word _ next None).
    + apply dec_is_spec. exact (forallb_nrange _ _ chk_key k Hwf).
    + left. assert (Hk : N.land k MAX_OPCODE_LEN <= k).
      { change MAX_OPCODE_LEN with (N.ones 12). rewrite N.land_ones. apply N.mod_le. discriminate. }
      unfold KEY_MAX_KB in *. lia.
  - (* key history *)
    destruct Hwf as [Hk Hr]. assert (Hk' : k < 4096) by (unfold MAX_OPCODE_LEN in Hk; lia).
    rewrite (opcode_type_one_word _ next None).
    + apply dec_is_spec. exact (forallb_nrange2 _ _ _ chk_histkey k recency Hk' Hr).
    + right. apply N.ltb_lt. exact (forallb_nrange2 _ _ _ chk_oneword_histkey k recency Hk' Hr).
  - (* lt *)
    destruct Hwf as [Hn Ht].
    pose proof (forallb_nrange _ _ chk_compress_range t Ht) as Hc. apply N.ltb_lt in Hc.
    rewrite (opcode_type_one_word _ next None).
    + apply dec_is_spec. exact (forallb_nrange2 _ _ _ chk_lt _ nth Hc Hn).
    + right. pose proof (forallb_nrange2 _ _ _ chk_oneword_timing _ nth Hc Hn) as H.
      apply andb_prop in H. apply N.ltb_lt. exact (proj1 H).
  - (* gt *)
    destruct Hwf as [Hn Ht].
    pose proof (forallb_nrange _ _ chk_compress_range t Ht) as Hc. apply N.ltb_lt in Hc.
    rewrite (opcode_type_one_word _ next None).
    + apply dec_is_spec. exact (forallb_nrange2 _ _ _ chk_gt _ nth Hc Hn).
    + right. pose proof (forallb_nrange2 _ _ _ chk_oneword_timing _ nth Hc Hn) as H.
      apply andb_prop in H. apply N.ltb_lt. exact (proj2 H).
Qed.

Lemma decode_leaf2 lf v w :
  wf_leaf lf -> enc_leaf lf = [v; w] -> opcode_type v (Some w) = Ok (ot_of_leaf lf).
Proof.
  intros Hwf Henc. destruct lf; cbn [enc_leaf] in Henc; try discriminate; inversion Henc; subst v w; clear Henc;
    cbn [wf_leaf ot_of_leaf] in *.
  - destruct Hwf as [Hr Hy]. apply dec_is_spec. exact (forallb_nrange2 _ _ _ chk_input row y Hr Hy).
  - destruct Hwf as [Hr [Hy Hc]]. apply dec_is_spec.
    pose proof (forallb_nrange2 _ _ _ chk_histinput row y Hr Hy) as H. cbv beta in H.
    exact (forallb_nrange _ _ H recency Hc).
  - reflexivity.
  - reflexivity.
Qed.

Lemma enc_leaf_width lf : length (enc_leaf lf) = leaf_width (ot_of_leaf lf).
Proof. destruct lf; reflexivity. Qed.

Lemma ot_of_leaf_not_bool lf o e : ot_of_leaf lf <> OTBool o e.
Proof. destruct lf; discriminate. Qed.

Lemma decode_bool o (e : nat) next :
  (e <= 4095)%nat -> opcode_type (enc_bool o e) next = Ok (OTBool o (N.of_nat e)).
Proof.
  intros He. assert (He' : N.of_nat e < 4096) by lia.
  pose proof (forallb_nrange _ _ chk_bool _ He') as H. cbv beta in H.
  pose proof (forallb_nrange _ _ chk_oneword_bool _ He') as H1. cbv beta in H1.
  apply andb_prop in H. destruct H as [H Hn]. apply andb_prop in H. destruct H as [Ho Ha].
  apply andb_prop in H1. destruct H1 as [H1 H1n]. apply andb_prop in H1. destruct H1 as [H1o H1a].
  unfold enc_bool. destruct o; cbn [op_val];
    (rewrite (opcode_type_one_word _ next None); [apply dec_is_spec; assumption | right; apply N.ltb_lt; assumption]).
Qed.

(* the spec's leaf meaning is what the evaluator computes on the decoded opcode *)
Lemma eval_leaf_denote env lf : eval_leaf env (ot_of_leaf lf) = denote_leaf env lf.
Proof.
  destruct lf; reflexivity.
Qed.

(* ---- lossy compression of key-timing thresholds ---- *)
Definition compress_ok (t : N) : bool :=
  let t' := timing_threshold t in
  (t' <=? t)
  && (if t <=? 255 then t' =? t else if t <=? 2303 then t - t' <? 8 else t - t' <? 128).
Lemma chk_compress : forallb compress_ok (nrange 65536) = true.
Proof. vm_compute. reflexivity. Qed.

Lemma compress_bounds t : t < 65536 ->
  timing_threshold t <= t /\
  (t <= 255 -> timing_threshold t = t) /\
  (t <= 2303 -> t - timing_threshold t < 8) /\
  t - timing_threshold t < 128.
Proof.
  intros Ht. pose proof (forallb_nrange _ _ chk_compress t Ht) as H. unfold compress_ok in H.
  apply andb_prop in H. destruct H as [H1 H2]. apply N.leb_le in H1.
  destruct (N.leb_spec t 255).
  - apply N.eqb_eq in H2. rewrite H2. repeat split; intros; lia.
  - destruct (N.leb_spec t 2303); apply N.ltb_lt in H2; repeat split; intros; lia.
Qed.

Definition monotone_ok (t : N) : bool := timing_threshold t <=? timing_threshold (t + 1).
Lemma chk_monotone : forallb monotone_ok (nrange 65535) = true.
Proof. vm_compute. reflexivity. Qed.
Lemma compress_monotone_step t : t < 65535 -> timing_threshold t <= timing_threshold (t + 1).
Proof. intros Ht. apply N.leb_le. exact (forallb_nrange _ _ chk_monotone t Ht). Qed.
