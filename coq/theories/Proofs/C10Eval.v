(* C10, part 2: the stack-machine evaluator agrees with the denotation of the written condition
   on every compiled well-formed forest (all nesting depths up to the stack capacity). *)
From Coq Require Import Lia.
From KV Require Import Spec.BoolSpec Proofs.C10Decode.

Section Ind.
  Variable P : bexpr -> Prop.
  Hypothesis HL : forall lf, P (BLeaf lf).
  Hypothesis HO : forall o es, Forall P es -> P (BOp o es).
  Fixpoint bexpr_ind' (e : bexpr) : P e :=
    match e with
    | BLeaf lf => HL lf
    | BOp o es => HO o es ((fix go l : Forall P l :=
        match l with [] => Forall_nil _ | x :: r => Forall_cons _ (bexpr_ind' x) (go r) end) es)
    end.
End Ind.

Lemma size_op o es : size (BOp o es) = S (sizes es).
Proof. reflexivity. Qed.
Lemma compile_op off o es : compile off (BOp o es) = enc_bool o (off + size (BOp o es)) :: compiles (S off) es.
Proof. reflexivity. Qed.
Lemma depth_op o es : depth (BOp o es) = S (depths es).
Proof. reflexivity. Qed.

Lemma size_pos e : (1 <= size e)%nat.
Proof. destruct e as [lf|o es]; [destruct lf; cbn; lia | rewrite size_op; lia]. Qed.
Lemma sizes_pos es : es <> [] -> (1 <= sizes es)%nat.
Proof. destruct es as [|x r]; [congruence|]. intros _. cbn. pose proof (size_pos x). lia. Qed.

Lemma length_compile e : forall off, length (compile off e) = size e.
Proof.
  induction e as [lf|o es IH] using bexpr_ind'; intros off; [reflexivity|].
  rewrite compile_op, size_op. cbn [length]. f_equal. generalize (S off).
  induction IH as [|x r Hx _ IHr]; intros n; cbn; [reflexivity|]. rewrite app_length, Hx, IHr. reflexivity.
Qed.
Lemma length_compiles es : forall off, length (compiles off es) = sizes es.
Proof. induction es as [|x r IH]; intros off; cbn; [reflexivity|]. now rewrite app_length, length_compile, IH. Qed.

Definition frame_val env (o : bop) (es : list bexpr) : bool :=
  match o with
  | BOr => existsb (denote env) es | BAnd => forallb (denote env) es | BNot => negb (existsb (denote env) es)
  end.
Lemma denote_op env o es : denote env (BOp o es) = frame_val env o es.
Proof. destruct o; reflexivity. Qed.

Definition seg_at (code : list N) (off : nat) (seg : list N) :=
  forall j x, nth_error seg j = Some x -> nth_error code (off + j) = Some x.
Lemma seg_at_app code off a b : seg_at code off (a ++ b) -> seg_at code off a /\ seg_at code (off + length a) b.
Proof.
  intros H; split; intros j x Hj.
  - apply H. rewrite nth_error_app1; [exact Hj|]. apply nth_error_Some. congruence.
  - rewrite <- Nat.add_assoc. apply H. rewrite nth_error_app2 by lia.
    replace (length a + j - length a)%nat with j by lia. exact Hj.
Qed.
Lemma seg_at_cons code off x l : seg_at code off (x :: l) -> nth_error code off = Some x /\ seg_at code (S off) l.
Proof.
  intros H; split.
  - rewrite <- (Nat.add_0_r off). apply H. reflexivity.
  - intros j y Hj. replace (S off + j)%nat with (off + S j)%nat by lia. apply H. exact Hj.
Qed.

Section Correct.
Variable code : list N.
Variable env : sw_env.

Lemma run_exit f ret i endi op st :
  (length code <= i)%nat -> eval_loop f code env ret i endi op st = Ok (unwind st ret).
Proof. intros H. destruct f; cbn [eval_loop]; destruct (Nat.ltb_spec i (length code)); try lia; reflexivity. Qed.

Lemma run_leaf f ret i endi op st v lf :
  (i < length code)%nat -> (i < endi)%nat -> nth_error code i = Some v ->
  opcode_type v (nth_error code (S i)) = Ok (ot_of_leaf lf) ->
  eval_loop (S f) code env ret i endi op st =
    (let r := neg_if_not op (denote_leaf env lf) in
     if sc_leaf r op then eval_loop f code env r endi endi op st
     else eval_loop f code env r (i + length (enc_leaf lf)) endi op st).
Proof.
  intros H1 H2 H3 H4. cbn [eval_loop]. destruct (Nat.ltb_spec i (length code)); [|lia].
  destruct (Nat.leb_spec endi i); [lia|]. rewrite H3, H4. cbn [bind].
  rewrite eval_leaf_denote, <- enc_leaf_width.
  destruct lf; reflexivity.
Qed.

Lemma run_bool f ret i endi op st v o2 e2 :
  (i < length code)%nat -> (i < endi)%nat -> nth_error code i = Some v ->
  opcode_type v (nth_error code (S i)) = Ok (OTBool o2 (N.of_nat e2)) ->
  (length st < MAX_BOOL_EXPR_DEPTH)%nat ->
  eval_loop (S f) code env ret i endi op st = eval_loop f code env ret (S i) e2 o2 ((op, endi) :: st).
Proof.
  intros H1 H2 H3 H4 H5. cbn [eval_loop]. destruct (Nat.ltb_spec i (length code)); [|lia].
  destruct (Nat.leb_spec endi i); [lia|]. rewrite H3, H4. cbn [bind].
  destruct (Nat.ltb_spec (length st) MAX_BOOL_EXPR_DEPTH); [|lia]. rewrite Nat2N.id. reflexivity.
Qed.

Lemma run_pop f ret i endi op o e st :
  (i < length code)%nat -> (endi <= i)%nat ->
  eval_loop (S f) code env ret i endi op ((o, e) :: st) =
    (if sc_pop ret o || Nat.leb e i then eval_loop f code env (neg_if_not o ret) e e o st
     else eval_loop f code env ret i e o st).
Proof.
  intros H1 H2. cbn [eval_loop]. destruct (Nat.ltb_spec i (length code)); [|lia].
  destruct (Nat.leb_spec endi i); [|lia]. reflexivity.
Qed.

(* an operand [e] compiled at [off] inside the frame (op, endi) with stack st: either it
   short-circuits the frame (or is its last operand) and the machine lands on (endi, value), or
   it does not and the machine continues right after it.  n counts loop iterations. *)
Definition operand_ok (e : bexpr) : Prop :=
  forall off endi op st,
    seg_at code off (compile off e) -> (off + size e <= endi)%nat -> (endi <= length code)%nat ->
    (length code <= 4095)%nat -> (length st + depth e <= S MAX_BOOL_EXPR_DEPTH)%nat ->
    exists n, (n <= 2 * size e)%nat /\ forall f ret,
      ((sc_leaf (neg_if_not op (denote env e)) op = true \/ (off + size e)%nat = endi) ->
         eval_loop (n + f) code env ret off endi op st =
         eval_loop f code env (neg_if_not op (denote env e)) endi endi op st)
      /\ ((sc_leaf (neg_if_not op (denote env e)) op = false /\ (off + size e < endi)%nat) ->
         exists r0, eval_loop (n + f) code env ret off endi op st = eval_loop f code env r0 (off + size e) endi op st).

Lemma depths_cons x r : depths (x :: r) = Nat.max (depth x) (depths r).
Proof. reflexivity. Qed.

Lemma frame_ok es : es <> [] -> Forall operand_ok es ->
  forall off endi op st, seg_at code off (compiles off es) -> (off + sizes es)%nat = endi -> (endi <= length code)%nat ->
  (length code <= 4095)%nat -> (length st + depths es <= S MAX_BOOL_EXPR_DEPTH)%nat ->
  exists n, (n <= 2 * sizes es)%nat /\ forall f ret,
    eval_loop (n + f) code env ret off endi op st = eval_loop f code env (frame_val env op es) endi endi op st.
Proof.
  intros Hne HF. induction HF as [|x rest Hx HFr IH]; [congruence|].
  intros off endi op st Hseg Hend Hlen Hmax Hd. cbn [compiles] in Hseg. apply seg_at_app in Hseg as [Hsx Hsr].
  rewrite length_compile in Hsr. cbn [sizes] in Hend. rewrite depths_cons in Hd.
  destruct (Hx off endi op st Hsx ltac:(lia) Hlen Hmax ltac:(lia)) as [n1 [Hn1 H1]].
  destruct (sc_leaf (neg_if_not op (denote env x)) op) eqn:Esc.
  - exists n1. split; [cbn [sizes]; lia|]. intros f ret. destruct (H1 f ret) as [Ha _]. rewrite Ha by (left; reflexivity).
    f_equal. destruct op; cbn in *.
    + rewrite Esc. reflexivity.
    + apply negb_true_iff in Esc. rewrite Esc. reflexivity.
    + apply negb_true_iff in Esc. apply negb_false_iff in Esc. rewrite Esc. reflexivity.
  - destruct rest as [|y rest'].
    + exists n1. split; [cbn [sizes]; lia|]. intros f ret. destruct (H1 f ret) as [Ha _]. cbn [sizes] in Hend.
      rewrite Ha by (right; lia).
      f_equal. destruct op; cbn; rewrite ?orb_false_r, ?andb_true_r; reflexivity.
    + assert (Hne' : y :: rest' <> []) by congruence.
      pose proof (sizes_pos _ Hne') as Hp.
      destruct (IH Hne' (off + size x)%nat endi op st Hsr ltac:(lia) Hlen Hmax ltac:(lia)) as [n2 [Hn2 H2]].
      exists (n1 + n2)%nat. split; [cbn [sizes] in *; lia|]. intros f ret. destruct (H1 (n2 + f)%nat ret) as [_ Hb].
      destruct Hb as [r0 Hr0]; [split; [reflexivity | lia]|].
      rewrite <- Nat.add_assoc, Hr0, H2. f_equal.
      destruct op; cbn in Esc |- *.
      * rewrite Esc. reflexivity.
      * apply negb_false_iff in Esc. rewrite Esc. reflexivity.
      * apply negb_false_iff in Esc. apply negb_true_iff in Esc. rewrite Esc. reflexivity.
Qed.

Lemma sc_pop_leaf v op : sc_pop v op = sc_leaf (neg_if_not op v) op.
Proof. destruct op, v; reflexivity. Qed.

Lemma operand_ok_all e : wf e -> operand_ok e.
Proof.
  induction e as [lf|o2 es IH] using bexpr_ind'; intros Hwf.
  - inversion Hwf as [lf' Hlf|]; subst.
    intros off endi op st Hseg Hend Hlen Hmax Hd. cbn [size compile denote] in *.
    assert (Hdec : exists v, nth_error code off = Some v /\
                     opcode_type v (nth_error code (S off)) = Ok (ot_of_leaf lf)).
    { destruct (enc_leaf lf) as [|v [|w [|z t]]] eqn:Eenc.
      - destruct lf; discriminate.
      - apply seg_at_cons in Hseg as [Hn _]. exists v. split; [exact Hn|].
        apply decode_leaf1; assumption.
      - apply seg_at_cons in Hseg as [Hn Hs2]. apply seg_at_cons in Hs2 as [Hn2 _].
        exists v. split; [exact Hn|]. rewrite Hn2. apply decode_leaf2; assumption.
      - destruct lf; discriminate. }
    destruct Hdec as [v [Hn Hot]].
    pose proof (size_pos (BLeaf lf)) as Hsz. cbn [size] in Hsz.
    exists 1%nat. split; [lia|]. intros f ret. change (1 + f)%nat with (S f).
    rewrite (run_leaf f ret off endi op st v lf) by (lia || assumption). cbv zeta.
    split.
    + intros [Hs|He].
      * rewrite Hs. reflexivity.
      * destruct (sc_leaf _ op); [reflexivity|]. rewrite He. reflexivity.
    + intros [Hs Hlt]. rewrite Hs. exists (neg_if_not op (denote_leaf env lf)). reflexivity.
  - inversion Hwf as [|o' es' Hne HFwf]; subst.
    assert (HF : Forall operand_ok es).
    { clear -IH HFwf. induction IH; inversion HFwf; subst; constructor; auto. }
    intros off endi op st Hseg Hend Hlen Hmax Hd. rewrite compile_op in Hseg.
    apply seg_at_cons in Hseg as [Hn Hsr]. rewrite size_op in *. rewrite depth_op in Hd.
    pose proof (sizes_pos _ Hne) as Hp.
    assert (Hd' : (length ((op, endi) :: st) + depths es <= S MAX_BOOL_EXPR_DEPTH)%nat) by (cbn [length]; lia).
    destruct (frame_ok es Hne HF (S off) (off + S (sizes es))%nat o2 ((op, endi) :: st) Hsr ltac:(lia) ltac:(lia) Hmax Hd')
      as [nf [Hnf Hf]].
    assert (Hdepth_pos : (1 <= depths es)%nat).
    { destruct es as [|x r]; [congruence|]. rewrite depths_cons.
      pose proof (Nat.le_max_l (depth x) (depths r)).
      assert (1 <= depth x)%nat by (destruct x; [cbn [depth]; lia | rewrite depth_op; lia]). lia. }
    exists (S (nf + 1))%nat. split; [lia|]. intros f ret.
    cbn [Nat.add].
    rewrite (run_bool _ ret off endi op st (enc_bool o2 (off + S (sizes es))) o2 (off + S (sizes es))%nat);
      [ | lia | lia | exact Hn | apply decode_bool; lia | unfold MAX_BOOL_EXPR_DEPTH in *; lia ].
    rewrite <- Nat.add_assoc. rewrite Hf. rewrite denote_op.
    set (fv := frame_val env o2 es). set (e2 := (off + S (sizes es))%nat).
    destruct (Nat.lt_ge_cases e2 (length code)) as [Hlt|Hge].
    + cbn [Nat.add]. rewrite run_pop by lia. rewrite sc_pop_leaf.
      split.
      * intros [Hs|He].
        -- rewrite Hs. reflexivity.
        -- destruct (Nat.leb_spec endi e2); [|lia]. rewrite orb_true_r. reflexivity.
      * intros [Hs Hl]. rewrite Hs. destruct (Nat.leb_spec endi e2); [lia|]. cbn [orb]. exists fv. reflexivity.
    + assert (e2 = endi) by lia. assert (endi = length code) by lia.
      rewrite run_exit by lia. split.
      * intros _. rewrite run_exit by lia. cbn [unwind fold_left fst]. reflexivity.
      * intros [_ Hl]. lia.
Qed.

Theorem eval_correct es :
  Forall wf es -> code = compiles 0 es -> (sizes es <= 4095)%nat -> (depths es <= MAX_BOOL_EXPR_DEPTH)%nat ->
  evaluate_boolean code env = Ok (denote_top env es).
Proof.
  intros HF Hc Hsz Hd. unfold evaluate_boolean. destruct es as [|x r].
  - rewrite Hc. reflexivity.
  - assert (Hne : x :: r <> []) by congruence.
    assert (HFo : Forall operand_ok (x :: r)).
    { clear -HF. induction HF; constructor; auto using operand_ok_all. }
    assert (Hseg : seg_at code 0 (compiles 0 (x :: r))) by (rewrite Hc; intros j y Hj; exact Hj).
    assert (Hl : length code = sizes (x :: r)) by (rewrite Hc; apply length_compiles).
    destruct (frame_ok _ Hne HFo 0%nat (length code) BOr [] Hseg ltac:(lia) ltac:(lia) ltac:(lia) ltac:(cbn [length]; lia))
      as [n [Hn Hrun]].
    replace (2 * length code + 16)%nat with (n + (2 * length code + 16 - n))%nat by lia.
    rewrite Hrun. rewrite run_exit by lia. reflexivity.
Qed.
End Correct.

(* the cases iterator: first to last, a firing break stops, a firing fallthrough continues *)
Definition wf_case (c : list bexpr * action * bool) : Prop :=
  let '(cond, _, _) := c in Forall wf cond /\ (sizes cond <= 4095)%nat /\ (depths cond <= MAX_BOOL_EXPR_DEPTH)%nat.

Theorem cases_correct env cs : Forall wf_case cs ->
  switch_actions (map compile_case cs) env = Ok (cases_spec env cs).
Proof.
  intros H. induction H as [|[[cond a] brk] rest [Hwf [Hsz Hd]] _ IH]; [reflexivity|].
  cbn [map compile_case switch_actions cases_spec].
  rewrite (eval_correct _ env cond Hwf eq_refl Hsz Hd). cbn [bind].
  destruct (denote_top env cond); [|exact IH].
  destruct brk; [reflexivity|]. rewrite IH. reflexivity.
Qed.
