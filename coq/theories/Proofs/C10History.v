(* C10, the input history that `input-history` leaves of switch read: a press is recorded the moment it is handed to the layout,
   whether it goes to the layout's own queue or, with defchordsv2 configured, to the chord queue first. *)
From Coq Require Import Lia.
From KV Require Import Keyberon.Layout Proofs.LayoutBasics.

Definition entry_queue_len (l : layout) : nat :=
  match chords2 l with None => length (queue l) | Some ch => length (cv_queue ch) end.

Theorem press_is_recorded_in_input_history cfg l c :
  (entry_queue_len l < QUEUE_SIZE)%nat ->
  exists l', layout_event2 cfg l true c = Ok l' /\ hist_inputs l' = hist_push_front c (hist_inputs l) /\
             hist_keys l' = hist_keys l.
Proof.
  unfold entry_queue_len, layout_event2. intros H. destruct (chords2 l) as [ch|] eqn:E.
  - rewrite (wdeque_push_back_room QUEUE_SIZE _ _ H). eexists. split; [reflexivity|]. split; reflexivity.
  - rewrite (event_enqueues cfg l true c H). eexists. split; [reflexivity|]. split; reflexivity.
Qed.

Theorem release_leaves_input_history cfg l c :
  (entry_queue_len l < QUEUE_SIZE)%nat ->
  exists l', layout_event2 cfg l false c = Ok l' /\ hist_inputs l' = hist_inputs l.
Proof.
  unfold entry_queue_len, layout_event2. intros H. destruct (chords2 l) as [ch|] eqn:E.
  - rewrite (wdeque_push_back_room QUEUE_SIZE _ _ H). eexists. split; reflexivity.
  - rewrite (event_enqueues cfg l false c H). eexists. split; reflexivity.
Qed.
