(* C10: what key-history / key-timing look at.  Every key that do_action puts down is entered in the key history, whoever asked
   for it: a physical key, the inner action of a one-shot (is_oneshot = true), a macro, a virtual key. *)
From KV Require Import Keyberon.Layout Proofs.LayoutBasics Proofs.C06Combine.

Lemma key_rpt_update_hist a ks os c l : hist_keys (key_rpt_update a ks os c l) = hist_keys l.
Proof.
  unfold key_rpt_update. destruct os.
  - reflexivity.
  - unfold os_press_l. destruct (os_handle_press (oneshot l) (OSOther c)) as [o cs]. destruct cs; reflexivity.
Qed.

Theorem every_key_pressed_enters_the_key_history cfg rec l k c d os ls l' cu :
  do_action_body cfg rec l (KeyCode k) c d os ls = Ok (l', cu) ->
  hist_keys l' = hist_push_front k (hist_keys l).
Proof.
  unfold do_action_body. cbn [bind]. fold (before_action l c). intros E. injection E as <- _.
  rewrite key_rpt_update_hist. cbn [hist_keys set_states set_hist_keys].
  unfold lpt_update_coord, before_action. destruct (fst c =? 0); destruct (coord_eqb (lpt_coord l) c); reflexivity.
Qed.
