(* C11: key identity. Everything is finite and regenerated from the source, so each proof is a
   generic lemma over arbitrary tables ("if the boolean checker says true then the universally
   quantified statement holds") instantiated with one vm_compute on the real tables. *)
From Coq Require Import List NArith String Bool Lia.
From KV Require Import Gen.KeyTables Keys.KeyModel.
Import ListNotations.
Open Scope N_scope.

Lemma assoc_s_in {B} k (l : list (string * B)) v : assoc_s k l = Some v -> In (k, v) l.
Proof.
  induction l as [|[k' v'] tl IH]; cbn [assoc_s]; [discriminate|].
  destruct (String.eqb_spec k k') as [->|Hne]; intros H.
  - inversion H; subst; left; reflexivity.
  - right; apply IH; exact H.
Qed.

Lemma assoc_n_in {B} k (l : list (N * B)) v : assoc_n k l = Some v -> In (k, v) l.
Proof.
  induction l as [|[k' v'] tl IH]; cbn [assoc_n]; [discriminate|].
  destruct (N.eqb_spec k k') as [->|Hne]; intros H.
  - inversion H; subst; left; reflexivity.
  - right; apply IH; exact H.
Qed.

Lemma subset_n_spec a b : subset_n a b = true -> forall x, In x a -> In x b.
Proof.
  unfold subset_n; intros H x Hx.
  rewrite forallb_forall in H. specialize (H x Hx).
  rewrite existsb_exists in H. destruct H as [y [Hy He]].
  apply N.eqb_eq in He. subst; exact Hy.
Qed.

Section Generic.
  Variables (from to : list (string * N)).
  Lemma conv_g : chk_conv from to = true ->
    forall v d, In (v, d) from -> exists k, transmute_g from to v = Some k /\ assoc_s k to = Some d.
  Proof.
    unfold chk_conv. intros H v d Hin. rewrite forallb_forall in H.
    specialize (H _ Hin). cbn [fst snd] in H.
    destruct (transmute_g from to v) as [k|]; [|discriminate].
    destruct (assoc_s k to) as [d'|] eqn:E; [|discriminate].
    apply N.eqb_eq in H. subst. exists k; split; [reflexivity|exact E].
  Qed.

  Variables (tbl : list (N * string)) (discr : list (string * N)).
  Lemma from_as_g : chk_from_as tbl discr = true ->
    forall c v, assoc_n c tbl = Some v -> assoc_s v discr = Some c.
  Proof.
    unfold chk_from_as. intros H c v Hc. apply assoc_n_in in Hc.
    rewrite forallb_forall in H. specialize (H _ Hc). cbn [fst snd] in H.
    destruct (assoc_s v discr) as [d|]; [|discriminate].
    apply N.eqb_eq in H. subst. reflexivity.
  Qed.
  Lemma as_from_g : chk_as_from tbl discr = true ->
    forall c v, In (c, v) tbl -> exists d, assoc_s v discr = Some d /\ assoc_n d tbl = Some v.
  Proof.
    unfold chk_as_from. intros H c v Hin. rewrite forallb_forall in H.
    specialize (H _ Hin). cbn [snd] in H.
    destruct (assoc_s v discr) as [d|]; [|discriminate].
    destruct (assoc_n d tbl) as [v'|] eqn:E; [|discriminate].
    apply String.eqb_eq in H. subst. exists d; split; [reflexivity|exact E].
  Qed.

  Variables (defaults arms : list (string * string)).
  Lemma names_g : chk_names defaults arms discr = true ->
    forall n v, In (n, v) (defaults ++ arms) ->
      str_to_oscode_g defaults arms n = Some v /\ exists d, assoc_s v discr = Some d.
  Proof.
    unfold chk_names. intros H n v Hin. apply andb_prop in H. destruct H as [H1 H2].
    rewrite forallb_forall in H1, H2. specialize (H1 _ Hin). specialize (H2 _ Hin).
    cbn [fst snd] in H1, H2. split.
    - destruct (str_to_oscode_g defaults arms n) as [v'|]; [|discriminate].
      apply String.eqb_eq in H1. subst. reflexivity.
    - destruct (assoc_s v discr) as [d|]; [|discriminate]. exists d; reflexivity.
  Qed.
  Lemma names_only_g : forall n v, str_to_oscode_g defaults arms n = Some v -> In (n, v) (defaults ++ arms).
  Proof.
    intros n v H. unfold str_to_oscode_g in H. apply in_or_app.
    destruct (assoc_s n defaults) as [v'|] eqn:E.
    - inversion H; subst. left. apply assoc_s_in. exact E.
    - right. apply assoc_s_in. exact H.
  Qed.
End Generic.

(* ---- discriminant sets coincide ---- *)
Lemma repr_ok : keycode_repr_u16 = true /\ oscode_repr_u16 = true.
Proof. split; reflexivity. Qed.
Lemma kc_sub_os : subset_n (map snd keycode_discr) (map snd oscode_discr) = true.
Proof. vm_compute. reflexivity. Qed.
Lemma os_sub_kc : subset_n (map snd oscode_discr) (map snd keycode_discr) = true.
Proof. vm_compute. reflexivity. Qed.
Lemma discr_nodup : (nodup_n (map snd keycode_discr) && nodup_n (map snd oscode_discr)
   && nodup_s (map fst keycode_discr) && nodup_s (map fst oscode_discr)
   && forallb (fun d => d <? 65536) (map snd oscode_discr)) = true.
Proof. vm_compute. reflexivity. Qed.

Lemma discr_sets_equal :
  keycode_repr_u16 = true /\ oscode_repr_u16 = true /\
  forall d, In d (map snd keycode_discr) <-> In d (map snd oscode_discr).
Proof.
  split; [exact (proj1 repr_ok)|]. split; [exact (proj2 repr_ok)|].
  intros d; split.
  - exact (subset_n_spec _ _ kc_sub_os d).
  - exact (subset_n_spec _ _ os_sub_kc d).
Qed.

Lemma conv_os_kc_true : chk_conv oscode_discr keycode_discr = true.
Proof. vm_compute. reflexivity. Qed.
Lemma conv_kc_os_true : chk_conv keycode_discr oscode_discr = true.
Proof. vm_compute. reflexivity. Qed.

Lemma conv_preserves_code :
  (forall v d, In (v, d) oscode_discr ->
     exists k, osc_to_kc v = Some k /\ kc_as_u16 k = Some d) /\
  (forall v d, In (v, d) keycode_discr ->
     exists o, kc_to_osc v = Some o /\ os_as_u16 o = Some d).
Proof.
  split.
  - exact (conv_g _ _ conv_os_kc_true).
  - exact (conv_g _ _ conv_kc_os_true).
Qed.

(* ---- u16 <-> OsCode round trip ---- *)
Lemma from_as_true : chk_from_as from_u16_linux_tbl oscode_discr = true.
Proof. vm_compute. reflexivity. Qed.
Lemma as_from_true : chk_as_from from_u16_linux_tbl oscode_discr = true.
Proof. vm_compute. reflexivity. Qed.

Lemma roundtrip_from_as : forall c v, os_from_u16 c = Some v -> os_as_u16 v = Some c.
Proof. exact (from_as_g _ _ from_as_true). Qed.
Lemma roundtrip_as_from : forall c v, In (c, v) from_u16_linux_tbl ->
  exists d, os_as_u16 v = Some d /\ os_from_u16 d = Some v.
Proof. exact (as_from_g _ _ as_from_true). Qed.

(* every code accepted on input, and every discriminant, is below keyberon's KEY_MAX *)
Lemma codes_lt_keymax :
  (forallb (fun p => fst p <? KEY_MAX) from_u16_linux_tbl
   && forallb (fun p => snd p <? KEY_MAX) oscode_discr) = true.
Proof. vm_compute. reflexivity. Qed.

(* ---- names ---- *)
Lemma names_true : chk_names default_key_names match_key_names oscode_discr = true.
Proof. vm_compute. reflexivity. Qed.
Lemma names_functional : forall n v, In (n, v) (default_key_names ++ match_key_names) ->
  str_to_oscode n = Some v /\ exists d, os_as_u16 v = Some d.
Proof. exact (names_g _ _ _ names_true). Qed.
Lemma names_only_listed : forall n v, str_to_oscode n = Some v ->
  In (n, v) (default_key_names ++ match_key_names).
Proof. exact (names_only_g _ _). Qed.

(* ---- ignore range ---- *)
Lemma ignore_range : forall c, KEY_IGNORE_MIN <= c <= KEY_IGNORE_MAX -> out_filter c = [].
Proof.
  intros c [H1 H2]. unfold out_filter, out_filter_g.
  apply N.leb_le in H1. apply N.leb_le in H2. rewrite H1, H2. reflexivity.
Qed.
Lemma outside_ignore_range : forall c, ~ (KEY_IGNORE_MIN <= c <= KEY_IGNORE_MAX) -> out_filter c = [c].
Proof.
  intros c H. unfold out_filter, out_filter_g.
  destruct (N.leb_spec KEY_IGNORE_MIN c); destruct (N.leb_spec c KEY_IGNORE_MAX); cbn [andb]; try reflexivity.
  exfalso; apply H; split; assumption.
Qed.
Lemma nop_names_ignored :
  forallb (fun n => match str_to_oscode n with
     | Some v => match os_as_u16 v with Some d => match out_filter d with [] => true | _ => false end | None => false end
     | None => false end)
   ["nop0";"nop1";"nop2";"nop3";"nop4";"nop5";"nop6";"nop7";"nop8";"nop9"]%string = true.
Proof. vm_compute. reflexivity. Qed.
