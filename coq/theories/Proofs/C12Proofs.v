(* C12: accepted sequence tables are prefix-free; consequences for what typing can match. *)
From Coq Require Import Lia.
From KV Require Import Parser.SeqTable Proofs.LayoutBasics.

Lemma list_eqb_eq a : forall b, list_eqb a b = true <-> a = b.
Proof.
  induction a as [|x s IH]; intros [|y t]; cbn; split; try discriminate; try reflexivity.
  - intros H. apply andb_prop in H. destruct H as [H1 H2]. apply N.eqb_eq in H1. apply IH in H2. subst. reflexivity.
  - intros H. inversion H; subst. rewrite N.eqb_refl. apply IH. reflexivity.
Qed.

Lemma is_prefix_spec a : forall b, is_prefix a b = true <-> exists r, b = a ++ r.
Proof.
  induction a as [|x s IH]; intros b; cbn.
  - split; [intros _; exists b; reflexivity|reflexivity].
  - destruct b as [|y t]; [split; [discriminate|intros [r Hr]; discriminate]|].
    split.
    + intros H. apply andb_prop in H. destruct H as [H1 H2]. apply N.eqb_eq in H1. apply IH in H2.
      destruct H2 as [r ->]. subst. exists r. reflexivity.
    + intros [r Hr]. inversion Hr; subst. rewrite N.eqb_refl. apply IH. exists r. reflexivity.
Qed.

Lemma is_prefix_refl a : is_prefix a a = true.
Proof. apply is_prefix_spec. exists []. rewrite app_nil_r. reflexivity. Qed.

(* no key is a prefix of a different entry's key (and no key occurs twice) *)
Definition prefix_free (t : trie) : Prop :=
  forall i j e1 e2, nth_error t i = Some e1 -> nth_error t j = Some e2 -> i <> j -> is_prefix (fst e1) (fst e2) = false.

Lemma prefix_free_nil : prefix_free [].
Proof. intros i j e1 e2 H. destruct i; discriminate. Qed.

Lemma existsb_false_forall {A} (f : A -> bool) l : existsb f l = false -> forall x, In x l -> f x = false.
Proof.
  induction l as [|y t IH]; intros H x Hin; [contradiction|].
  cbn in H. apply orb_false_iff in H. destruct H as [H1 H2]. destruct Hin as [<-|Hin]; [exact H1|apply IH; assumption].
Qed.

Lemma prefix_free_snoc t p v :
  prefix_free t -> ancestor_exists t p = false -> descendant_exists t p = false ->
  prefix_free (t ++ [(p, v)]).
Proof.
  intros Hpf Ha Hd i j e1 e2 H1 H2 Hne.
  unfold ancestor_exists in Ha. unfold descendant_exists in Hd.
  destruct (Nat.lt_ge_cases i (length t)) as [Hi|Hi]; destruct (Nat.lt_ge_cases j (length t)) as [Hj|Hj].
  - rewrite nth_error_app1 in H1, H2 by assumption. exact (Hpf i j e1 e2 H1 H2 Hne).
  - rewrite nth_error_app1 in H1 by assumption. rewrite nth_error_app2 in H2 by assumption.
    destruct (j - length t)%nat as [|k] eqn:Ek; [|destruct k; discriminate].
    cbn in H2. inversion H2; subst. cbn [fst].
    apply (existsb_false_forall _ _ Ha e1). eapply nth_error_In. exact H1.
  - rewrite nth_error_app2 in H1 by assumption. rewrite nth_error_app1 in H2 by assumption.
    destruct (i - length t)%nat as [|k] eqn:Ek; [|destruct k; discriminate].
    cbn in H1. inversion H1; subst. cbn [fst].
    apply (existsb_false_forall _ _ Hd e2). eapply nth_error_In. exact H2.
  - rewrite nth_error_app2 in H1, H2 by assumption.
    destruct (i - length t)%nat as [|k] eqn:Ek; [|destruct k; discriminate].
    destruct (j - length t)%nat as [|k'] eqn:Ek'; [|destruct k'; discriminate]. lia.
Qed.

Lemma insert_perms_prefix_free v ps : forall t t', prefix_free t -> insert_perms t v ps = inr t' -> prefix_free t'.
Proof.
  induction ps as [|p rest IH]; intros t t' Hpf H; cbn [insert_perms] in H.
  - inversion H; subst. exact Hpf.
  - destruct (ancestor_exists t p) eqn:Ea; [discriminate|].
    destruct (descendant_exists t p) eqn:Ed; [discriminate|].
    eapply IH; [|exact H]. apply prefix_free_snoc; assumption.
Qed.

(* every table the parser accepts is prefix-free, for all definitions incl. every ordering of
   their O-(...) groups *)
Theorem accepted_tables_prefix_free defs : forall t t',
  prefix_free t -> parse_sequences defs t = inr t' -> prefix_free t'.
Proof.
  induction defs as [|[v vals] rest IH]; intros t t' Hpf H; cbn [parse_sequences] in H.
  - inversion H; subst. exact Hpf.
  - destruct (expand_groups (S (length vals)) vals [[]]) as [e|ps]; [discriminate|].
    destruct (insert_perms t v ps) as [e|t1] eqn:Ei; [discriminate|].
    eapply IH; [|exact H]. eapply insert_perms_prefix_free; eassumption.
Qed.

(* what the user types determines at most one match: while a proper prefix of a defined sequence
   has been typed the lookup says "keep going", never a value *)
Theorem proper_prefix_never_matches t k v p r :
  prefix_free t -> In (k, v) t -> k = p ++ r -> r <> [] ->
  get_or_descendant_exists t p = InTrie.
Proof.
  intros Hpf Hin -> Hr. unfold get_or_descendant_exists.
  destruct (find (fun e => list_eqb (fst e) p) t) as [e|] eqn:Ef.
  - exfalso. apply find_some in Ef. destruct Ef as [Hine He]. apply list_eqb_eq in He.
    destruct (In_nth_error _ _ Hine) as [i Hi]. destruct (In_nth_error _ _ Hin) as [j Hj].
    destruct (Nat.eq_dec i j) as [->|Hne].
    + rewrite Hi in Hj. injection Hj as Hje. rewrite Hje in He. cbn [fst] in He.
      apply (f_equal (@length N)) in He. rewrite app_length in He. destruct r; [congruence|cbn in He; lia].
    + pose proof (Hpf i j e (p ++ r, v) Hi Hj Hne) as Hf. cbn [fst] in Hf. rewrite He in Hf.
      assert (is_prefix p (p ++ r) = true) by (apply is_prefix_spec; exists r; reflexivity). congruence.
  - assert (He : existsb (fun e => is_prefix p (fst e)) t = true).
    { apply existsb_exists. exists (p ++ r, v). split; [exact Hin|]. cbn [fst]. apply is_prefix_spec. exists r. reflexivity. }
    rewrite He. reflexivity.
Qed.

(* the completed sequence yields exactly its own virtual key *)
Theorem completed_sequence_matches t k v :
  prefix_free t -> In (k, v) t -> get_or_descendant_exists t k = HasValue v.
Proof.
  intros Hpf Hin. unfold get_or_descendant_exists.
  destruct (find (fun e => list_eqb (fst e) k) t) as [e|] eqn:Ef.
  - apply find_some in Ef. destruct Ef as [Hine He]. apply list_eqb_eq in He.
    destruct (In_nth_error _ _ Hine) as [i Hi]. destruct (In_nth_error _ _ Hin) as [j Hj].
    destruct (Nat.eq_dec i j) as [->|Hne].
    + rewrite Hi in Hj. injection Hj as Hje. rewrite Hje. reflexivity.
    + pose proof (Hpf i j e (k, v) Hi Hj Hne) as Hf. cbn [fst] in Hf. rewrite He, is_prefix_refl in Hf. discriminate.
  - exfalso. pose proof (find_none _ _ Ef (k, v) Hin) as Hn. cbn [fst] in Hn.
    assert (list_eqb k k = true) by (apply list_eqb_eq; reflexivity). congruence.
Qed.

(* a key after which no defined sequence can still match is reported as such *)
Theorem dead_end_detected t p :
  (forall e, In e t -> is_prefix p (fst e) = false) -> get_or_descendant_exists t p = NotInTrie.
Proof.
  intros H. unfold get_or_descendant_exists.
  destruct (find (fun e => list_eqb (fst e) p) t) as [e|] eqn:Ef.
  - apply find_some in Ef. destruct Ef as [Hin He]. apply list_eqb_eq in He.
    specialize (H e Hin). rewrite He, is_prefix_refl in H. discriminate.
  - assert (He : existsb (fun e => is_prefix p (fst e)) t = false).
    { apply Bool.not_true_is_false. intros Ht. apply existsb_exists in Ht. destruct Ht as [e [Hin Hp]].
      rewrite (H e Hin) in Hp. discriminate. }
    rewrite He. reflexivity.
Qed.

(* the timeout ends sequence mode; the hidden modes type nothing unless hidden-delay-type fails *)
Theorem cancel_ends_sequence s :
  sq_active (fst (cancel_sequence s)) = false /\
  (sq_mode s <> 1 -> snd (cancel_sequence s) = []).
Proof.
  unfold cancel_sequence. cbn [fst snd sq_active set_sq_active]. split; [reflexivity|].
  intros H. destruct (N.eqb_spec (sq_mode s) 1); [contradiction|reflexivity].
Qed.

(* visible-backspaced: one backspace per typed non-modifier, non-ignored key (minus the noerase budget) *)
Theorem backspaces_one_per_key lo hi ks :
  Forall (fun k => k <> KEY_OVERLAP_MARKER /\ is_modifier_seq (N.land k MASK_KEYCODES) = false /\
                   ((lo <=? N.land k MASK_KEYCODES) && (N.land k MASK_KEYCODES <=? hi)) = false) ks ->
  fst (seq_backspaces lo hi ks 0) = flat_map (fun _ => [SORawPress 14; SORawRelease 14]) ks.
Proof.
  unfold seq_backspaces.
  assert (G : forall acc, Forall (fun k => k <> KEY_OVERLAP_MARKER /\ is_modifier_seq (N.land k MASK_KEYCODES) = false /\
                   ((lo <=? N.land k MASK_KEYCODES) && (N.land k MASK_KEYCODES <=? hi)) = false) ks ->
     fst (fold_left (fun (acc : list seq_out * N) k =>
            let '(out, ne) := acc in
            if k =? KEY_OVERLAP_MARKER then acc
            else let c := N.land k MASK_KEYCODES in
              if is_modifier_seq c then acc
              else if (lo <=? c) && (c <=? hi) then acc
              else if 0 <? ne then (out, ne - 1)
              else (out ++ [SORawPress 14; SORawRelease 14], ne)) ks (acc, 0)) =
     acc ++ flat_map (fun _ => [SORawPress 14; SORawRelease 14]) ks).
  { induction ks as [|k t IH]; intros acc H; cbn [fold_left flat_map]; [rewrite app_nil_r; reflexivity|].
    inversion H as [|? ? [Hk [Hm Hi]] Ht]; subst.
    destruct (N.eqb_spec k KEY_OVERLAP_MARKER); [contradiction|]. cbv zeta. rewrite Hm, Hi. cbn [N.ltb N.compare].
    rewrite IH by exact Ht. rewrite <- app_assoc. reflexivity. }
  intros H. exact (G [] H).
Qed.
