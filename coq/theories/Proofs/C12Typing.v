(* C12, a whole typed sequence through do_sequence_press_logic (model: seq_press_logic): in a prefix-free table whose
   sequences consist of plain keys only (no modifier-chorded keys, no O-(...) groups), typing the keys of a defined
   sequence one after the other with no modifier held reports nothing until the last key and then exactly the virtual
   key of that sequence, once; the two trackers (standard and overlap) both hold the typed prefix all along. *)
From Coq Require Import Lia.
From KV Require Import Parser.SeqTable Proofs.LayoutBasics Proofs.C12Proofs.

Definition plain_trie (t : trie) : Prop := forall e x, In e t -> In x (fst e) -> x < 1024.
(* keys that are pushed as they are (right-hand modifiers are folded into the left-hand ones) *)
Definition plain_key (k : N) : Prop := k < 1024 /\ k <> 54 /\ k <> 126 /\ k <> 97.

Lemma list_eqb_false_big e l x : (forall y, In y e -> y < 1024) -> In x l -> 1024 <= x -> list_eqb e l = false.
Proof.
  intros He Hx Hb. destruct (list_eqb e l) eqn:E; [|reflexivity]. apply list_eqb_eq in E. subst l.
  specialize (He x Hx). lia.
Qed.
Lemma is_prefix_false_big e l x : (forall y, In y e -> y < 1024) -> In x l -> 1024 <= x -> is_prefix l e = false.
Proof.
  intros He Hx Hb. destruct (is_prefix l e) eqn:E; [|reflexivity]. apply is_prefix_spec in E. destruct E as [r ->].
  assert (x < 1024) by (apply He; apply in_or_app; left; exact Hx). lia.
Qed.

Lemma big_not_in_plain t l x : plain_trie t -> In x l -> 1024 <= x -> get_or_descendant_exists t l = NotInTrie.
Proof.
  intros Hp Hx Hb. apply dead_end_detected. intros e He.
  apply (is_prefix_false_big (fst e) l x); [intros y Hy; exact (Hp e y He Hy)|exact Hx|exact Hb].
Qed.

Lemma bit10_ge a : N.testbit a 10 = true -> 1024 <= a.
Proof.
  intros H. destruct (N.lt_ge_cases a 1024) as [Hl|Hg]; [|exact Hg].
  rewrite N.testbit_true in H. change (2 ^ 10) with 1024 in H. rewrite N.div_small in H by exact Hl. discriminate.
Qed.
Lemma lor_marker_ge a : 1024 <= N.lor a 1024.
Proof. apply bit10_ge. rewrite N.lor_spec. change (N.testbit 1024 10) with true. apply Bool.orb_true_r. Qed.

Lemma land_mask_small k : k < 1024 -> N.land k MASK_KEYCODES = k.
Proof.
  intros H. unfold MASK_KEYCODES. change 1023 with (N.ones 10). rewrite N.land_ones. apply N.mod_small. exact H.
Qed.

Lemma set_nth_app {A} (p : list A) : forall j v l, set_nth (length p + j) v (p ++ l) = p ++ set_nth j v l.
Proof. induction p as [|a p IH]; intros j v l; [reflexivity|]. cbn [length plus app set_nth]. rewrite IH. reflexivity. Qed.

Lemma res_is_not_spec r : res_is_not r = true <-> r = NotInTrie.
Proof. destruct r; cbn; split; intros H; congruence. Qed.

(* one plain key typed while both trackers hold the plain prefix p, and p ++ [k] is still in the table *)
Lemma press_plain t mc s k p :
  plain_trie t -> sq_seq s = p -> sq_overlap s = p -> plain_key k ->
  get_or_descendant_exists t (p ++ [k]) <> NotInTrie ->
  exists s' out,
    seq_press_logic t mc s k 0 =
      Ok (s', out, match get_or_descendant_exists t (p ++ [k]) with HasValue v => Some (v, p ++ [k]) | _ => None end) /\
    sq_seq s' = p ++ [k] /\ sq_overlap s' = p ++ [k] /\ sq_active s' = sq_active s.
Proof.
  intros Hpt Hs Ho (Hk & H54 & H126 & H97) Hres.
  unfold seq_press_logic.
  cbn [sq_seq sq_overlap sq_mode sq_raw sq_timeout sq_ticks sq_active sq_noerase set_sq_raw set_sq_ticks].
  rewrite Hs, Ho.
  destruct (N.eqb_spec k 54) as [E|_]; [contradiction|]. destruct (N.eqb_spec k 126) as [E|_]; [contradiction|].
  destruct (N.eqb_spec k 97) as [E|_]; [contradiction|]. rewrite N.lor_0_r.
  assert (Hrn : res_is_not (get_or_descendant_exists t (p ++ [k])) = false).
  { destruct (res_is_not _) eqn:E; [|reflexivity]. apply res_is_not_spec in E. contradiction. }
  rewrite Hrn.
  set (pov := N.lor (N.land k MASK_KEYCODES) KEY_OVERLAP_MARKER).
  assert (Hpov : 1024 <= pov) by apply lor_marker_ge.
  assert (N1 : get_or_descendant_exists t (p ++ [pov]) = NotInTrie).
  { apply (big_not_in_plain t _ pov Hpt); [apply in_or_app; right; left; reflexivity|exact Hpov]. }
  rewrite N1. cbn [res_is_not]. rewrite app_length. cbn [length]. rewrite Nat.add_1_r.
  replace (set_nth (length p) KEY_OVERLAP_MARKER (p ++ [pov])) with (p ++ [KEY_OVERLAP_MARKER])
    by (rewrite <- (Nat.add_0_r (length p)) at 1; rewrite set_nth_app; reflexivity).
  assert (N2 : get_or_descendant_exists t ((p ++ [KEY_OVERLAP_MARKER]) ++ [pov]) = NotInTrie).
  { apply (big_not_in_plain t _ pov Hpt); [apply in_or_app; right; left; reflexivity|exact Hpov]. }
  rewrite N2. cbn [res_is_not].
  replace (set_nth (S (length p)) k ((p ++ [KEY_OVERLAP_MARKER]) ++ [pov])) with (p ++ [KEY_OVERLAP_MARKER; k]).
  2:{ rewrite <- app_assoc. rewrite <- (Nat.add_1_r (length p)). rewrite set_nth_app. reflexivity. }
  assert (N3 : get_or_descendant_exists t (p ++ [KEY_OVERLAP_MARKER; k]) = NotInTrie).
  { apply (big_not_in_plain t _ KEY_OVERLAP_MARKER Hpt); [apply in_or_app; right; left; reflexivity|unfold KEY_OVERLAP_MARKER; lia]. }
  rewrite N3. cbn [res_is_not]. rewrite (land_mask_small k Hk), N.eqb_refl. cbn [bind].
  cbn [sq_seq sq_overlap set_sq_overlap set_sq_seq].
  destruct (get_or_descendant_exists t (p ++ [k])) as [| |v] eqn:El; [contradiction| |].
  - eexists _, _. split; [reflexivity|]. cbn [sq_seq sq_overlap sq_active]. auto.
  - eexists _, _. split; [reflexivity|]. cbn [sq_seq sq_overlap sq_active]. auto.
Qed.

(* typing a list of keys with no modifier held, stopping at the first reported match *)
Fixpoint type_keys (t : trie) (mc : bool) (s : seq_kstate) (ks : list N)
  : outcome (seq_kstate * option (coord * list N * list N)) :=
  match ks with
  | [] => Ok (s, None)
  | k :: r =>
      '(s', _, term) <- seq_press_logic t mc s k 0 ;;
      match term with
      | Some (v, sq) => Ok (s', Some (v, sq, r))
      | None => type_keys t mc s' r
      end
  end.

Lemma type_keys_plain t mc v : forall rest p s,
  prefix_free t -> plain_trie t -> In (p ++ rest, v) t -> rest <> [] -> Forall plain_key rest ->
  sq_seq s = p -> sq_overlap s = p ->
  exists s', type_keys t mc s rest = Ok (s', Some (v, p ++ rest, [])) /\
             sq_seq s' = p ++ rest /\ sq_overlap s' = p ++ rest /\ sq_active s' = sq_active s.
Proof.
  induction rest as [|k r IH]; intros p s Hpf Hpt Hin Hne Hpk Hs Ho; [congruence|].
  pose proof (Forall_inv Hpk) as Hk. pose proof (Forall_inv_tail Hpk) as Hr.
  assert (Eapp : p ++ k :: r = (p ++ [k]) ++ r) by (rewrite <- app_assoc; reflexivity).
  cbn [type_keys]. destruct r as [|k2 r2].
  - (* the last key *)
    assert (Hv : get_or_descendant_exists t (p ++ [k]) = HasValue v) by (apply completed_sequence_matches; assumption).
    destruct (press_plain t mc s k p Hpt Hs Ho Hk) as (s' & out & E & H1 & H2 & H3); [rewrite Hv; discriminate|].
    rewrite E, Hv. cbn [bind]. exists s'. auto.
  - assert (Hv : get_or_descendant_exists t (p ++ [k]) = InTrie).
    { apply (proper_prefix_never_matches t _ v (p ++ [k]) (k2 :: r2) Hpf Hin Eapp). discriminate. }
    destruct (press_plain t mc s k p Hpt Hs Ho Hk) as (s' & out & E & H1 & H2 & H3); [rewrite Hv; discriminate|].
    rewrite E, Hv. cbn [bind].
    rewrite Eapp in Hin.
    destruct (IH (p ++ [k]) s' Hpf Hpt Hin ltac:(discriminate) Hr H1 H2) as (s'' & E2 & G1 & G2 & G3).
    exists s''. rewrite E2, Eapp. split; [reflexivity|]. rewrite G3, H3. auto.
Qed.

Theorem plain_sequence_fires_once t mc ks v mode timeout :
  prefix_free t -> plain_trie t -> In (ks, v) t -> ks <> [] -> Forall plain_key ks ->
  exists s', type_keys t mc (sq_activate mode timeout) ks = Ok (s', Some (v, ks, [])) /\ sq_seq s' = ks.
Proof.
  intros Hpf Hpt Hin Hne Hpk.
  destruct (type_keys_plain t mc v ks [] (sq_activate mode timeout) Hpf Hpt Hin Hne Hpk eq_refl eq_refl) as (s' & E & H1 & _).
  exists s'. split; [exact E|exact H1].
Qed.

(* not vacuous: a table with two plain sequences *)
Example plain_typing_example :
  let t : trie := [([30; 48], (1, 0)); ([30; 46; 32], (1, 1))] in
  plain_trie t /\ In ([30; 46; 32], (1, 1)) t /\ Forall plain_key [30; 46; 32] /\
  exists s', type_keys t false (sq_activate 0 100) [30; 46; 32] = Ok (s', Some ((1, 1), [30; 46; 32], [])).
Proof.
  cbv zeta. split; [|split; [right; left; reflexivity|split]].
  - intros e x [<-|[<-|[]]] Hx; cbn in Hx; intuition (subst; lia).
  - repeat constructor; lia.
  - eexists. vm_compute. reflexivity.
Qed.

(* the modifier-cancelling retry of the standard tracker reaches the first tracked key too: a sequence that consists of, or begins
   with, a modifier written as a plain key can only be recognised that way (the pressed modifier carries its own modifier bit) *)
Lemma backtrack_reaches_first_key t mc v :
  v <> KEY_OVERLAP_MARKER ->
  backtrack t mc [v] 1 =
    (let s := [if mc then N.land v MASK_KEYCODES else N.land v 64511] in
     let r := get_or_descendant_exists t s in
     if res_is_not r then (s, NotInTrie, true) else (s, r, false)).
Proof.
  intros Hv. cbn [backtrack bt_step nth_error]. destruct (N.eqb_spec v KEY_OVERLAP_MARKER) as [E|_]; [contradiction|].
  destruct mc; cbn [set_nth]; destruct (res_is_not _); reflexivity.
Qed.

(* e.g. the sequence (lsft): the tapped shift arrives as lsft|0x8000, which no table entry has; with the bit cleared it is the entry *)
Example leading_modifier_example :
  let t : trie := [([42], (1, 0))] in
  get_or_descendant_exists t [N.lor 42 32768] = NotInTrie /\
  backtrack t true [N.lor 42 32768] 1 = ([42], HasValue (1, 0), false).
Proof. cbv zeta. split; vm_compute; reflexivity. Qed.
