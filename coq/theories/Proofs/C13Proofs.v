(* C13: global overrides as a key-list transformation (Overrides::override_keys). *)
From Coq Require Import Lia.
From KV Require Import Kanata.Overrides Proofs.LayoutBasics.

Definition ov_matches (mask : N) (o : override) : bool := N.land (ov_mod_mask o) mask =? ov_mod_mask o.
Definition ov_size (o : override) : nat := S (length (ov_in_mods o)).

(* ---- the chosen override: it matches, and no matching override of the same key has more modifiers ---- *)
Lemma ov_pick_spec ovds mask cur best :
  (forall b, best = Some b -> ov_matches mask b = true /\ ov_size b = cur) ->
  (best = None -> cur = O) ->
  match ov_pick ovds mask cur best with
  | Some o => ov_matches mask o = true /\ (In o ovds \/ best = Some o) /\
              (cur <= ov_size o)%nat /\
              forall o', In o' ovds -> ov_matches mask o' = true -> (ov_size o' <= ov_size o)%nat
  | None => best = None /\ forall o', In o' ovds -> ov_matches mask o' = false
  end.
Proof.
  revert cur best. induction ovds as [|o t IH]; intros cur best Hb Hn; cbn [ov_pick].
  - destruct best as [b|].
    + destruct (Hb b eq_refl) as [Hm Hs]. repeat split; auto; try lia. intros o' [].
    + split; [reflexivity|]. intros o' [].
  - fold (ov_matches mask o). destruct (ov_matches mask o) eqn:Em.
    + fold (ov_size o). destruct (Nat.leb_spec (ov_size o) cur) as [Hle|Hgt].
      * specialize (IH cur best Hb Hn). destruct (ov_pick t mask cur best) as [r|].
        -- destruct IH as [Hm [Hin [Hc Hmax]]]. repeat split; auto.
           ++ destruct Hin; [left; right; assumption|right; assumption].
           ++ intros o' [<-|Hi] Hmo; [lia|]. apply Hmax; assumption.
        -- destruct IH as [-> _]. specialize (Hn eq_refl). unfold ov_size in Hle. lia.
      * assert (Hb' : forall b, Some o = Some b -> ov_matches mask b = true /\ ov_size b = ov_size o)
          by (intros b Hbb; inversion Hbb; subst; split; [exact Em|reflexivity]).
        specialize (IH (ov_size o) (Some o) Hb' ltac:(discriminate)).
        destruct (ov_pick t mask (ov_size o) (Some o)) as [r|].
        -- destruct IH as [Hm [Hin [Hc Hmax]]]. repeat split; auto.
           ++ destruct Hin as [Hin|Hin]; [left; right; exact Hin|inversion Hin; subst; left; left; reflexivity].
           ++ lia.
           ++ intros o' [<-|Hi] Hmo; [lia|]. apply Hmax; assumption.
        -- destruct IH as [Hd _]. discriminate.
    + specialize (IH cur best Hb Hn). destruct (ov_pick t mask cur best) as [r|].
      * destruct IH as [Hm [Hin [Hc Hmax]]]. repeat split; auto.
        -- destruct Hin; [left; right; assumption|right; assumption].
        -- intros o' [<-|Hi] Hmo; [congruence|]. apply Hmax; assumption.
      * destruct IH as [Hbn Hall]. split; [exact Hbn|]. intros o' [<-|Hi]; [exact Em|apply Hall; exact Hi].
Qed.

(* when several overrides of the same key match, the one with the most modifiers wins *)
Theorem longest_match_wins ovds mask o :
  ov_pick ovds mask 0 None = Some o ->
  In o ovds /\ ov_matches mask o = true /\
  forall o', In o' ovds -> ov_matches mask o' = true -> (ov_size o' <= ov_size o)%nat.
Proof.
  intros H. pose proof (ov_pick_spec ovds mask 0 None) as S.
  rewrite H in S. destruct S as [Hm [Hin [_ Hmax]]]; [discriminate|reflexivity|].
  destruct Hin as [Hin|Hd]; [|discriminate]. repeat split; assumption.
Qed.

Theorem no_match_no_override ovds mask :
  ov_pick ovds mask 0 None = None -> forall o', In o' ovds -> ov_matches mask o' = false.
Proof.
  intros H. pose proof (ov_pick_spec ovds mask 0 None) as S.
  rewrite H in S. destruct S as [_ Hall]; [discriminate|reflexivity|exact Hall].
Qed.

(* ---- keys outside the chosen combinations are unaffected and keep their order ---- *)
Theorem outside_keys_unaffected ovs kcs :
  forall out rem, override_keys ovs kcs = (out, rem) ->
  exists add, out = filter (fun k => negb (mem_n k rem)) kcs ++ add.
Proof.
  intros out rem H. unfold override_keys in H. destruct ovs as [|o t].
  - injection H as <- <-. exists []. cbn [mem_n existsb negb]. rewrite app_nil_r.
    clear. induction kcs as [|k r IH]; cbn; [reflexivity|]. f_equal. exact IH.
  - destruct (ov_scan (o :: t) kcs 0 [] []) as [add rem'] eqn:E. injection H as <- <-. exists add. reflexivity.
Qed.

(* ---- when no combination is present any more the key list is the plain one (restore) ---- *)
Lemma ov_scan_nothing ovs kcs mods add rem :
  (forall k m, In k kcs -> mask_for_key k = None -> ov_update_keys ovs k m add rem = (add, rem)) ->
  ov_scan ovs kcs mods add rem = (add, rem).
Proof.
  revert mods. induction kcs as [|k t IH]; intros mods H; cbn [ov_scan]; [reflexivity|].
  destruct (mask_for_key k) eqn:Em.
  - apply IH. intros k' m Hin. apply H. right. exact Hin.
  - rewrite (H k mods (or_introl eq_refl) Em). apply IH. intros k' m Hin. apply H. right. exact Hin.
Qed.

Theorem restore_when_no_combination ovs kcs :
  (forall k m, In k kcs -> mask_for_key k = None -> ov_update_keys ovs k m [] [] = ([], [])) ->
  fst (override_keys ovs kcs) = kcs.
Proof.
  intros H. unfold override_keys. destruct ovs as [|o t]; [reflexivity|].
  rewrite (ov_scan_nothing (o :: t) kcs 0 [] [] H). cbn [fst mem_n existsb negb].
  rewrite app_nil_r. clear. induction kcs as [|k r IH]; cbn; [reflexivity|]. f_equal. exact IH.
Qed.

(* an override removes its input combination and adds its output keys *)
Lemma ov_update_keys_picked ovs active mask add rem o :
  ov_pick (filter (fun o => ov_in_nm o =? active) ovs) mask 0 None = Some o ->
  ov_update_keys ovs active mask add rem =
    (push_new (ov_out_nm o) (fold_left (fun a k => push_new k a) (ov_out_mods o) add),
     push_new (ov_in_nm o) (fold_left (fun a k => push_new k a) (ov_in_mods o) rem)).
Proof. intros H. unfold ov_update_keys. rewrite H. reflexivity. Qed.

(* ---- every key of the list is looked up, wherever it stands and whatever was substituted before it ---- *)
Definition mods_of (kcs : list N) (m0 : N) : N :=
  fold_left (fun m k => match mask_for_key k with Some x => N.lor m x | None => m end) kcs m0.

Lemma push_new_in x y l : In x l -> In x (push_new y l).
Proof. unfold push_new. destruct (mem_n y l); [auto|]. intros H. apply in_or_app. left. exact H. Qed.
Lemma push_new_self y l : In y (push_new y l).
Proof.
  unfold push_new. destruct (mem_n y l) eqn:E.
  - unfold mem_n in E. apply existsb_exists in E. destruct E as [z [Hz He]]. apply N.eqb_eq in He. subst. exact Hz.
  - apply in_or_app. right. left. reflexivity.
Qed.
Lemma fold_push_new_in x ks : forall l, In x l -> In x (fold_left (fun a k => push_new k a) ks l).
Proof. induction ks as [|k t IH]; intros l H; [exact H|]. cbn [fold_left]. apply IH. apply push_new_in. exact H. Qed.

Lemma ov_update_mono ovs k m add rem x :
  (In x add -> In x (fst (ov_update_keys ovs k m add rem))) /\ (In x rem -> In x (snd (ov_update_keys ovs k m add rem))).
Proof.
  unfold ov_update_keys. destruct (ov_pick _ m 0 None) as [o|]; cbn [fst snd]; [|auto].
  split; intros H; apply push_new_in, fold_push_new_in; exact H.
Qed.

Lemma ov_scan_mono ovs x : forall kcs m add rem,
  (In x add -> In x (fst (ov_scan ovs kcs m add rem))) /\ (In x rem -> In x (snd (ov_scan ovs kcs m add rem))).
Proof.
  induction kcs as [|k t IH]; intros m add rem; cbn [ov_scan]; [auto|].
  destruct (mask_for_key k); [apply IH|].
  destruct (ov_update_keys ovs k m add rem) as [a r] eqn:E.
  pose proof (ov_update_mono ovs k m add rem x) as [H1 H2]. rewrite E in H1, H2. cbn [fst snd] in H1, H2.
  destruct (IH m a r) as [G1 G2]. split; intros H; [apply G1, H1, H|apply G2, H2, H].
Qed.

Lemma ov_scan_app ovs : forall a b m add rem,
  ov_scan ovs (a ++ b) m add rem =
  (let '(a1, r1) := ov_scan ovs a m add rem in ov_scan ovs b (mods_of a m) a1 r1).
Proof.
  induction a as [|k t IH]; intros b m add rem; cbn [app ov_scan mods_of fold_left]; [reflexivity|].
  destruct (mask_for_key k) as [x|]; [apply IH|].
  destruct (ov_update_keys ovs k m add rem) as [a1 r1]. apply IH.
Qed.

Theorem every_matching_key_is_substituted ovs pre k post o :
  mask_for_key k = None ->
  ov_pick (filter (fun o' => ov_in_nm o' =? k) ovs) (mods_of pre 0) 0 None = Some o ->
  In (ov_out_nm o) (fst (ov_scan ovs (pre ++ k :: post) 0 [] [])) /\
  In (ov_in_nm o) (snd (ov_scan ovs (pre ++ k :: post) 0 [] [])).
Proof.
  intros Hk Hp. rewrite ov_scan_app. destruct (ov_scan ovs pre 0 [] []) as [a1 r1].
  cbn [ov_scan]. rewrite Hk.
  rewrite (ov_update_keys_picked ovs k (mods_of pre 0) a1 r1 o Hp).
  split.
  - apply (proj1 (ov_scan_mono ovs _ post _ _ _)). apply push_new_self.
  - apply (proj2 (ov_scan_mono ovs _ post _ _ _)). apply push_new_self.
Qed.
