(* C14: OS key-repeat forwarding (src/kanata/key_repeat.rs). *)
From Coq Require Import Lia.
From KV Require Import Kanata.Glue Proofs.LayoutBasics.

(* the key list the repeat handler looks at: keyberon's keys minus what unmod/unshift released,
   through the overrides *)
Definition repeat_cur (cfg : kcfg) (k : kstate) : list N :=
  let base := keycodes (k_layout k) in
  let base := match k_unmodded_keys k with
              | [] => base
              | _ => filter (fun x => negb (mem_n x (unmod_mod_keys (k_unmodded_mods k)))) base ++ k_unmodded_keys k end in
  let base := match k_unshifted_keys k with
              | [] => base
              | _ => filter (fun x => negb ((x =? 42) || (x =? 54))) base ++ k_unshifted_keys k end in
  fst (override_keys (kc_overrides cfg) base).

(* the key list the OS sees for the current keyberon state: exactly what the tick computes *)
Definition repeatable (cfg : kcfg) (k : kstate) (kc : N) : Prop := In kc (repeat_cur cfg k).

Lemma mem_n_In x l : mem_n x l = true -> In x l.
Proof.
  unfold mem_n. intros H. apply existsb_exists in H. destruct H as [y [Hy He]].
  apply N.eqb_eq in He. subst. exact Hy.
Qed.

Lemma first_repeatable_sound k cur outs kc :
  first_repeatable k cur outs = Some kc -> In kc outs /\ In kc cur.
Proof.
  unfold first_repeatable. intros H. apply find_some in H. destruct H as [Hin Hp].
  split; [apply in_rev; exact Hin|apply mem_n_In; exact Hp].
Qed.

Lemma repeat_layers_sound cfg k cur code ls kc :
  repeat_layers cfg k cur code ls = Ok (Some kc) -> In kc cur.
Proof.
  induction ls as [|ly rest IH]; cbn [repeat_layers]; [discriminate|].
  destruct (nth_error (kc_key_outputs cfg) (N.to_nat ly)); [|discriminate].
  destruct (outputs_for cfg ly code) as [outs|]; [|exact IH].
  destruct (first_repeatable k cur outs) as [kc'|] eqn:E; [|exact IH].
  intros H. inversion H; subst. exact (proj2 (first_repeatable_sound _ _ _ _ E)).
Qed.

Lemma write_repeat_shape cfg kc : write_repeat cfg kc = [] \/ write_repeat cfg kc = [KRepeat kc].
Proof. unfold write_repeat. destruct (in_ignore cfg kc); [left|right]; reflexivity. Qed.

(* at most one repeat event, and only for a key in the repeat handler's held set *)
Theorem repeat_at_most_one_and_held cfg k code evs :
  handle_repeat cfg k code = Ok evs ->
  evs = [] \/ exists kc, evs = [KRepeat kc] /\ repeatable cfg k kc.
Proof.
  unfold handle_repeat. fold (repeat_cur cfg k).
  destruct (sq_active (k_seq k) && negb (sq_mode (k_seq k) =? 2)); [intros H; inversion H; left; reflexivity|].
  destruct (trans_order (kc_layout cfg) (k_layout k)) as [ls| |]; cbn [bind]; try discriminate.
  destruct (repeat_layers cfg k (repeat_cur cfg k) code ls) as [r| |] eqn:Er; cbn [bind]; try discriminate.
  destruct r as [kc|].
  - intros H. inversion H; subst. destruct (write_repeat_shape cfg kc) as [->| ->]; [left; reflexivity|].
    right. exists kc. split; [reflexivity|]. exact (repeat_layers_sound _ _ _ _ _ _ Er).
  - destruct (nth_error (kc_key_outputs cfg) (N.to_nat (default_layer (k_layout k)))); [|discriminate].
    destruct (match outputs_for cfg (default_layer (k_layout k)) code with
              | Some outs => first_repeatable k (repeat_cur cfg k) outs | None => None end) as [kc|] eqn:Ed.
    + intros H. inversion H; subst. destruct (write_repeat_shape cfg kc) as [->| ->]; [left; reflexivity|].
      right. exists kc. split; [reflexivity|].
      destruct (outputs_for cfg (default_layer (k_layout k)) code) as [outs|]; [|discriminate].
      exact (proj2 (first_repeatable_sound _ _ _ _ Ed)).
    + destruct (mem_n code (repeat_cur cfg k)) eqn:Em.
      * intros H. inversion H; subst. destruct (write_repeat_shape cfg code) as [->| ->]; [left; reflexivity|].
        right. exists code. split; [reflexivity|]. unfold repeatable. apply mem_n_In. exact Em.
      * intros H. inversion H. left. reflexivity.
Qed.

(* a key that unmod has released at the OS is never repeated (the repaired defect) *)
Theorem unmodded_mod_not_in_repeat_cur cfg k kc :
  k_unmodded_keys k <> [] -> k_unshifted_keys k = [] -> kc_overrides cfg = [] ->
  mem_n kc (unmod_mod_keys (k_unmodded_mods k)) = true -> ~ In kc (k_unmodded_keys k) ->
  ~ In kc (repeat_cur cfg k).
Proof.
  intros Hne Hus Hov Hm Hnk Hin. unfold repeat_cur in Hin. rewrite Hov, Hus in Hin. cbn [override_keys fst] in Hin.
  destruct (k_unmodded_keys k) as [|u us] eqn:E; [congruence|].
  apply in_app_or in Hin. destruct Hin as [Hin|Hin]; [|exact (Hnk Hin)].
  apply filter_In in Hin. destruct Hin as [_ Hf]. rewrite Hm in Hf. discriminate.
Qed.

(* the last-listed key of a chord is preferred over its modifiers: candidates are scanned in reverse *)
Theorem prefers_last_listed k cur outs a b :
  In a cur -> In b cur -> outs = [a; b] -> first_repeatable k cur outs = Some b.
Proof.
  intros Ha Hb ->. unfold first_repeatable. cbn [rev app find].
  assert (Hm : mem_n b cur = true).
  { unfold mem_n. apply existsb_exists. exists b. split; [exact Hb|apply N.eqb_refl]. }
  rewrite Hm. reflexivity.
Qed.

(* while a sequence is being typed in one of the hidden input modes nothing is repeated, whatever is held *)
Lemma hidden_sequence_suppresses_repeat cfg k code :
  sq_active (k_seq k) = true -> sq_mode (k_seq k) <> 2 -> handle_repeat cfg k code = Ok [].
Proof.
  intros Ha Hm. unfold handle_repeat. rewrite Ha.
  assert (E : (sq_mode (k_seq k) =? 2) = false) by (apply N.eqb_neq; exact Hm).
  rewrite E. reflexivity.
Qed.

(* ---- completeness at the handler: when the key-outputs table of a layer in the search order (or of the default layer) lists, for
   the repeated position, a key that is currently held at the output, a repeat is written (for a held key; `write_repeat` drops
   it only for keys of the configured ignore list) *)
Lemma In_mem_n x l : In x l -> mem_n x l = true.
Proof. intros H. unfold mem_n. apply existsb_exists. exists x. split; [exact H|apply N.eqb_refl]. Qed.

Lemma first_repeatable_complete k cur outs kc :
  In kc outs -> In kc cur -> exists kc', first_repeatable k cur outs = Some kc'.
Proof.
  intros Ho Hc. unfold first_repeatable.
  destruct (find (fun kc0 => mem_n kc0 cur) (rev outs)) as [y|] eqn:E; [exists y; reflexivity|].
  pose proof (find_none _ _ E kc (proj1 (in_rev _ _) Ho)) as H. cbn beta in H. rewrite (In_mem_n _ _ Hc) in H. discriminate.
Qed.

Lemma repeat_layers_complete cfg k cur code ly outs kc : forall ls r,
  In ly ls -> outputs_for cfg ly code = Some outs -> In kc outs -> In kc cur ->
  repeat_layers cfg k cur code ls = Ok r -> exists kc', r = Some kc'.
Proof.
  induction ls as [|l0 rest IH]; intros r Hin Ho Hk Hc; [destruct Hin|]. cbn [repeat_layers].
  destruct (nth_error (kc_key_outputs cfg) (N.to_nat l0)); [|discriminate].
  destruct Hin as [->|Hin].
  - rewrite Ho. destruct (first_repeatable_complete k cur outs kc Hk Hc) as [kc' E]. rewrite E.
    intros H. inversion H. exists kc'. reflexivity.
  - destruct (outputs_for cfg l0 code) as [outs0|]; [|apply IH; assumption].
    destruct (first_repeatable k cur outs0) as [kc'|]; [intros H; inversion H; exists kc'; reflexivity|apply IH; assumption].
Qed.

Theorem repeat_forwarded_when_listed cfg k code evs ls ly outs kc :
  handle_repeat cfg k code = Ok evs ->
  sq_active (k_seq k) && negb (sq_mode (k_seq k) =? 2) = false ->
  trans_order (kc_layout cfg) (k_layout k) = Ok ls ->
  In ly ls \/ ly = default_layer (k_layout k) ->
  outputs_for cfg ly code = Some outs -> In kc outs -> repeatable cfg k kc ->
  exists kc', evs = write_repeat cfg kc' /\ repeatable cfg k kc'.
Proof.
  unfold handle_repeat, repeatable. fold (repeat_cur cfg k). intros H Hs Ht Hly Ho Hk Hc. rewrite Hs, Ht in H. cbn [bind] in H.
  destruct (repeat_layers cfg k (repeat_cur cfg k) code ls) as [r| |] eqn:Er; cbn [bind] in H; try discriminate.
  destruct r as [kc'|].
  - inversion H. exists kc'. split; [reflexivity|]. exact (repeat_layers_sound _ _ _ _ _ _ Er).
  - destruct Hly as [Hly| ->].
    + destruct (repeat_layers_complete cfg k _ code ly outs kc ls None Hly Ho Hk Hc Er) as [kc' E]. discriminate.
    + destruct (nth_error (kc_key_outputs cfg) (N.to_nat (default_layer (k_layout k)))); [|discriminate].
      rewrite Ho in H. destruct (first_repeatable_complete k (repeat_cur cfg k) outs kc Hk Hc) as [kc' E]. rewrite E in H.
      inversion H. exists kc'. split; [reflexivity|]. exact (proj2 (first_repeatable_sound _ _ _ _ E)).
Qed.

(* and when no table lists anything held, the physical key itself is repeated if it is held at the output *)
Theorem repeat_of_unmapped_held_key cfg k code evs :
  handle_repeat cfg k code = Ok evs ->
  sq_active (k_seq k) && negb (sq_mode (k_seq k) =? 2) = false ->
  repeatable cfg k code -> exists kc', evs = write_repeat cfg kc' /\ repeatable cfg k kc'.
Proof.
  unfold handle_repeat, repeatable. fold (repeat_cur cfg k). intros H Hs Hc. rewrite Hs in H.
  destruct (trans_order (kc_layout cfg) (k_layout k)) as [ls| |]; cbn [bind] in H; try discriminate.
  destruct (repeat_layers cfg k (repeat_cur cfg k) code ls) as [r| |] eqn:Er; cbn [bind] in H; try discriminate.
  destruct r as [kc'|].
  - inversion H. exists kc'. split; [reflexivity|]. exact (repeat_layers_sound _ _ _ _ _ _ Er).
  - destruct (nth_error (kc_key_outputs cfg) (N.to_nat (default_layer (k_layout k)))); [|discriminate].
    destruct (match outputs_for cfg (default_layer (k_layout k)) code with
              | Some outs => first_repeatable k (repeat_cur cfg k) outs | None => None end) as [kc'|] eqn:Ed.
    + inversion H. exists kc'. split; [reflexivity|].
      destruct (outputs_for cfg (default_layer (k_layout k)) code) as [outs|]; [|discriminate].
      exact (proj2 (first_repeatable_sound _ _ _ _ Ed)).
    + rewrite (In_mem_n _ _ Hc) in H. inversion H. exists code. split; [reflexivity|exact Hc].
Qed.
