(* C15: live reload is all-or-nothing. *)
From Coq Require Import Lia.
From KV Require Import Kanata.Reload.
Local Open Scope N_scope.

Lemma failed_reload_changes_nothing k : do_reload None k = (k, []).
Proof. reflexivity. Qed.

Lemma failed_reload_after_tick k :
  after_tick None k = (if reload_due (k_live_reload_requested k) (keys_up k) (k_ticks_since_idle k)
                       then set_k_live_reload_requested false k else k, []).
Proof. unfold after_tick. destruct (reload_due _ _ _); reflexivity. Qed.

(* not requested, or a key is down and at most 1000 idle ticks have passed: nothing happens, whatever the file is *)
Lemma reload_deferred parsed k :
  (k_live_reload_requested k = false \/ (k_prev_keys k <> [] /\ k_ticks_since_idle k <= 1000)) ->
  after_tick parsed k = (k, []).
Proof.
  intros H. unfold after_tick, reload_due, keys_up. destruct H as [->|[Hk Ht]]; [reflexivity|].
  destruct (k_prev_keys k); [contradiction|]. destruct (N.ltb_spec 1000 (k_ticks_since_idle k)); [lia|].
  rewrite andb_false_r. reflexivity.
Qed.

(* requested and (no key down or more than 1000 idle ticks): the reload runs in this very call *)
Lemma reload_runs parsed k :
  k_live_reload_requested k = true -> (k_prev_keys k = [] \/ 1000 < k_ticks_since_idle k) ->
  after_tick parsed k = do_reload parsed (set_k_live_reload_requested false k).
Proof.
  intros Hr H. unfold after_tick, reload_due, keys_up. rewrite Hr. destruct H as [->|H]; [reflexivity|].
  destruct (N.ltb_spec 1000 (k_ticks_since_idle k)); [|lia]. rewrite orb_true_r. reflexivity.
Qed.

(* success = restart: the state is that of a fresh instance (only the idle counter survives), every key the old
   configuration still held is released, nothing stays pressed *)
Lemma successful_reload_is_restart pause k :
  fst (do_reload (Some pause) k) = set_k_ticks_since_idle (k_ticks_since_idle k) (k_init (init_layout pause)) /\
  snd (do_reload (Some pause) k) = map KUp (k_prev_keys k) /\
  k_prev_keys (fst (do_reload (Some pause) k)) = [] /\
  k_live_reload_requested (fst (do_reload (Some pause) k)) = false.
Proof. repeat split. Qed.

(* reloading again right away changes nothing more and writes nothing *)
Lemma reload_twice pause k :
  do_reload (Some pause) (fst (do_reload (Some pause) k)) = (fst (do_reload (Some pause) k), []).
Proof. reflexivity. Qed.

(* file index arithmetic *)
Lemma next_index_in_range a i n : 0 < n -> i < n -> next_index a i n < n.
Proof.
  intros Hn Hi. destruct a as [| | |m]; cbn [next_index]; try assumption.
  - destruct (N.eqb_spec i (n - 1)); lia.
  - destruct (N.eqb_spec i 0); lia.
  - destruct (N.ltb_spec m n); lia.
Qed.
Lemma next_prev_inverse i n : 0 < n -> i < n ->
  next_index RlPrev (next_index RlNext i n) n = i /\ next_index RlNext (next_index RlPrev i n) n = i.
Proof.
  intros Hn Hi. cbn [next_index]. split.
  - destruct (N.eqb_spec i (n - 1)).
    + destruct (N.eqb_spec 0 0); [lia|contradiction].
    + destruct (N.eqb_spec (i + 1) 0); lia.
  - destruct (N.eqb_spec i 0).
    + destruct (N.eqb_spec (n - 1) (n - 1)); [lia|contradiction].
    + destruct (N.eqb_spec (i - 1) (n - 1)); lia.
Qed.
