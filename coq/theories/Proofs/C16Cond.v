(* C16: the conditional forms of deftemplate.rs (evaluate_conditionals): a conditional whose test holds is replaced by exactly
   its content, one whose test fails by nothing; elements that are not conditionals stay as they are. *)
From KV Require Import Parser.Template Proofs.C03Proofs.

Lemma head_names_differ :
  bytes_eqb A_if_not_equal A_if_equal = false /\ bytes_eqb A_if_in_list A_if_equal = false /\
  bytes_eqb A_if_not_in_list A_if_equal = false /\ bytes_eqb A_if_in_list A_if_not_equal = false /\
  bytes_eqb A_if_not_in_list A_if_not_equal = false /\ bytes_eqb A_if_not_in_list A_if_in_list = false.
Proof. vm_compute. repeat split; reflexivity. Qed.

(* (if-equal a b content...) and (if-not-equal a b content...) *)
Lemma if_equal_replacement a b sh sa sb content sp :
  ec_expr (SList (Atom A_if_equal sh :: Atom a sa :: Atom b sb :: content) sp) =
    inr (if bytes_eqb a b then content else [], true).
Proof.
  cbn [ec_expr]. unfold cond_replacement. cbn [head_is]. rewrite bytes_eqb_refl.
  unfold cond_strings. cbn [nth_error atom_text xorb skipn]. destruct (bytes_eqb a b); reflexivity.
Qed.

Lemma if_not_equal_replacement a b sh sa sb content sp :
  ec_expr (SList (Atom A_if_not_equal sh :: Atom a sa :: Atom b sb :: content) sp) =
    inr (if bytes_eqb a b then [] else content, true).
Proof.
  cbn [ec_expr]. unfold cond_replacement. cbn [head_is].
  rewrite (proj1 head_names_differ), bytes_eqb_refl.
  unfold cond_strings. cbn [nth_error atom_text xorb skipn]. destruct (bytes_eqb a b); reflexivity.
Qed.

Lemma if_in_list_replacement a sh sa lst sl content sp :
  ec_expr (SList (Atom A_if_in_list sh :: Atom a sa :: SList lst sl :: content) sp) =
    inr (if atoms_contain a lst then content else [], true).
Proof.
  cbn [ec_expr]. unfold cond_replacement. cbn [head_is].
  destruct head_names_differ as [_ [H2 [_ [H4 _]]]]. rewrite H2, H4, bytes_eqb_refl.
  unfold cond_inlist. cbn [nth_error atom_text xorb skipn]. destruct (atoms_contain a lst); reflexivity.
Qed.

Lemma if_not_in_list_replacement a sh sa lst sl content sp :
  ec_expr (SList (Atom A_if_not_in_list sh :: Atom a sa :: SList lst sl :: content) sp) =
    inr (if atoms_contain a lst then [] else content, true).
Proof.
  cbn [ec_expr]. unfold cond_replacement. cbn [head_is].
  destruct head_names_differ as [_ [_ [H3 [_ [H5 H6]]]]]. rewrite H3, H5, H6, bytes_eqb_refl.
  unfold cond_inlist. cbn [nth_error atom_text xorb skipn]. destruct (atoms_contain a lst); reflexivity.
Qed.

(* in a vector: the conditional is spliced, its neighbours (atoms here) are untouched *)
Lemma eval_conds_atoms pre : Forall (fun e => exists t s, e = Atom t s) pre -> eval_conds pre = inr (pre, false).
Proof.
  induction 1 as [|e r [t [s ->]] _ IH]; [reflexivity|]. cbn [eval_conds ec_expr]. rewrite IH. reflexivity.
Qed.

Lemma eval_conds_app a b : eval_conds (a ++ b) = match eval_conds a with inl er => inl er | ra => cres_app ra (eval_conds b) end.
Proof.
  induction a as [|x r IH]; cbn [app eval_conds].
  - unfold cres_app. destruct (eval_conds b) as [er|[rs c]]; reflexivity.
  - destruct (ec_expr x) as [er|[xs c1]]; [reflexivity|]. rewrite IH.
    destruct (eval_conds r) as [er|[rs c2]]; [reflexivity|]. cbn [cres_app].
    destruct (eval_conds b) as [er|[bs c3]]; [reflexivity|]. rewrite app_assoc, orb_assoc. reflexivity.
Qed.

Theorem if_equal_spliced pre post a b sh sa sb content sp :
  Forall (fun e => exists t s, e = Atom t s) pre -> Forall (fun e => exists t s, e = Atom t s) post ->
  eval_conds (pre ++ SList (Atom A_if_equal sh :: Atom a sa :: Atom b sb :: content) sp :: post) =
    inr (pre ++ (if bytes_eqb a b then content else []) ++ post, true).
Proof.
  intros Hpre Hpost. rewrite eval_conds_app, (eval_conds_atoms pre Hpre).
  cbn [eval_conds]. rewrite if_equal_replacement, (eval_conds_atoms post Hpost). cbn [cres_app orb]. reflexivity.
Qed.
