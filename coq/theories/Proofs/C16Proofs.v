(* C16: the substitution mechanisms behind the neutral rewrites: variables and templates. *)
From Coq Require Import Lia.
From KV Require Import Parser.Sexpr Parser.Template Proofs.C03Proofs.
Local Open Scope N_scope.

(* ---------- variables ---------- *)
Lemma var_use_unfolds vs v X f sp : lookup v vs = Some X ->
  atom_res (S f) vs (Atom (36 :: v) sp) = atom_res f vs X /\
  list_res (S f) vs (Atom (36 :: v) sp) = list_res f vs X.
Proof. intros H. cbn [atom_res list_res strip_dollar]. rewrite H. split; reflexivity. Qed.

Lemma atom_res_mono vs : forall f e r, atom_res f vs e = Ok r -> atom_res (S f) vs e = Ok r.
Proof.
  induction f as [|f IH]; intros e r H.
  - destruct e as [t sp|l sp]; [|exact H]. cbn [atom_res] in *. destruct (strip_dollar t); [|exact H].
    destruct (lookup l vs); [discriminate|exact H].
  - destruct e as [t sp|l sp]; [|exact H]. cbn [atom_res] in H. cbn [atom_res].
    destruct (strip_dollar t); [|exact H]. destruct (lookup l vs); [|exact H]. apply IH. exact H.
Qed.
Lemma list_res_mono vs : forall f e r, list_res f vs e = Ok r -> list_res (S f) vs e = Ok r.
Proof.
  induction f as [|f IH]; intros e r H.
  - destruct e as [t sp|l sp]; [|exact H]. cbn [list_res] in *. destruct (strip_dollar t); [|exact H].
    destruct (lookup l vs); [discriminate|exact H].
  - destruct e as [t sp|l sp]; [|exact H]. cbn [list_res] in H. cbn [list_res].
    destruct (strip_dollar t); [|exact H]. destruct (lookup l vs); [|exact H]. apply IH. exact H.
Qed.

(* on an accepted table, using $v gives exactly what writing the value X in its place gives *)
Theorem var_transparent defs vs v X sp :
  insert_vars [] defs = Ok (inr vs) -> lookup v vs = Some X ->
  (exists r, atom_res (S (length vs)) vs (Atom (36 :: v) sp) = Ok r /\ atom_res (S (length vs)) vs X = Ok r) /\
  (exists r, list_res (S (length vs)) vs (Atom (36 :: v) sp) = Ok r /\ list_res (S (length vs)) vs X = Ok r).
Proof.
  intros Hi Hl. destruct (vars_resolution_bounded defs vs X Hi) as [(ra & Ha) (rl & Hr)].
  destruct (var_use_unfolds vs v X (length vs) sp Hl) as [E1 E2]. split.
  - exists ra. split; [rewrite E1; exact Ha|apply atom_res_mono; exact Ha].
  - exists rl. split; [rewrite E2; exact Hr|apply list_res_mono; exact Hr].
Qed.

(* ---------- templates ---------- *)
Fixpoint pass_ (f : nat) (ts : list template) (l : list sexpr) : outcome xres :=
  match l with
  | [] => Ok (inr ([], false))
  | e :: rest =>
      here <- match e with
              | Atom _ _ => Ok (inr ([e], false))
              | SList l2 sp =>
                  if is_expand_head l2 then
                    c <- expand_call f ts l2 ;;
                    match c with inl er => Ok (inl er) | inr rep => Ok (inr (rep, true)) end
                  else
                    c <- expand f ts l2 ;;
                    match c with inl er => Ok (inl er) | inr l2' => Ok (inr ([SList l2' sp], false)) end
              end ;;
      match here with
      | inl er => Ok (inl er)
      | inr (xs, c1) =>
          rr <- pass_ f ts rest ;;
          match rr with
          | inl er => Ok (inl er)
          | inr (rs, c2) => Ok (inr (xs ++ rs, c1 || c2))
          end
      end
  end.

Lemma expand_S f ts exprs :
  expand (S f) ts exprs =
  (r <- pass_ f ts exprs ;;
   match r with
   | inl er => Ok (inl er)
   | inr (exprs', true) => expand f ts exprs'
   | inr (exprs', false) => Ok (inr exprs')
   end).
Proof.
  cbn [expand]. f_equal. induction exprs as [|e rest IH].
  - reflexivity.
  - cbn [pass_]. rewrite <- IH. reflexivity.
Qed.

(* no template call anywhere inside *)
Inductive quiet : sexpr -> Prop :=
| q_atom t sp : quiet (Atom t sp)
| q_list l sp : is_expand_head l = false -> Forall quiet l -> quiet (SList l sp).

Fixpoint depth (e : sexpr) : nat :=
  match e with
  | Atom _ _ => O
  | SList l _ => S ((fix dl (l : list sexpr) : nat := match l with [] => O | x :: r => Nat.max (depth x) (dl r) end) l)
  end.
Fixpoint depths (l : list sexpr) : nat := match l with [] => O | x :: r => Nat.max (depth x) (depths r) end.
Lemma depth_list l sp : depth (SList l sp) = S (depths l).
Proof. reflexivity. Qed.

Lemma pass_app f ts a : forall b ra rb,
  pass_ f ts a = Ok (inr ra) -> pass_ f ts b = Ok (inr rb) ->
  pass_ f ts (a ++ b) = Ok (inr (fst ra ++ fst rb, snd ra || snd rb)).
Proof.
  induction a as [|e a IH]; intros b ra rb Ha Hb.
  - cbn [pass_] in Ha. injection Ha as <-. cbn [app fst snd orb]. rewrite Hb. destruct rb; reflexivity.
  - cbn [app pass_] in *.
    destruct (match e with Atom _ _ => _ | SList _ _ => _ end) as [[er|[xs c1]]| |]; cbn [bind] in *; try discriminate.
    destruct (pass_ f ts a) as [[er|[rs c2]]| |] eqn:Ea; cbn [bind] in *; try discriminate.
    injection Ha as <-. rewrite (IH b (rs, c2) rb eq_refl Hb). cbn [bind fst snd].
    rewrite <- app_assoc, orb_assoc. reflexivity.
Qed.

Lemma quiet_expand ts : forall f exprs, Forall quiet exprs -> (depths exprs <= f)%nat ->
  expand (S f) ts exprs = Ok (inr exprs) /\ pass_ f ts exprs = Ok (inr (exprs, false)).
Proof.
  induction f as [|f IH]; intros exprs Hq Hd.
  - assert (Hp : pass_ 0 ts exprs = Ok (inr (exprs, false))).
    { induction exprs as [|e r IHr]; [reflexivity|]. inversion Hq as [|? ? He Hr]; subst.
      cbn [depths] in Hd. destruct e as [t sp|l sp]; [|rewrite depth_list in Hd; lia].
      cbn [pass_ bind]. rewrite IHr; [reflexivity|exact Hr|lia]. }
    split; [|exact Hp]. rewrite expand_S, Hp. reflexivity.
  - assert (Hp : pass_ (S f) ts exprs = Ok (inr (exprs, false))).
    { induction exprs as [|e r IHr]; [reflexivity|]. inversion Hq as [|? ? He Hr]; subst.
      cbn [depths] in Hd. cbn [pass_].
      destruct e as [t sp|l sp].
      - cbn [bind]. rewrite IHr; [reflexivity|exact Hr|lia].
      - inversion He as [|? ? Hh Hl]; subst. rewrite Hh. rewrite depth_list in Hd.
        destruct (IH l Hl ltac:(lia)) as [-> _]. cbn [bind]. rewrite IHr; [reflexivity|exact Hr|lia]. }
    split; [|exact Hp]. rewrite expand_S, Hp. reflexivity.
Qed.

(* no concat list and no conditional anywhere inside *)
Inductive plain : sexpr -> Prop :=
| p_atom t sp : plain (Atom t sp)
| p_list l sp : head_is l A_concat = false -> cond_replacement l = None -> Forall plain l -> plain (SList l sp).

Lemma plain_concat : forall e, plain e -> concat_pass e = e.
Proof.
  induction e as [t sp|l sp IHl] using sexpr_ind'; intros H; [reflexivity|].
  inversion H as [|? ? Hh Hc Hl]; subst.
  assert (Hm : map concat_pass l = l).
  { clear Hh Hc H. induction l as [|x r IHr]; [reflexivity|]. inversion IHl; inversion Hl; subst.
    cbn [map]. f_equal; auto. }
  cbn [concat_pass]. destruct l as [|[h hs|l2 s2] rest]; [reflexivity| |rewrite Hm; reflexivity].
  cbn [head_is] in Hh. rewrite Hh, Hm. reflexivity.
Qed.

Fixpoint ec_list (l : list sexpr) : cres :=
  match l with
  | [] => inr ([], false)
  | x :: r => match ec_expr x with inl er => inl er | a => cres_app a (ec_list r) end
  end.
Lemma ec_expr_list l sp : ec_expr (SList l sp) =
  match cond_replacement l with
  | Some (inl er) => inl er
  | Some (inr rep) => inr (rep, true)
  | None => match ec_list l with inl er => inl er | inr (l', c) => inr ([SList l' sp], c) end
  end.
Proof.
  reflexivity.
Qed.
Lemma eval_conds_is_ec_list l : eval_conds l = ec_list l.
Proof. induction l as [|x r IH]; [reflexivity|]. cbn [eval_conds ec_list]. rewrite IH. reflexivity. Qed.

Lemma plain_ec : forall e, plain e -> ec_expr e = inr ([e], false).
Proof.
  induction e as [t sp|l sp IHl] using sexpr_ind'; intros H; [reflexivity|].
  inversion H as [|? ? Hh Hc Hl]; subst. rewrite ec_expr_list, Hc.
  assert (E : ec_list l = inr (l, false)).
  { clear Hh Hc H. induction l as [|x r IHr]; [reflexivity|]. inversion IHl; inversion Hl; subst.
    cbn [ec_list]. rewrite H1 by assumption. rewrite IHr by assumption. reflexivity. }
  rewrite E. reflexivity.
Qed.

Lemma plain_eval_conds l : Forall plain l -> eval_conds l = inr (l, false).
Proof.
  intros H. rewrite eval_conds_is_ec_list. induction l as [|x r IH]; [reflexivity|]. inversion H; subst.
  cbn [ec_list]. rewrite plain_ec by assumption. rewrite IH by assumption. reflexivity.
Qed.

(* a call = the template's content with the parameters replaced by the arguments *)
Theorem call_is_substituted_content f ts l name t :
  nth_error l 1 = Some name -> atom_text name = Some (t_name t) -> find_template ts (t_name t) = Some t ->
  (length l - 2 = length (t_vars t))%nat ->
  Forall plain (map (subst (t_vars t) (skipn 2 l)) (t_content t)) ->
  expand_call (S f) ts l = Ok (inr (map (subst (t_vars t) (skipn 2 l)) (t_content t))).
Proof.
  intros Hn Ha Hf Har Hp. unfold expand_call. rewrite Hn, Ha, Hf.
  rewrite (proj2 (Nat.eqb_eq _ _) Har). cbn [negb].
  assert (E : map concat_pass (map (subst (t_vars t) (skipn 2 l)) (t_content t)) = map (subst (t_vars t) (skipn 2 l)) (t_content t)).
  { induction Hp as [|x r Hx Hr IH]; [reflexivity|]. cbn [map]. rewrite plain_concat by assumption. rewrite IH. reflexivity. }
  rewrite E. cbn [eval_conds_fix]. rewrite (plain_eval_conds _ Hp). reflexivity.
Qed.

Lemma subst_nil args : forall e, subst [] args e = e.
Proof.
  induction e as [t sp|l sp IHl] using sexpr_ind'; [reflexivity|]. cbn [subst]. f_equal.
  induction l as [|x r IHr]; [reflexivity|]. inversion IHl; subst. cbn [map]. f_equal; auto.
Qed.
Lemma map_subst_nil args l : map (subst [] args) l = l.
Proof. induction l as [|x r IH]; [reflexivity|]. cbn [map]. rewrite subst_nil, IH. reflexivity. Qed.

(* a parameterless template used at a place behaves exactly as its content written at that place *)
Theorem template_inline ts t hd sp sp1 sp2 pre post f :
  find_template ts (t_name t) = Some t -> t_vars t = [] ->
  (hd = A_expand \/ hd = A_expand_short) ->
  Forall plain (t_content t) -> Forall quiet (t_content t) -> Forall quiet pre -> Forall quiet post ->
  (depths (pre ++ t_content t ++ post) <= f)%nat ->
  expand (S (S f)) ts (pre ++ [SList [Atom hd sp1; Atom (t_name t) sp2] sp] ++ post)
  = expand (S f) ts (pre ++ t_content t ++ post)
  /\ expand (S f) ts (pre ++ t_content t ++ post) = Ok (inr (pre ++ t_content t ++ post)).
Proof.
  intros Hf Hv Hhd Hpl Hq Hpre Hpost Hd.
  assert (Hall : Forall quiet (pre ++ t_content t ++ post)) by (repeat (apply Forall_app; split); assumption).
  destruct (quiet_expand ts f _ Hall Hd) as [He _]. split; [|exact He].
  assert (Dpre : (depths pre <= f)%nat /\ (depths post <= f)%nat).
  { clear -Hd. induction pre as [|x r IH]; cbn [app depths] in *.
    - split; [lia|]. induction (t_content t) as [|y c IHc]; cbn [app depths] in *; [exact Hd|apply IHc; lia].
    - destruct (IH ltac:(lia)). split; lia. }
  destruct Dpre as [D1 D2].
  destruct (quiet_expand ts (S f) pre Hpre ltac:(lia)) as [_ P1].
  destruct (quiet_expand ts (S f) post Hpost ltac:(lia)) as [_ P2].
  assert (Hcall : expand_call (S f) ts [Atom hd sp1; Atom (t_name t) sp2] = Ok (inr (t_content t))).
  { rewrite (call_is_substituted_content f ts _ (Atom (t_name t) sp2) t); try reflexivity; try assumption.
    - rewrite Hv, map_subst_nil. reflexivity.
    - rewrite Hv. reflexivity.
    - rewrite Hv, map_subst_nil. exact Hpl. }
  assert (Pc : pass_ (S f) ts [SList [Atom hd sp1; Atom (t_name t) sp2] sp] = Ok (inr (t_content t, true))).
  { cbn [pass_]. assert (Hh : is_expand_head [Atom hd sp1; Atom (t_name t) sp2] = true).
    { unfold is_expand_head. cbn [head_is]. destruct Hhd as [->| ->]; rewrite bytes_eqb_refl; [reflexivity|apply orb_true_r]. }
    rewrite Hh, Hcall. cbn [bind]. rewrite app_nil_r. reflexivity. }
  rewrite expand_S.
  rewrite (pass_app (S f) ts pre _ (pre, false) (t_content t ++ post, true) P1).
  - cbn [bind fst snd orb]. reflexivity.
  - rewrite (pass_app (S f) ts _ post (t_content t, true) (post, false) Pc P2). reflexivity.
Qed.

(* the general form: a call with arguments behaves exactly as the content with the parameters replaced, written at
   that place *)
Theorem template_call_is_inlining ts t hd sp sp1 sp2 args pre post f :
  find_template ts (t_name t) = Some t -> length args = length (t_vars t) ->
  (hd = A_expand \/ hd = A_expand_short) ->
  let body := map (subst (t_vars t) args) (t_content t) in
  Forall plain body -> Forall quiet body -> Forall quiet pre -> Forall quiet post ->
  (depths (pre ++ body ++ post) <= f)%nat ->
  expand (S (S f)) ts (pre ++ [SList (Atom hd sp1 :: Atom (t_name t) sp2 :: args) sp] ++ post)
  = expand (S f) ts (pre ++ body ++ post)
  /\ expand (S f) ts (pre ++ body ++ post) = Ok (inr (pre ++ body ++ post)).
Proof.
  intros Hf Hlen Hhd body Hpl Hq Hpre Hpost Hd.
  assert (Hall : Forall quiet (pre ++ body ++ post)) by (repeat (apply Forall_app; split); assumption).
  destruct (quiet_expand ts f _ Hall Hd) as [He _]. split; [|exact He].
  assert (Dpre : (depths pre <= f)%nat /\ (depths post <= f)%nat).
  { clear -Hd. induction pre as [|x r IH]; cbn [app depths] in *.
    - split; [lia|]. induction body as [|y c IHc]; cbn [app depths] in *; [exact Hd|apply IHc; lia].
    - destruct (IH ltac:(lia)). split; lia. }
  destruct Dpre as [D1 D2].
  destruct (quiet_expand ts (S f) pre Hpre ltac:(lia)) as [_ P1].
  destruct (quiet_expand ts (S f) post Hpost ltac:(lia)) as [_ P2].
  assert (Hcall : expand_call (S f) ts (Atom hd sp1 :: Atom (t_name t) sp2 :: args) = Ok (inr body)).
  { unfold body. change args with (skipn 2 (Atom hd sp1 :: Atom (t_name t) sp2 :: args)) at 2.
    apply (call_is_substituted_content f ts _ (Atom (t_name t) sp2) t); try reflexivity; try assumption.
    cbn [length]. lia. }
  assert (Pc : pass_ (S f) ts [SList (Atom hd sp1 :: Atom (t_name t) sp2 :: args) sp] = Ok (inr (body, true))).
  { cbn [pass_]. assert (Hh : is_expand_head (Atom hd sp1 :: Atom (t_name t) sp2 :: args) = true).
    { unfold is_expand_head. cbn [head_is]. destruct Hhd as [->| ->]; rewrite bytes_eqb_refl; [reflexivity|apply orb_true_r]. }
    rewrite Hh, Hcall. cbn [bind]. rewrite app_nil_r. reflexivity. }
  rewrite expand_S.
  rewrite (pass_app (S f) ts pre _ (pre, false) (body ++ post, true) P1).
  - cbn [bind fst snd orb]. reflexivity.
  - rewrite (pass_app (S f) ts _ post (body, true) (post, false) Pc P2). reflexivity.
Qed.

(* non-vacuity: a concrete parameterised template and call *)
Local Open Scope string_scope.
Example template_example :
  let a (s : string) := Atom (bytes_of_string s) (mkspan pos0 pos0 1) in
  let l xs := SList xs (mkspan pos0 pos0 1) in
  expand_templates 20
    [([a "deftemplate"; a "th"; l [a "k"; a "m"]; l [a "tap-hold"; a "200"; a "200"; a "$k"; a "$m"]], mkspan pos0 pos0 1);
     ([a "deflayer"; a "base"; l [a "t!"; a "th"; a "a"; a "lctl"]], mkspan pos0 pos0 1)]
  = Ok (inr
    [([a "deftemplate"; a "th"; l [a "k"; a "m"]; l [a "tap-hold"; a "200"; a "200"; a "$k"; a "$m"]], mkspan pos0 pos0 1);
     ([a "deflayer"; a "base"; l [a "tap-hold"; a "200"; a "200"; a "a"; a "lctl"]], mkspan pos0 pos0 1)]).
Proof. vm_compute. reflexivity. Qed.
