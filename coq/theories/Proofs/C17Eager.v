(* C17, the eager form: the count belongs to the key.  A press of a tap-dance-eager key starts a new count (first action, one tap
   counted) unless an eager count of that very position is still there - whatever other position, with whatever list, the old
   count belonged to. *)
From Coq Require Import Lia.
From KV Require Import Keyberon.Layout Proofs.LayoutBasics Proofs.C06Combine.

Definition fresh_dance (acs : list action) (T : N) (c : coord) : tde_state :=
  {| tde_coord := c; tde_actions := acs; tde_timeout := T; tde_orig_timeout := T; tde_num_taps := 1 |}.

Theorem eager_press_elsewhere_starts_over cfg rec l a0 rest T c d os ls :
  (match tap_dance_eager l with None => True | Some t => tde_coord t <> c end) ->
  do_action_body cfg rec l (TapDance (a0 :: rest) T true) c d os ls =
  ('(l', _) <- doact rec (set_tap_dance_eager (Some (fresh_dance (a0 :: rest) T c)) (lpt_update_coord c (before_action l c))) a0 c d false ls ;;
   Ok (l', CNone)).
Proof.
  intros H. unfold do_action_body. cbn [bind]. fold (before_action l c). cbn [negb].
  assert (E : tap_dance_eager (lpt_update_coord c (before_action l c)) = tap_dance_eager l).
  { unfold before_action, lpt_update_coord. destruct (coord_eqb (lpt_coord l) c); destruct (fst c =? 0); reflexivity. }
  rewrite E. unfold fresh_dance. destruct (tap_dance_eager l) as [t|]; [|reflexivity].
  destruct (coord_eqb (tde_coord t) c) eqn:Ec; [|reflexivity].
  exfalso. apply H. unfold coord_eqb in Ec. apply andb_prop in Ec. destruct Ec as [E1 E2].
  apply N.eqb_eq in E1. apply N.eqb_eq in E2. destruct (tde_coord t), c. cbn in *. subst. reflexivity.
Qed.

Theorem eager_press_same_position_keeps_count cfg rec l a0 rest T c d os ls t :
  tap_dance_eager l = Some t -> tde_coord t = c ->
  do_action_body cfg rec l (TapDance (a0 :: rest) T true) c d os ls =
  ('(l', _) <- doact rec (lpt_update_coord c (before_action l c)) a0 c d false ls ;; Ok (l', CNone)).
Proof.
  intros Ht Hc. unfold do_action_body. cbn [bind]. fold (before_action l c). cbn [negb].
  assert (E : tap_dance_eager (lpt_update_coord c (before_action l c)) = tap_dance_eager l).
  { unfold before_action, lpt_update_coord. destruct (coord_eqb (lpt_coord l) c); destruct (fst c =? 0); reflexivity. }
  rewrite E, Ht, Hc.
  assert (Er : coord_eqb c c = true) by (unfold coord_eqb; rewrite !N.eqb_refl; reflexivity).
  rewrite Er. reflexivity.
Qed.
