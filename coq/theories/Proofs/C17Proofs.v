(* C17: tap-dance counting and eviction (WaitingState::handle_tap_dance). *)
From Coq Require Import Lia.
From KV Require Import Keyberon.Layout Proofs.LayoutBasics.

Definition own_press (c : coord) (x : queued) : bool := q_is_press_at c x.
Definition other_press (c : coord) (x : queued) : bool := q_press x && negb (coord_eqb (q_coord x) c).

Definition count_own (c : coord) (q : list queued) : N := N.of_nat (length (filter (own_press c) q)).

Lemma own_other_excl c x : own_press c x = true -> other_press c x = false.
Proof.
  unfold own_press, other_press, q_is_press_at. intros H. apply andb_prop in H. destruct H as [-> H]. rewrite H. reflexivity.
Qed.

(* the count: 1 (the initial press) + own presses queued before the first press of another key *)
Lemma td_count_no_other c acc q :
  Forall (fun x => other_press c x = false) q -> td_count c acc q = inl (acc + count_own c q).
Proof.
  revert acc. induction q as [|x t IH]; intros acc H; cbn [td_count].
  - unfold count_own. cbn. f_equal. lia.
  - inversion H as [|? ? Hx Ht]; subst. unfold count_own in *. cbn [filter].
    destruct (own_press c x) eqn:Eo.
    + unfold own_press in Eo. rewrite Eo. rewrite IH by exact Ht. cbn [length]. f_equal. lia.
    + unfold own_press in Eo. rewrite Eo.
      assert (Hp : q_press x = false).
      { unfold other_press in Hx. unfold q_is_press_at in Eo. destruct (q_press x); [|reflexivity].
        cbn in *. destruct (coord_eqb (q_coord x) c); discriminate. }
      rewrite Hp. apply IH. exact Ht.
Qed.

Lemma td_count_interrupted c acc pre x post :
  Forall (fun y => other_press c y = false) pre -> other_press c x = true ->
  td_count c acc (pre ++ x :: post) = inr (acc + count_own c pre).
Proof.
  revert acc. induction pre as [|y t IH]; intros acc Hpre Hx; cbn [app td_count].
  - unfold other_press in Hx. apply andb_prop in Hx. destruct Hx as [Hp Hc].
    unfold q_is_press_at. rewrite Hp. apply negb_true_iff in Hc. rewrite Hc. cbn [andb].
    unfold count_own. cbn. f_equal. lia.
  - inversion Hpre as [|? ? Hy Ht]; subst. unfold count_own in *. cbn [filter].
    destruct (own_press c y) eqn:Eo.
    + unfold own_press in Eo. rewrite Eo. rewrite IH by assumption. cbn [length]. f_equal. lia.
    + unfold own_press in Eo. rewrite Eo.
      assert (Hp : q_press y = false).
      { unfold other_press in Hy. unfold q_is_press_at in Eo. destruct (q_press y); [|reflexivity].
        cbn in *. destruct (coord_eqb (q_coord y) c); discriminate. }
      rewrite Hp. apply IH; assumption.
Qed.

(* outcomes of handle_tap_dance, slow path *)
Lemma td_timeout w nt max q :
  (qlen q =? w_prev_queue_len w) && (0 <? w_timeout w) = false -> w_timeout w = 0 ->
  handle_tap_dance w nt max q = (Some WATap, nt, td_evict (w_coord w) (sat_sub nt 1) q).
Proof. intros Hs Ht. unfold handle_tap_dance. rewrite Hs, Ht. reflexivity. Qed.

Lemma td_other_key w nt max q n :
  (qlen q =? w_prev_queue_len w) && (0 <? w_timeout w) = false -> w_timeout w <> 0 ->
  td_count (w_coord w) 1 q = inr n ->
  handle_tap_dance w nt max q = (Some WATap, n, td_evict (w_coord w) (sat_sub n 1) q).
Proof.
  intros Hs Ht Hc. unfold handle_tap_dance. rewrite Hs.
  destruct (N.eqb_spec (w_timeout w) 0); [contradiction|]. rewrite Hc. reflexivity.
Qed.

Lemma td_exhausted w nt max q n :
  (qlen q =? w_prev_queue_len w) && (0 <? w_timeout w) = false -> w_timeout w <> 0 ->
  td_count (w_coord w) 1 q = inl n -> N.of_nat max <= n ->
  handle_tap_dance w nt max q = (Some WATap, n, td_evict (w_coord w) (sat_sub n 1) q).
Proof.
  intros Hs Ht Hc Hm. unfold handle_tap_dance. rewrite Hs.
  destruct (N.eqb_spec (w_timeout w) 0); [contradiction|]. rewrite Hc.
  apply N.leb_le in Hm. rewrite Hm. reflexivity.
Qed.

Lemma td_continues w nt max q n :
  w_timeout w <> 0 -> td_count (w_coord w) 1 q = inl n -> n < N.of_nat max ->
  fst (fst (handle_tap_dance w nt max q)) = None.
Proof.
  intros Ht Hc Hm. unfold handle_tap_dance.
  destruct ((qlen q =? w_prev_queue_len w) && (0 <? w_timeout w)); [reflexivity|].
  destruct (N.eqb_spec (w_timeout w) 0); [contradiction|]. rewrite Hc.
  destruct (N.leb_spec (N.of_nat max) n); [lia|reflexivity].
Qed.

(* eviction: other keys' events are untouched and keep their order; every own press is removed *)
Definition not_own (c : coord) (x : queued) : bool := negb (coord_eqb (q_coord x) c).

Lemma td_evict_keeps_others c r q : filter (not_own c) (td_evict c r q) = filter (not_own c) q.
Proof.
  revert r. induction q as [|x t IH]; intros r; [reflexivity|]. cbn [td_evict].
  unfold q_is_release_at, q_is_press_at, not_own in *.
  destruct (coord_eqb (q_coord x) c) eqn:Ec; destruct (q_press x) eqn:Ep; cbn [negb andb].
  - cbn [filter]. rewrite Ec. cbn [negb]. apply IH.
  - destruct (0 <? r); cbn [filter]; rewrite ?Ec; cbn [negb]; apply IH.
  - cbn [filter]. rewrite Ec. cbn [negb]. f_equal. apply IH.
  - cbn [filter]. rewrite Ec. cbn [negb]. f_equal. apply IH.
Qed.

Lemma td_evict_no_own_press c r q : existsb (q_is_press_at c) (td_evict c r q) = false.
Proof.
  revert r. induction q as [|x t IH]; intros r; [reflexivity|]. cbn [td_evict].
  destruct (q_is_release_at c x) eqn:Er.
  - destruct (0 <? r); [apply IH|]. cbn [existsb]. rewrite IH.
    unfold q_is_release_at, q_is_press_at in *. destruct (q_press x); cbn in *; [discriminate|reflexivity].
  - destruct (q_is_press_at c x) eqn:Ep; [apply IH|]. cbn [existsb]. rewrite Ep, IH. reflexivity.
Qed.

(* the chosen action: min(count, list length) - 1 *)
Lemma tick_wt_tapdance_choice w acs tdt nt q aq :
  w_cfg w = WTapDance acs tdt nt ->
  let w1 := set_w_ticks (sat_add16 (w_ticks w) 1) (set_w_timeout (sat_sub (w_timeout w) 1) w) in
  forall r n q', handle_tap_dance w1 nt (length acs) q = (Some r, n, q') ->
  forall a, nth_error acs (N.to_nat (sat_sub (N.min n (N.of_nat (length acs))) 1)) = Some a ->
  exists w', tick_wt w q aq = Ok (w', q', aq, Some (r, None)) /\ w_tap w' = a.
Proof.
  intros Hc w1 r n q' Hh a Ha. unfold tick_wt. fold w1.
  assert (Hc1 : w_cfg w1 = WTapDance acs tdt nt) by exact Hc.
  rewrite Hc1, Hh, Ha. cbn [bind option_map].
  eexists. split; [reflexivity|].
  destruct (nt <? n); reflexivity.
Qed.
