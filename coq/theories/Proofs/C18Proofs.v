(* C18: virtual keys (handle_fakekey_action, hold-for-duration deadlines, on-idle). *)
From Coq Require Import Lia.
From KV Require Import Kanata.Glue Proofs.LayoutBasics.

(* press / release / tap are exactly the corresponding layout events, whoever triggers them *)
Lemma fakekey_press cfg l c : fakekey_action cfg l 0 c = lay_event cfg l true c.
Proof. reflexivity. Qed.
Lemma fakekey_release cfg l c : fakekey_action cfg l 1 c = lay_event cfg l false c.
Proof. reflexivity. Qed.
Lemma fakekey_tap cfg l c :
  fakekey_action cfg l 2 c = (l1 <- lay_event cfg l true c ;; lay_event cfg l1 false c).
Proof. reflexivity. Qed.

(* toggle alternates: it releases iff something is held at the virtual key's coordinate *)
Lemma fakekey_toggle cfg l c :
  fakekey_action cfg l 3 c = lay_event cfg l (negb (states_has_coord l c)) c.
Proof. unfold fakekey_action. cbn. destruct (states_has_coord l c); reflexivity. Qed.

(* ---- hold-for-duration ---- *)
Lemma held_tick_waits cfg l c d :
  1 < d -> held_vkeys_tick cfg l [(c, d)] = Ok (l, [(c, d - 1)]).
Proof.
  intros H. cbn [held_vkeys_tick]. unfold sat_sub.
  destruct (N.eqb_spec (d - 1) 0); [lia|]. reflexivity.
Qed.
Lemma held_tick_releases cfg l c d :
  d <= 1 -> held_vkeys_tick cfg l [(c, d)] = (l' <- lay_event cfg l false c ;; Ok (l', [])).
Proof.
  intros H. cbn [held_vkeys_tick]. unfold sat_sub.
  destruct (N.eqb_spec (d - 1) 0); [|lia].
  destruct (lay_event cfg l false c); reflexivity.
Qed.

(* iterating the deadline: for every duration D = n+1 the key stays pending for n ticks, the
   release is issued by tick D *)
Fixpoint deadline_after (n : nat) (d : N) : N := match n with O => d | S k => deadline_after k (d - 1) end.
Lemma deadline_after_val n d : deadline_after n d = d - N.of_nat n.
Proof. revert d. induction n as [|n IH]; intros d; cbn [deadline_after]; [lia|]. rewrite IH. lia. Qed.

Theorem hold_for_duration_exact cfg l c (n : nat) :
  (forall k, (k < n)%nat ->
     held_vkeys_tick cfg l [(c, N.of_nat (S n) - N.of_nat k)] = Ok (l, [(c, N.of_nat (S n) - N.of_nat k - 1)])) /\
  held_vkeys_tick cfg l [(c, N.of_nat (S n) - N.of_nat n)] = (l' <- lay_event cfg l false c ;; Ok (l', [])).
Proof.
  split.
  - intros k Hk. apply held_tick_waits. lia.
  - apply held_tick_releases. lia.
Qed.

(* re-activation re-arms the deadline to the new duration and does not press again *)
Lemma hold_for_rearms cfg k l cur x y dur rest pb out :
  vk_find (x, y) (k_vkeys_pending k) = true ->
  custom_press cfg k l cur (CaFakeKeyHoldFor x y dur :: rest) pb out =
    custom_press cfg
      (set_k_vkeys_pending (map (fun p => if coord_eqb (fst p) (x, y) then (fst p, dur) else p) (k_vkeys_pending k)) k)
      l cur rest pb out.
Proof. intros H. cbn [custom_press]. rewrite H. reflexivity. Qed.

Lemma hold_for_first_activation_presses cfg k l cur x y dur rest pb out :
  vk_find (x, y) (k_vkeys_pending k) = false ->
  custom_press cfg k l cur (CaFakeKeyHoldFor x y dur :: rest) pb out =
    (l' <- lay_event cfg l true (x, y) ;;
     custom_press cfg (set_k_vkeys_pending (k_vkeys_pending k ++ [((x, y), dur)]) k) l' cur rest pb out).
Proof. intros H. cbn [custom_press]. rewrite H. reflexivity. Qed.

(* ---- on-idle: fires once the idle time has been reached, not before, and only once ---- *)
Lemma idle_not_before cfg l tsi x y op idle :
  tsi < idle -> idle_fire cfg l tsi [(x, y, op, idle)] = Ok (l, [(x, y, op, idle)]).
Proof. intros H. cbn [idle_fire]. destruct (N.leb_spec idle tsi); [lia|]. reflexivity. Qed.
Lemma idle_fires_once cfg l tsi x y op idle :
  idle <= tsi -> idle_fire cfg l tsi [(x, y, op, idle)] = (l' <- fakekey_action cfg l op (x, y) ;; Ok (l', [])).
Proof.
  intros H. cbn [idle_fire]. destruct (N.leb_spec idle tsi); [|lia].
  destruct (fakekey_action cfg l op (x, y)); reflexivity.
Qed.

(* ---- the idle time that on-idle entries wait for: can_block_update_idle_waiting(ms) of every loop iteration ---- *)
Definition counting (k : kstate) : bool :=
  negb (match k_waiting_for_idle k with [] => true | _ => false end) || k_live_reload_requested k.

(* an iteration in which kanata is not idle restarts the idle time *)
Lemma idle_time_restarts cfg k ms :
  k_is_idle_cfg cfg k = false -> fst (k_can_block cfg k ms) = set_k_ticks_since_idle 0 k.
Proof. intros H. unfold k_can_block. rewrite H. reflexivity. Qed.

(* an idle iteration of ms milliseconds, with an entry waiting, adds ms (saturating): whatever the length of the iteration *)
Lemma idle_time_accumulates cfg k ms :
  k_is_idle_cfg cfg k = true -> counting k = true ->
  fst (k_can_block cfg k ms) = set_k_ticks_since_idle (sat_add16 (k_ticks_since_idle k) ms) k /\
  snd (k_can_block cfg k ms) = false.
Proof.
  intros H Hc. unfold k_can_block. rewrite H. unfold counting in Hc. cbn [negb]. rewrite Hc. cbn [fst snd negb andb].
  split; reflexivity.
Qed.
