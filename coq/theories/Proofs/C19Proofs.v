(* C19: dynamic macro recording and replay (src/kanata/dynamic_macro.rs). *)
From Coq Require Import Lia.
From KV Require Import Kanata.DynMacro Proofs.LayoutBasics.

(* ---- recording: one-event lag, the saved macro is what was typed minus the last event ---- *)
Inductive typed := TPress (k : N) | TRelease (k : N).
(* an event with the number of ticks that passed before the NEXT event (its recorded delay) *)
Definition record_one (s : dm_record) (e : typed * N) : dm_record :=
  let s1 := match fst e with TPress k => dr_add_event s k true | TRelease k => dr_add_event s k false end in
  {| dr_id := dr_id s1; dr_waiting := dr_waiting s1; dr_items := dr_items s1; dr_delay := snd e |}.
Definition item_of (e : typed * N) : dm_item :=
  match fst e with TPress k => DMPress k (snd e) | TRelease k => DMRelease k (snd e) end.

Lemma record_flush evs : forall s, dr_waiting s = None ->
  flush_waiting (fold_left record_one evs s) = dr_items s ++ map item_of evs.
Proof.
  assert (G : forall evs s, flush_waiting (fold_left record_one evs s) = flush_waiting s ++ map item_of evs).
  { induction evs0 as [|e t IH]; intros s; cbn [fold_left map]; [rewrite app_nil_r; reflexivity|].
    rewrite IH. unfold record_one at 1.
    destruct e as [[k|k] d]; cbn [fst snd]; unfold flush_waiting at 1; cbn [dr_waiting dr_items dr_delay dr_add_event];
      rewrite <- app_assoc; reflexivity. }
  intros s Hs. rewrite G. unfold flush_waiting at 1. rewrite Hs. reflexivity.
Qed.

(* stop with truncation n: the saved macro is the typed events minus the last one (the stop key's
   press), minus n more, plus releases for whatever is still down *)
Theorem stop_saves_typed_minus_stop_key evs id n :
  stop_macro (Some (fold_left record_one evs (dr_new id))) n =
    Ok (None, Some (id, add_releases (firstn (length (removelast (map item_of evs)) - N.to_nat n)
                                              (removelast (map item_of evs))))).
Proof.
  unfold stop_macro, drop_last. cbn [bind].
  rewrite record_flush by reflexivity. cbn [dr_new dr_items app].
  assert (Hid : forall evs s, dr_id (fold_left record_one evs s) = dr_id s).
  { induction evs0 as [|e t IH]; intros s; [reflexivity|]. cbn [fold_left]. rewrite IH.
    destruct e as [[k|k] d]; reflexivity. }
  rewrite Hid. reflexivity.
Qed.

(* ---- any key still down when recording stopped is released at the end of the macro ---- *)
Definition unrel_step (acc : list N) (it : dm_item) : list N :=
  match it with
  | DMPress k _ => if mem_n k acc then acc else acc ++ [k]
  | DMRelease k _ => filter (fun x => negb (x =? k)) acc
  | DMEnd _ => acc
  end.
Lemma unreleased_fold items : unreleased items = fold_left unrel_step items [].
Proof. reflexivity. Qed.

Lemma release_all U : forall acc, (forall x, In x acc -> In x U) ->
  fold_left unrel_step (map (fun k => DMRelease k 0) U) acc = [].
Proof.
  induction U as [|k t IH]; intros acc H; cbn [map fold_left].
  - destruct acc as [|x r]; [reflexivity|]. exfalso. exact (H x (or_introl eq_refl)).
  - apply IH. intros x Hx. cbn [unrel_step] in Hx. apply filter_In in Hx. destruct Hx as [Hin Hne].
    destruct (H x Hin) as [<-|Ht]; [|exact Ht].
    rewrite N.eqb_refl in Hne. discriminate.
Qed.

Theorem nothing_left_down items : unreleased (add_releases items) = [].
Proof.
  unfold add_releases. rewrite unreleased_fold, fold_left_app, <- unreleased_fold.
  apply release_all. auto.
Qed.

(* ---- a macro never replays itself recursively ---- *)
Theorem no_self_recursion id st ms : mem_n id (dp_active st) = true -> play_macro id (Some st) ms = Some st.
Proof. intros H. unfold play_macro. rewrite H. reflexivity. Qed.

Theorem nested_play_marks_active id st ms items :
  mem_n id (dp_active st) = false -> dm_lookup id ms = Some items ->
  play_macro id (Some st) ms =
    Some {| dp_active := id :: dp_active st; dp_delay_remaining := dp_delay_remaining st;
            dp_items := items ++ DMEnd id :: dp_items st |}.
Proof. intros H1 H2. unfold play_macro. rewrite H1, H2. reflexivity. Qed.

(* ---- recording stops by itself at the configured size limit ---- *)
Theorem recording_limit s k max :
  max * 2 < N.of_nat (length (dr_items s)) ->
  record_press (Some s) k max = (None, Some (dr_id s, add_releases (dr_items s))).
Proof. intros H. unfold record_press. apply N.ltb_lt in H. rewrite H. reflexivity. Qed.

(* ---- replay feeds the recorded events in order, one per pacing period ---- *)
Definition ev_of (it : dm_item) : option (bool * N) :=
  match it with DMPress k _ => Some (true, k) | DMRelease k _ => Some (false, k) | DMEnd _ => None end.

Theorem replay_pops_in_order st recorded it rest :
  dp_delay_remaining st <= 1 -> dp_items st = it :: rest ->
  exists st' ev, tick_replay (Some st) recorded = (Some st', ev) /\ dp_items st' = rest /\
                 option_map (fun e => (fst (fst e), snd (fst e))) ev = ev_of it.
Proof.
  intros Hd Hi. unfold tick_replay. unfold sat_sub.
  destruct (N.eqb_spec (dp_delay_remaining st - 1) 0) as [_|Hne]; [|lia].
  rewrite Hi. destruct it; eexists; eexists; (split; [reflexivity|]); cbn; split; reflexivity.
Qed.

Theorem replay_waits st recorded :
  1 < dp_delay_remaining st ->
  tick_replay (Some st) recorded =
    (Some {| dp_active := dp_active st; dp_delay_remaining := dp_delay_remaining st - 1; dp_items := dp_items st |}, None).
Proof.
  intros Hd. unfold tick_replay, sat_sub.
  destruct (N.eqb_spec (dp_delay_remaining st - 1) 0) as [He|_]; [lia|]. reflexivity.
Qed.

Theorem replay_finishes st recorded :
  dp_delay_remaining st <= 1 -> dp_items st = [] -> tick_replay (Some st) recorded = (None, None).
Proof.
  intros Hd Hi. unfold tick_replay, sat_sub.
  destruct (N.eqb_spec (dp_delay_remaining st - 1) 0) as [_|Hne]; [|lia]. rewrite Hi. reflexivity.
Qed.

